//! Context harness (kind R, second binary): a JSON-line server that creates real `I18nContext`s natively
//! (`ssr` build, injected cookie / Accept-Language getters) and drives them with operation sequences.
//!
//! ops: `locales`, `parse_tags` (ICU oracle), `resolve` (C15), `ops` (C16), `effects_selftest` (C16).
//!
//! `ops` steps `sub_wired` / `wire_set` (a sub-context whose `initial_locale` is a caller-owned `RwSignal`, and a write to
//! that signal) exist in the `effects` build only: the `RenderEffect` that forwards the signal into the sub-context is
//! inert under plain `ssr`; the plain build answers `bad_op` to a sequence that contains them.
//!
//! Two builds: plain (`ssr` only: `Effect::new` / `RenderEffect::new` are inert, only `Effect::new_isomorphic` runs) and
//! `--features effects` (reactive_graph's `effects`: effects run natively on the deterministic executor of `exec.rs`, as
//! they do in the browser with `csr` / `hydrate`), each in its own target dir.
#![allow(dead_code, unused_imports, non_camel_case_types, non_snake_case)]
use leptos::prelude::*;
use leptos_i18n::context::{
    init_i18n_context_with_options, init_i18n_subcontext_with_options, CookieOptions, I18nContextOptions,
    UseLocalesOptions,
};
use leptos_i18n::{ConstScope, I18nContext, Locale as LocaleTrait, Scope};
use serde_json::{json, Value};
use std::borrow::Cow;
use std::io::{BufRead, Write};
use std::str::FromStr;
use std::sync::{Arc, Mutex};

mod exec;

mod loc {
    leptos_i18n::declare_locales! {
        path: leptos_i18n,
        default: "en",
        locales: ["en", "en-US", "fr", "fr-CA", "de"],
        en: { hello: "hello_en", sub: { inner: "inner_en", deep: { leaf: "leaf_en" } } },
        en_US: { hello: "hello_en-US", sub: { inner: "inner_en-US", deep: { leaf: "leaf_en-US" } } },
        fr: { hello: "hello_fr", sub: { inner: "inner_fr", deep: { leaf: "leaf_fr" } } },
        fr_CA: { hello: "hello_fr-CA", sub: { inner: "inner_fr-CA", deep: { leaf: "leaf_fr-CA" } } },
        de: { hello: "hello_de", sub: { inner: "inner_de", deep: { leaf: "leaf_de" } } },
    }
}
use leptos_i18n::{scope_i18n, t, t_display, t_string, td_string, tu_string};
use loc::i18n::*;

type RootKeys = <Locale as LocaleTrait>::Keys;

fn langid_json(l: &icu_locid::LanguageIdentifier) -> Value {
    json!({
        "l": if l.language.is_empty() { Value::Null } else { json!(l.language.as_str()) },
        "s": l.script.map(|s| s.as_str().to_string()),
        "r": l.region.map(|s| s.as_str().to_string()),
        "v": l.variants.iter().map(|v| v.as_str().to_string()).collect::<Vec<_>>(),
    })
}

fn locales() -> Value {
    json!({
        "default": Locale::default().as_str(),
        // whether leptos_i18n was built with its `cookie` feature (this crate's feature of the same name switches it)
        "feature_cookie": cfg!(feature = "cookie"),
        "locales": Locale::get_all().iter().map(|l| json!({"name": l.as_str(), "langid": langid_json(l.as_langid()),
            // what the closure kind "t_format" shows when the context is on this locale
            "fmt_number": leptos_i18n::formatting::td_format_string!(*l, 1234567.5f64, formatter: number).to_string()})).collect::<Vec<_>>(),
    })
}

/// ICU4X `LanguageIdentifier::try_from_bytes` on each tag, exactly as given (the oracle of the models)
fn parse_tags(req: &Value) -> Value {
    let tags = req["tags"].as_array().expect("tags");
    json!({"parsed": tags.iter().map(|t| {
        let s = t.as_str().expect("tag");
        icu_locid::LanguageIdentifier::try_from_bytes(s.as_bytes()).ok().map(|l| langid_json(&l))
    }).collect::<Vec<_>>()})
}

fn opt_str(v: &Value, k: &str) -> Option<String> {
    match v.get(k) {
        None | Some(Value::Null) => None,
        Some(Value::String(s)) => Some(s.clone()),
        Some(o) => panic!("field {k}: expected string or null, got {o}"),
    }
}

fn req_bool(v: &Value, k: &str) -> bool {
    v.get(k).and_then(|b| b.as_bool()).unwrap_or_else(|| panic!("field {k}: expected bool"))
}

fn locale_of(s: &str) -> Locale {
    *Locale::get_all().iter().find(|l| l.as_str() == s).unwrap_or_else(|| panic!("unknown locale {s}"))
}

fn lang_opts(h: Option<String>) -> UseLocalesOptions {
    UseLocalesOptions::default().ssr_lang_header_getter(move || h.clone())
}

fn cookie_opts<T>(h: Option<String>, log: Arc<Mutex<Vec<String>>>) -> leptos_use::UseCookieOptions<T, <codee::string::FromToStringCodec as codee::Encoder<T>>::Error, <codee::string::FromToStringCodec as codee::Decoder<T>>::Error>
where
    codee::string::FromToStringCodec: codee::Encoder<T> + codee::Decoder<T>,
{
    leptos_use::UseCookieOptions::default()
        .ssr_cookies_header_getter(move || h.clone())
        .ssr_set_cookie(move |c| {
            log.lock().unwrap().push(format!("{}={}", c.name(), c.value()));
        })
}

const DEFAULT_COOKIE: &str = "i18n_pref_locale";

/// C15: create one context (root / sub-context / `resolve_locale_with_options`) from injected request data.
fn resolve(req: &Value) -> Value {
    let kind = req["kind"].as_str().expect("kind").to_string();
    let cookie_header = opt_str(req, "cookie_header");
    let enable_cookie = req_bool(req, "enable_cookie");
    let cookie_name = opt_str(req, "cookie_name");
    let accept = opt_str(req, "accept_language");
    let parent = opt_str(req, "parent").map(|s| locale_of(&s));
    let initial = opt_str(req, "initial").map(|s| locale_of(&s));
    // kind "fn" only: a context already provided under the calling owner, currently showing this locale
    // (`resolve_locale*` is documented to depend on the request alone)
    let ambient = opt_str(req, "ambient").map(|s| locale_of(&s));
    let log: Arc<Mutex<Vec<String>>> = Default::default();

    let owner = Owner::new();
    let out = owner.with(|| {
        // oracles: what leptos-use hands to leptos_i18n for this request
        let accepted_seen: Vec<String> = leptos_use::use_locales_with_options(lang_opts(accept.clone())).get_untracked();
        let eff_name = cookie_name.clone().unwrap_or_else(|| DEFAULT_COOKIE.to_string());
        let (raw_cookie, _) = leptos_use::use_cookie_with_options::<String, codee::string::FromToStringCodec>(
            &eff_name,
            cookie_opts::<String>(cookie_header.clone(), Default::default()).readonly(true),
        );
        let cookie_seen: Option<String> = raw_cookie.get_untracked();

        let locale: Locale = match kind.as_str() {
            "root" | "fn" => {
                let mut opts = I18nContextOptions::<Locale>::default()
                    .enable_cookie(enable_cookie)
                    .cookie_options(cookie_opts::<Locale>(cookie_header.clone(), log.clone()))
                    .ssr_lang_header_getter(lang_opts(accept.clone()));
                if let Some(n) = cookie_name.clone() {
                    opts = opts.cookie_name(n);
                }
                if kind == "root" {
                    init_i18n_context_with_options(opts).get_locale_untracked()
                } else if let Some(a) = ambient {
                    let child = Owner::current().unwrap().child();
                    let r = child.with(|| {
                        let actx = init_i18n_context_with_options(
                            I18nContextOptions::<Locale>::default().enable_cookie(false).ssr_lang_header_getter(lang_opts(None)),
                        );
                        actx.set_locale(a);
                        provide_context(actx);
                        leptos_i18n::locale::resolve_locale_with_options(opts)
                    });
                    std::mem::forget(child);
                    r
                } else {
                    leptos_i18n::locale::resolve_locale_with_options(opts)
                }
            }
            // the generated `<I18nContextProvider>` component with its documented props; the children read `use_i18n()`
            "component" => {
                let set_dir = req.get("set_dir").and_then(|b| b.as_bool());
                let set_lang = req.get("set_lang").and_then(|b| b.as_bool());
                let child = Owner::current().unwrap().child();
                let r = child.with(|| {
                    let slot: Arc<Mutex<Option<Locale>>> = Default::default();
                    let slot2 = slot.clone();
                    let ck = cookie_opts::<Locale>(cookie_header.clone(), log.clone());
                    let lh = lang_opts(accept.clone());
                    let name: Cow<'static, str> = Cow::Owned(eff_name.clone());
                    macro_rules! provider {
                        ($($prop:ident = $val:expr),*) => {
                            view! {
                                <I18nContextProvider enable_cookie=enable_cookie cookie_name=name cookie_options=ck ssr_lang_header_getter=lh $($prop=$val)*>
                                    {
                                        *slot2.lock().unwrap() = Some(use_i18n().get_locale_untracked());
                                        ()
                                    }
                                </I18nContextProvider>
                            }.into_any()
                        };
                    }
                    let view = match (set_dir, set_lang) {
                        (None, None) => provider!(),
                        (Some(d), None) => provider!(set_dir_attr_on_html = d),
                        (None, Some(l)) => provider!(set_lang_attr_on_html = l),
                        (Some(d), Some(l)) => provider!(set_dir_attr_on_html = d, set_lang_attr_on_html = l),
                    };
                    let l = slot.lock().unwrap().take().expect("children of I18nContextProvider did not run");
                    std::mem::forget(view);
                    l
                });
                std::mem::forget(child);
                r
            }
            // `<I18nSubContextProvider>` components: the sub-context judged comes after a sibling provider showing another locale
            // (its parent is still the context provided above both, not the sibling)
            "sub_component" => {
                let sibling = opt_str(req, "sibling").map(|s| locale_of(&s));
                let child = Owner::current().unwrap().child();
                let r = child.with(|| {
                    if let Some(p) = parent {
                        let pctx = init_i18n_context_with_options(
                            I18nContextOptions::<Locale>::default().enable_cookie(false).ssr_lang_header_getter(lang_opts(None)),
                        );
                        pctx.set_locale(p);
                        provide_context(pctx);
                    }
                    let mut kept: Vec<AnyView> = Vec::new();
                    if let Some(sib) = sibling {
                        kept.push(view! { <I18nSubContextProvider initial_locale=Signal::stored(sib) ssr_lang_header_getter=lang_opts(None)>{()}</I18nSubContextProvider> }.into_any());
                    }
                    let slot: Arc<Mutex<Option<Locale>>> = Default::default();
                    let slot2 = slot.clone();
                    let ck = cookie_opts::<Locale>(cookie_header.clone(), log.clone());
                    let lh = lang_opts(accept.clone());
                    macro_rules! sub {
                        ($($prop:ident = $val:expr),*) => {
                            view! {
                                <I18nSubContextProvider cookie_options=ck ssr_lang_header_getter=lh $($prop=$val)*>
                                    {
                                        *slot2.lock().unwrap() = Some(use_i18n().get_locale_untracked());
                                        ()
                                    }
                                </I18nSubContextProvider>
                            }.into_any()
                        };
                    }
                    let name: Cow<'static, str> = Cow::Owned(eff_name.clone());
                    let v = match (initial, enable_cookie) {
                        (Some(i), true) => sub!(initial_locale = Signal::stored(i), cookie_name = name),
                        (Some(i), false) => sub!(initial_locale = Signal::stored(i)),
                        (None, true) => sub!(cookie_name = name),
                        (None, false) => sub!(),
                    };
                    kept.push(v);
                    let l = slot.lock().unwrap().take().expect("children of I18nSubContextProvider did not run");
                    std::mem::forget(kept);
                    l
                });
                std::mem::forget(child);
                r
            }
            "sub" => {
                let child = Owner::current().unwrap().child();
                let r = child.with(|| {
                    if let Some(p) = parent {
                        // a parent context: default options without cookie, then the locale is set explicitly
                        let pctx = init_i18n_context_with_options(
                            I18nContextOptions::<Locale>::default().enable_cookie(false).ssr_lang_header_getter(lang_opts(None)),
                        );
                        pctx.set_locale(p);
                        provide_context(pctx);
                    }
                    let sub_cookie_name: Option<Cow<str>> = if enable_cookie { Some(Cow::Owned(eff_name.clone())) } else { None };
                    let init_sig = initial.map(|l| Signal::stored(l));
                    let ctx = init_i18n_subcontext_with_options::<Locale>(
                        init_sig,
                        sub_cookie_name,
                        Some(cookie_opts::<Locale>(cookie_header.clone(), log.clone())),
                        Some(lang_opts(accept.clone())),
                    );
                    ctx.get_locale_untracked()
                });
                std::mem::forget(child);
                r
            }
            other => panic!("unknown kind {other}"),
        };
        exec::drain();
        json!({
            "locale": locale.as_str(),
            "accepted_seen": accepted_seen,
            "cookie_seen": cookie_seen,
        })
    });
    exec::drain();
    let mut out = out;
    out["set_cookie"] = json!(log.lock().unwrap().clone());
    drop(owner);
    exec::drain();
    out
}

// ------------------------------------------------------------------------------------------------ C16

struct View {
    level: u8,
    get: Box<dyn Fn() -> Locale>,
    get_untracked: Box<dyn Fn() -> Locale>,
    set: Box<dyn Fn(Locale)>,
    set_untracked: Box<dyn Fn(Locale)>,
    /// the un-scoped context reached through the public API (`scope` to the root keys)
    base: Box<dyn Fn() -> I18nContext<Locale>>,
    scope: Box<dyn Fn() -> View>,
    mk_closure: Box<dyn Fn(&str) -> Box<dyn Fn() -> String>>,
    /// a `Memo` derived from the context: kind "locale" = `Memo::new(|_| ctx.get_locale())`,
    /// "t_string" / "td_string" = a memo over the reactive accessor; the returned closure reads the memo
    mk_memo: Box<dyn Fn(&str) -> Box<dyn Fn() -> String>>,
}

fn render<V: IntoView>(v: V) -> String {
    v.into_view().to_html()
}

macro_rules! mk_view {
    ($ctx:expr, $level:expr, $key:ident, [$($full:tt)+], $next:expr) => {{
        let ctx = $ctx;
        View {
            level: $level,
            get: Box::new(move || ctx.get_locale()),
            get_untracked: Box::new(move || ctx.get_locale_untracked()),
            set: Box::new(move |l| ctx.set_locale(l)),
            set_untracked: Box::new(move |l| ctx.set_locale_untracked(l)),
            base: Box::new(move || ctx.scope(ConstScope::<Locale, RootKeys>::new())),
            scope: Box::new(move || $next(ctx)),
            mk_closure: Box::new(move |kind: &str| -> Box<dyn Fn() -> String> {
                match kind {
                    "t" => {
                        let c = t!(ctx, $key);
                        Box::new(move || render(c.clone()))
                    }
                    "t_string" => Box::new(move || t_string!(ctx, $key).to_string()),
                    "tu_string" => Box::new(move || tu_string!(ctx, $key).to_string()),
                    "t_display" => Box::new(move || t_display!(ctx, $key).to_string()),
                    "td_string" => Box::new(move || td_string!(ctx.get_locale(), $($full)+).to_string()),
                    // the accessor is created once, here; every later call must use the locale shown *then*
                    // (0 is `one` in fr / fr-CA and `other` in en / en-US / de)
                    "t_plural" => {
                        let f = leptos_i18n::t_plural!(ctx, count = || 0, one => "one", _ => "other");
                        Box::new(move || f().to_string())
                    }
                    // `t_format!` view accessor, created once: every later call formats for the locale shown *then*
                    "t_format" => {
                        let num = move || 1234567.5f64;
                        let f = leptos_i18n::formatting::t_format!(ctx, num, formatter: number);
                        Box::new(move || render(f.clone()))
                    }
                    // a derived reactive value: must be re-evaluated after a tracked `set_locale`
                    "memo" => {
                        let m = Memo::new(move |_| t_string!(ctx, $key).to_string());
                        Box::new(move || m.get_untracked())
                    }
                    other => panic!("unknown closure kind {other}"),
                }
            }),
            mk_memo: Box::new(move |kind: &str| -> Box<dyn Fn() -> String> {
                match kind {
                    "locale" => {
                        let m = Memo::new(move |_| ctx.get_locale());
                        Box::new(move || m.get_untracked().as_str().to_string())
                    }
                    "t_string" => {
                        let m = Memo::new(move |_| t_string!(ctx, $key).to_string());
                        Box::new(move || m.get_untracked())
                    }
                    "td_string" => {
                        let m = Memo::new(move |_| td_string!(ctx.get_locale(), $($full)+).to_string());
                        Box::new(move || m.get_untracked())
                    }
                    "t_display" => {
                        let m = Memo::new(move |_| t_display!(ctx, $key).to_string());
                        Box::new(move || m.get_untracked())
                    }
                    "t_plural" => {
                        let m = Memo::new(move |_| leptos_i18n::t_plural!(ctx, count = || 0, one => "one", _ => "other")().to_string());
                        Box::new(move || m.get_untracked())
                    }
                    "t_format" => {
                        let m = Memo::new(move |_| leptos_i18n::formatting::t_format_string!(ctx, 1234567.5f64, formatter: number).to_string());
                        Box::new(move || m.get_untracked())
                    }
                    other => panic!("unknown memo kind {other}"),
                }
            }),
        }
    }};
}

fn view0(ctx: I18nContext<Locale>) -> View {
    mk_view!(ctx, 0, hello, [hello], |c: I18nContext<Locale>| view1(scope_i18n!(c, sub)))
}
type SubKeys = loc::i18n::subkeys::sk_sub::sub_subkeys;
type DeepKeys = loc::i18n::subkeys::sk_sub::subkeys::sk_deep::deep_subkeys;
fn view1(ctx: I18nContext<Locale, SubKeys>) -> View {
    mk_view!(ctx, 1, inner, [sub.inner], |c: I18nContext<Locale, SubKeys>| view2(scope_i18n!(c, deep)))
}
fn view2(ctx: I18nContext<Locale, DeepKeys>) -> View {
    // from the deepest scope, "scope" goes back to the root keys through the public `scope` API
    mk_view!(ctx, 2, leaf, [sub.deep.leaf], |c: I18nContext<Locale, DeepKeys>| view0(c.scope(ConstScope::<Locale, RootKeys>::new())))
}

/// Which known context is `x` a view of?  Identity probe through the public API only: write a distinguishable
/// locale *untracked* (no subscriber is notified), see whether a representative view of each known context reads
/// it, restore the previous value.
fn ctx_id(x: &View, views: &[View], reps: &[usize]) -> Option<usize> {
    let all = Locale::get_all();
    for (k, &r) in reps.iter().enumerate() {
        let a = (x.get_untracked)();
        let b = (views[r].get_untracked)();
        let t = *all.iter().find(|l| **l != a && **l != b).expect("three locales");
        (x.set_untracked)(t);
        let same = (views[r].get_untracked)() == t;
        (x.set_untracked)(a);
        if same {
            return Some(k);
        }
    }
    None
}

fn text_locale(s: &str) -> String {
    s.to_string()
}

/// C16: a sequence of operations over a tree of contexts; one observation per step.
fn ops(req: &Value) -> Value {
    let steps = req["steps"].as_array().expect("steps");
    let drain_each = match req.get("drain_each") {
        None => true,
        Some(Value::Bool(b)) => *b,
        Some(o) => panic!("field drain_each: expected bool, got {o}"),
    };
    if !cfg!(feature = "effects") {
        if let Some(w) = steps.iter().filter_map(|s| s["op"].as_str()).find(|o| matches!(*o, "sub_wired" | "wire_set")) {
            return json!({"bad_op": format!("step op {w} needs the effects build of ctx_h (the wire is inert under plain ssr)")});
        }
    }
    let root_owner = Owner::new();
    let mut views: Vec<View> = Vec::new();
    // the caller-owned initial-locale signals of the wired sub-contexts, in creation order (= the model's wire ids)
    let mut wires: Vec<RwSignal<Locale>> = Vec::new();
    let mut closures: Vec<Box<dyn Fn() -> String>> = Vec::new();
    let mut owners: Vec<Owner> = Vec::new();
    let mut obs: Vec<Value> = Vec::new();
    let mut memos: Vec<(Box<dyn Fn() -> String>, u8, String)> = Vec::new();
    // owners addressable by the operations (model owner ids), kept views of rendered providers
    let mut tree: Vec<Owner> = Vec::new();
    let mut kept: Vec<Box<dyn std::any::Any>> = Vec::new();
    // one representative view per context, in creation order (= the model's context numbering)
    let mut reps: Vec<usize> = Vec::new();
    let owner_at = |tree: &Vec<Owner>, s: &Value, k: &str| -> Owner {
        let i = s[k].as_u64().unwrap_or_else(|| panic!("field {k}: expected index")) as usize;
        assert!(i < tree.len(), "owner index {i} out of range");
        tree[i].clone()
    };
    let view_at = |views: &Vec<View>, s: &Value, k: &str| -> usize {
        let i = s[k].as_u64().unwrap_or_else(|| panic!("field {k}: expected index")) as usize;
        assert!(i < views.len(), "view index {i} out of range");
        i
    };
    for s in steps {
        let op = s["op"].as_str().expect("op");
        let o: Value = match op {
            "new_root" => {
                let accept = opt_str(s, "accept_language");
                let child = root_owner.with(|| Owner::current().unwrap().child());
                let ctx = child.with(|| {
                    init_i18n_context_with_options(
                        I18nContextOptions::<Locale>::default().enable_cookie(false).ssr_lang_header_getter(lang_opts(accept)),
                    )
                });
                owners.push(child);
                views.push(view0(ctx));
                reps.push(views.len() - 1);
                json!({"view": views.len() - 1})
            }
            "sub" => {
                let parent = match s.get("parent") {
                    None | Some(Value::Null) => None,
                    Some(_) => Some(view_at(&views, s, "parent")),
                };
                let initial = opt_str(s, "initial").map(|l| locale_of(&l));
                let child = root_owner.with(|| Owner::current().unwrap().child());
                let ctx = child.with(|| {
                    if let Some(p) = parent {
                        provide_context((views[p].base)());
                    }
                    init_i18n_subcontext_with_options::<Locale>(initial.map(Signal::stored), None, None, Some(lang_opts(None)))
                });
                owners.push(child);
                views.push(view0(ctx));
                reps.push(views.len() - 1);
                json!({"view": views.len() - 1})
            }
            // a sub-context with a WIRED initial locale: the caller keeps an `RwSignal` holding `locale` and hands it to
            // the public `init_i18n_subcontext_with_options(Some(signal), ..)` (what `init_i18n_subcontext(Some(signal))`
            // and `<I18nSubContextProvider initial_locale=signal>` call); created like `sub`, under any existing context
            "sub_wired" => {
                let parent = match s.get("parent") {
                    None | Some(Value::Null) => None,
                    Some(_) => Some(view_at(&views, s, "parent")),
                };
                let l = locale_of(s["locale"].as_str().expect("locale"));
                // the signal belongs to the caller: it lives in the harness' root owner, not in the sub-context's
                let w = root_owner.with(|| RwSignal::new(l));
                let child = root_owner.with(|| Owner::current().unwrap().child());
                let ctx = child.with(|| {
                    if let Some(p) = parent {
                        provide_context((views[p].base)());
                    }
                    init_i18n_subcontext_with_options::<Locale>(Some(w.into()), None, None, Some(lang_opts(None)))
                });
                owners.push(child);
                wires.push(w);
                views.push(view0(ctx));
                reps.push(views.len() - 1);
                json!({"view": views.len() - 1, "wire": wires.len() - 1})
            }
            // the caller writes the wired signal (`RwSignal::set`); nothing else happens in this turn of the event loop
            "wire_set" => {
                let i = s["wire"].as_u64().expect("wire") as usize;
                assert!(i < wires.len(), "wire index {i} out of range");
                wires[i].set(locale_of(s["locale"].as_str().expect("locale")));
                Value::Null
            }
            "make_memo" => {
                let v = view_at(&views, s, "view");
                let kind = s["kind"].as_str().expect("kind").to_string();
                let m = root_owner.with(|| (views[v].mk_memo)(&kind));
                memos.push((m, views[v].level, kind));
                json!({"memo": memos.len() - 1, "level": views[v].level})
            }
            "read_memo" => {
                let i = s["memo"].as_u64().expect("memo") as usize;
                assert!(i < memos.len(), "memo index out of range");
                let text = root_owner.with(|| (memos[i].0)());
                json!({"text": text, "kind": memos[i].2})
            }
            // `<I18nContextProvider>` rendered in a fresh top-level owner: the main context is provided in that owner
            "provide_root" => {
                let accept = opt_str(s, "accept_language");
                let o = root_owner.with(|| Owner::current().unwrap().child());
                let slot: Arc<Mutex<Option<I18nContext<Locale>>>> = Default::default();
                let slot2 = slot.clone();
                let view = o.with(|| {
                    view! {
                        <I18nContextProvider enable_cookie=false ssr_lang_header_getter=lang_opts(accept)>
                            {
                                *slot2.lock().unwrap() = Some(use_i18n());
                                ()
                            }
                        </I18nContextProvider>
                    }
                    .into_any()
                });
                kept.push(Box::new(view));
                let ctx = slot.lock().unwrap().take().expect("children of I18nContextProvider did not run");
                let nv = view0(ctx);
                let found = ctx_id(&nv, &views, &reps);
                views.push(nv);
                let cid = found.unwrap_or_else(|| {
                    reps.push(views.len() - 1);
                    reps.len() - 1
                });
                tree.push(o);
                json!({"view": views.len() - 1, "owner": tree.len() - 1, "ctx": cid})
            }
            "child_owner" => {
                let o = owner_at(&tree, s, "owner");
                let c = o.with(|| Owner::current().unwrap().child());
                tree.push(c);
                json!({"owner": tree.len() - 1})
            }
            // `<I18nSubContextProvider>` rendered inside `owner`; its children capture `use_i18n()` and their owner
            "provider" => {
                let o = owner_at(&tree, s, "owner");
                let initial = opt_str(s, "initial").map(|l| locale_of(&l));
                let slot: Arc<Mutex<Option<(I18nContext<Locale>, Owner)>>> = Default::default();
                let slot2 = slot.clone();
                let view = o.with(|| match initial {
                    Some(l) => view! {
                        <I18nSubContextProvider initial_locale=Signal::stored(l) ssr_lang_header_getter=lang_opts(None)>
                            {
                                *slot2.lock().unwrap() = Some((use_i18n(), Owner::current().expect("owner")));
                                ()
                            }
                        </I18nSubContextProvider>
                    }
                    .into_any(),
                    None => view! {
                        <I18nSubContextProvider ssr_lang_header_getter=lang_opts(None)>
                            {
                                *slot2.lock().unwrap() = Some((use_i18n(), Owner::current().expect("owner")));
                                ()
                            }
                        </I18nSubContextProvider>
                    }
                    .into_any(),
                });
                kept.push(Box::new(view));
                let (ctx, co) = slot.lock().unwrap().take().expect("children of I18nSubContextProvider did not run");
                let nv = view0(ctx);
                let found = ctx_id(&nv, &views, &reps);
                views.push(nv);
                let cid = found.unwrap_or_else(|| {
                    reps.push(views.len() - 1);
                    reps.len() - 1
                });
                tree.push(co);
                json!({"view": views.len() - 1, "owner": tree.len() - 1, "ctx": cid})
            }
            // what `use_i18n()` finds when called in `owner` now
            "use_ctx" => {
                let o = owner_at(&tree, s, "owner");
                let present = o.with(|| use_context::<I18nContext<Locale>>().is_some());
                if present {
                    let ctx = o.with(|| use_i18n());
                    let nv = view0(ctx);
                    let found = ctx_id(&nv, &views, &reps).expect("use_i18n() returned a context the harness never created");
                    views.push(nv);
                    json!({"view": views.len() - 1, "ctx": found})
                } else {
                    json!({"not_found": true})
                }
            }
            // a second `<I18nContextProvider>` rendered below a place where a context already exists: it must hand its children
            // the existing context (observed like `use_ctx`), not a fresh one
            "provide_again" => {
                let o = owner_at(&tree, s, "owner");
                let c = o.with(|| Owner::current().unwrap().child());
                let slot: Arc<Mutex<Option<I18nContext<Locale>>>> = Default::default();
                let slot2 = slot.clone();
                let view = c.with(|| {
                    view! {
                        <I18nContextProvider enable_cookie=false ssr_lang_header_getter=lang_opts(None)>
                            {
                                *slot2.lock().unwrap() = Some(use_i18n());
                                ()
                            }
                        </I18nContextProvider>
                    }
                    .into_any()
                });
                kept.push(Box::new(view));
                std::mem::forget(c);
                let ctx = slot.lock().unwrap().take().expect("children of I18nContextProvider did not run");
                let nv = view0(ctx);
                let found = ctx_id(&nv, &views, &reps);
                views.push(nv);
                let cid = found.unwrap_or_else(|| {
                    reps.push(views.len() - 1);
                    reps.len() - 1
                });
                json!({"view": views.len() - 1, "ctx": cid})
            }
            "scope" => {
                let v = view_at(&views, s, "view");
                let nv = (views[v].scope)();
                views.push(nv);
                json!({"view": views.len() - 1})
            }
            "set" => {
                let v = view_at(&views, s, "view");
                (views[v].set)(locale_of(s["locale"].as_str().expect("locale")));
                Value::Null
            }
            "set_untracked" => {
                let v = view_at(&views, s, "view");
                (views[v].set_untracked)(locale_of(s["locale"].as_str().expect("locale")));
                Value::Null
            }
            "get" => {
                let v = view_at(&views, s, "view");
                json!({"locale": (views[v].get)().as_str()})
            }
            "get_untracked" => {
                let v = view_at(&views, s, "view");
                json!({"locale": (views[v].get_untracked)().as_str()})
            }
            "make_closure" => {
                let v = view_at(&views, s, "view");
                let c = root_owner.with(|| (views[v].mk_closure)(s["kind"].as_str().expect("kind")));
                closures.push(c);
                json!({"closure": closures.len() - 1, "level": views[v].level})
            }
            "call_closure" => {
                let i = s["closure"].as_u64().expect("closure") as usize;
                assert!(i < closures.len(), "closure index out of range");
                let text = root_owner.with(|| (closures[i])());
                json!({"text": text})
            }
            // one turn of the event loop: run the executor until idle (spawned effect futures are polled: first runs of
            // `Effect::new`, re-runs of effects / render effects whose sources were notified, isomorphic effects).
            // Without the `effects` feature only the isomorphic effects run.  Never observable (the model's `tick`).
            "tick" => json!({"tick": true, "polled": exec::drain()}),
            other => panic!("unknown step op {other}"),
        };
        obs.push(o);
        // `drain_each` (default, and what every sequence without `tick` steps means): a tick after every step;
        // with `drain_each: false` the executor runs at `tick` steps only (and once before the final read-back)
        if drain_each {
            exec::drain();
        }
    }
    exec::drain();
    // final read-back of every view, after all pending effects ran
    let fin: Vec<Value> = views.iter().map(|v| json!((v.get_untracked)().as_str())).collect();
    drop(closures);
    drop(memos);
    drop(wires);
    drop(kept);
    drop(tree);
    drop(views);
    drop(owners);
    drop(root_owner);
    exec::drain();
    json!({"obs": obs, "final": fin, "effects": cfg!(feature = "effects")})
}

/// Do `Effect`s / `RenderEffect`s run in this build?  A signal, an `Effect`, a `RenderEffect` and an isomorphic effect
/// each logging the values they see; the log lengths are reported before / after a tick and before / after a tick
/// that follows a `set`.  Expected with `--features effects`: effect `[] [0] [0] [0,7]`, render effect
/// `[0] [0] [0] [0,7]`; without: both stay empty; the isomorphic effect `[] [0] [0] [0,7]` in both builds.
fn effects_selftest() -> Value {
    let owner = Owner::new();
    let out = owner.with(|| {
        let sig = RwSignal::new(0u32);
        let mk = || -> Arc<Mutex<Vec<u32>>> { Default::default() };
        let (e, r, i) = (mk(), mk(), mk());
        let (e2, r2, i2) = (e.clone(), r.clone(), i.clone());
        Effect::new(move |_| e2.lock().unwrap().push(sig.get()));
        let re = RenderEffect::new(move |_| r2.lock().unwrap().push(sig.get()));
        Effect::new_isomorphic(move |_| i2.lock().unwrap().push(sig.get()));
        let snap = |l: &Arc<Mutex<Vec<u32>>>| l.lock().unwrap().clone();
        let mut phases: Vec<Value> = Vec::new();
        let mut push = |name: &str| phases.push(json!({"at": name, "effect": snap(&e), "render_effect": snap(&r), "isomorphic": snap(&i)}));
        push("created");
        let polled1 = exec::drain();
        push("tick");
        sig.set(7);
        push("set");
        let polled2 = exec::drain();
        push("set_tick");
        drop(re);
        json!({"feature_effects": cfg!(feature = "effects"), "phases": phases, "polled": [polled1, polled2]})
    });
    exec::drain();
    drop(owner);
    exec::drain();
    out
}

/// C05 (run-time side): the six `t*_plural*!` macros on a count, next to the CLDR category ICU4X gives for the locale
fn plural_macros(req: &Value) -> Value {
    use leptos_i18n::reexports::icu::plurals::{PluralCategory, PluralRuleType, PluralRules};
    use leptos_i18n::{t_plural, t_plural_ordinal, td_plural, td_plural_ordinal, tu_plural, tu_plural_ordinal};
    let l = locale_of(req["locale"].as_str().expect("locale"));
    let counts: Vec<u64> = req["counts"].as_array().expect("counts").iter().map(|c| c.as_u64().expect("count")).collect();
    fn name(c: PluralCategory) -> &'static str {
        match c {
            PluralCategory::Zero => "zero",
            PluralCategory::One => "one",
            PluralCategory::Two => "two",
            PluralCategory::Few => "few",
            PluralCategory::Many => "many",
            PluralCategory::Other => "other",
        }
    }
    let icu: &leptos_i18n::reexports::icu::locid::Locale = l.as_icu_locale();
    let card = PluralRules::try_new(&icu.into(), PluralRuleType::Cardinal).expect("cardinal rules");
    let ord = PluralRules::try_new(&icu.into(), PluralRuleType::Ordinal).expect("ordinal rules");
    let owner = Owner::new();
    let out = owner.with(|| {
        let ctx = init_i18n_context_with_options(
            I18nContextOptions::<Locale>::default().enable_cookie(false).ssr_lang_header_getter(lang_opts(None)),
        );
        ctx.set_locale_untracked(l);
        // `built_under`: the accessor closures of `t_*` are created while the context shows that locale, the context is then set to
        // `locale` and the closures are called: an accessor shows the context's locale at the time it is called
        let built = req.get("built_under").and_then(|b| b.as_str()).map(locale_of).unwrap_or(l);
        // `t_*` (tracked) give an accessor closure, `td_*` / `tu_*` the form itself
        macro_rules! forms {
            ($mac:ident, $first:expr, $n:expr) => {{
                let n: u64 = $n;
                ctx.set_locale_untracked(built);
                let f = $mac!($first, count = move || n, zero => "zero", one => "one", two => "two", few => "few", many => "many", _ => "other");
                ctx.set_locale_untracked(l);
                f().to_string()
            }};
        }
        macro_rules! form {
            ($mac:ident, $first:expr, $n:expr) => {{
                let n: u64 = $n;
                $mac!($first, count = move || n, zero => "zero", one => "one", two => "two", few => "few", many => "many", _ => "other").to_string()
            }};
        }
        let rows: Vec<Value> = counts
            .iter()
            .map(|&n| {
                json!({
                    "count": n,
                    "td_plural": form!(td_plural, l, n),
                    "td_plural_ordinal": form!(td_plural_ordinal, l, n),
                    "t_plural": forms!(t_plural, ctx, n),
                    "t_plural_ordinal": forms!(t_plural_ordinal, ctx, n),
                    "tu_plural": form!(tu_plural, ctx, n),
                    "tu_plural_ordinal": form!(tu_plural_ordinal, ctx, n),
                    "cldr_cardinal": name(card.category_for(n)),
                    "cldr_ordinal": name(ord.category_for(n)),
                })
            })
            .collect();
        json!({"rows": rows})
    });
    exec::drain();
    drop(owner);
    out
}

/// C18 (reactivity of `t_format!`): a view made while the context shows `from` and rendered after `set_locale(to)`
/// must be formatted for `to`; `td_format_string!` with an explicit locale is the reference
fn format_views(req: &Value) -> Value {
    use leptos_i18n::formatting::{t_format, t_format_string, td_format_string, tu_format_string};
    let from = locale_of(req["from"].as_str().expect("from"));
    let to = locale_of(req["to"].as_str().expect("to"));
    let owner = Owner::new();
    let out = owner.with(|| {
        let ctx = init_i18n_context_with_options(
            I18nContextOptions::<Locale>::default().enable_cookie(false).ssr_lang_header_getter(lang_opts(None)),
        );
        ctx.set_locale_untracked(from);
        let num = move || 1234567.5f64;
        let list = move || ["A", "B", "C"];
        let v_num_a = t_format!(ctx, num, formatter: number);
        let v_num_b = t_format!(ctx, num, formatter: number);
        let v_cur_b = t_format!(ctx, num, formatter: currency(currency_code: EUR));
        let v_list_b = t_format!(ctx, list, formatter: list(list_type: or));
        let before = render(v_num_a);
        ctx.set_locale(to);
        let after = json!({
            "number": render(v_num_b),
            "currency": render(v_cur_b),
            "list": render(v_list_b),
            "t_format_string": t_format_string!(ctx, 1234567.5f64, formatter: number).to_string(),
            "tu_format_string": tu_format_string!(ctx, 1234567.5f64, formatter: number).to_string(),
        });
        json!({
            "before": before,
            "after": after,
            "expected_before": td_format_string!(from, 1234567.5f64, formatter: number).to_string(),
            "expected_after": {
                "number": td_format_string!(to, 1234567.5f64, formatter: number).to_string(),
                "currency": td_format_string!(to, 1234567.5f64, formatter: currency(currency_code: EUR)).to_string(),
                "list": td_format_string!(to, ["A", "B", "C"], formatter: list(list_type: or)).to_string(),
                "t_format_string": td_format_string!(to, 1234567.5f64, formatter: number).to_string(),
                "tu_format_string": td_format_string!(to, 1234567.5f64, formatter: number).to_string(),
            },
        })
    });
    exec::drain();
    drop(owner);
    out
}

fn handle(req: &Value) -> Value {
    let op = req["op"].as_str().unwrap_or("");
    match op {
        "locales" => locales(),
        "parse_tags" => parse_tags(req),
        "resolve" => resolve(req),
        "plural_macros" => plural_macros(req),
        "format_views" => format_views(req),
        "ops" => ops(req),
        "effects_selftest" => effects_selftest(),
        _ => json!({"bad_op": format!("unknown op {op}")}),
    }
}

fn main() {
    exec::init();
    let stdin = std::io::stdin();
    let stdout = std::io::stdout();
    let mut out = std::io::BufWriter::new(stdout.lock());
    std::panic::set_hook(Box::new(|_| {}));
    for line in stdin.lock().lines() {
        let line = line.unwrap();
        if line.trim().is_empty() {
            continue;
        }
        let req: Value = serde_json::from_str(&line).expect("bad json line");
        let res = match std::panic::catch_unwind(|| handle(&req)) {
            Ok(v) => v,
            Err(e) => {
                let msg = e.downcast_ref::<String>().cloned().or_else(|| e.downcast_ref::<&str>().map(|s| s.to_string())).unwrap_or_default();
                exec::reset();
                json!({"panic": msg})
            }
        };
        writeln!(out, "{}", res).unwrap();
    }
    out.flush().unwrap();
}
