//! A deterministic single-threaded executor for `any_spawner`: spawned tasks (leptos' isomorphic effects)
//! are queued and polled on the main thread when the harness calls `drain()`, so every request observes
//! a quiescent reactive system and nothing runs after an `Owner` was dropped.
use any_spawner::{CustomExecutor, Executor, PinnedFuture, PinnedLocalFuture};
use std::cell::RefCell;
use std::collections::{HashMap, VecDeque};
use std::sync::{Arc, Mutex};
use std::task::{Context, Poll, Wake, Waker};

static READY: Mutex<VecDeque<usize>> = Mutex::new(VecDeque::new());

thread_local! {
    static TASKS: RefCell<HashMap<usize, PinnedLocalFuture<()>>> = RefCell::new(HashMap::new());
    static NEXT: RefCell<usize> = const { RefCell::new(0) };
}

struct TaskWaker(usize);

impl Wake for TaskWaker {
    fn wake(self: Arc<Self>) {
        READY.lock().unwrap_or_else(|e| e.into_inner()).push_back(self.0);
    }
}

fn add(fut: PinnedLocalFuture<()>) {
    let id = NEXT.with(|n| {
        let mut n = n.borrow_mut();
        *n += 1;
        *n
    });
    TASKS.with(|t| t.borrow_mut().insert(id, fut));
    READY.lock().unwrap_or_else(|e| e.into_inner()).push_back(id);
}

struct Det;

impl CustomExecutor for Det {
    fn spawn(&self, fut: PinnedFuture<()>) {
        add(fut);
    }
    fn spawn_local(&self, fut: PinnedLocalFuture<()>) {
        add(fut);
    }
    fn poll_local(&self) {}
}

pub fn init() {
    Executor::init_local_custom_executor(Det).expect("executor already set");
}

/// run every runnable task until nothing is ready any more (one "tick" of the harness); returns how many polls it took
pub fn drain() -> usize {
    let mut guard = 0usize;
    loop {
        let next = READY.lock().unwrap_or_else(|e| e.into_inner()).pop_front();
        let Some(id) = next else { break };
        let Some(mut fut) = TASKS.with(|t| t.borrow_mut().remove(&id)) else { continue };
        let waker = Waker::from(Arc::new(TaskWaker(id)));
        let mut cx = Context::from_waker(&waker);
        match fut.as_mut().poll(&mut cx) {
            Poll::Ready(()) => {}
            Poll::Pending => TASKS.with(|t| {
                t.borrow_mut().insert(id, fut);
            }),
        }
        guard += 1;
        assert!(guard < 1_000_000, "executor does not quiesce");
    }
    guard
}

/// after a panic: forget everything that was queued
pub fn reset() {
    READY.lock().unwrap_or_else(|e| e.into_inner()).clear();
    TASKS.with(|t| {
        if let Ok(mut t) = t.try_borrow_mut() {
            let old = std::mem::take(&mut *t);
            std::mem::forget(old);
        }
    });
}

pub fn pending() -> usize {
    TASKS.with(|t| t.borrow().len())
}
