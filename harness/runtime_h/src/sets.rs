//! Locale enums without translation files (`declare_locales!`), used by the runtime harness.
pub mod a {
    leptos_i18n::declare_locales! {
        path: leptos_i18n,
        default: "en",
        locales: ["en", "en-US", "fr"],
        en: {}, en_US: {}, fr: {},
    }
}
pub mod b {
    leptos_i18n::declare_locales! {
        path: leptos_i18n,
        default: "de",
        locales: ["de", "en-US", "de-DE", "de-CH", "en", "fr", "fr-FR"],
        de: {}, en_US: {}, de_DE: {}, de_CH: {}, en: {}, fr: {}, fr_FR: {},
    }
}
pub mod c {
    leptos_i18n::declare_locales! {
        path: leptos_i18n,
        default: "zh",
        locales: ["zh", "zh-Hant", "zh-Hant-TW", "zh-Hans-CN", "sr-Latn", "sr-Cyrl-RS", "ca", "ca-ES-valencia", "ca-valencia"],
        zh: {}, zh_Hant: {}, zh_Hant_TW: {}, zh_Hans_CN: {}, sr_Latn: {}, sr_Cyrl_RS: {}, ca: {}, ca_ES_valencia: {}, ca_valencia: {},
    }
}
pub mod d {
    leptos_i18n::declare_locales! {
        path: leptos_i18n,
        default: "pt-BR",
        locales: ["pt-BR", "pt", "es-419", "es", "en-GB", "en", "ar", "he"],
        pt_BR: {}, pt: {}, es_419: {}, es: {}, en_GB: {}, en: {}, ar: {}, he: {},
    }
}
