//! Runtime harness (kind R): a JSON-line server around the real `leptos_i18n` runtime code.
#![allow(dead_code, unused_imports, non_camel_case_types)]
use leptos_i18n::Locale;
use serde_json::{json, Value};
use std::io::{BufRead, Write};

// the private negotiation module, compiled from /repo's working tree as it is
#[path = "/repo/leptos_i18n/src/langid.rs"]
mod langid;

mod sets;

fn langid_json(l: &icu_locid::LanguageIdentifier) -> Value {
    json!({
        "l": if l.language.is_empty() { Value::Null } else { json!(l.language.as_str()) },
        "s": l.script.map(|s| s.as_str().to_string()),
        "r": l.region.map(|s| s.as_str().to_string()),
        "v": l.variants.iter().map(|v| v.as_str().to_string()).collect::<Vec<_>>(),
    })
}

fn negotiate<L: Locale>(req: &Value) -> Value {
    let all = L::get_all();
    let accepted: Vec<String> = req["accepted"].as_array().unwrap().iter().map(|s| s.as_str().unwrap().to_string()).collect();
    // subset/order of the available locales (indices into get_all)
    let avail: Vec<L> = match req.get("avail").and_then(|a| a.as_array()) {
        Some(a) => a.iter().map(|i| all[i.as_u64().unwrap() as usize]).collect(),
        None => all.to_vec(),
    };
    let parsed: Vec<Option<icu_locid::LanguageIdentifier>> = accepted
        .iter()
        // oracle: an entry is its text without surrounding ASCII white space (how a header list is split leaves some), parsed by ICU4X
        .map(|s| icu_locid::LanguageIdentifier::try_from_bytes(s.trim_matches(|c: char| c.is_ascii_whitespace()).as_bytes()).ok())
        .collect();
    let langids = langid::convert_vec_str_to_langids_lossy(&accepted);
    let idx = |l: L| all.iter().position(|x| *x == l).unwrap();
    let filtered: Vec<usize> = langid::filter_matches(&langids, &avail).into_iter().map(idx).collect();
    let found = idx(langid::find_match(&langids, &avail));
    let find_locale = idx(L::find_locale(&accepted));
    let matchs: Vec<Value> = parsed
        .iter()
        .map(|p| match p {
            Some(p) => json!(L::find_matchs(p).into_iter().map(idx).collect::<Vec<_>>()),
            None => Value::Null,
        })
        .collect();
    json!({
        "parsed": parsed.iter().map(|p| p.as_ref().map(langid_json)).collect::<Vec<_>>(),
        "lossy_len": langids.len(),
        "filter": filtered,
        "find": found,
        "find_locale": find_locale,
        "find_matchs": matchs,
    })
}

fn locales<L: Locale>() -> Value {
    json!(L::get_all().iter().map(|l| json!({"name": l.as_str(), "langid": langid_json(l.as_langid())})).collect::<Vec<_>>())
}

macro_rules! with_set {
    ($set:expr, $f:ident $(, $arg:expr)*) => {
        match $set {
            "A" => $f::<sets::a::i18n::Locale>($($arg),*),
            "B" => $f::<sets::b::i18n::Locale>($($arg),*),
            "C" => $f::<sets::c::i18n::Locale>($($arg),*),
            "D" => $f::<sets::d::i18n::Locale>($($arg),*),
            other => json!({"bad_op": format!("unknown set {other}")}),
        }
    };
}

fn handle(req: &Value) -> Value {
    let op = req["op"].as_str().unwrap_or("");
    let set = req["set"].as_str().unwrap_or("");
    match op {
        "locales" => with_set!(set, locales),
        "negotiate" => with_set!(set, negotiate, req),
        _ => json!({"bad_op": format!("unknown op {op}")}),
    }
}

fn main() {
    let stdin = std::io::stdin();
    let stdout = std::io::stdout();
    let mut out = std::io::BufWriter::new(stdout.lock());
    std::panic::set_hook(Box::new(|_| {}));
    for line in stdin.lock().lines() {
        let line = line.unwrap();
        if line.trim().is_empty() {
            continue;
        }
        let req: Value = serde_json::from_str(&line).expect("bad json line");
        let res = match std::panic::catch_unwind(|| handle(&req)) {
            Ok(v) => v,
            Err(e) => {
                let msg = e.downcast_ref::<String>().cloned().or_else(|| e.downcast_ref::<&str>().map(|s| s.to_string())).unwrap_or_default();
                json!({"panic": msg})
            }
        };
        writeln!(out, "{}", res).unwrap();
    }
    out.flush().unwrap();
}
