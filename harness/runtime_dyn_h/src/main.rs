//! Runtime harness for C17 (`dynamic_load` + `ssr`): a JSON-line server around the real
//! `RegisterCtx::{provide_context, register, to_array}` of `/repo/leptos_i18n`.
//!
//! How arbitrary *runtime* strings reach `register` without any change to `/repo`:
//! `TranslationUnit::STRINGS` must be a `const &'static Self::Strings`, but `Strings` is only
//! required to implement the public (doc-hidden) trait `StringArray`, whose `as_slice(&self)` is what
//! `register` stores.  The harness implements `StringArray` for a one-word slot handle `Slot(n)`;
//! `as_slice` returns the leaked slice currently stored in slot `n` of a global table.  So the unit
//! types `U<L, I>` / `F<L>` below are ordinary `TranslationUnit`s with const `ID`/`LOCALE`/`STRINGS`,
//! the calls are the genuine `RegisterCtx::register::<T>()` (through `use_context`, inside a reactive
//! `Owner`, exactly as the generated `get_translations()` does) and the genuine `to_array()`.
#![allow(dead_code, non_camel_case_types)]
use leptos::prelude::Owner;
use leptos_i18n::__private::fetch_translations::{RegisterCtx, StringArray, TranslationUnit};
use leptos_i18n::Locale as LocaleTrait;
use serde_json::{json, Value};
use std::io::{BufRead, Write};
use std::sync::Mutex;

/// namespaced project (ids `common`, `home`, `user-menu`: a name that is not its Rust identifier), from this crate's Cargo.toml + locales/
mod ns {
    leptos_i18n::load_locales!();
}

/// flat project (no namespaces: the unit id is `()` and is embedded as `null`)
mod flat {
    leptos_i18n::declare_locales! {
        path: leptos_i18n,
        default: "en",
        locales: ["en", "fr", "pt-BR"],
        en: { k: "en" },
        fr: { k: "fr" },
        pt_BR: { k: "pt" },
    }
}

const NL: usize = 3;
const NI: usize = 3;
const NSLOTS: usize = NL * NI + NL;

static SLOTS: Mutex<[&'static [&'static str]; NSLOTS]> = Mutex::new([&[]; NSLOTS]);

#[derive(Debug)]
pub struct Slot(usize);

impl StringArray for Slot {
    fn cast(_: Vec<Box<str>>) -> Box<Self> {
        unreachable!("client side only")
    }
    fn as_slice(&self) -> &[&'static str] {
        SLOTS.lock().unwrap()[self.0]
    }
}

type NsLocale = ns::i18n::Locale;
type NsId = <NsLocale as LocaleTrait>::TranslationUnitId;
type FlatLocale = flat::i18n::Locale;

const NS_LOCALES: [NsLocale; NL] = [NsLocale::en, NsLocale::fr, NsLocale::pt_BR];
const NS_IDS: [NsId; NI] = [NsId::common, NsId::home, NsId::user_menu];
const FLAT_LOCALES: [FlatLocale; NL] = [FlatLocale::en, FlatLocale::fr, FlatLocale::pt_BR];

/// translation unit (locale L, namespace I) of the namespaced project
struct U<const L: usize, const I: usize>;
impl<const L: usize, const I: usize> TranslationUnit for U<L, I> {
    type Locale = NsLocale;
    const ID: NsId = NS_IDS[I];
    const LOCALE: NsLocale = NS_LOCALES[L];
    type Strings = Slot;
    const STRINGS: &'static Slot = &Slot(L * NI + I);
}

/// translation unit (locale L) of the flat project
struct F<const L: usize>;
impl<const L: usize> TranslationUnit for F<L> {
    type Locale = FlatLocale;
    const ID: () = ();
    const LOCALE: FlatLocale = FLAT_LOCALES[L];
    type Strings = Slot;
    const STRINGS: &'static Slot = &Slot(NL * NI + L);
}

fn register_ns(l: usize, i: usize) {
    macro_rules! go {
        ($(($l:literal, $i:literal)),*) => {
            match (l, i) {
                // the call the generated `get_translations()` makes
                $(($l, $i) => <U<$l, $i> as TranslationUnit>::register(),)*
                _ => panic!("no such unit"),
            }
        };
    }
    go!((0, 0), (0, 1), (0, 2), (1, 0), (1, 1), (1, 2), (2, 0), (2, 1), (2, 2))
}

fn register_flat(l: usize) {
    match l {
        0 => <F<0> as TranslationUnit>::register(),
        1 => <F<1> as TranslationUnit>::register(),
        2 => <F<2> as TranslationUnit>::register(),
        _ => panic!("no such unit"),
    }
}

fn leak_strings(v: &Value) -> &'static [&'static str] {
    let strs: Vec<&'static str> = v
        .as_array()
        .expect("values: array")
        .iter()
        .map(|s| &*Box::leak(s.as_str().expect("value: string").to_string().into_boxed_str()))
        .collect();
    Box::leak(strs.into_boxed_slice())
}

#[derive(serde::Deserialize)]
#[serde(deny_unknown_fields)]
struct Trans {
    locale: String,
    id: Option<String>,
    values: Vec<String>,
}

const PREFIX: &str = "window.__LEPTOS_I18N_TRANSLATIONS = ";

/// what a strict JSON reader makes of the embedded literal (cross-check of the Lean decoder)
fn serde_decode(out: &str) -> Value {
    let Some(body) = out.strip_prefix(PREFIX).and_then(|b| b.strip_suffix(';')) else {
        return json!({"err": "wrapper"});
    };
    match serde_json::from_str::<Vec<Trans>>(body) {
        Ok(v) => json!({"ok": v.into_iter().map(|t| json!({"locale": t.locale, "id": t.id, "values": t.values})).collect::<Vec<_>>()}),
        Err(e) => json!({"err": e.to_string()}),
    }
}

enum Ctx {
    Ns(RegisterCtx<NsLocale>),
    Flat(RegisterCtx<FlatLocale>),
}

/// `{"op":"embed","flat":bool,"units":[{"loc":l,"id":i,"values":[..]}..],"renders":n,
///   "pre":[[loc,id]..],"steps":[[render,loc,id]..]}`
/// `units` fills the slot table; `pre` are registrations made by render 0 *before* its context is
/// provided (they must leave no trace); `steps` interleaves the registrations of `n` concurrent
/// renders, each in its own reactive `Owner` with its own `RegisterCtx`.
fn embed(req: &Value) -> Value {
    let flat = req["flat"].as_bool().expect("flat");
    {
        let mut slots = SLOTS.lock().unwrap();
        *slots = [&[]; NSLOTS];
        for u in req["units"].as_array().expect("units") {
            let l = u["loc"].as_u64().unwrap() as usize;
            let i = u["id"].as_u64().unwrap() as usize;
            assert!(l < NL && i < NI);
            let slot = if flat { NL * NI + l } else { l * NI + i };
            slots[slot] = leak_strings(&u["values"]);
        }
    }
    let reg = |l: usize, i: usize| if flat { register_flat(l) } else { register_ns(l, i) };
    let n = req["renders"].as_u64().expect("renders") as usize;
    let owners: Vec<Owner> = (0..n).map(|_| Owner::new()).collect();
    if let Some(o) = owners.first() {
        o.with(|| {
            for p in req["pre"].as_array().expect("pre") {
                reg(p[0].as_u64().unwrap() as usize, p[1].as_u64().unwrap() as usize);
            }
        });
    }
    let ctxs: Vec<Ctx> = owners
        .iter()
        .map(|o| {
            o.with(|| {
                if flat {
                    Ctx::Flat(RegisterCtx::<FlatLocale>::provide_context())
                } else {
                    Ctx::Ns(RegisterCtx::<NsLocale>::provide_context())
                }
            })
        })
        .collect();
    for s in req["steps"].as_array().expect("steps") {
        let r = s[0].as_u64().unwrap() as usize;
        // registrations happen in children of the provider's owner
        owners[r].with(|| {
            let child = Owner::new();
            child.with(|| reg(s[1].as_u64().unwrap() as usize, s[2].as_u64().unwrap() as usize));
        });
    }
    let outs: Vec<Value> = ctxs
        .iter()
        .map(|c| {
            let out = match c {
                Ctx::Ns(c) => c.to_array(),
                Ctx::Flat(c) => c.to_array(),
            };
            let dec = serde_decode(&out);
            json!({"out": out, "serde": dec})
        })
        .collect();
    json!({"renders": outs})
}

fn names() -> Value {
    json!({
        "ns_locales": NS_LOCALES.iter().map(|l| l.as_str()).collect::<Vec<_>>(),
        "ns_ids": NS_IDS.iter().map(|i| leptos_i18n::__private::TranslationUnitId::to_str(*i)).collect::<Vec<_>>(),
        "flat_locales": FLAT_LOCALES.iter().map(|l| l.as_str()).collect::<Vec<_>>(),
    })
}

fn handle(req: &Value) -> Value {
    match req["op"].as_str().unwrap_or("") {
        "names" => names(),
        "embed" => embed(req),
        op => json!({"bad_op": format!("unknown op {op}")}),
    }
}

fn main() {
    let stdin = std::io::stdin();
    let stdout = std::io::stdout();
    let mut out = std::io::BufWriter::new(stdout.lock());
    std::panic::set_hook(Box::new(|_| {}));
    for line in stdin.lock().lines() {
        let line = line.unwrap();
        if line.trim().is_empty() {
            continue;
        }
        let req: Value = serde_json::from_str(&line).expect("bad json line");
        let res = match std::panic::catch_unwind(|| handle(&req)) {
            Ok(v) => v,
            Err(e) => {
                let msg = e.downcast_ref::<String>().cloned().or_else(|| e.downcast_ref::<&str>().map(|s| s.to_string())).unwrap_or_default();
                json!({"panic": msg})
            }
        };
        writeln!(out, "{}", res).unwrap();
    }
    out.flush().unwrap();
}
