//! Locale enums without translation files (`declare_locales!`), used by the router harness.
//! Names that are prefixes of each other and of ordinary words (`en` / `en-US` / "english",
//! `fr` / `fr-CA` / "franchise", `fra`), in both orders (short before long, long before short).
pub mod a {
    leptos_i18n::declare_locales! {
        path: leptos_i18n,
        default: "en",
        locales: ["en", "en-US", "fr", "fr-CA"],
        en: {}, en_US: {}, fr: {}, fr_CA: {},
    }
}
pub mod b {
    leptos_i18n::declare_locales! {
        path: leptos_i18n,
        default: "fr",
        locales: ["fr", "fra", "en", "de", "es"],
        fr: {}, fra: {}, en: {}, de: {}, es: {},
    }
}
pub mod c {
    leptos_i18n::declare_locales! {
        path: leptos_i18n,
        default: "pt-BR",
        locales: ["pt-BR", "pt", "en-GB", "en", "zh-Hant", "zh"],
        pt_BR: {}, pt: {}, en_GB: {}, en: {}, zh_Hant: {}, zh: {},
    }
}
pub mod d {
    leptos_i18n::declare_locales! {
        path: leptos_i18n,
        default: "en",
        locales: ["en"],
        en: {},
    }
}
