// Included into `routing::nested` (a child of the module that `include!`s /repo's routing.rs, so the private
// `I18nNestedRoute`, `I18nRouteMatch`, `I18nSegment`, `RouteSegments`, `CURRENT_ROUTE_LOCALE` are reachable).
//
// Builds a *native* `I18nNestedRoute` from a JSON route tree and drives `match_nested` (through
// `leptos_router::RouteDefs::match_route`, which is how the router reaches it and strips the base path),
// `generate_routes` and `generate_routes_for_each_locale`.  Everything that matches is leptos_router's own code:
// `NestedRoute`, tuples of children, tuples of segments, `StaticSegment` / `ParamSegment` /
// `OptionalParamSegment` / `WildcardSegment`, and /repo's `I18nSegment`.  The glue types below only choose
// *which* of those real values sits at a place (`Seg`, `Path`, `Node`: enums that delegate; `Maybe`: an absent
// child that never matches and generates nothing), because leptos_router's route trees are static types.
//
// tree  := [node, ...]                      children of the base route (<= 4)
// node  := {"p": [seg, ...], "c": null | [node, ...]}     1..3 segments; depth <= 3; <= 3 / <= 2 children below
// seg   := ["s", "about"] | ["s", ""] | ["l", [word per locale index]] | ["p", "id"] | ["o", "id"] | ["w", "rest"] | ["u"]
use super::*;
use leptos::either::{EitherOf3, EitherOf4};
use leptos_router::{OptionalParamSegment, ParamSegment, RouteDefs, RouteMatchId, WildcardSegment};
use serde_json::{json, Value};

type LocFn<L> = &'static (dyn Fn(L) -> &'static str + Send + Sync);

thread_local! {
    static INTERN: RefCell<HashSet<&'static str>> = RefCell::new(HashSet::new());
    static WORDS: RefCell<HashMap<Vec<&'static str>, &'static [&'static str]>> = RefCell::new(HashMap::new());
}

fn intern(s: &str) -> &'static str {
    INTERN.with_borrow_mut(|set| match set.get(s) {
        Some(x) => *x,
        None => {
            let x: &'static str = Box::leak(s.to_string().into_boxed_str());
            set.insert(x);
            x
        }
    })
}

fn intern_words(ws: Vec<&'static str>) -> &'static [&'static str] {
    WORDS.with_borrow_mut(|m| match m.get(&ws) {
        Some(x) => *x,
        None => {
            let x: &'static [&'static str] = Box::leak(ws.clone().into_boxed_slice());
            m.insert(ws, x);
            x
        }
    })
}

fn idx<L: Locale>(l: L) -> usize {
    L::get_all().iter().position(|x| *x == l).unwrap()
}

// ------------------------------------------------------------------------------------------- segments

#[derive(Debug)]
pub enum Seg<L: Locale> {
    Static(StaticSegment<&'static str>),
    Loc(I18nSegment<L, LocFn<L>>),
    Param(ParamSegment),
    Splat(WildcardSegment),
    Unit(()),
}

impl<L: Locale> PossibleRouteMatch for Seg<L> {
    fn test<'a>(&self, path: &'a str) -> Option<leptos_router::PartialPathMatch<'a>> {
        match self {
            Seg::Static(s) => s.test(path),
            Seg::Loc(s) => s.test(path),
            Seg::Param(s) => s.test(path),
            Seg::Splat(s) => s.test(path),
            Seg::Unit(s) => s.test(path),
        }
    }

    fn generate_path(&self, path: &mut Vec<PathSegment>) {
        match self {
            Seg::Static(s) => s.generate_path(path),
            Seg::Loc(s) => s.generate_path(path),
            Seg::Param(s) => s.generate_path(path),
            Seg::Splat(s) => s.generate_path(path),
            Seg::Unit(s) => s.generate_path(path),
        }
    }
}

type Opt = OptionalParamSegment;

enum Any<L: Locale> {
    S(Seg<L>),
    O(Opt),
}

fn seg<L: Locale>(v: &Value) -> Any<L> {
    let a = v.as_array().expect("segment: array");
    let k = a[0].as_str().expect("segment kind");
    let val = || intern(a[1].as_str().expect("segment value"));
    match k {
        "u" => Any::S(Seg::Unit(())),
        "s" => Any::S(Seg::Static(StaticSegment(val()))),
        "p" => Any::S(Seg::Param(ParamSegment(val()))),
        "w" => Any::S(Seg::Splat(WildcardSegment(val()))),
        "o" => Any::O(OptionalParamSegment(val())),
        "l" => {
            let ws: Vec<&'static str> =
                a[1].as_array().expect("localized: words").iter().map(|w| intern(w.as_str().expect("word"))).collect();
            assert_eq!(ws.len(), L::get_all().len(), "localized segment: one word per locale");
            let ws = intern_words(ws);
            let f: LocFn<L> = Box::leak(Box::new(move |l: L| ws[idx(l)]));
            // what `i18n_path!(Locale, f)` expands to
            Any::S(Seg::Loc(make_i18n_segment::<L, LocFn<L>>(f)))
        }
        other => panic!("bad segment kind {other}"),
    }
}

/// the `path` of one route: a single segment (as `path=i18n_path!(..)` gives) or a tuple of 2..3 segments;
/// optional params are a type-level property in leptos_router (`const OPTIONAL`), hence one variant per shape
#[derive(Debug)]
pub enum Path<L: Locale> {
    S(Seg<L>),
    O(Opt),
    SS((Seg<L>, Seg<L>)),
    SO((Seg<L>, Opt)),
    OS((Opt, Seg<L>)),
    OO((Opt, Opt)),
    SSS((Seg<L>, Seg<L>, Seg<L>)),
    SSO((Seg<L>, Seg<L>, Opt)),
    SOS((Seg<L>, Opt, Seg<L>)),
    SOO((Seg<L>, Opt, Opt)),
    OSS((Opt, Seg<L>, Seg<L>)),
    OSO((Opt, Seg<L>, Opt)),
    OOS((Opt, Opt, Seg<L>)),
    OOO((Opt, Opt, Opt)),
}

macro_rules! each_path {
    ($self:expr, $x:ident => $e:expr) => {
        match $self {
            Path::S($x) => $e,
            Path::O($x) => $e,
            Path::SS($x) => $e,
            Path::SO($x) => $e,
            Path::OS($x) => $e,
            Path::OO($x) => $e,
            Path::SSS($x) => $e,
            Path::SSO($x) => $e,
            Path::SOS($x) => $e,
            Path::SOO($x) => $e,
            Path::OSS($x) => $e,
            Path::OSO($x) => $e,
            Path::OOS($x) => $e,
            Path::OOO($x) => $e,
        }
    };
}

impl<L: Locale> PossibleRouteMatch for Path<L> {
    fn test<'a>(&self, path: &'a str) -> Option<leptos_router::PartialPathMatch<'a>> {
        each_path!(self, x => x.test(path))
    }

    fn generate_path(&self, path: &mut Vec<PathSegment>) {
        each_path!(self, x => x.generate_path(path))
    }
}

fn path<L: Locale>(v: &Value) -> Path<L> {
    let segs: Vec<Any<L>> = v.as_array().expect("path: array").iter().map(seg::<L>).collect();
    let pat: String = segs.iter().map(|a| if matches!(a, Any::O(_)) { 'o' } else { 's' }).collect();
    let mut it = segs.into_iter();
    macro_rules! s {
        () => {
            match it.next().unwrap() {
                Any::S(x) => x,
                Any::O(_) => unreachable!(),
            }
        };
    }
    macro_rules! o {
        () => {
            match it.next().unwrap() {
                Any::O(x) => x,
                Any::S(_) => unreachable!(),
            }
        };
    }
    match pat.as_str() {
        "s" => Path::S(s!()),
        "o" => Path::O(o!()),
        "ss" => Path::SS((s!(), s!())),
        "so" => Path::SO((s!(), o!())),
        "os" => Path::OS((o!(), s!())),
        "oo" => Path::OO((o!(), o!())),
        "sss" => Path::SSS((s!(), s!(), s!())),
        "sso" => Path::SSO((s!(), s!(), o!())),
        "sos" => Path::SOS((s!(), o!(), s!())),
        "soo" => Path::SOO((s!(), o!(), o!())),
        "oss" => Path::OSS((o!(), s!(), s!())),
        "oso" => Path::OSO((o!(), s!(), o!())),
        "oos" => Path::OOS((o!(), o!(), s!())),
        "ooo" => Path::OOO((o!(), o!(), o!())),
        other => panic!("unsupported path shape {other:?} (1..3 segments)"),
    }
}

// ------------------------------------------------------------------------------------------- the tree

/// a child slot of a tuple of children that may be empty: never matches, generates no route
pub struct Maybe<R>(Option<R>);

impl<R: MatchNestedRoutes> MatchNestedRoutes for Maybe<R> {
    type Data = R::Data;
    type Match = R::Match;

    fn match_nested<'a>(&'a self, path: &'a str) -> (Option<(RouteMatchId, Self::Match)>, &'a str) {
        match &self.0 {
            Some(r) => r.match_nested(path),
            None => (None, path),
        }
    }

    fn generate_routes(&self) -> impl IntoIterator<Item = leptos_router::GeneratedRouteData> + '_ {
        match &self.0 {
            Some(r) => r.generate_routes().into_iter().collect::<Vec<_>>(),
            None => vec![],
        }
    }
}

type Leaf<L> = NestedRoute<Path<L>, (), (), ()>;
type Parent<L, K> = NestedRoute<Path<L>, K, (), ()>;

/// a route without children (`<Route>`) or with children (`<ParentRoute>`)
pub enum Node<L: Locale, K> {
    Leaf(Leaf<L>),
    Parent(Parent<L, K>),
}

impl<L, K> MatchNestedRoutes for Node<L, K>
where
    L: Locale,
    K: MatchNestedRoutes + 'static,
    K::Match: MatchParams,
{
    type Data = ();
    type Match = Either<<Leaf<L> as MatchNestedRoutes>::Match, <Parent<L, K> as MatchNestedRoutes>::Match>;

    fn match_nested<'a>(&'a self, path: &'a str) -> (Option<(RouteMatchId, Self::Match)>, &'a str) {
        match self {
            Node::Leaf(r) => {
                let (m, rem) = r.match_nested(path);
                (m.map(|(id, m)| (id, Either::Left(m))), rem)
            }
            Node::Parent(r) => {
                let (m, rem) = r.match_nested(path);
                (m.map(|(id, m)| (id, Either::Right(m))), rem)
            }
        }
    }

    fn generate_routes(&self) -> impl IntoIterator<Item = leptos_router::GeneratedRouteData> + '_ {
        match self {
            Node::Leaf(r) => r.generate_routes().into_iter().collect::<Vec<_>>(),
            Node::Parent(r) => r.generate_routes().into_iter().collect::<Vec<_>>(),
        }
    }
}

type K3<L> = (Maybe<Leaf<L>>, Maybe<Leaf<L>>);
type N2<L> = Node<L, K3<L>>;
type K2<L> = (Maybe<N2<L>>, Maybe<N2<L>>, Maybe<N2<L>>);
type N1<L> = Node<L, K2<L>>;
type K1<L> = (Maybe<N1<L>>, Maybe<N1<L>>, Maybe<N1<L>>, Maybe<N1<L>>);
type Base<L> = BaseRoute<(), K1<L>>;

fn kids(v: &Value) -> Option<&Vec<Value>> {
    match &v["c"] {
        Value::Null => None,
        c => Some(c.as_array().expect("children: array or null")),
    }
}

fn leaf<L: Locale>(v: &Value) -> Leaf<L> {
    assert!(kids(v).is_none(), "route tree deeper than 3 levels");
    NestedRoute::new(path::<L>(&v["p"]), ())
}

fn slot<R>(c: &[Value], i: usize, f: impl Fn(&Value) -> R) -> Maybe<R> {
    Maybe(c.get(i).map(f))
}

fn n2<L: Locale>(v: &Value) -> N2<L> {
    match kids(v) {
        None => Node::Leaf(NestedRoute::new(path::<L>(&v["p"]), ())),
        Some(c) => {
            assert!(c.len() <= 2, "at most 2 children at depth 3");
            Node::Parent(NestedRoute::new(path::<L>(&v["p"]), ()).child((slot(c, 0, leaf::<L>), slot(c, 1, leaf::<L>))))
        }
    }
}

fn n1<L: Locale>(v: &Value) -> N1<L> {
    match kids(v) {
        None => Node::Leaf(NestedRoute::new(path::<L>(&v["p"]), ())),
        Some(c) => {
            assert!(c.len() <= 3, "at most 3 children at depth 2");
            Node::Parent(
                NestedRoute::new(path::<L>(&v["p"]), ()).child((slot(c, 0, n2::<L>), slot(c, 1, n2::<L>), slot(c, 2, n2::<L>))),
            )
        }
    }
}

/// what `i18n_routing` builds: `NestedRoute::new(StaticSegment(""), view).child(children)`
fn base<L: Locale>(tree: &Value) -> Base<L> {
    let c = tree.as_array().expect("tree: array of nodes");
    assert!(c.len() <= 4, "at most 4 children of the base route");
    NestedRoute::new(StaticSegment(""), ())
        .child((slot(c, 0, n1::<L>), slot(c, 1, n1::<L>), slot(c, 2, n1::<L>), slot(c, 3, n1::<L>)))
}

fn i18n_route<L: Locale>(base_path: &str, tree: &Value) -> I18nNestedRoute<L, (), K1<L>> {
    I18nNestedRoute::new(intern(base_path), base::<L>(tree), RouteSegments::<L>::default())
}

// ------------------------------------------------------------------------------------------- observing a match

type BaseMatch<L> = <Base<L> as MatchNestedRoutes>::Match;

/// the child indexes from the base route down to the route that matched
fn leaf_path<L: Locale>(m: BaseMatch<L>) -> Vec<usize> {
    let mut out = vec![];
    let (_, c1) = MatchInterface::into_view_and_child(m);
    let Some(c1) = c1 else { return out };
    let (i, m1) = match c1 {
        EitherOf4::A(m) => (0, m),
        EitherOf4::B(m) => (1, m),
        EitherOf4::C(m) => (2, m),
        EitherOf4::D(m) => (3, m),
    };
    out.push(i);
    let Either::Right(p1) = m1 else { return out };
    let (_, c2) = MatchInterface::into_view_and_child(p1);
    let Some(c2) = c2 else { return out };
    let (i, m2) = match c2 {
        EitherOf3::A(m) => (0, m),
        EitherOf3::B(m) => (1, m),
        EitherOf3::C(m) => (2, m),
    };
    out.push(i);
    let Either::Right(p2) = m2 else { return out };
    let (_, c3) = MatchInterface::into_view_and_child(p2);
    let Some(c3) = c3 else { return out };
    out.push(match c3 {
        Either::Left(_) => 0,
        Either::Right(_) => 1,
    });
    out
}

fn params_json(p: Vec<(std::borrow::Cow<'static, str>, String)>) -> Value {
    Value::Array(p.into_iter().map(|(k, v)| json!([k, v])).collect())
}

fn route_locale_now() -> Option<&'static str> {
    CURRENT_ROUTE_LOCALE.with_borrow(|l| *l)
}

/// records what the router hands to the route (the path after the base path) and what is left over
struct Rec<R> {
    inner: R,
    seen: std::rc::Rc<RefCell<Vec<(String, String)>>>,
}

impl<R: MatchNestedRoutes> MatchNestedRoutes for Rec<R> {
    type Data = R::Data;
    type Match = R::Match;

    fn match_nested<'a>(&'a self, path: &'a str) -> (Option<(RouteMatchId, Self::Match)>, &'a str) {
        let (m, rem) = self.inner.match_nested(path);
        self.seen.borrow_mut().push((path.to_string(), rem.to_string()));
        (m, rem)
    }

    fn generate_routes(&self) -> impl IntoIterator<Item = leptos_router::GeneratedRouteData> + '_ {
        self.inner.generate_routes()
    }
}

/// `{set, base, tree, paths}`: one `I18nNestedRoute`, every path in turn through `RouteDefs::match_route`
pub fn match_nested<L: Locale>(req: &Value) -> Value {
    let base_path = req["base"].as_str().expect("base");
    let route = i18n_route::<L>(base_path, &req["tree"]);
    let seen_log = std::rc::Rc::new(RefCell::new(vec![]));
    let defs = RouteDefs::new_with_base(Rec { inner: route, seen: seen_log.clone() }, base_path.to_string());
    let mut results = vec![];
    for p in req["paths"].as_array().expect("paths") {
        let p = p.as_str().expect("path");
        let m = defs.match_route(p);
        let seen = seen_log.borrow_mut().pop();
        let after = route_locale_now();
        let (inner_path, remaining) = match seen {
            Some((a, b)) => (Some(a), Some(b)),
            None => (None, None),
        };
        results.push(match m {
            None => json!({"matched": null, "locale": null, "params": [], "prefix": null,
                           "inner_path": inner_path, "remaining": remaining, "route_locale_after": after}),
            Some(m) => {
                let params = params_json(MatchParams::to_params(&m));
                let prefix = MatchInterface::as_matched(&m).to_string();
                let locale = m.locale.map(idx);
                json!({"matched": leaf_path::<L>(m.inner_match), "locale": locale, "params": params, "prefix": prefix,
                       "inner_path": inner_path, "remaining": remaining, "route_locale_after": after})
            }
        });
    }
    json!({"results": results})
}

/// `{set, tree, paths}`: leptos_router alone — the same tree shape without localized segments, as the base route
/// `NestedRoute::new(StaticSegment(""), ()).child(children)`, matched by `RouteDefs::match_route` (no base path)
pub fn plain_match<L: Locale>(req: &Value) -> Value {
    let defs = RouteDefs::new(base::<L>(&req["tree"]));
    let mut results = vec![];
    for p in req["paths"].as_array().expect("paths") {
        let p = p.as_str().expect("path");
        results.push(match defs.match_route(p) {
            None => json!({"matched": null, "params": []}),
            Some(m) => {
                let params = params_json(MatchParams::to_params(&m));
                json!({"matched": leaf_path::<L>(m), "params": params})
            }
        });
    }
    json!({"results": results})
}

fn seg_json(s: &PathSegment) -> Value {
    match s {
        PathSegment::Unit => json!(["u"]),
        PathSegment::Static(x) => json!(["s", x]),
        PathSegment::Param(x) => json!(["p", x]),
        PathSegment::OptionalParam(x) => json!(["o", x]),
        PathSegment::Splat(x) => json!(["w", x]),
    }
}

fn rows_json(rows: &[Vec<PathSegment>]) -> Value {
    Value::Array(rows.iter().map(|r| Value::Array(r.iter().map(seg_json).collect())).collect())
}

/// `{set, base, tree}`: the per-locale tables of `generate_routes_for_each_locale` (what `i18n_routing` stores in
/// `RouteSegments` for `get_new_path`) and the N+1 families of `generate_routes`
pub fn route_tables<L: Locale>(req: &Value) -> Value {
    let base_path = req["base"].as_str().expect("base");
    let route = i18n_route::<L>(base_path, &req["tree"]);
    let tables = route.generate_routes_for_each_locale();
    let after_tables = route_locale_now();
    let mut t = serde_json::Map::new();
    for (l, rows) in &tables {
        t.insert(idx(*l).to_string(), rows_json(rows));
    }
    let routes: Vec<Vec<PathSegment>> = MatchNestedRoutes::generate_routes(&route).into_iter().map(|g| g.segments).collect();
    let after_routes = route_locale_now();
    // a second pass gives the same answer (no state left behind)
    let again = route.generate_routes_for_each_locale();
    json!({"tables": t, "routes": rows_json(&routes), "stable": again == tables,
           "route_locale_after": [after_tables, after_routes]})
}
