//! Router harness (kind U): a JSON-line server around the *private* path functions of
//! `leptos_i18n_router/src/routing.rs`, compiled from /repo's working tree as it is.
//! No hook in /repo: the file is `include!`d into a module that adds plain-string wrappers.
//! Ops `match_nested` / `plain_match` / `route_tables` (src/nested.rs) build a native `I18nNestedRoute` from a JSON
//! route tree and drive `match_nested`, `generate_routes`, `generate_routes_for_each_locale`.
#![allow(dead_code, unused_imports, non_camel_case_types, unexpected_cfgs, clippy::all)]
use leptos_i18n::Locale;
use serde_json::{json, Value};
use std::io::{BufRead, Write};

mod routing {
    include!("/repo/leptos_i18n_router/src/routing.rs");

    pub mod verif {
        use super::*;
        use serde_json::Value;

        /// `["u"]`, `["s","about"]`, `["p","id"]`, `["o","id"]`, `["w","rest"]`
        pub fn pattern(v: &Value) -> Vec<PathSegment> {
            v.as_array()
                .expect("pattern: array")
                .iter()
                .map(|s| {
                    let a = s.as_array().expect("segment: array");
                    let k = a[0].as_str().expect("segment kind");
                    let val = || a[1].as_str().expect("segment value").to_string();
                    match k {
                        "u" => PathSegment::Unit,
                        "s" => PathSegment::Static(val().into()),
                        "p" => PathSegment::Param(val().into()),
                        "o" => PathSegment::OptionalParam(val().into()),
                        "w" => PathSegment::Splat(val().into()),
                        other => panic!("bad segment kind {other}"),
                    }
                })
                .collect()
        }

        pub fn tables(v: &Value) -> Vec<Vec<PathSegment>> {
            v.as_array().expect("tables: array").iter().map(pattern).collect()
        }

        pub fn locale_from_path<L: Locale>(p: &str, b: &str) -> Option<L> {
            get_locale_from_path::<L>(p, b)
        }

        #[allow(clippy::too_many_arguments)]
        pub fn new_path<L: Locale>(
            path: &str,
            search: &str,
            hash: &str,
            base: &str,
            new_locale: L,
            locale: Option<L>,
            tables: HashMap<L, Vec<Vec<PathSegment>>>,
        ) -> String {
            let (p, s, h) = (path.to_string(), search.to_string(), hash.to_string());
            let location = Location {
                pathname: Memo::new(move |_| p.clone()),
                search: Memo::new(move |_| s.clone()),
                query: Memo::new(move |_| Default::default()),
                hash: Memo::new(move |_| h.clone()),
                state: RwSignal::new(leptos_router::location::State::new(None)).read_only(),
            };
            let segments = RouteSegments::<L>(Arc::new(Mutex::new(tables)));
            get_new_path(&location, base, new_locale, locale, segments)
        }

        pub fn match_segments(segs: &[&str], pat: &[PathSegment]) -> Option<Vec<usize>> {
            match_path_segments(segs, pat).map(|s| {
                let mut v: Vec<usize> = s.into_iter().collect();
                v.sort();
                v
            })
        }

        pub fn construct(segs: &[&str], pat: &[PathSegment], optionals: &[usize]) -> String {
            let set: HashSet<usize> = optionals.iter().copied().collect();
            let mut pb = PathBuilder::default();
            construct_path_segments(segs, pat, &mut pb, &set);
            pb.build()
        }

        pub fn localize(path: &str, old: &[Vec<PathSegment>], new: &[Vec<PathSegment>]) -> (bool, String) {
            let mut pb = PathBuilder::default();
            let ok = localize_path(path, old, new, &mut pb).is_some();
            (ok, pb.build())
        }

        pub fn path_builder(pushes: &[&str]) -> String {
            let mut pb = PathBuilder::default();
            for p in pushes {
                pb.push(p);
            }
            pb.build()
        }
    }

    /// native `I18nNestedRoute` built from a JSON route tree (ops `match_nested`, `plain_match`, `route_tables`)
    pub mod nested {
        include!("nested.rs");
    }
}

mod sets;

use leptos::prelude::Owner;
use routing::{nested, verif};

fn match_nested<L: Locale>(req: &Value) -> Value {
    Owner::new().with(|| nested::match_nested::<L>(req))
}

fn plain_match<L: Locale>(req: &Value) -> Value {
    Owner::new().with(|| nested::plain_match::<L>(req))
}

fn route_tables<L: Locale>(req: &Value) -> Value {
    Owner::new().with(|| nested::route_tables::<L>(req))
}

fn s<'a>(req: &'a Value, k: &str) -> &'a str {
    req[k].as_str().unwrap_or_else(|| panic!("missing string field {k}"))
}

fn strs<'a>(req: &'a Value, k: &str) -> Vec<&'a str> {
    req[k].as_array().unwrap_or_else(|| panic!("missing array field {k}")).iter().map(|x| x.as_str().expect("string")).collect()
}

fn idx<L: Locale>(l: L) -> usize {
    L::get_all().iter().position(|x| *x == l).unwrap()
}

fn loc<L: Locale>(v: &Value) -> Option<L> {
    if v.is_null() {
        None
    } else {
        Some(L::get_all()[v.as_u64().expect("locale index") as usize])
    }
}

/// `{"0": tables, "2": tables}`: locale index -> route tables (absent = no entry in the map)
fn tables_map<L: Locale>(v: &Value) -> std::collections::HashMap<L, Vec<Vec<leptos_router::PathSegment>>> {
    let mut m = std::collections::HashMap::new();
    if let Some(o) = v.as_object() {
        for (k, t) in o {
            let i: usize = k.parse().expect("locale index key");
            m.insert(L::get_all()[i], verif::tables(t));
        }
    }
    m
}

fn locales<L: Locale>() -> Value {
    json!({
        "names": L::get_all().iter().map(|l| l.as_str()).collect::<Vec<_>>(),
        "default": idx(L::default()),
    })
}

fn locale_from_path<L: Locale>(req: &Value) -> Value {
    json!({"locale": verif::locale_from_path::<L>(s(req, "path"), s(req, "base")).map(idx)})
}

fn new_path<L: Locale>(req: &Value) -> Value {
    let out = Owner::new().with(|| {
        verif::new_path::<L>(
            s(req, "path"),
            s(req, "search"),
            s(req, "hash"),
            s(req, "base"),
            loc::<L>(&req["new"]).expect("new locale"),
            loc::<L>(&req["locale"]),
            tables_map::<L>(&req["tables"]),
        )
    });
    json!({"out": out})
}

/// a sequence of locale switches: every step calls `get_new_path` with the previous locale;
/// `paths[i]` is the pathname after step i (search/hash empty), `outs[i]` the full URL
fn switch_seq<L: Locale>(req: &Value) -> Value {
    let (search, hash, base) = (s(req, "search"), s(req, "hash"), s(req, "base"));
    let mut path = s(req, "path").to_string();
    let mut cur = loc::<L>(&req["locale"]);
    let mut outs = vec![];
    let mut paths = vec![];
    let mut reads = vec![];
    for step in req["seq"].as_array().expect("seq") {
        let new = loc::<L>(step).expect("seq entry");
        let (full, p) = Owner::new().with(|| {
            (
                verif::new_path::<L>(&path, search, hash, base, new, cur, tables_map::<L>(&req["tables"])),
                verif::new_path::<L>(&path, "", "", base, new, cur, tables_map::<L>(&req["tables"])),
            )
        });
        reads.push(verif::locale_from_path::<L>(&p, base).map(idx));
        outs.push(full);
        paths.push(p.clone());
        path = p;
        cur = Some(new);
    }
    json!({"outs": outs, "paths": paths, "reads": reads})
}

macro_rules! with_set {
    ($set:expr, $f:ident $(, $arg:expr)*) => {
        match $set {
            "A" => $f::<sets::a::i18n::Locale>($($arg),*),
            "B" => $f::<sets::b::i18n::Locale>($($arg),*),
            "C" => $f::<sets::c::i18n::Locale>($($arg),*),
            "D" => $f::<sets::d::i18n::Locale>($($arg),*),
            other => json!({"bad_op": format!("unknown set {other}")}),
        }
    };
}

fn handle(req: &Value) -> Value {
    let op = req["op"].as_str().unwrap_or("");
    let set = req["set"].as_str().unwrap_or("");
    match op {
        "locales" => with_set!(set, locales),
        "locale_from_path" => with_set!(set, locale_from_path, req),
        "new_path" => with_set!(set, new_path, req),
        "switch_seq" => with_set!(set, switch_seq, req),
        "match_nested" => with_set!(set, match_nested, req),
        "plain_match" => with_set!(set, plain_match, req),
        "route_tables" => with_set!(set, route_tables, req),
        "match_segments" => {
            let pat = verif::pattern(&req["pattern"]);
            json!({"optionals": verif::match_segments(&strs(req, "segs"), &pat)})
        }
        "construct" => {
            let pat = verif::pattern(&req["pattern"]);
            let opts: Vec<usize> = req["optionals"].as_array().expect("optionals").iter().map(|x| x.as_u64().unwrap() as usize).collect();
            json!({"built": verif::construct(&strs(req, "segs"), &pat, &opts)})
        }
        "localize" => {
            let old = verif::tables(&req["old"]);
            let new = verif::tables(&req["new"]);
            let (ok, built) = verif::localize(s(req, "path"), &old, &new);
            json!({"localized": ok, "built": built})
        }
        "path_builder" => json!({"built": verif::path_builder(&strs(req, "pushes"))}),
        _ => json!({"bad_op": format!("unknown op {op}")}),
    }
}

fn main() {
    let stdin = std::io::stdin();
    let stdout = std::io::stdout();
    let mut out = std::io::BufWriter::new(stdout.lock());
    std::panic::set_hook(Box::new(|_| {}));
    for line in stdin.lock().lines() {
        let line = line.unwrap();
        if line.trim().is_empty() {
            continue;
        }
        let req: Value = serde_json::from_str(&line).expect("bad json line");
        let res = match std::panic::catch_unwind(|| handle(&req)) {
            Ok(v) => v,
            Err(e) => {
                let msg = e.downcast_ref::<String>().cloned().or_else(|| e.downcast_ref::<&str>().map(|s| s.to_string())).unwrap_or_default();
                json!({"panic": msg})
            }
        };
        writeln!(out, "{}", res).unwrap();
    }
    out.flush().unwrap();
}
