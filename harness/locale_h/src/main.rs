//! C13 harness: a JSON-line server around the generated `Locale` enums (identity methods, `FromStr`, serde,
//! the cookie codec, `ScopedLocale`) with the ICU4X oracle computed from the configured *names*.
#![allow(dead_code, unused_imports, non_camel_case_types)]
use codee::{string::FromToStringCodec, Decoder, Encoder};
use leptos_i18n::Locale;
use leptos_i18n_parser::parse_locales::cfg_file::ConfigFile;
use serde_json::{json, Value};
use std::io::{BufRead, Write};
use std::str::FromStr;

mod sets;

fn dir_text(d: Option<icu_locid_transform::Direction>) -> &'static str {
    match d {
        Some(icu_locid_transform::Direction::LeftToRight) => "ltr",
        Some(icu_locid_transform::Direction::RightToLeft) => "rtl",
        _ => "auto",
    }
}

/// ICU4X applied directly to a configured name
fn oracle(name: &str) -> Value {
    // CLDR oracle: script directions + the *complete* likely-subtags data (`new_extended`);
    // `direction_basic` is what the limited data of `LocaleDirectionality::new()` gives
    let ld = icu_locid_transform::LocaleDirectionality::new_with_expander(icu_locid_transform::LocaleExpander::new_extended());
    let ld_basic = icu_locid_transform::LocaleDirectionality::new();
    let loc = name.parse::<icu_locid::Locale>();
    let lid = name.parse::<icu_locid::LanguageIdentifier>();
    json!({
        "icu": loc.as_ref().ok().map(|l| l.to_string()),
        "langid": lid.as_ref().ok().map(|l| l.to_string()),
        "direction": lid.as_ref().ok().map(|l| dir_text(ld.get(l))),
        "direction_basic": lid.as_ref().ok().map(|l| dir_text(ld_basic.get(l))),
        "script": lid.as_ref().ok().and_then(|l| l.script.map(|s| s.as_str().to_string())),
    })
}

/// every identity method of a `Locale<BL>` implementor (the enum itself or a `ScopedLocale` around it)
fn identity<BL: Locale, L: Locale<BL>>(l: L) -> Value {
    let all = BL::get_all();
    let base = l.to_base_locale();
    let as_ref_str: &str = l.as_ref();
    let as_ref_langid: &icu_locid::LanguageIdentifier = l.as_ref();
    let as_ref_icu: &icu_locid::Locale = l.as_ref();
    let as_ref_base: &BL = l.as_ref();
    json!({
        "as_str": l.as_str(),
        "display": l.to_string(),
        "debug": format!("{:?}", l),
        "as_ref_str": as_ref_str,
        "icu": l.as_icu_locale().to_string(),
        "langid": l.as_langid().to_string(),
        "as_ref_icu": as_ref_icu.to_string(),
        "as_ref_langid": as_ref_langid.to_string(),
        "direction": l.direction().as_str(),
        "direction_display": l.direction().to_string(),
        "serde": serde_json::to_string(&l).ok(),
        "cookie": <FromToStringCodec as Encoder<L>>::encode(&l).ok(),
        "serde_bincode_roundtrip": bincode::serialize(&l).ok().map(|b| matches!(bincode::deserialize::<L>(&b), Ok(x) if x == l)),
        "serde_postcard_roundtrip": postcard::to_stdvec(&l).ok().map(|b| matches!(postcard::from_bytes::<L>(&b), Ok(x) if x == l)),
        "base_index": all.iter().position(|x| *x == base),
        "as_ref_base_index": all.iter().position(|x| x == as_ref_base),
        "from_base_roundtrip": L::from_base_locale(base) == l,
        "get_all": <L as Locale<BL>>::get_all().iter().map(|x| x.as_str()).collect::<Vec<_>>(),
        "is_default": l == L::default(),
    })
}

fn describe<L: Locale>(sub: fn(L) -> Value) -> Value {
    let all = L::get_all();
    let locales: Vec<Value> = all
        .iter()
        .enumerate()
        .map(|(i, l)| {
            let root = leptos_i18n::__private::scope_locale_util(*l, |k| k);
            json!({
                "index": i,
                "direct": identity::<L, L>(*l),
                "scoped_root": identity::<L, _>(root),
                "scoped_sub": sub(*l),
                "oracle": oracle(l.as_str()),
            })
        })
        .collect();
    json!({
        "locales": locales,
        "default": L::default().as_str(),
        "default_index": all.iter().position(|x| *x == L::default()),
    })
}

fn parsed<BL: Locale, L: Locale<BL>>(l: Option<L>) -> Value {
    match l {
        Some(l) => {
            let b = l.to_base_locale();
            json!({"ok": BL::get_all().iter().position(|x| *x == b), "name": l.as_str()})
        }
        None => json!({"err": true}),
    }
}

fn parse_as<BL: Locale, L: Locale<BL>>(s: &str) -> Value {
    let js = serde_json::to_string(s).unwrap();
    // the three visitor entry points: borrowed str, transient str (reader), owned string (from a `Value`)
    let de_borrowed = serde_json::from_str::<L>(&js).ok();
    let de_reader = serde_json::from_reader::<_, L>(js.as_bytes()).ok();
    let de_value = serde_json::from_value::<L>(Value::String(s.to_string())).ok();
    let cookie = <FromToStringCodec as Decoder<L>>::decode(s).ok();
    let re = cookie.and_then(|l| <FromToStringCodec as Encoder<L>>::encode(&l).ok());
    let re2 = re.as_deref().and_then(|e| <FromToStringCodec as Decoder<L>>::decode(e).ok());
    json!({
        "from_str": parsed::<BL, L>(<L as FromStr>::from_str(s).ok()),
        "serde": parsed::<BL, L>(de_borrowed),
        "serde_reader": parsed::<BL, L>(de_reader),
        "serde_value": parsed::<BL, L>(de_value),
        "cookie": parsed::<BL, L>(cookie),
        "cookie_reencoded": re,
        "cookie_redecoded": parsed::<BL, L>(re2),
    })
}

fn parse<L: Locale>(req: &Value, sub: fn(&str) -> Value) -> Value {
    let s = req["s"].as_str().expect("s");
    // a JSON value that is not a string is not a locale at all
    let non_string = ["null", "0", "true", "[\"en\"]", "{\"en\":1}"]
        .iter()
        .map(|j| serde_json::from_str::<L>(j).is_err())
        .all(|e| e);
    fn root_of<L: Locale>(l: L) -> impl Locale<L> {
        leptos_i18n::__private::scope_locale_util(l, |k| k)
    }
    fn via<L: Locale, SL: Locale<L>>(_: fn(L) -> SL, s: &str) -> Value {
        parse_as::<L, SL>(s)
    }
    json!({
        "direct": parse_as::<L, L>(s),
        "scoped_root": via::<L, _>(root_of::<L>, s),
        "scoped_sub": sub(s),
        "non_string_json_rejected": non_string,
    })
}

/// `ConfigFile::new` on a manifest with the given `default` / `locales` (raw strings)
fn cfg(req: &Value) -> Value {
    let default = req["default"].as_str().expect("default");
    let locales: Vec<&str> = req["locales"].as_array().expect("locales").iter().map(|v| v.as_str().expect("str")).collect();
    let dir = std::env::temp_dir().join(format!("locale_h_cfg_{}", std::process::id()));
    std::fs::create_dir_all(&dir).unwrap();
    let toml = format!(
        "[package]\nname = \"x\"\nversion = \"0.0.0\"\n\n[package.metadata.leptos-i18n]\ndefault = {}\nlocales = [{}]\n",
        serde_json::to_string(default).unwrap(),
        locales.iter().map(|l| serde_json::to_string(l).unwrap()).collect::<Vec<_>>().join(", ")
    );
    std::fs::write(dir.join("Cargo.toml"), toml).unwrap();
    let mut d = dir.clone();
    let r = match ConfigFile::new(&mut d) {
        Ok(c) => json!({"ok": c.locales.iter().map(|k| k.name.to_string()).collect::<Vec<_>>(), "default": c.default.name.to_string()}),
        Err(e) => {
            let dbg = format!("{:?}", e);
            let kind = dbg.split(|c: char| !c.is_alphanumeric()).find(|p| !p.is_empty() && *p != "Error" && *p != "Box").unwrap_or("?").to_string();
            json!({"err": kind})
        }
    };
    let _ = std::fs::remove_dir_all(&dir);
    r
}

macro_rules! set_ops {
    ($m:ident, $op:expr, $req:expr) => {{
        use sets::$m::i18n::Locale as L;
        match $op {
            "describe" => describe::<L>(|l| identity::<L, _>(leptos_i18n::__private::scope_locale_util(l, |k| k.sk()))),
            "parse" => parse::<L>($req, |s| {
                fn sub_of(l: L) -> impl Locale<L> {
                    leptos_i18n::__private::scope_locale_util(l, |k| k.sk())
                }
                fn via<SL: Locale<L>>(_: fn(L) -> SL, s: &str) -> Value {
                    parse_as::<L, SL>(s)
                }
                via(sub_of, s)
            }),
            other => json!({"bad_op": format!("unknown op {other}")}),
        }
    }};
}

fn handle(req: &Value) -> Value {
    let op = req["op"].as_str().unwrap_or("");
    if op == "cfg" {
        return cfg(req);
    }
    match req["set"].as_str().unwrap_or("") {
        "S1" => set_ops!(s1, op, req),
        "S2" => set_ops!(s2, op, req),
        "S3" => set_ops!(s3, op, req),
        "S4" => set_ops!(s4, op, req),
        "S5" => set_ops!(s5, op, req),
        other => json!({"bad_op": format!("unknown set {other}")}),
    }
}

fn main() {
    let stdin = std::io::stdin();
    let stdout = std::io::stdout();
    let mut out = std::io::BufWriter::new(stdout.lock());
    std::panic::set_hook(Box::new(|_| {}));
    for line in stdin.lock().lines() {
        let line = line.unwrap();
        if line.trim().is_empty() {
            continue;
        }
        let req: Value = serde_json::from_str(&line).expect("bad json line");
        let res = match std::panic::catch_unwind(|| handle(&req)) {
            Ok(v) => v,
            Err(e) => {
                let msg = e.downcast_ref::<String>().cloned().or_else(|| e.downcast_ref::<&str>().map(|s| s.to_string())).unwrap_or_default();
                json!({"panic": msg})
            }
        };
        writeln!(out, "{}", res).unwrap();
    }
    out.flush().unwrap();
}
