//! Locale enums of the C13 harness.  `declare_locales!` and `load_locales!` both end in
//! `load_locales_inner` -> `create_locales_enum` (leptos_i18n_macro/src/load_locales/mod.rs).
//! `declare_locales!` insists on the default being the first entry of `locales:`; the sets whose
//! default is listed last / not listed (S2, S3) are therefore real `load_locales!` crates (../s2, ../s3).

/// S1: regions, scripts, variants, near-duplicates, RTL languages
pub mod s1 {
    leptos_i18n::declare_locales! {
        path: leptos_i18n,
        default: "en",
        locales: ["en", "en-US", "en-GB", "fr", "fr-CA", "ar", "he", "fa", "ur", "zh-Hant-TW", "sr-Latn", "ca-ES-valencia"],
        en: { sk: { ssk: "w" }, }, en_US: { sk: { ssk: "w" }, }, en_GB: { sk: { ssk: "w" }, }, fr: { sk: { ssk: "w" }, },
        fr_CA: { sk: { ssk: "w" }, }, ar: { sk: { ssk: "w" }, }, he: { sk: { ssk: "w" }, }, fa: { sk: { ssk: "w" }, },
        ur: { sk: { ssk: "w" }, }, zh_Hant_TW: { sk: { ssk: "w" }, }, sr_Latn: { sk: { ssk: "w" }, },
        ca_ES_valencia: { sk: { ssk: "w" }, },
    }
}
/// S2: default listed last in the configuration
pub mod s2 {
    pub use locale_s2::i18n;
}
/// S3: default not listed in the configuration
pub mod s3 {
    pub use locale_s3::i18n;
}
/// S4: a single locale
pub mod s4 {
    leptos_i18n::declare_locales! {
        path: leptos_i18n,
        default: "sr-Latn",
        locales: ["sr-Latn"],
        sr_Latn: { sk: { ssk: "w" }, },
    }
}
/// S5: direction decided by the script subtag / by likely subtags / unknown (`Auto`), names that ICU
/// canonicalises (case, `_` separator), `und`
pub mod s5 {
    leptos_i18n::declare_locales! {
        path: leptos_i18n,
        default: "pa-Arab",
        locales: ["pa-Arab", "pa", "az", "az-Arab", "uz-Arab-AF", "ks", "yi", "dv", "ps", "sd", "ckb", "xx", "FR-ch",
                  "en_AU", "zh-Hans", "ja", "und", "sr", "sr-Cyrl-RS", "ha-Arab", "ug", "syr", "nqo", "mzn", "gv",
                  // no script subtag, and the region (not the language alone) decides the likely script
                  "pa-PK", "uz-AF", "az-IR", "sd-IN", "ug-KZ"],
        pa_Arab: { sk: { ssk: "w" }, }, pa: { sk: { ssk: "w" }, }, az: { sk: { ssk: "w" }, }, az_Arab: { sk: { ssk: "w" }, },
        uz_Arab_AF: { sk: { ssk: "w" }, }, ks: { sk: { ssk: "w" }, }, yi: { sk: { ssk: "w" }, }, dv: { sk: { ssk: "w" }, },
        ps: { sk: { ssk: "w" }, }, sd: { sk: { ssk: "w" }, }, ckb: { sk: { ssk: "w" }, }, xx: { sk: { ssk: "w" }, },
        FR_ch: { sk: { ssk: "w" }, }, en_AU: { sk: { ssk: "w" }, }, zh_Hans: { sk: { ssk: "w" }, }, ja: { sk: { ssk: "w" }, },
        und: { sk: { ssk: "w" }, }, sr: { sk: { ssk: "w" }, }, sr_Cyrl_RS: { sk: { ssk: "w" }, }, ha_Arab: { sk: { ssk: "w" }, },
        ug: { sk: { ssk: "w" }, }, syr: { sk: { ssk: "w" }, }, nqo: { sk: { ssk: "w" }, }, mzn: { sk: { ssk: "w" }, },
        gv: { sk: { ssk: "w" }, },
        pa_PK: { sk: { ssk: "w" }, }, uz_AF: { sk: { ssk: "w" }, }, az_IR: { sk: { ssk: "w" }, }, sd_IN: { sk: { ssk: "w" }, },
        ug_KZ: { sk: { ssk: "w" }, },
    }
}
