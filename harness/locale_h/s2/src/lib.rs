//! A user crate whose `Locale` enum comes from `load_locales!` (configuration read from this crate's Cargo.toml
//! through the real `ConfigFile::new`, which moves / inserts the default locale at index 0).
leptos_i18n::load_locales!();
