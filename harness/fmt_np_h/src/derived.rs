//! The DOCUMENTED way to plug a custom ICU data provider (book: `reduce_size/01_datagen.md`, section 3):
//! `#[derive(leptos_i18n::custom_provider::IcuDataProvider)]` on a struct that implements
//! `icu_provider::DataProvider<M>` for the markers the formatters need.  The derive
//! (`/repo/leptos_i18n_macro/src/data_provider.rs`) generates the nine `try_new_*` methods of the trait, each calling
//! the ICU4X constructor `try_new_*_unstable(self, locale, options)`; nothing here is hand-written on that side.
//!
//! `DerivedProvider` answers every `DataProvider<M>::load` by delegating to the baked provider of the ICU crate that
//! owns the marker (`icu_*::provider::Baked`: the very data, with the built-in locale fallback, behind ICU4X's
//! compiled-data constructors, which are themselves `try_new_*_unstable(&Baked, ..)`), and records the load
//! (`{"m": "load", "key": <data key path>, "locale": <requested data locale>}`) in the same log as the hand-written provider.
//!
//! Markers: the union of the bounds of the nine `_unstable` constructors the derive calls (the compiler checks the list:
//! a missing one is a build error in the derived impl).
use icu_provider::{DataError, DataProvider, DataRequest, DataResponse, KeyedDataMarker};

#[derive(leptos_i18n::custom_provider::IcuDataProvider)]
pub struct DerivedProvider;

macro_rules! delegate {
    ($baked:path => $($m:path),* $(,)?) => { $(
        impl DataProvider<$m> for DerivedProvider {
            fn load(&self, req: DataRequest) -> Result<DataResponse<$m>, DataError> {
                crate::record_load(<$m as KeyedDataMarker>::KEY.path().get(), req.locale);
                DataProvider::<$m>::load(&$baked, req)
            }
        }
    )* };
}

// FixedDecimalFormatter (number); also asked by the date/time/datetime and currency constructors
delegate!(icu_decimal::provider::Baked => icu_decimal::provider::DecimalSymbolsV1Marker);

// PluralRules (plural keys); OrdinalV1Marker is also a bound of the date/datetime constructors
delegate!(icu_plurals::provider::Baked =>
    icu_plurals::provider::CardinalV1Marker,
    icu_plurals::provider::OrdinalV1Marker,
);

// ListFormatter: and / or / unit
delegate!(icu_list::provider::Baked =>
    icu_list::provider::AndListV1Marker,
    icu_list::provider::OrListV1Marker,
    icu_list::provider::UnitListV1Marker,
);

// CurrencyFormatter
delegate!(icu_experimental::provider::Baked =>
    icu_experimental::dimension::provider::currency::CurrencyEssentialsV1Marker,
);

// DateFormatter / TimeFormatter / DateTimeFormatter (the AnyCalendar ones): calendar data ...
delegate!(icu_calendar::provider::Baked =>
    icu_calendar::provider::WeekDataV1Marker,
    icu_calendar::provider::JapaneseErasV1Marker,
    icu_calendar::provider::JapaneseExtendedErasV1Marker,
    icu_calendar::provider::chinese_based::ChineseCacheV1Marker,
    icu_calendar::provider::chinese_based::DangiCacheV1Marker,
    icu_calendar::provider::islamic::IslamicObservationalCacheV1Marker,
    icu_calendar::provider::islamic::IslamicUmmAlQuraCacheV1Marker,
);

// ... and the patterns and symbols of every calendar an AnyCalendar can be
delegate!(icu_datetime::provider::Baked =>
    icu_datetime::provider::calendar::TimeSymbolsV1Marker,
    icu_datetime::provider::calendar::TimeLengthsV1Marker,
    icu_datetime::provider::calendar::BuddhistDateLengthsV1Marker,
    icu_datetime::provider::calendar::BuddhistDateSymbolsV1Marker,
    icu_datetime::provider::calendar::ChineseDateLengthsV1Marker,
    icu_datetime::provider::calendar::ChineseDateSymbolsV1Marker,
    icu_datetime::provider::calendar::CopticDateLengthsV1Marker,
    icu_datetime::provider::calendar::CopticDateSymbolsV1Marker,
    icu_datetime::provider::calendar::DangiDateLengthsV1Marker,
    icu_datetime::provider::calendar::DangiDateSymbolsV1Marker,
    icu_datetime::provider::calendar::EthiopianDateLengthsV1Marker,
    icu_datetime::provider::calendar::EthiopianDateSymbolsV1Marker,
    icu_datetime::provider::calendar::GregorianDateLengthsV1Marker,
    icu_datetime::provider::calendar::GregorianDateSymbolsV1Marker,
    icu_datetime::provider::calendar::HebrewDateLengthsV1Marker,
    icu_datetime::provider::calendar::HebrewDateSymbolsV1Marker,
    icu_datetime::provider::calendar::IndianDateLengthsV1Marker,
    icu_datetime::provider::calendar::IndianDateSymbolsV1Marker,
    icu_datetime::provider::calendar::IslamicDateLengthsV1Marker,
    icu_datetime::provider::calendar::IslamicDateSymbolsV1Marker,
    icu_datetime::provider::calendar::JapaneseDateLengthsV1Marker,
    icu_datetime::provider::calendar::JapaneseDateSymbolsV1Marker,
    icu_datetime::provider::calendar::JapaneseExtendedDateLengthsV1Marker,
    icu_datetime::provider::calendar::JapaneseExtendedDateSymbolsV1Marker,
    icu_datetime::provider::calendar::PersianDateLengthsV1Marker,
    icu_datetime::provider::calendar::PersianDateSymbolsV1Marker,
    icu_datetime::provider::calendar::RocDateLengthsV1Marker,
    icu_datetime::provider::calendar::RocDateSymbolsV1Marker,
);
