//! Formatter harness for the CUSTOM ICU DATA PROVIDER build (C18): `leptos_i18n` is compiled WITHOUT the
//! `icu_compiled_data` feature, so `impl IcuDataProvider for BakedDataProvider` is the one that forwards every
//! constructor to the provider installed with `leptos_i18n::custom_provider::set_icu_data_provider`
//! (`/repo/leptos_i18n/src/macro_helpers/formatting/mod.rs`, the `#[cfg(not(feature = "icu_compiled_data"))]` half;
//! book: `reduce_size/01_datagen.md`).
//!
//! The provider installed here implements every method of the trait by calling the ICU4X constructor of the same
//! meaning with ICU4X's own compiled data, and records each call (method, data locale, options).
//!
//! The whole line server of `fmt_h` is reused as a module (`#[path]`): same ops, same request/response shapes
//! (`locales`, `table`, `format`, `table_format`, `history`, `race`), same compiled-in table of 62 option
//! combinations x 8 locales declared with `declare_locales!`, same oracle (ICU4X called directly).
//! Added ops:
//!   {"op":"provider_log"}                         -> {"calls": [{"m", "locale", "opts"}, ...], "project_locales": [..]}
//!                                                    every constructor call the provider has received so far, in order
//!   {"op":"project", locale, key, value}          -> {"string", "display"}   small `load_locales!` project (locales/*.json)
//!   {"op":"plural", locale, rule, n}              -> {"impl", "string", "oracle"}  plural category through
//!                                                    `get_plural_rules` / the `items` | `rank` keys / ICU4X directly
#![allow(non_snake_case, non_camel_case_types, dead_code, unused_imports, clippy::all)]
use leptos_i18n::Locale as _;
use serde_json::{json, Value};
use std::io::{BufRead, Write};
use std::str::FromStr;
use std::sync::Mutex;

use fixed_decimal::FixedDecimal;
use icu_calendar::{AnyCalendar, Date, DateTime, Time};
use icu_datetime::options::{length, DateTimeFormatterOptions};
use icu_datetime::{DateFormatter, DateTimeError, DateTimeFormatter, TimeFormatter};
use icu_decimal::options::FixedDecimalFormatterOptions;
use icu_decimal::{DecimalError, FixedDecimalFormatter};
use icu_experimental::dimension::currency::formatter::CurrencyFormatter;
use icu_experimental::dimension::currency::options::CurrencyFormatterOptions;
use icu_list::{ListError, ListFormatter, ListLength};
use icu_plurals::{PluralCategory, PluralRuleType, PluralRules, PluralsError};
use icu_provider::{DataError, DataLocale};

#[path = "/verif/harness/fmt_h/src/main.rs"]
mod server;

// the small translation project: locales/{en,fr,ru,ar}.json, `[package.metadata.leptos-i18n]` of Cargo.toml
leptos_i18n::load_locales!();
use i18n::Locale;

// ---------------------------------------------------------------------------------------------- the custom provider

static CALLS: Mutex<Vec<Value>> = Mutex::new(Vec::new());

fn record(m: &str, locale: &DataLocale, opts: Vec<String>) {
    let mut g = CALLS.lock().unwrap_or_else(std::sync::PoisonError::into_inner);
    g.push(json!({"m": m, "locale": locale.to_string(), "opts": opts}));
}

fn word(x: &dyn std::fmt::Debug) -> String {
    format!("{x:?}").to_lowercase()
}

/// hands out formatters built from the ICU crates' own compiled data: method `try_new_X` -> the ICU4X constructor
/// the compiled-data build of leptos_i18n calls for X
struct CompiledDataProvider;

impl leptos_i18n::custom_provider::IcuDataProvider for CompiledDataProvider {
    fn try_new_num_formatter(&self, locale: &DataLocale, options: FixedDecimalFormatterOptions) -> Result<FixedDecimalFormatter, DecimalError> {
        record("num", locale, vec![word(&options.grouping_strategy)]);
        FixedDecimalFormatter::try_new(locale, options)
    }

    fn try_new_date_formatter(&self, locale: &DataLocale, length: length::Date) -> Result<DateFormatter, DateTimeError> {
        record("date", locale, vec![word(&length)]);
        DateFormatter::try_new_with_length(locale, length)
    }

    fn try_new_time_formatter(&self, locale: &DataLocale, length: length::Time) -> Result<TimeFormatter, DateTimeError> {
        record("time", locale, vec![word(&length)]);
        TimeFormatter::try_new_with_length(locale, length)
    }

    fn try_new_datetime_formatter(&self, locale: &DataLocale, options: DateTimeFormatterOptions) -> Result<DateTimeFormatter, DateTimeError> {
        let opts = match &options {
            DateTimeFormatterOptions::Length(bag) => vec![
                bag.date.map(|d| word(&d)).unwrap_or_else(|| "none".into()),
                bag.time.map(|t| word(&t)).unwrap_or_else(|| "none".into()),
            ],
            other => vec![format!("not a length bag: {other:?}")],
        };
        record("datetime", locale, opts);
        DateTimeFormatter::try_new(locale, options)
    }

    fn try_new_and_list_formatter(&self, locale: &DataLocale, style: ListLength) -> Result<ListFormatter, ListError> {
        record("and_list", locale, vec![word(&style)]);
        ListFormatter::try_new_and_with_length(locale, style)
    }

    fn try_new_or_list_formatter(&self, locale: &DataLocale, style: ListLength) -> Result<ListFormatter, ListError> {
        record("or_list", locale, vec![word(&style)]);
        ListFormatter::try_new_or_with_length(locale, style)
    }

    fn try_new_unit_list_formatter(&self, locale: &DataLocale, style: ListLength) -> Result<ListFormatter, ListError> {
        record("unit_list", locale, vec![word(&style)]);
        ListFormatter::try_new_unit_with_length(locale, style)
    }

    fn try_new_plural_rules(&self, locale: &DataLocale, rule_type: PluralRuleType) -> Result<PluralRules, PluralsError> {
        record("plural", locale, vec![word(&rule_type)]);
        PluralRules::try_new(locale, rule_type)
    }

    fn try_new_currency_formatter(&self, locale: &DataLocale, options: CurrencyFormatterOptions) -> Result<CurrencyFormatter, DataError> {
        record("currency", locale, vec![word(&options.width)]);
        CurrencyFormatter::try_new(locale, options)
    }
}

// ---------------------------------------------------------------------------------------------- ops of the small project

fn bad(msg: impl Into<String>) -> Value {
    json!({"bad_op": msg.into()})
}

fn locale_of(req: &Value) -> Result<Locale, Value> {
    let name = req["locale"].as_str().ok_or_else(|| bad("missing locale"))?;
    Locale::get_all().iter().copied().find(|l| l.as_str() == name).ok_or_else(|| bad(format!("unknown project locale {name}")))
}

fn ints(v: &Value, n: usize) -> Result<Vec<i64>, Value> {
    let a = v.as_array().ok_or_else(|| bad("value: expected an array"))?;
    if a.len() != n {
        return Err(bad(format!("value: expected {n} numbers")));
    }
    a.iter().map(|x| x.as_i64().ok_or_else(|| bad("value: not an integer"))).collect()
}

fn date_of(v: &[i64]) -> Result<Date<AnyCalendar>, Value> {
    Ok(Date::try_new_iso_date(v[0] as i32, v[1] as u8, v[2] as u8).map_err(|e| bad(format!("bad date: {e}")))?.to_any())
}

fn time_of(v: &[i64]) -> Result<Time, Value> {
    Time::try_new(v[0] as u8, v[1] as u8, v[2] as u8, 0).map_err(|e| bad(format!("bad time: {e}")))
}

fn dec_of(v: &Value) -> Result<FixedDecimal, Value> {
    let s = v["v"].as_str().ok_or_else(|| bad("value: expected {t, v}"))?;
    FixedDecimal::from_str(s).map_err(|_| bad(format!("bad decimal {s}")))
}

fn strs(v: &Value) -> Result<Vec<String>, Value> {
    v.as_array()
        .ok_or_else(|| bad("value: expected an array"))?
        .iter()
        .map(|x| x.as_str().map(|s| s.to_string()).ok_or_else(|| bad("value: not a string")))
        .collect()
}

/// `td_string!` and `td_display!` of one key of the project
macro_rules! both {
    ($loc:expr, $key:ident, $mk:expr) => {{
        let mk = $mk;
        let s = leptos_i18n::td_string!($loc, $key, v = mk()).to_string();
        let d = leptos_i18n::td_display!($loc, $key, v = mk()).to_string();
        Ok(json!({"string": s, "display": d}))
    }};
}

fn op_project(req: &Value) -> Result<Value, Value> {
    let loc = locale_of(req)?;
    let key = req["key"].as_str().ok_or_else(|| bad("missing key"))?;
    let value = &req["value"];
    macro_rules! lists { ($($k:ident),*) => { match key { $( stringify!($k) => { let v = strs(value)?; return both!(loc, $k, || v.clone()); } )* _ => {} } }; }
    macro_rules! nums { ($($k:ident),*) => { match key { $( stringify!($k) => { let v = dec_of(value)?; return both!(loc, $k, || v.clone()); } )* _ => {} } }; }
    lists!(l_and, l_or, l_unit, l_or_narrow, l_unit_short);
    nums!(n_never, n_always, c_narrow_eur, c_usd);
    match key {
        "d_long" => {
            let v = ints(value, 3)?;
            date_of(&v)?;
            both!(loc, d_long, || date_of(&v).unwrap())
        }
        "t_short" => {
            let t = time_of(&ints(value, 3)?)?;
            both!(loc, t_short, || t)
        }
        "dt_medium_short" => {
            let v = ints(value, 6)?;
            let t = time_of(&v[3..6])?;
            date_of(&v[0..3])?;
            both!(loc, dt_medium_short, || DateTime::new(date_of(&v[0..3]).unwrap(), t))
        }
        other => Err(bad(format!("unknown project key {other}"))),
    }
}

fn cat_name(c: PluralCategory) -> &'static str {
    match c {
        PluralCategory::Zero => "zero",
        PluralCategory::One => "one",
        PluralCategory::Two => "two",
        PluralCategory::Few => "few",
        PluralCategory::Many => "many",
        PluralCategory::Other => "other",
    }
}

fn op_plural(req: &Value) -> Result<Value, Value> {
    let loc = locale_of(req)?;
    let name = req["locale"].as_str().unwrap_or("");
    let n = req["n"].as_u64().ok_or_else(|| bad("missing n"))?;
    let (ty, string) = match req["rule"].as_str().unwrap_or("") {
        "cardinal" => (PluralRuleType::Cardinal, leptos_i18n::td_string!(loc, items, count = n).to_string()),
        "ordinal" => (PluralRuleType::Ordinal, leptos_i18n::td_string!(loc, rank, count = n).to_string()),
        other => return Err(bad(format!("bad rule {other}"))),
    };
    let imp = cat_name(leptos_i18n::__private::get_plural_rules(loc, ty).category_for(n));
    let icu_loc = icu_locid::Locale::try_from_bytes(name.as_bytes()).map_err(|e| bad(format!("locale name: {e}")))?;
    let oracle = match PluralRules::try_new(&(&icu_loc).into(), ty) {
        Ok(r) => json!(cat_name(r.category_for(n))),
        Err(e) => return Ok(json!({"impl": imp, "string": string, "oracle_err": format!("{e:?}")})),
    };
    Ok(json!({"impl": imp, "string": string, "oracle": oracle}))
}

// ---------------------------------------------------------------------------------------------- dispatch

fn panic_msg(e: Box<dyn std::any::Any + Send>) -> String {
    e.downcast_ref::<String>().cloned().or_else(|| e.downcast_ref::<&str>().map(|s| s.to_string())).unwrap_or_default()
}

fn handle(req: &Value) -> Value {
    let own = |f: fn(&Value) -> Result<Value, Value>| match std::panic::catch_unwind(|| f(req)) {
        Ok(Ok(v)) | Ok(Err(v)) => v,
        Err(e) => json!({"panic": panic_msg(e)}),
    };
    match req["op"].as_str().unwrap_or("") {
        "provider_log" => {
            let g = CALLS.lock().unwrap_or_else(std::sync::PoisonError::into_inner);
            json!({"calls": g.clone(), "project_locales": Locale::get_all().iter().map(|l| l.as_str()).collect::<Vec<_>>()})
        }
        "project" => own(op_project),
        "plural" => own(op_plural),
        _ => server::handle(req),
    }
}

fn main() {
    leptos_i18n::custom_provider::set_icu_data_provider(CompiledDataProvider);
    let stdin = std::io::stdin();
    let stdout = std::io::stdout();
    let mut out = std::io::BufWriter::new(stdout.lock());
    std::panic::set_hook(Box::new(|_| {}));
    for line in stdin.lock().lines() {
        let line = line.unwrap();
        if line.trim().is_empty() {
            continue;
        }
        let req: Value = serde_json::from_str(&line).expect("bad json line");
        let res = match std::panic::catch_unwind(|| handle(&req)) {
            Ok(v) => v,
            Err(e) => json!({"panic": panic_msg(e)}),
        };
        writeln!(out, "{}", res).unwrap();
    }
    out.flush().unwrap();
}
