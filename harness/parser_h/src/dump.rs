//! Canonical JSON dumps of parser values (mirrored by `lean/Driver/Dump.lean`).
use leptos_i18n_parser::parse_locales::{
    locale::{BuildersKeys, BuildersKeysInner, InterpolOrLit, LiteralType, Locale, LocaleValue, RangeOrPlural},
    parsed_value::{ForeignKey, Literal, ParsedValue},
    plurals::{PluralForm, PluralRuleType, Plurals},
    ranges::{Range, RangeType, Ranges, UntypedRangesInner},
    warning::Warning,
};
use leptos_i18n_parser::utils::{formatter::*, Key, KeyPath};
use serde_json::{json, Value};
use std::ops::Bound;

pub fn fmt(f: &Formatter) -> Value {
    match f {
        Formatter::None => json!({"f": "none"}),
        Formatter::Number(g) => json!({"f": "number", "g": format!("{:?}", g).to_lowercase()}),
        Formatter::Date(d) => json!({"f": "date", "d": format!("{:?}", d).to_lowercase()}),
        Formatter::Time(t) => json!({"f": "time", "t": format!("{:?}", t).to_lowercase()}),
        Formatter::DateTime(d, t) => json!({"f": "datetime", "d": format!("{:?}", d).to_lowercase(), "t": format!("{:?}", t).to_lowercase()}),
        Formatter::List(t, s) => json!({"f": "list", "ty": format!("{:?}", t).to_lowercase(), "st": format!("{:?}", s).to_lowercase()}),
        Formatter::Currency(w, c) => json!({"f": "currency", "w": format!("{:?}", w).to_lowercase(), "c": c.0.as_str()}),
    }
}

pub fn key_path(p: &KeyPath) -> Value {
    json!({"ns": p.namespace.as_ref().map(|k| k.name.to_string()), "path": p.path.iter().map(|k| k.name.to_string()).collect::<Vec<_>>()})
}

pub fn lit(l: &Literal) -> Value {
    match l {
        Literal::String(s, i) => json!({"t": "lit", "k": "str", "s": s, "i": if *i == usize::MAX { Value::Null } else { json!(i) }}),
        Literal::Signed(v) => json!({"t": "lit", "k": "signed", "v": v}),
        Literal::Unsigned(v) => json!({"t": "lit", "k": "unsigned", "v": v}),
        Literal::Float(v) => json!({"t": "lit", "k": "float", "d": format!("{}", v)}),
        Literal::Bool(v) => json!({"t": "lit", "k": "bool", "v": v}),
    }
}

fn range<T: std::fmt::Display>(r: &Range<T>) -> Value {
    match r {
        Range::Exact(v) => json!({"r": "exact", "v": v.to_string()}),
        Range::Bounds { start, end } => json!({"r": "bounds", "start": start.as_ref().map(|s| s.to_string()), "end": match end {
            Bound::Included(v) => json!({"b": "incl", "v": v.to_string()}),
            Bound::Excluded(v) => json!({"b": "excl", "v": v.to_string()}),
            Bound::Unbounded => json!({"b": "unb"}),
        }}),
        Range::Multiple(l) => json!({"r": "multi", "items": l.iter().map(range).collect::<Vec<_>>()}),
        Range::Fallback => json!({"r": "fallback"}),
    }
}

pub fn range_type(t: RangeType) -> String {
    t.to_string()
}

fn ranges(r: &Ranges) -> Value {
    fn inner<T: std::fmt::Display>(v: &[(Range<T>, ParsedValue)]) -> Vec<Value> {
        v.iter().map(|(r, v)| json!([range(r), pv(v)])).collect()
    }
    let branches = match &r.inner {
        UntypedRangesInner::I8(v) => inner(v),
        UntypedRangesInner::I16(v) => inner(v),
        UntypedRangesInner::I32(v) => inner(v),
        UntypedRangesInner::I64(v) => inner(v),
        UntypedRangesInner::U8(v) => inner(v),
        UntypedRangesInner::U16(v) => inner(v),
        UntypedRangesInner::U32(v) => inner(v),
        UntypedRangesInner::U64(v) => inner(v),
        UntypedRangesInner::F32(v) => inner(v),
        UntypedRangesInner::F64(v) => inner(v),
    };
    json!({"t": "ranges", "count_key": r.count_key.name.to_string(), "ty": range_type(r.get_type()), "branches": branches})
}

pub fn form(f: PluralForm) -> &'static str {
    match f {
        PluralForm::Zero => "zero",
        PluralForm::One => "one",
        PluralForm::Two => "two",
        PluralForm::Few => "few",
        PluralForm::Many => "many",
        PluralForm::Other => "other",
    }
}

pub fn rule(r: PluralRuleType) -> &'static str {
    match r {
        PluralRuleType::Cardinal => "cardinal",
        PluralRuleType::Ordinal => "ordinal",
    }
}

fn plurals(p: &Plurals) -> Value {
    json!({"t": "plurals", "rule": rule(p.rule_type), "count_key": p.count_key.name.to_string(), "other": pv(&p.other),
           "forms": p.forms.iter().map(|(f, v)| json!([form(*f), pv(v)])).collect::<Vec<_>>()})
}

pub fn pv(v: &ParsedValue) -> Value {
    match v {
        ParsedValue::Default => json!({"t": "default"}),
        ParsedValue::Literal(l) => lit(l),
        ParsedValue::Variable { key, formatter } => json!({"t": "var", "key": key.name.to_string(), "fmt": fmt(formatter)}),
        ParsedValue::Component { key, inner } => json!({"t": "comp", "key": key.name.to_string(), "inner": pv(inner)}),
        ParsedValue::Bloc(l) => json!({"t": "bloc", "items": l.iter().map(pv).collect::<Vec<_>>()}),
        ParsedValue::ForeignKey(fk) => match fk.try_borrow() {
            Err(_) => json!({"t": "fk", "borrowed": true}),
            Ok(fk) => match &*fk {
                ForeignKey::NotSet(p, args) => json!({"t": "fk", "set": false, "path": key_path(p),
                    "args": args.iter().map(|(k, v)| json!([k, pv(v)])).collect::<Vec<_>>()}),
                ForeignKey::Set(inner) => json!({"t": "fk", "set": true, "inner": pv(inner)}),
            },
        },
        ParsedValue::Ranges(r) => ranges(r),
        ParsedValue::Subkeys(None) => json!({"t": "subkeys", "locale": null}),
        ParsedValue::Subkeys(Some(l)) => json!({"t": "subkeys", "locale": locale(l)}),
        ParsedValue::Plurals(p) => plurals(p),
    }
}

pub fn locale(l: &Locale) -> Value {
    json!({"name": l.name.name.to_string(), "top": l.top_locale_name.name.to_string(),
           "keys": l.keys.iter().map(|(k, v)| json!([k.name.to_string(), pv(v)])).collect::<Vec<_>>(),
           "strings": l.strings.iter().map(|s| s.to_string()).collect::<Vec<_>>(), "count": l.top_locale_string_count})
}

pub fn warning(w: &Warning) -> Value {
    match w {
        Warning::MissingKey { locale, key_path: p } => json!({"w": "missing", "locale": locale.name.to_string(), "path": key_path(p)}),
        Warning::SurplusKey { locale, key_path: p } => json!({"w": "surplus", "locale": locale.name.to_string(), "path": key_path(p)}),
        Warning::UnusedForm { locale, key_path: p, form: f, rule_type } =>
            json!({"w": "unused_form", "locale": locale.name.to_string(), "path": key_path(p), "form": form(*f), "rule": rule(*rule_type)}),
        Warning::NonUnicodePath { .. } => json!({"w": "non_unicode_path"}),
    }
}

fn iol(v: &InterpolOrLit) -> Value {
    match v {
        InterpolOrLit::Lit(t) => json!({"lit": match t {
            LiteralType::String => "string", LiteralType::Bool => "bool", LiteralType::Signed => "signed",
            LiteralType::Unsigned => "unsigned", LiteralType::Float => "float" }}),
        InterpolOrLit::Interpol(k) => json!({"interpol": {
            "comps": k.iter_comps().map(|c| c.name.to_string()).collect::<Vec<_>>(),
            "vars": k.iter_vars().map(|(key, info)| json!([key.name.to_string(), {
                "fmts": info.formatters.iter().map(fmt).collect::<Vec<_>>(),
                "count": match info.range_count { None => Value::Null, Some(RangeOrPlural::Plural) => json!("plural"),
                    Some(RangeOrPlural::Range(t)) => json!(range_type(t)) } }])).collect::<Vec<_>>() }}),
    }
}

pub fn bki(b: &BuildersKeysInner, default_locale: &Key, all: &[Key]) -> Value {
    Value::Array(b.0.iter().map(|(k, lv)| json!([k.name.to_string(), match lv {
        LocaleValue::Value { value, defaults } => {
            // the mapping is private: recover it through `default_of` on every locale name seen by `compute`
            let compute = defaults.compute();
            json!({"v": "value", "value": iol(value), "defaults": {
                "default_locale": default_locale.name.to_string(),
                "effective": all.iter().map(|l| json!([l.name.to_string(), defaults.default_of(l).name.to_string()])).collect::<Vec<_>>(),
                "compute": compute.iter().map(|(k, s)| json!([k.name.to_string(), s.iter().map(|x| x.name.to_string()).collect::<Vec<_>>()])).collect::<Vec<_>>() }})
        }
        LocaleValue::Subkeys { locales, keys } =>
            json!({"v": "subkeys", "locales": locales.iter().map(locale).collect::<Vec<_>>(), "keys": bki(keys, default_locale, all)}),
    }])).collect())
}

pub fn builders_keys(b: &BuildersKeys, default_locale: &Key, all: &[Key]) -> Value {
    match b {
        BuildersKeys::NameSpaces { namespaces, keys } => json!({"namespaced": true, "nss": namespaces.iter().map(|ns| json!({
            "key": ns.key.name.to_string(), "locales": ns.locales.iter().map(locale).collect::<Vec<_>>(),
            "keys": bki(keys.get(&ns.key).unwrap(), default_locale, all) })).collect::<Vec<_>>()}),
        BuildersKeys::Locales { locales, keys } => json!({"namespaced": false, "nss": [{
            "key": null, "locales": locales.iter().map(locale).collect::<Vec<_>>(), "keys": bki(keys, default_locale, all) }]}),
    }
}
