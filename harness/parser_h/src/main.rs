//! Parser harness (kind P): a JSON-line server around the real `leptos_i18n_parser`.
#![allow(dead_code)]
mod dump;
use leptos_i18n_parser::parse_locales::{
    self, cfg_file::ConfigFile, error::Error, parsed_value::{Literal, ParsedValue}, ranges::*, ForeignKeysPaths,
};
use leptos_i18n_parser::utils::{Key, KeyPath};
use serde_json::{json, Value};
use std::collections::BTreeMap;
use std::io::{BufRead, Write};
use std::path::PathBuf;

/// error kind = the `Error` variant; errors that travelled through serde as text are classified by
/// their message template (error.rs `Display`)
fn classify_msg(msg: &str) -> &'static str {
    const T: &[(&str, &str)] = &[
        ("empty ranges are not allowed", "EmptyRange"),
        ("invalid range type", "InvalidRangeType"),
        ("nested ranges are not allowed", "NestedRanges"),
        ("fallbacks are only allowed in last position", "InvalidFallback"),
        ("only one fallback is allowed", "MultipleFallbacks"),
        ("require a fallback", "MissingFallback"),
        ("subkeys for ranges are not allowed", "RangeSubkeys"),
        ("explicit defaults (null) are not allowed in ranges", "RangeNull"),
        ("can't be used for range type", "RangeNumberType"),
        ("error parsing", "RangeParse"),
        ("end bound is invalid", "InvalidBoundEnd"),
        ("is impossible, it end before it starts", "ImpossibleRange"),
        ("it can't be used as a rust identifier", "InvalidKey"),
        ("duplicate key", "DuplicateKey"),
        ("Unknown formatter", "UnknownFormatter"),
        ("Malformed foreign key args", "InvalidForeignKeyArgs"),
        ("Unexpected error occured while parsing key", "UnexpectedToken"),
        ("is not enabled, enable the", "DisabledFormatter"),
    ];
    for (pat, kind) in T {
        if msg.contains(pat) {
            return kind;
        }
    }
    "Serde"
}

fn err_kind(e: &Error) -> String {
    let dbg = format!("{:?}", e);
    let variant: String = dbg.chars().take_while(|c| c.is_alphanumeric()).collect();
    match e {
        Error::LocaleFileDeser { err, .. } => classify_msg(&err.to_string()).to_string(),
        _ => variant,
    }
}

fn err_json(e: &Error) -> Value {
    json!({"err": err_kind(e), "msg": e.to_string()})
}

fn op_parse_new(req: &Value) -> Value {
    let s = req["s"].as_str().unwrap();
    let kp = KeyPath::new(None);
    let locale = Key::new("en").unwrap();
    let fks = ForeignKeysPaths::new();
    match ParsedValue::new(s, &kp, &locale, &fks) {
        Ok(v) => json!({"ok": dump::pv(&v)}),
        Err(e) => err_json(&e),
    }
}

fn op_key_new(req: &Value) -> Value {
    match Key::new(req["s"].as_str().unwrap()) {
        Some(k) => json!(k.name.to_string()),
        None => Value::Null,
    }
}

fn lit_marker(i: usize) -> ParsedValue {
    ParsedValue::Literal(Literal::Unsigned(i as u64))
}

/// `Range::new` for type `ty`, then — for every count — which branch a one-range declaration
/// `[(range, 1)]` selects through the public parse-time path `populate_with_count_arg`
/// (`do_match` itself is private): `true` = the range contains the count.
fn op_range_new(req: &Value) -> Value {
    let ty = req["ty"].as_str().unwrap();
    let s = req["s"].as_str().unwrap();
    let counts: Vec<&str> = req["counts"].as_array().unwrap().iter().map(|c| c.as_str().unwrap()).collect();
    macro_rules! go {
        ($t:ty, $variant:ident, $mk:expr) => {{
            match Range::<$t>::new(s) {
                Err(e) => json!({"range": err_json(&e), "matches": null}),
                Ok(r) => {
                    let dumped = dump::pv(&ParsedValue::Ranges(Ranges {
                        count_key: Key::count(),
                        inner: UntypedRangesInner::$variant(vec![(r.clone(), lit_marker(1))]),
                    }));
                    let ranges = Ranges {
                        count_key: Key::count(),
                        inner: UntypedRangesInner::$variant(vec![(r.clone(), lit_marker(1)), (Range::Fallback, lit_marker(0))]),
                    };
                    let kp = KeyPath::new(None);
                    let locale = Key::new("en").unwrap();
                    let ms: Vec<Value> = counts.iter().map(|c| {
                        let count_arg: ParsedValue = $mk(c);
                        let args = BTreeMap::new();
                        match ranges.populate_with_count_arg(&count_arg, &args, &kp, &locale, &kp) {
                            Ok(ParsedValue::Literal(Literal::Unsigned(1))) => json!(true),
                            Ok(ParsedValue::Literal(Literal::Unsigned(0))) => json!(false),
                            Ok(other) => json!({"unexpected": dump::pv(&other)}),
                            Err(e) => err_json(&e),
                        }
                    }).collect();
                    json!({"range": {"ok": dumped["branches"][0][0]}, "matches": ms})
                }
            }
        }};
    }
    let int_arg = |c: &str| -> ParsedValue {
        if let Ok(u) = c.parse::<u64>() { ParsedValue::Literal(Literal::Unsigned(u)) }
        else { ParsedValue::Literal(Literal::Signed(c.parse::<i64>().unwrap())) }
    };
    let float_arg = |c: &str| -> ParsedValue { ParsedValue::Literal(Literal::Float(c.parse::<f64>().unwrap())) };
    match ty {
        "i8" => go!(i8, I8, int_arg),
        "i16" => go!(i16, I16, int_arg),
        "i32" => go!(i32, I32, int_arg),
        "i64" => go!(i64, I64, int_arg),
        "u8" => go!(u8, U8, int_arg),
        "u16" => go!(u16, U16, int_arg),
        "u32" => go!(u32, U32, int_arg),
        "u64" => go!(u64, U64, int_arg),
        "f32" => go!(f32, F32, float_arg),
        "f64" => go!(f64, F64, float_arg),
        _ => json!({"bad_op": "unknown range type"}),
    }
}

fn write_project(req: &Value, tag: &str) -> PathBuf {
    let base = std::env::var("VERIF_TMP").unwrap_or_else(|_| "/dev/shm".to_string());
    let dir = PathBuf::from(format!("{}/verif_ph_{}_{}", base, std::process::id(), tag));
    let _ = std::fs::remove_dir_all(&dir);
    std::fs::create_dir_all(&dir).unwrap();
    std::fs::write(dir.join("Cargo.toml"), req["cargo_toml"].as_str().unwrap()).unwrap();
    for f in req["files"].as_array().unwrap() {
        let rel = f[0].as_str().unwrap();
        let p = dir.join(rel);
        std::fs::create_dir_all(p.parent().unwrap()).unwrap();
        std::fs::write(p, f[1].as_str().unwrap()).unwrap();
    }
    dir
}

fn cfg_json(cfg: &ConfigFile) -> Value {
    json!({"default": cfg.default.name.to_string(),
        "locales": cfg.locales.iter().map(|k| k.name.to_string()).collect::<Vec<_>>(),
        "namespaces": cfg.name_spaces.as_ref().map(|v| v.iter().map(|k| k.name.to_string()).collect::<Vec<_>>()),
        "locales_dir": cfg.locales_dir.to_string(),
        "inherits": cfg.extensions.iter().map(|(a, b)| json!([a.name.to_string(), b.name.to_string()])).collect::<Vec<_>>()})
}

fn op_config(req: &Value) -> Value {
    let dir = write_project(req, "cfg");
    let mut d = dir.clone();
    let r = match ConfigFile::new(&mut d) {
        Ok(cfg) => json!({"ok": cfg_json(&cfg), "dir_restored": d == dir}),
        Err(e) => err_json(&e),
    };
    let _ = std::fs::remove_dir_all(&dir);
    r
}

mod split_section {
    include!(concat!(env!("OUT_DIR"), "/split_section.rs"));
}

/// the private `split_at_config_section` of cfg_file.rs, as extracted from /repo's source by build.rs
fn op_manifest_split(req: &Value) -> Value {
    if !split_section::SPLIT_EXTRACTED {
        return json!({"unavailable": "fn split_at_config_section not found in cfg_file.rs"});
    }
    match split_section::split_at_config_section(req["text"].as_str().unwrap()) {
        Some((b, a)) => json!({"before": b, "after": a}),
        None => json!({"absent": true}),
    }
}

fn oracle(locales: &[String], operands: &[String]) -> Value {
    use icu_plurals::{PluralRuleType, PluralRules};
    let mut cats = vec![];
    let mut cat = vec![];
    for l in locales {
        for (rname, rt) in [("cardinal", PluralRuleType::Cardinal), ("ordinal", PluralRuleType::Ordinal)] {
            let parsed = l.parse::<icu_locid::Locale>();
            let rules = parsed.ok().and_then(|loc| PluralRules::try_new(&loc.into(), rt).ok());
            match rules {
                None => cats.push(json!([l, rname, null])),
                Some(rules) => {
                    let cs: Vec<&str> = rules.categories().map(|c| dump::form(parse_locales::plurals::PluralForm::from_icu_category(c))).collect();
                    cats.push(json!([l, rname, cs]));
                    for op in operands {
                        let (kind, text) = op.split_once(':').unwrap();
                        let c = match kind {
                            "u" => rules.category_for(text.parse::<u64>().unwrap()),
                            "i" => rules.category_for(text.parse::<i64>().unwrap()),
                            _ => {
                                let f = text.parse::<f64>().unwrap();
                                let fd = fixed_decimal::FixedDecimal::try_from_f64(f, fixed_decimal::FloatPrecision::Floating).unwrap();
                                rules.category_for(&fd)
                            }
                        };
                        cat.push(json!([l, rname, op, dump::form(parse_locales::plurals::PluralForm::from_icu_category(c))]));
                    }
                }
            }
        }
    }
    json!({"cats": cats, "cat": cat})
}

fn op_pipeline(req: &Value) -> Value {
    let dir = write_project(req, "p");
    let operands: Vec<String> = req["operands"].as_array().map(|a| a.iter().map(|x| x.as_str().unwrap().to_string()).collect()).unwrap_or_default();
    let mut out = serde_json::Map::new();
    // the configuration alone first, so that it (and the CLDR oracle tables) are reported even when a file fails to parse
    {
        let mut d = dir.clone();
        match ConfigFile::new(&mut d) {
            Ok(cfg) => {
                let names: Vec<String> = cfg.locales.iter().map(|k| k.name.to_string()).collect();
                out.insert("cfg".into(), cfg_json(&cfg));
                out.insert("oracle".into(), oracle(&names, &operands));
            }
            Err(_) => {}
        }
    }
    let raw = parse_locales::parse_locales_raw(false, Some(dir.clone()));
    match raw {
        Err(e) => {
            out.insert("result".into(), err_json(&e));
        }
        Ok((locales, cfg, fks, warnings, tracked)) => {
            let prefix = format!("{}/", dir.display());
            out.insert("tracked".into(), json!(tracked.iter().map(|t| t.strip_prefix(&prefix).unwrap_or(t).to_string()).collect::<Vec<_>>()));
            let r = parse_locales::make_builder_keys(locales, &cfg, fks, &warnings, false);
            match r {
                Err(e) => {
                    out.insert("result".into(), err_json(&e));
                }
                Ok(bk) => {
                    let mut o = dump::builders_keys(&bk, &cfg.default, &cfg.locales);
                    o["warnings"] = json!(warnings.into_inner().iter().map(dump::warning).collect::<Vec<_>>());
                    out.insert("result".into(), json!({"ok": o}));
                }
            }
        }
    }
    let _ = std::fs::remove_dir_all(&dir);
    Value::Object(out)
}

fn handle(req: &Value) -> Value {
    match req["op"].as_str().unwrap_or("") {
        "parse_new" => op_parse_new(req),
        "key_new" => op_key_new(req),
        "range_new" => op_range_new(req),
        "config" => op_config(req),
        "manifest_split" => op_manifest_split(req),
        "pipeline" => op_pipeline(req),
        other => json!({"bad_op": format!("unknown op {other}")}),
    }
}

fn main() {
    let stdin = std::io::stdin();
    let stdout = std::io::stdout();
    let mut out = std::io::BufWriter::new(stdout.lock());
    std::panic::set_hook(Box::new(|_| {}));
    for line in stdin.lock().lines() {
        let line = line.unwrap();
        if line.trim().is_empty() {
            continue;
        }
        let req: Value = serde_json::from_str(&line).expect("bad json line");
        let res = match std::panic::catch_unwind(|| handle(&req)) {
            Ok(v) => v,
            Err(e) => {
                let msg = e.downcast_ref::<String>().cloned().or_else(|| e.downcast_ref::<&str>().map(|s| s.to_string())).unwrap_or_default();
                json!({"panic": msg})
            }
        };
        writeln!(out, "{}", res).unwrap();
        out.flush().unwrap();
    }
}
