//! Regenerated on every build from /repo's current source: the text of the private function
//! `split_at_config_section` of `leptos_i18n_parser/src/parse_locales/cfg_file.rs` is copied into OUT_DIR and
//! included by the harness, so the correspondence check calls the code as it is now (no hook in /repo).
use std::{env, fs, path::PathBuf};

fn extract(src: &str, marker: &str) -> Option<String> {
    let start = src.find(marker)?;
    let bytes = src.as_bytes();
    let mut i = start + src[start..].find('{')?;
    let mut depth = 0usize;
    while i < bytes.len() {
        match bytes[i] {
            b'"' => {
                i += 1;
                while i < bytes.len() && bytes[i] != b'"' {
                    if bytes[i] == b'\\' {
                        i += 1;
                    }
                    i += 1;
                }
            }
            b'\'' => {
                // a char literal ('x', '\n', '\'') — not a lifetime
                if i + 2 < bytes.len() && bytes[i + 1] == b'\\' {
                    i += 2;
                    while i < bytes.len() && bytes[i] != b'\'' {
                        i += 1;
                    }
                } else if i + 2 < bytes.len() && bytes[i + 2] == b'\'' {
                    i += 2;
                }
            }
            b'/' if i + 1 < bytes.len() && bytes[i + 1] == b'/' => {
                while i < bytes.len() && bytes[i] != b'\n' {
                    i += 1;
                }
            }
            b'{' => depth += 1,
            b'}' => {
                depth -= 1;
                if depth == 0 {
                    return Some(src[start..=i].to_string());
                }
            }
            _ => {}
        }
        i += 1;
    }
    None
}

fn main() {
    let path = "/repo/leptos_i18n_parser/src/parse_locales/cfg_file.rs";
    println!("cargo:rerun-if-changed={path}");
    let src = fs::read_to_string(path).unwrap_or_default();
    let out = PathBuf::from(env::var("OUT_DIR").unwrap()).join("split_section.rs");
    let code = match extract(&src, "fn split_at_config_section") {
        Some(f) => format!("pub const SPLIT_EXTRACTED: bool = true;\n#[allow(dead_code)]\npub {f}\n"),
        None => "pub const SPLIT_EXTRACTED: bool = false;\npub fn split_at_config_section(_: &str) -> Option<(&str, &str)> { None }\n".to_string(),
    };
    fs::write(out, code).unwrap();
}
