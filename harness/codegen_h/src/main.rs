//! Code-generator harness (kind G): the proc-macro crate's generator run in-process.
//! The macro crate's modules are compiled from /repo's working tree as they are (no hook).
#![allow(dead_code, unused_imports, clippy::all)]
extern crate proc_macro;
#[path = "/repo/leptos_i18n_macro/src/load_locales/mod.rs"]
pub(crate) mod load_locales;
#[path = "/repo/leptos_i18n_macro/src/utils/mod.rs"]
pub(crate) mod utils;
#[path = "/repo/leptos_i18n_macro/src/t_macro/mod.rs"]
pub(crate) mod t_macro;

use serde_json::{json, Value};
use std::io::{BufRead, Write};
use std::path::PathBuf;

fn write_project(req: &Value) -> PathBuf {
    let base = std::env::var("VERIF_TMP").unwrap_or_else(|_| "/dev/shm".to_string());
    let dir = PathBuf::from(format!("{}/verif_cg_{}", base, std::process::id()));
    let _ = std::fs::remove_dir_all(&dir);
    std::fs::create_dir_all(&dir).unwrap();
    std::fs::write(dir.join("Cargo.toml"), req["cargo_toml"].as_str().unwrap()).unwrap();
    for f in req["files"].as_array().unwrap() {
        let p = dir.join(f[0].as_str().unwrap());
        std::fs::create_dir_all(p.parent().unwrap()).unwrap();
        std::fs::write(p, f[1].as_str().unwrap()).unwrap();
    }
    dir
}

fn handle(req: &Value) -> Value {
    match req["op"].as_str().unwrap_or("") {
        "codegen" => {
            let dir = write_project(req);
            std::env::set_var("CARGO_MANIFEST_DIR", &dir);
            let r = match load_locales::load_locales() {
                Ok(ts) => {
                    let text = ts.to_string();
                    let want_tokens = req.get("tokens").and_then(|t| t.as_bool()).unwrap_or(false);
                    json!({"ok": {"len": text.len(), "tokens": if want_tokens { Value::String(text) } else { Value::Null }}})
                }
                Err(e) => json!({"err": e.to_string()}),
            };
            let _ = std::fs::remove_dir_all(&dir);
            r
        }
        other => json!({"bad_op": format!("unknown op {other}")}),
    }
}

fn main() {
    let stdin = std::io::stdin();
    let stdout = std::io::stdout();
    let mut out = std::io::BufWriter::new(stdout.lock());
    std::panic::set_hook(Box::new(|_| {}));
    for line in stdin.lock().lines() {
        let line = line.unwrap();
        if line.trim().is_empty() {
            continue;
        }
        let req: Value = serde_json::from_str(&line).expect("bad json line");
        let res = match std::panic::catch_unwind(|| handle(&req)) {
            Ok(v) => v,
            Err(e) => {
                let msg = e.downcast_ref::<String>().cloned().or_else(|| e.downcast_ref::<&str>().map(|s| s.to_string())).unwrap_or_default();
                json!({"panic": msg})
            }
        };
        writeln!(out, "{}", res).unwrap();
        out.flush().unwrap();
    }
}
