// Fixed table of (formatter, options) combinations compiled into the harness: every key is declared in every
// locale with the file syntax (left) and is formatted with the `t*_format!` literal syntax (right).
// (generated once; edit by hand from now on)
macro_rules! with_table {
    ($m:ident) => {
        $m! {
        number {
            n_dflt: "{{ v, number }}" => [number],
            n_auto: "{{ v, number(grouping_strategy: auto) }}" => [number(grouping_strategy: auto)],
            n_never: "{{ v, number(grouping_strategy: never) }}" => [number(grouping_strategy: never)],
            n_always: "{{ v, number(grouping_strategy: always) }}" => [number(grouping_strategy: always)],
            n_min2: "{{ v, number(grouping_strategy: min2) }}" => [number(grouping_strategy: min2)],
            n_ws: "{{ v ,  number ( grouping_strategy :never ; ) }}" => [number(grouping_strategy: never;)],
            n_odd: "{{ v, number(foo: bar; grouping_strategy: bogus; grouping_strategy: min2; grouping_strategy: never) }}" => [number(foo: bar; grouping_strategy: bogus; grouping_strategy: min2; grouping_strategy: never)],
        }
        currency {
            c_dflt: "{{ v, currency }}" => [currency],
            c_short_USD: "{{ v, currency(width: short; currency_code: USD) }}" => [currency(width: short; currency_code: USD)],
            c_short_EUR: "{{ v, currency(width: short; currency_code: EUR) }}" => [currency(width: short; currency_code: EUR)],
            c_short_JPY: "{{ v, currency(width: short; currency_code: JPY) }}" => [currency(width: short; currency_code: JPY)],
            c_narrow_USD: "{{ v, currency(width: narrow; currency_code: USD) }}" => [currency(width: narrow; currency_code: USD)],
            c_narrow_EUR: "{{ v, currency(width: narrow; currency_code: EUR) }}" => [currency(width: narrow; currency_code: EUR)],
            c_narrow_JPY: "{{ v, currency(width: narrow; currency_code: JPY) }}" => [currency(width: narrow; currency_code: JPY)],
            c_code_only: "{{ v, currency(currency_code: GBP) }}" => [currency(currency_code: GBP)],
            c_w_only: "{{ v, currency(width: narrow) }}" => [currency(width: narrow)],
            c_bad_code: "{{ v, currency(currency_code: EURO; width: wide; width: narrow) }}" => [currency(currency_code: EURO; width: wide; width: narrow)],
        }
        date {
            d_dflt: "{{ v, date }}" => [date],
            d_full: "{{ v, date(date_length: full) }}" => [date(date_length: full)],
            d_long: "{{ v, date(date_length: long) }}" => [date(date_length: long)],
            d_medium: "{{ v, date(date_length: medium) }}" => [date(date_length: medium)],
            d_short: "{{ v, date(date_length: short) }}" => [date(date_length: short)],
            d_odd: "{{ v, date(time_length: full; date_length: tiny; date_length: long; date_length: short) }}" => [date(time_length: full; date_length: tiny; date_length: long; date_length: short)],
        }
        time {
            t_dflt: "{{ v, time }}" => [time],
            t_full: "{{ v, time(time_length: full) }}" => [time(time_length: full)],
            t_long: "{{ v, time(time_length: long) }}" => [time(time_length: long)],
            t_medium: "{{ v, time(time_length: medium) }}" => [time(time_length: medium)],
            t_short: "{{ v, time(time_length: short) }}" => [time(time_length: short)],
            t_odd: "{{ v, time(date_length: full; time_length: medium) }}" => [time(date_length: full; time_length: medium)],
        }
        datetime {
            dt_dflt: "{{ v, datetime }}" => [datetime],
            dt_d_only: "{{ v, datetime(date_length: full) }}" => [datetime(date_length: full)],
            dt_t_only: "{{ v, datetime(time_length: long) }}" => [datetime(time_length: long)],
            dt_full_full: "{{ v, datetime(date_length: full; time_length: full) }}" => [datetime(date_length: full; time_length: full)],
            dt_full_long: "{{ v, datetime(date_length: full; time_length: long) }}" => [datetime(date_length: full; time_length: long)],
            dt_full_medium: "{{ v, datetime(date_length: full; time_length: medium) }}" => [datetime(date_length: full; time_length: medium)],
            dt_full_short: "{{ v, datetime(date_length: full; time_length: short) }}" => [datetime(date_length: full; time_length: short)],
            dt_long_full: "{{ v, datetime(date_length: long; time_length: full) }}" => [datetime(date_length: long; time_length: full)],
            dt_long_long: "{{ v, datetime(date_length: long; time_length: long) }}" => [datetime(date_length: long; time_length: long)],
            dt_long_medium: "{{ v, datetime(date_length: long; time_length: medium) }}" => [datetime(date_length: long; time_length: medium)],
            dt_long_short: "{{ v, datetime(date_length: long; time_length: short) }}" => [datetime(date_length: long; time_length: short)],
            dt_medium_full: "{{ v, datetime(date_length: medium; time_length: full) }}" => [datetime(date_length: medium; time_length: full)],
            dt_medium_long: "{{ v, datetime(date_length: medium; time_length: long) }}" => [datetime(date_length: medium; time_length: long)],
            dt_medium_medium: "{{ v, datetime(date_length: medium; time_length: medium) }}" => [datetime(date_length: medium; time_length: medium)],
            dt_medium_short: "{{ v, datetime(date_length: medium; time_length: short) }}" => [datetime(date_length: medium; time_length: short)],
            dt_short_full: "{{ v, datetime(date_length: short; time_length: full) }}" => [datetime(date_length: short; time_length: full)],
            dt_short_long: "{{ v, datetime(date_length: short; time_length: long) }}" => [datetime(date_length: short; time_length: long)],
            dt_short_medium: "{{ v, datetime(date_length: short; time_length: medium) }}" => [datetime(date_length: short; time_length: medium)],
            dt_short_short: "{{ v, datetime(date_length: short; time_length: short) }}" => [datetime(date_length: short; time_length: short)],
            dt_swapped: "{{ v, datetime(time_length: medium; date_length: long) }}" => [datetime(time_length: medium; date_length: long)],
        }
        list {
            l_dflt: "{{ v, list }}" => [list],
            l_ty_only: "{{ v, list(list_type: and) }}" => [list(list_type: and)],
            l_st_only: "{{ v, list(list_style: narrow) }}" => [list(list_style: narrow)],
            l_and_wide: "{{ v, list(list_type: and; list_style: wide) }}" => [list(list_type: and; list_style: wide)],
            l_and_short: "{{ v, list(list_type: and; list_style: short) }}" => [list(list_type: and; list_style: short)],
            l_and_narrow: "{{ v, list(list_type: and; list_style: narrow) }}" => [list(list_type: and; list_style: narrow)],
            l_or_wide: "{{ v, list(list_type: or; list_style: wide) }}" => [list(list_type: or; list_style: wide)],
            l_or_short: "{{ v, list(list_type: or; list_style: short) }}" => [list(list_type: or; list_style: short)],
            l_or_narrow: "{{ v, list(list_type: or; list_style: narrow) }}" => [list(list_type: or; list_style: narrow)],
            l_unit_wide: "{{ v, list(list_type: unit; list_style: wide) }}" => [list(list_type: unit; list_style: wide)],
            l_unit_short: "{{ v, list(list_type: unit; list_style: short) }}" => [list(list_type: unit; list_style: short)],
            l_unit_narrow: "{{ v, list(list_type: unit; list_style: narrow) }}" => [list(list_type: unit; list_style: narrow)],
            l_book: "{{ v, list(list_type: and; list_length: short) }}" => [list(list_type: and; list_length: short)],
        }
        }
    };
}
