//! Formatter harness (C18): a JSON-line server around the real formatting helpers of `leptos_i18n`
//! (`leptos_i18n::__private::format_*_to_{display,formatter,view}`, called with the same shapes as the generated
//! code: `leptos_i18n_macro/src/utils/formatter.rs` `var_to_display` / `var_fmt` / `var_to_view`), the
//! `declare_locales!` + `td!`/`td_string!`/`td_display!` path and the `td_format*!` macros for a fixed table of
//! option combinations (`table.rs`), and — as the oracle — ICU4X called directly with the same options and locale.
//!
//! ops
//!   {"op":"locales"}                                     -> names of the declared locales
//!   {"op":"table"}                                       -> [{kind,key,file,tf}] the compiled-in table
//!   {"op":"format", locale, kind|f, options.., value}    -> {display, formatter, view, oracle}
//!   {"op":"table_format", locale, kind, key, value}      -> {string, display, view, tf_string, tf_display, tf_view}
//!   {"op":"history", "reqs":[format/table_format ...]}   -> {"outs":[...]}  (one process, given order)
//!   {"op":"race", "threads":N, "reqs":[...]}             -> {"threads":[[...], ...]} (all threads start after a barrier)
#![allow(non_snake_case, non_camel_case_types, dead_code, unused_imports, clippy::all)]
use leptos::prelude::*;
use leptos_i18n::Locale as _;
use serde_json::{json, Value};
use std::fmt::{self, Display};
use std::io::{BufRead, Write};
use std::str::FromStr;

use fixed_decimal::{FixedDecimal, FloatPrecision};
use icu_calendar::{AnyCalendar, Date, DateTime, Time};
use icu_datetime::options::length;
use icu_decimal::options::GroupingStrategy;
use icu_experimental::dimension::currency::formatter::{CurrencyCode, CurrencyFormatter};
use icu_experimental::dimension::currency::options::{CurrencyFormatterOptions, Width};
use icu_list::ListLength;
use leptos_i18n::__private as lp;
use writeable::Writeable;

#[macro_use]
mod table;

// ---------------------------------------------------------------------------------------------- locales + table keys

macro_rules! decl_locales {
    ($( $kind:ident { $( $key:ident : $file:tt => [ $($tf:tt)* ] ),* $(,)? } )*) => {
        leptos_i18n::declare_locales! {
            path: leptos_i18n,
            interpolate_display,
            default: "en",
            locales: ["en", "fr", "de", "ja", "ar", "ru", "es", "pt-BR"],
            en: { $( $( $key : $file, )* )* },
            fr: { $( $( $key : $file, )* )* },
            de: { $( $( $key : $file, )* )* },
            ja: { $( $( $key : $file, )* )* },
            ar: { $( $( $key : $file, )* )* },
            ru: { $( $( $key : $file, )* )* },
            es: { $( $( $key : $file, )* )* },
            pt_BR: { $( $( $key : $file, )* )* },
        }
    };
}
with_table!(decl_locales);
use i18n::Locale;

macro_rules! table_list {
    ($( $kind:ident { $( $key:ident : $file:tt => [ $($tf:tt)* ] ),* $(,)? } )*) => {
        fn table_list() -> Value {
            let mut v: Vec<Value> = Vec::new();
            $( $( v.push(json!({"kind": stringify!($kind), "key": stringify!($key), "file": $file, "tf": stringify!($($tf)*)})); )* )*
            Value::Array(v)
        }
    };
}
with_table!(table_list);

fn render<T: IntoView>(v: T) -> String {
    v.into_view().to_html()
}

/// the six flavours of one table entry: file syntax (`td_string!`, `td_display!`, `td!`) and literal syntax
/// (`td_format_string!`, `td_format_display!`, `td_format!`).  `$mk` is a `Copy` closure producing the value
/// (`Date<AnyCalendar>` is not `Clone`, and `td_format!` needs a `Copy` input closure to yield an `Fn` view).
/// `val`: the string/display macros take the value; `ref`: they take a reference (dates and times).
macro_rules! six {
    (val, $loc:expr, $key:ident, [$($tf:tt)*], $mk:expr) => {{
        let mk = $mk;
        let fs: String = leptos_i18n::td_format_string!($loc, mk(), formatter: $($tf)*);
        let fd = leptos_i18n::td_format_display!($loc, mk(), formatter: $($tf)*).to_string();
        six!(@rest $loc, $key, [$($tf)*], mk, fs, fd)
    }};
    (ref, $loc:expr, $key:ident, [$($tf:tt)*], $mk:expr) => {{
        let mk = $mk;
        let fs: String = leptos_i18n::td_format_string!($loc, &mk(), formatter: $($tf)*);
        let fd = leptos_i18n::td_format_display!($loc, &mk(), formatter: $($tf)*).to_string();
        six!(@rest $loc, $key, [$($tf)*], mk, fs, fd)
    }};
    (@rest $loc:expr, $key:ident, [$($tf:tt)*], $mk:ident, $fs:ident, $fd:ident) => {{
        let s = leptos_i18n::td_string!($loc, $key, v = $mk()).to_string();
        let d = leptos_i18n::td_display!($loc, $key, v = $mk()).to_string();
        let vw = render(leptos_i18n::td!($loc, $key, v = $mk));
        let fv = render(leptos_i18n::td_format!($loc, $mk, formatter: $($tf)*));
        json!({"string": s, "display": d, "view": vw, "tf_string": $fs, "tf_display": $fd, "tf_view": fv})
    }};
}

macro_rules! table_dispatch {
    (number { $( $nk:ident : $nf:tt => [ $($nt:tt)* ] ),* $(,)? }
     currency { $( $ck:ident : $cf:tt => [ $($ct:tt)* ] ),* $(,)? }
     date { $( $dk:ident : $df:tt => [ $($dt:tt)* ] ),* $(,)? }
     time { $( $tk:ident : $tf_:tt => [ $($tt_:tt)* ] ),* $(,)? }
     datetime { $( $xk:ident : $xf:tt => [ $($xt:tt)* ] ),* $(,)? }
     list { $( $lk:ident : $lf:tt => [ $($lt:tt)* ] ),* $(,)? }) => {
        fn table_number(loc: Locale, key: &str, v: &'static FixedDecimal) -> Option<Value> {
            match key { $( stringify!($nk) => Some(six!(val, loc, $nk, [$($nt)*], move || v.clone())), )* _ => None }
        }
        fn table_currency(loc: Locale, key: &str, v: &'static FixedDecimal) -> Option<Value> {
            match key { $( stringify!($ck) => Some(six!(val, loc, $ck, [$($ct)*], move || v.clone())), )* _ => None }
        }
        fn table_date(loc: Locale, key: &str, v: [i64; 3]) -> Option<Value> {
            match key { $( stringify!($dk) => Some(six!(ref, loc, $dk, [$($dt)*], move || date_of(&v).unwrap())), )* _ => None }
        }
        fn table_time(loc: Locale, key: &str, v: Time) -> Option<Value> {
            match key { $( stringify!($tk) => Some(six!(ref, loc, $tk, [$($tt_)*], move || v)), )* _ => None }
        }
        fn table_datetime(loc: Locale, key: &str, v: [i64; 6]) -> Option<Value> {
            match key { $( stringify!($xk) => Some(six!(ref, loc, $xk, [$($xt)*], move || datetime_of(&v).unwrap())), )* _ => None }
        }
        fn table_list_fmt(loc: Locale, key: &str, v: &'static Vec<String>) -> Option<Value> {
            match key { $( stringify!($lk) => Some(six!(val, loc, $lk, [$($lt)*], move || v.clone())), )* _ => None }
        }
    };
}
with_table!(table_dispatch);

// ---------------------------------------------------------------------------------------------- request decoding

fn bad(msg: impl Into<String>) -> Value {
    json!({"bad_op": msg.into()})
}

fn locale_of(req: &Value) -> Result<Locale, Value> {
    let name = req["locale"].as_str().ok_or_else(|| bad("missing locale"))?;
    Locale::get_all().iter().copied().find(|l| l.as_str() == name).ok_or_else(|| bad(format!("unknown locale {name}")))
}

fn sfield<'a>(req: &'a Value, k: &str) -> Result<&'a str, Value> {
    req[k].as_str().ok_or_else(|| bad(format!("missing field {k}")))
}

#[derive(Clone, Debug)]
enum Num {
    U64(u64),
    I64(i64),
    F64(f64),
    F32(f32),
    Dec(FixedDecimal),
}

fn num_of(v: &Value) -> Result<Num, Value> {
    let t = sfield(v, "t")?;
    let s = sfield(v, "v")?;
    let e = || bad(format!("bad number {s}"));
    Ok(match t {
        "u64" => Num::U64(s.parse().map_err(|_| e())?),
        "i64" => Num::I64(s.parse().map_err(|_| e())?),
        "f64" => Num::F64(s.parse().map_err(|_| e())?),
        "f32" => Num::F32(s.parse().map_err(|_| e())?),
        "dec" => Num::Dec(FixedDecimal::from_str(s).map_err(|_| bad(format!("bad decimal {s}")))?),
        _ => return Err(bad(format!("bad number type {t}"))),
    })
}

/// independent conversion for the oracle (documented: integers exactly, floats with `FloatPrecision::Floating`)
fn oracle_dec(n: &Num) -> FixedDecimal {
    match n {
        Num::U64(v) => FixedDecimal::from(*v),
        Num::I64(v) => FixedDecimal::from(*v),
        Num::F64(v) => FixedDecimal::try_from_f64(*v, FloatPrecision::Floating).unwrap(),
        Num::F32(v) => FixedDecimal::try_from_f64(*v as f64, FloatPrecision::Floating).unwrap(),
        Num::Dec(d) => d.clone(),
    }
}

fn ints(v: &Value, n: usize) -> Result<Vec<i64>, Value> {
    let a = v.as_array().ok_or_else(|| bad("value: expected an array"))?;
    if a.len() != n {
        return Err(bad(format!("value: expected {n} numbers")));
    }
    a.iter().map(|x| x.as_i64().ok_or_else(|| bad("value: not an integer"))).collect()
}

fn date_of(v: &[i64]) -> Result<Date<AnyCalendar>, Value> {
    Ok(Date::try_new_iso_date(v[0] as i32, v[1] as u8, v[2] as u8).map_err(|e| bad(format!("bad date: {e}")))?.to_any())
}

fn time_of(v: &[i64]) -> Result<Time, Value> {
    Time::try_new(v[0] as u8, v[1] as u8, v[2] as u8, 0).map_err(|e| bad(format!("bad time: {e}")))
}

fn datetime_of(v: &[i64]) -> Result<DateTime<AnyCalendar>, Value> {
    Ok(DateTime::new(date_of(&v[0..3])?, time_of(&v[3..6])?))
}

fn arr<const N: usize>(v: Vec<i64>) -> [i64; N] {
    let mut a = [0i64; N];
    a.copy_from_slice(&v);
    a
}

fn strs(v: &Value) -> Result<Vec<String>, Value> {
    v.as_array()
        .ok_or_else(|| bad("value: expected an array"))?
        .iter()
        .map(|x| x.as_str().map(|s| s.to_string()).ok_or_else(|| bad("value: not a string")))
        .collect()
}

// option names -> ICU option values (same names as `dump.rs::fmt` of parser_h / `dumpFmt` of the Lean driver)
fn grouping(s: &str) -> Result<GroupingStrategy, Value> {
    Ok(match s {
        "auto" => GroupingStrategy::Auto,
        "never" => GroupingStrategy::Never,
        "always" => GroupingStrategy::Always,
        "min2" => GroupingStrategy::Min2,
        _ => return Err(bad(format!("bad grouping {s}"))),
    })
}
fn date_len(s: &str) -> Result<length::Date, Value> {
    Ok(match s {
        "full" => length::Date::Full,
        "long" => length::Date::Long,
        "medium" => length::Date::Medium,
        "short" => length::Date::Short,
        _ => return Err(bad(format!("bad date length {s}"))),
    })
}
fn time_len(s: &str) -> Result<length::Time, Value> {
    Ok(match s {
        "full" => length::Time::Full,
        "long" => length::Time::Long,
        "medium" => length::Time::Medium,
        "short" => length::Time::Short,
        _ => return Err(bad(format!("bad time length {s}"))),
    })
}
fn list_ty(s: &str) -> Result<lp::ListType, Value> {
    Ok(match s {
        "and" => lp::ListType::And,
        "or" => lp::ListType::Or,
        "unit" => lp::ListType::Unit,
        _ => return Err(bad(format!("bad list type {s}"))),
    })
}
fn list_len(s: &str) -> Result<ListLength, Value> {
    Ok(match s {
        "wide" => ListLength::Wide,
        "short" => ListLength::Short,
        "narrow" => ListLength::Narrow,
        _ => return Err(bad(format!("bad list style {s}"))),
    })
}
fn width(s: &str) -> Result<Width, Value> {
    Ok(match s {
        "short" => Width::Short,
        "narrow" => Width::Narrow,
        _ => return Err(bad(format!("bad width {s}"))),
    })
}
fn code(s: &str) -> Result<CurrencyCode, Value> {
    Ok(CurrencyCode(tinystr::TinyAsciiStr::from_str(s).map_err(|_| bad(format!("bad currency code {s}")))?))
}

/// `Display` through the `format_*_to_formatter` helpers (the shape of `var_fmt`)
struct Fmt<F: Fn(&mut fmt::Formatter<'_>) -> fmt::Result>(F);
impl<F: Fn(&mut fmt::Formatter<'_>) -> fmt::Result> Display for Fmt<F> {
    fn fmt(&self, f: &mut fmt::Formatter<'_>) -> fmt::Result {
        (self.0)(f)
    }
}

macro_rules! with_num {
    ($n:expr, $x:ident => $body:expr) => {
        match $n.clone() {
            Num::U64($x) => $body,
            Num::I64($x) => $body,
            Num::F64($x) => $body,
            Num::F32($x) => $body,
            Num::Dec($x) => $body,
        }
    };
}

fn data_locale(name: &str) -> icu_locid::Locale {
    icu_locid::Locale::try_from_bytes(name.as_bytes()).expect("oracle: locale name")
}

fn panic_msg(e: Box<dyn std::any::Any + Send>) -> String {
    e.downcast_ref::<String>().cloned().or_else(|| e.downcast_ref::<&str>().map(|s| s.to_string())).unwrap_or_default()
}

/// implementation (three flavours; a panic is reported as `impl_panic`) and oracle (an ICU4X error is `oracle_err`)
/// are evaluated independently of each other
fn out(imp: impl FnOnce() -> (String, String, String), oracle: impl FnOnce() -> Result<String, String>) -> Value {
    let mut m = serde_json::Map::new();
    match std::panic::catch_unwind(std::panic::AssertUnwindSafe(imp)) {
        Ok((d, f, v)) => {
            m.insert("display".into(), json!(d));
            m.insert("formatter".into(), json!(f));
            m.insert("view".into(), json!(v));
        }
        Err(e) => {
            m.insert("impl_panic".into(), json!(panic_msg(e)));
        }
    }
    match std::panic::catch_unwind(std::panic::AssertUnwindSafe(oracle)) {
        Ok(Ok(s)) => {
            m.insert("oracle".into(), json!(s));
        }
        Ok(Err(e)) => {
            m.insert("oracle_err".into(), json!(e));
        }
        Err(e) => {
            m.insert("oracle_err".into(), json!(format!("panic: {}", panic_msg(e))));
        }
    }
    Value::Object(m)
}

// ---------------------------------------------------------------------------------------------- op format

fn op_format(req: &Value) -> Result<Value, Value> {
    let loc = locale_of(req)?;
    let lname = sfield(req, "locale")?;
    let icu_loc = data_locale(lname);
    let kind = req["f"].as_str().or(req["kind"].as_str()).ok_or_else(|| bad("missing f"))?;
    let value = &req["value"];
    let es = |e: &dyn std::fmt::Debug| format!("{e:?}");
    match kind {
        "number" => {
            let g = grouping(sfield(req, "g")?)?;
            let n = num_of(value)?;
            Ok(out(
                || {
                    let display = with_num!(n, x => lp::format_number_to_display(loc, x, g).to_string());
                    let formatter = with_num!(n, x => Fmt(|f: &mut fmt::Formatter<'_>| lp::format_number_to_formatter(f, loc, x.clone(), g)).to_string());
                    let view = with_num!(n, x => render(lp::format_number_to_view(loc, move || x.clone(), g)));
                    (display, formatter, view)
                },
                || {
                    let mut o = icu_decimal::options::FixedDecimalFormatterOptions::default();
                    o.grouping_strategy = g;
                    let fm = icu_decimal::FixedDecimalFormatter::try_new(&(&icu_loc).into(), o).map_err(|e| es(&e))?;
                    Ok(fm.format_to_string(&oracle_dec(&n)))
                },
            ))
        }
        "currency" => {
            let w = width(sfield(req, "w")?)?;
            let c = code(sfield(req, "c")?)?;
            let n = num_of(value)?;
            Ok(out(
                || {
                    let display = with_num!(n, x => lp::format_currency_to_display(loc, x, w, c).to_string());
                    let formatter = with_num!(n, x => Fmt(|f: &mut fmt::Formatter<'_>| lp::format_currency_to_formatter(f, loc, x.clone(), w, c)).to_string());
                    let view = with_num!(n, x => render(lp::format_currency_to_view(loc, move || x.clone(), w, c)));
                    (display, formatter, view)
                },
                || {
                    let mut o = CurrencyFormatterOptions::default();
                    o.width = w;
                    let fm = CurrencyFormatter::try_new(&(&icu_loc).into(), o).map_err(|e| es(&e))?;
                    let d = oracle_dec(&n);
                    Ok(fm.format_fixed_decimal(&d, c).write_to_string().into_owned())
                },
            ))
        }
        "date" => {
            let l = date_len(sfield(req, "d")?)?;
            let ymd: [i64; 3] = arr(ints(value, 3)?);
            let date = date_of(&ymd)?;
            Ok(out(
                || {
                    let display = lp::format_date_to_display(loc, &date, l).to_string();
                    let formatter = Fmt(|f: &mut fmt::Formatter<'_>| lp::format_date_to_formatter(f, loc, &date, l)).to_string();
                    let view = render(lp::format_date_to_view(loc, move || date_of(&ymd).unwrap(), l));
                    (display, formatter, view)
                },
                || {
                    let fm = icu_datetime::DateFormatter::try_new_with_length(&(&icu_loc).into(), l).map_err(|e| es(&e))?;
                    fm.format_to_string(&date).map_err(|e| es(&e))
                },
            ))
        }
        "time" => {
            let l = time_len(sfield(req, "t")?)?;
            let time = time_of(&ints(value, 3)?)?;
            Ok(out(
                || {
                    let display = lp::format_time_to_display(loc, &time, l).to_string();
                    let formatter = Fmt(|f: &mut fmt::Formatter<'_>| lp::format_time_to_formatter(f, loc, &time, l)).to_string();
                    let view = render(lp::format_time_to_view(loc, move || time, l));
                    (display, formatter, view)
                },
                || {
                    let fm = icu_datetime::TimeFormatter::try_new_with_length(&(&icu_loc).into(), l).map_err(|e| es(&e))?;
                    Ok(fm.format_to_string(&time))
                },
            ))
        }
        "datetime" => {
            let dl = date_len(sfield(req, "d")?)?;
            let tl = time_len(sfield(req, "t")?)?;
            let v: [i64; 6] = arr(ints(value, 6)?);
            let dt = datetime_of(&v)?;
            Ok(out(
                || {
                    let display = lp::format_datetime_to_display(loc, &dt, dl, tl).to_string();
                    let formatter = Fmt(|f: &mut fmt::Formatter<'_>| lp::format_datetime_to_formatter(f, loc, &dt, dl, tl)).to_string();
                    let view = render(lp::format_datetime_to_view(loc, move || datetime_of(&v).unwrap(), dl, tl));
                    (display, formatter, view)
                },
                || {
                    let mut bag = length::Bag::empty();
                    bag.date = Some(dl);
                    bag.time = Some(tl);
                    let fm = icu_datetime::DateTimeFormatter::try_new(&(&icu_loc).into(), bag.into()).map_err(|e| es(&e))?;
                    fm.format_to_string(&dt).map_err(|e| es(&e))
                },
            ))
        }
        "list" => {
            let ty = sfield(req, "ty")?;
            let lty = list_ty(ty)?;
            let st = list_len(sfield(req, "st")?)?;
            let items = strs(value)?;
            Ok(out(
                || {
                    let display = lp::format_list_to_display(loc, items.clone(), lty, st).to_string();
                    let formatter = Fmt(|f: &mut fmt::Formatter<'_>| lp::format_list_to_formatter(f, loc, items.clone(), lty, st)).to_string();
                    let view = { let l = items.clone(); render(lp::format_list_to_view(loc, move || l.clone(), lty, st)) };
                    (display, formatter, view)
                },
                || {
                    let dl = (&icu_loc).into();
                    let fm = match ty {
                        "and" => icu_list::ListFormatter::try_new_and_with_length(&dl, st),
                        "or" => icu_list::ListFormatter::try_new_or_with_length(&dl, st),
                        _ => icu_list::ListFormatter::try_new_unit_with_length(&dl, st),
                    }
                    .map_err(|e| es(&e))?;
                    Ok(fm.format_to_string(items.iter()))
                },
            ))
        }
        other => Err(bad(format!("unknown formatter kind {other}"))),
    }
}

// ---------------------------------------------------------------------------------------------- op table_format

fn op_table_format(req: &Value) -> Result<Value, Value> {
    let loc = locale_of(req)?;
    let kind = sfield(req, "kind")?;
    let key = sfield(req, "key")?;
    let value = &req["value"];
    let r = match kind {
        // (the harness leaks these small values: `td_format!` needs `Copy` input closures)
        "number" => table_number(loc, key, Box::leak(Box::new(oracle_dec(&num_of(value)?)))),
        "currency" => table_currency(loc, key, Box::leak(Box::new(oracle_dec(&num_of(value)?)))),
        "date" => {
            let v: [i64; 3] = arr(ints(value, 3)?);
            date_of(&v)?;
            table_date(loc, key, v)
        }
        "time" => table_time(loc, key, time_of(&ints(value, 3)?)?),
        "datetime" => {
            let v: [i64; 6] = arr(ints(value, 6)?);
            datetime_of(&v)?;
            table_datetime(loc, key, v)
        }
        "list" => table_list_fmt(loc, key, Box::leak(Box::new(strs(value)?))),
        other => return Err(bad(format!("unknown kind {other}"))),
    };
    r.ok_or_else(|| bad(format!("unknown table key {key} of kind {kind}")))
}

// ---------------------------------------------------------------------------------------------- dispatch

fn handle_one(req: &Value) -> Value {
    let r = match req["op"].as_str().unwrap_or("") {
        "format" => op_format(req),
        "table_format" => op_table_format(req),
        other => Err(bad(format!("unknown op {other}"))),
    };
    match r {
        Ok(v) | Err(v) => v,
    }
}

fn guarded(req: &Value) -> Value {
    match std::panic::catch_unwind(|| handle_one(req)) {
        Ok(v) => v,
        Err(e) => {
            let msg = e.downcast_ref::<String>().cloned().or_else(|| e.downcast_ref::<&str>().map(|s| s.to_string())).unwrap_or_default();
            json!({"panic": msg})
        }
    }
}

pub fn handle(req: &Value) -> Value {
    match req["op"].as_str().unwrap_or("") {
        "locales" => json!(Locale::get_all().iter().map(|l| l.as_str()).collect::<Vec<_>>()),
        "table" => table_list(),
        "history" => match req["reqs"].as_array() {
            Some(reqs) => json!({"outs": reqs.iter().map(guarded).collect::<Vec<_>>()}),
            None => bad("history: missing reqs"),
        },
        "race" => {
            let Some(reqs) = req["reqs"].as_array() else { return bad("race: missing reqs") };
            let n = req["threads"].as_u64().unwrap_or(16) as usize;
            let barrier = std::sync::Arc::new(std::sync::Barrier::new(n));
            let reqs = std::sync::Arc::new(reqs.clone());
            let handles: Vec<_> = (0..n)
                .map(|i| {
                    let (b, r) = (barrier.clone(), reqs.clone());
                    std::thread::spawn(move || {
                        // each thread walks the requests from a different starting point so that first uses collide
                        let k = r.len();
                        b.wait();
                        let mut outs = vec![Value::Null; k];
                        for j in 0..k {
                            let idx = (j + i * 7) % k;
                            outs[idx] = guarded(&r[idx]);
                        }
                        outs
                    })
                })
                .collect();
            let res: Vec<Value> = handles
                .into_iter()
                .map(|h| h.join().map(Value::Array).unwrap_or_else(|_| json!({"panic": "thread panicked"})))
                .collect();
            json!({"threads": res})
        }
        _ => guarded(req),
    }
}

fn main() {
    let stdin = std::io::stdin();
    let stdout = std::io::stdout();
    let mut out = std::io::BufWriter::new(stdout.lock());
    std::panic::set_hook(Box::new(|_| {}));
    for line in stdin.lock().lines() {
        let line = line.unwrap();
        if line.trim().is_empty() {
            continue;
        }
        let req: Value = serde_json::from_str(&line).expect("bad json line");
        let res = match std::panic::catch_unwind(|| handle(&req)) {
            Ok(v) => v,
            Err(e) => {
                let msg = e.downcast_ref::<String>().cloned().or_else(|| e.downcast_ref::<&str>().map(|s| s.to_string())).unwrap_or_default();
                json!({"panic": msg})
            }
        };
        writeln!(out, "{}", res).unwrap();
    }
    out.flush().unwrap();
}
