//! Build-helper harness (kind B): a JSON-line server around the real `leptos_i18n_build`.
//!
//! op `write_translations`:
//!   `{"op":"write_translations","work":"/verif/.work/<tmp>","cargo_toml":"<text>","files":{"locales/en.json":"<text>",..}}`
//! writes the project under `<work>/proj`, runs `TranslationsInfos::parse_at_dir(proj)`,
//! `get_translations().write_to_dir(<work>/out)`, reads every written file back and answers
//!   `{"files":[{"path":"en.json","raw":"<text>","utf8":true,"serde":{"ok":[..]}|{"err":".."}}..],
//!     "expected":[{"path":"en.json","strings":[..]}..]}`
//! where `expected` is the string table `Locale.strings` of the parser (`leptos_i18n_parser`, public
//! API), i.e. the table the generated code indexes.  A project the parser rejects answers `{"parse_err":..}`.
use serde_json::{json, Value};
use std::io::{BufRead, Write};
use std::path::{Path, PathBuf};

use leptos_i18n_build::TranslationsInfos;
use leptos_i18n_parser::parse_locales::{self, locale::BuildersKeys};

fn walk(dir: &Path, rel: &mut Vec<String>, out: &mut Vec<(String, PathBuf)>) {
    let mut entries: Vec<_> = std::fs::read_dir(dir).expect("read_dir").map(|e| e.unwrap()).collect();
    entries.sort_by_key(|e| e.file_name());
    for e in entries {
        let name = e.file_name().to_string_lossy().to_string();
        rel.push(name);
        if e.file_type().unwrap().is_dir() {
            walk(&e.path(), rel, out);
        } else {
            out.push((rel.join("/"), e.path()));
        }
        rel.pop();
    }
}

fn write_translations(req: &Value) -> Value {
    let work = PathBuf::from(req["work"].as_str().expect("work"));
    assert!(work.starts_with("/verif/.work"), "work dir must be under /verif/.work");
    let _ = std::fs::remove_dir_all(&work);
    let proj = work.join("proj");
    let out = work.join("out");
    let put_project = |files: &serde_json::Map<String, Value>| {
        let _ = std::fs::remove_dir_all(&proj);
        std::fs::create_dir_all(&proj).unwrap();
        std::fs::write(proj.join("Cargo.toml"), req["cargo_toml"].as_str().expect("cargo_toml")).unwrap();
        for (rel, text) in files {
            let p = proj.join(rel);
            std::fs::create_dir_all(p.parent().unwrap()).unwrap();
            std::fs::write(&p, text.as_str().expect("file text")).unwrap();
        }
    };
    // an earlier build of the same project (other texts) into the same output directory: what a build script does on every re-run
    if let Some(prev) = req.get("previous_files").and_then(|v| v.as_object()) {
        put_project(prev);
        if let Ok(infos) = TranslationsInfos::parse_at_dir(proj.clone()) {
            let _ = infos.get_translations().write_to_dir(out.clone());
        }
    }
    put_project(req["files"].as_object().expect("files"));
    let res = (|| {
        let infos = match TranslationsInfos::parse_at_dir(proj.clone()) {
            Ok(i) => i,
            Err(e) => return json!({"parse_err": e.to_string()}),
        };
        if let Err(e) = infos.get_translations().write_to_dir(out.clone()) {
            return json!({"io_err": e.to_string()});
        }
        let mut written = Vec::new();
        walk(&out, &mut Vec::new(), &mut written);
        let files: Vec<Value> = written
            .iter()
            .map(|(rel, p)| {
                let bytes = std::fs::read(p).unwrap();
                let serde = match serde_json::from_slice::<Vec<String>>(&bytes) {
                    Ok(v) => json!({"ok": v}),
                    Err(e) => json!({"err": e.to_string()}),
                };
                let utf8 = std::str::from_utf8(&bytes).is_ok();
                json!({"path": rel, "raw": String::from_utf8_lossy(&bytes), "utf8": utf8, "serde": serde})
            })
            .collect();
        // the expected tables, straight from the parser
        let expected: Vec<Value> = match parse_locales::parse_locales(true, Some(proj.clone())) {
            Err(e) => return json!({"parse_err": format!("second parse: {e}")}),
            Ok((BuildersKeys::NameSpaces { namespaces, .. }, _, _)) => namespaces
                .iter()
                .flat_map(|ns| {
                    let nsname = ns.key.name.to_string();
                    ns.locales.iter().map(move |l| {
                        json!({"path": format!("{}/{}.json", nsname, l.name.name),
                               "strings": l.strings.iter().map(|s| s.to_string()).collect::<Vec<_>>()})
                    })
                })
                .collect(),
            Ok((BuildersKeys::Locales { locales, .. }, _, _)) => locales
                .iter()
                .map(|l| {
                    json!({"path": format!("{}.json", l.name.name),
                           "strings": l.strings.iter().map(|s| s.to_string()).collect::<Vec<_>>()})
                })
                .collect(),
        };
        json!({"files": files, "expected": expected})
    })();
    let _ = std::fs::remove_dir_all(&work);
    res
}

/// op `icu`: `{"op":"icu","work":..,"cargo_toml":..,"files":[[rel,text]..],"expected_options":["Plurals",..]}` →
/// the data keys `get_icu_keys()` returns, the data keys of the expected options (through the public
/// `Options::into_data_keys`), `get_locales()`, `get_namespaces()` and whether `get_locales_langids()` panics.
fn icu(req: &Value) -> Value {
    use leptos_i18n_build::Options;
    let work = PathBuf::from(req["work"].as_str().expect("work"));
    assert!(work.starts_with("/verif/.work"), "work dir must be under /verif/.work");
    let _ = std::fs::remove_dir_all(&work);
    let proj = work.join("proj");
    std::fs::create_dir_all(&proj).unwrap();
    std::fs::write(proj.join("Cargo.toml"), req["cargo_toml"].as_str().expect("cargo_toml")).unwrap();
    for f in req["files"].as_array().expect("files") {
        let p = proj.join(f[0].as_str().unwrap());
        std::fs::create_dir_all(p.parent().unwrap()).unwrap();
        std::fs::write(&p, f[1].as_str().unwrap()).unwrap();
    }
    let res = (|| {
        let infos = match TranslationsInfos::parse_at_dir(proj.clone()) {
            Ok(i) => i,
            Err(e) => return json!({"parse_err": e.to_string()}),
        };
        let mut keys: Vec<String> = infos.get_icu_keys().map(|k| k.path().get().to_string()).collect();
        keys.sort();
        keys.dedup();
        let all = [("Plurals", Options::Plurals), ("FormatDateTime", Options::FormatDateTime), ("FormatList", Options::FormatList),
                   ("FormatNums", Options::FormatNums), ("FormatCurrency", Options::FormatCurrency)];
        let per_option: Vec<Value> = all.iter().map(|(n, o)| {
            let mut ks: Vec<String> = o.into_data_keys().iter().map(|k| k.path().get().to_string()).collect();
            ks.sort();
            json!([n, ks])
        }).collect();
        let locales: Vec<String> = infos.get_locales().map(|l| l.to_string()).collect();
        let namespaces: Option<Vec<String>> = infos.get_namespaces().map(|it| it.map(|n| n.to_string()).collect());
        let langids = std::panic::catch_unwind(std::panic::AssertUnwindSafe(|| {
            infos.get_locales_langids().map(|l| l.to_string()).collect::<Vec<_>>()
        }));
        // the data keys the datagen drivers are configured with (read off their Debug form: `DataKey{plurals/cardinal@1}`),
        // plain and with additional options / keys supplied by the build script (documented use for `t*_format!`)
        fn names_in(debug: &str) -> Vec<String> {
            let mut v: Vec<String> = debug.split("DataKey{").skip(1).filter_map(|r| r.split('}').next()).map(str::to_string).collect();
            v.sort();
            v.dedup();
            v
        }
        let drivers = std::panic::catch_unwind(std::panic::AssertUnwindSafe(|| {
            let mut d = serde_json::Map::new();
            d.insert("plain".into(), json!(names_in(&format!("{:?}", infos.build_datagen_driver()))));
            for (n, o) in all.iter() {
                d.insert(format!("with_options:{n}"), json!(names_in(&format!("{:?}", infos.build_datagen_driver_with_options([*o])))));
                d.insert(format!("with_data_keys:{n}"), json!(names_in(&format!("{:?}", infos.build_datagen_driver_with_data_keys(o.into_data_keys())))));
            }
            Value::Object(d)
        }));
        json!({"keys": keys, "per_option": per_option, "locales": locales, "namespaces": namespaces,
               "drivers": match drivers { Ok(v) => v, Err(_) => json!({"panic": true}) },
               "langids": match langids { Ok(v) => json!(v), Err(_) => json!({"panic": true}) }})
    })();
    let _ = std::fs::remove_dir_all(&work);
    res
}

fn handle(req: &Value) -> Value {
    match req["op"].as_str().unwrap_or("") {
        "icu" => icu(req),
        "write_translations" => write_translations(req),
        op => json!({"bad_op": format!("unknown op {op}")}),
    }
}

fn main() {
    let stdin = std::io::stdin();
    let stdout = std::io::stdout();
    let mut out = std::io::BufWriter::new(stdout.lock());
    std::panic::set_hook(Box::new(|_| {}));
    for line in stdin.lock().lines() {
        let line = line.unwrap();
        if line.trim().is_empty() {
            continue;
        }
        let req: Value = serde_json::from_str(&line).expect("bad json line");
        let res = match std::panic::catch_unwind(|| handle(&req)) {
            Ok(v) => v,
            Err(e) => {
                let msg = e.downcast_ref::<String>().cloned().or_else(|| e.downcast_ref::<&str>().map(|s| s.to_string())).unwrap_or_default();
                json!({"panic": msg})
            }
        };
        writeln!(out, "{}", res).unwrap();
    }
    out.flush().unwrap();
}
