#!/usr/bin/env python3
"""Regenerates /verif/MANIFEST.json from the table below (single source of truth for the interface)."""
import json, os
V = os.path.dirname(os.path.dirname(os.path.abspath(__file__)))
BASE = ("Trusted: Lean 4.33 kernel; axioms propext/Classical.choice/Quot.sound only (audited every run); the hand-written "
        "Lean model is tied to /repo by a differential correspondence run (Rust harness calling the real code vs the model's "
        "executable definitions) — the tie is testing, not proof. ")
CLAIMED = {
 "C14": dict(
   text="Lean theorems over a model of routing.rs path functions (PathBuilder, get_locale_from_path, get_new_path, localize_path, match/construct_path_segments): "
        "a locale is read iff the first segment after the base equals a locale name (C14_locale_from_path_iff); switching preserves every non-locale, non-localized "
        "segment, query and fragment (C14_switch_preserves/_meets_spec); A→B→A is the identity on normalised URLs under an explicit decidable compatibility hypothesis "
        "(C14_switch_roundtrip). Correspondence: router_h include!s the private routing.rs and runs the real functions on generated locale sets, base paths, tables, paths and switch sequences.",
   note=BASE + "generate_routes/match_nested and leptos_router's own matching are not modelled (tables assumed position-wise compatible); see notes/C14.md. No hooks (include!).",
   tech="Lean 4 proof (induction over segment lists) + differential correspondence", ref="§6 C14, notes/C14.md"),
 "C15": dict(
   text="Lean theorems stating the documented precedence outright over a model of fetch_locale/resolve_locale/init_*context (cookie > Accept-Language match > default; sub-context: cookie > initial > parent > resolution; "
        "invalid cookie behaves like no cookie) for all inputs; thin theorems — the exhaustive correspondence run (≈117k combinations of cookie × cookie name × enabled × header × parent × initial on the real ssr code) carries most of the weight.",
   note=BASE + "leptos-use's header/cookie readers and q-value handling are oracles; client-side (hydrate/csr) paths are modelled but not executed. See notes/C15.md.",
   tech="Lean 4 proof (decision logic) + exhaustive differential correspondence", ref="§6 C15, notes/C15.md"),
 "C16": dict(
   text="Refinement theorem: for every operation sequence over a tree of contexts (set, set_untracked, get, scope, subcontext, closures) the model's observations equal the abstract spec CtxId→Locale "
        "(latest set wins; scoped views share the cell; sub-contexts isolated) — C16_refinement, C16_isolation(_seq), C16_scope_shares. Thin model: the correspondence (random op sequences on real I18nContexts) carries most of the weight.",
   note=BASE + "leptos' reactive runtime (closure re-execution, RwSignal atomicity, effects) is trusted; the RenderEffect wiring an initial-locale signal is inert under ssr. See notes/C16.md.",
   tech="Lean 4 proof (refinement by induction over op lists) + differential correspondence", ref="§6 C16, notes/C16.md"),
 "C12": dict(
   text="Lean theorems over a model of langid.rs (filter_matches/find_match): for all request lists and all supported sets the chosen "
        "locale is supported, matches the first request any supported locale serves, is the exact match if one exists and otherwise a most "
        "specific less-specific form; default when nothing matches; unparseable entries ignored (C12_find_match_acceptable and lemmas). "
        "Correspondence: runtime harness path-includes the private langid.rs and runs filter_matches/find_match/find_locale/find_matchs on 4 "
        "declare_locales! enums; model and executable spec are run on the same cases.",
   note=BASE + "ICU4X LanguageIdentifier parsing is an oracle. No hooks.",
   tech="Lean 4 proof (induction over request list, stable-sort head lemma) + differential correspondence", ref="§6 C12"),
}
PENDING = {}
def main():
    props = [json.loads(l)["id"] for l in open(os.path.join(V, "properties.jsonl"))]
    checks, na = [], []
    for p in props:
        if p in CLAIMED:
            c = CLAIMED[p]
            checks.append({
                "property_id": p,
                "quick_cmd": f"./check {p} --tier quick",
                "thorough_cmd": f"./check {p} --tier thorough",
                "evidence_file": f"evidence/{p}.json",
                "replay_cmd_template": f"./check {p} --replay {{path}}",
                "engine": "lean4-model+correspondence",
                "level_claimed": {"category": "proof", "text": c["text"], "design_ref": c["ref"]},
                "level_note": c["note"],
                "technique": c["tech"],
            })
        else:
            na.append({"property_id": p, "reason": PENDING.get(p, "check not built yet in this session; planned (DESIGN.md §6), not claimed until it runs")})
    m = {
        "version": 1,
        "setup_cmd": "./setup.sh",
        "hooks": {"guard": "none", "enable": "no hooks: harness crates reach private code with #[path]/include! of /repo sources",
                  "baseline_off_cmd": "cd /repo && cargo test --workspace --no-fail-fast --offline", "source_commits": [], "add_only": True},
        "engines": [{"name": "lean4-model+correspondence", "path": "lean/ harness/ vlib/ check",
                     "serves_properties": [c["property_id"] for c in checks],
                     "kind_free_text": "hand-written Lean 4 model + theorems; Rust harness line servers calling /repo code; python runner comparing impl / model / spec"}],
        "checks": checks,
        "notes": "See DESIGN.md. known_findings.txt lists repaired defects (fix: commits in /repo) and recorded findings.",
        "not_applicable": na,
    }
    json.dump(m, open(os.path.join(V, "MANIFEST.json"), "w"), indent=1)
    print("claimed", len(checks), "not claimed", len(na))
main()
