#!/usr/bin/env python3
"""Regenerates /verif/MANIFEST.json from the table below (single source of truth for the interface)."""
import json, os
V = os.path.dirname(os.path.dirname(os.path.abspath(__file__)))
BASE = ("Trusted: Lean 4.33 kernel; axioms propext/Classical.choice/Quot.sound only (audited every run); the hand-written "
        "Lean model is tied to /repo by a differential correspondence run (Rust harness calling the real code vs the model's "
        "executable definitions) — the tie is testing, not proof. ")
P = "Lean 4 proof over a hand-written model of the parser pipeline + differential correspondence (Rust harness vs model vs executable spec)"
CLAIMED = {
 "C01": dict(
   text="Theorems: C01_parse_print (for every well-formed source tree of text / {{var}} / <comp> nested to any depth incl. same-name nesting and whitespace variants, "
        "ParsedValue::new of its printing succeeds and denotes evalSrc of the source), C01_closing_tag_found (Dyck invariant of find_closing_tag), C01_reduce_sound/_shape/_total "
        "(flattening keeps the denotation, never errs), C02_tuple_flatten (26-wide tuple chunking drops/reorders nothing); end to end over the whole modelled pipeline + generator (Theorems/C01EndToEnd.lean): C01_end_to_end(_ns/_string/_flavours/_of_config): if Pipeline.run succeeds, then for every namespace, every leaf key path of any depth, every configured locale and every argument environment the generated accessor (view and string back-ends) renders exactly eval of the source value of the effective (fallback) locale; C01_nothing_from_elsewhere (the text depends on nothing but that source value and the arguments). Correspondence: parser harness vs model on sources and token soup; "
        "denotation of the implementation's final trees vs evalSrc for every string key of generated projects; compiled probe crates (load_locales!) rendering td_string!/td_display!/td! vs the denotation.",
   note=BASE + "serde/json decoding, syn ident validity beyond ASCII, rustc/TypedBuilder/leptos rendering are trusted (probe crates exercise them). Strings outside the well-formed grammar are tied by correspondence only. No hooks.",
   tech=P, ref="§6 C01, notes/C01.md, notes/C01Reduce.md"),
 "C02": dict(
   text="Theorems over a model of both code-generator back-ends (flatten / flatten_string, range match / if-chains, plural match, fit_in_leptos_tuple, EitherOfWrapper, per-locale dispatch, scoping): "
        "C02_view_eq_denotation, C02_display_eq_denotation, C02_flavours_agree, C02_all_flavours (any two macro flavours / scoping depths naming the same locale and key path give the same text), "
        "C02_scope_assoc/_chain, C02_dispatch_partition, C02_either_wrap_total, C02_codegen_total. Correspondence: compiled probe crates print 8 flavours (td_string!, td_display!, td!, t_string!, tu_string!, "
        "chained scope_locale!/scope_i18n!) per key x locale x arguments; all must agree and equal the denotation.",
   note=BASE + "The code-generator model is tied to the real generator only through the compiled probe crates (its output is Rust code); rustc's meaning of match/tuples/closures, leptos rendering, TypedBuilder are trusted. View flavour compared modulo ASCII spaces (leptos renders empty text nodes as a space).",
   tech="Lean 4 proof over a model of the generated code + compiled probe crates", ref="§6 C02, notes/C02.md"),
 "C03": dict(
   text="Theorems: C03_default_of_eq_walk (default_of = the inheritance walk for every mapping: chains, forks, cycles, self-loops; fuel m.length+1 suffices), C03_compute_partition/_disjoint/_covers (match arms), "
        "C03_mapping_iff (a locale is mapped iff its value is null/absent, all depths), C03_subkeys_uniform, C03_fallback_end_to_end (through check_locales_inner), C03_default_never_defaults. "
        "Correspondence: effective locale reported by the real DefaultedLocales for every key x locale vs an independent walk over inherits and the files' presence pattern; exhaustive over all inherits maps on 4 locales x presence patterns in the thorough tier. Also: references read through the same walk (C06's fallback-walk family), the `suppress_key_warnings` build, compiled probe crates, and a compile-only probe of a generated project in the `dynamic_load`+`ssr` feature set.",
   note=BASE + "Foreign keys read their target along the same walk since fix 4bd75c2 (C06_target_from_fallback_walk; checked by C06).", tech=P, ref="§6 C03, notes/C03.md"),
 "C04": dict(
   text="Theorems: C04_do_match_meaning (do_match = interval membership for every range shape, all ten types, exact decimals), C04_new_simple_int/_incl_int/_open_int/_float (what Range::new returns: a..b means x<=n<y via checked_sub, "
        "InvalidBoundEnd iff y=MIN, ImpossibleRange iff empty), C04_new_never_empty, C04_match_first + C04_parse_time_eq_run_time (find_value = first matching branch = what the generated match renders), C04_count_for_cases (30 literal x type cases), "
        "C04_fallback_rules, C04_seq_struct_agree, C04_count_shown. Correspondence: Range::new + membership for all 256 counts of i8/u8 and boundary neighbourhoods of wider/float types vs model vs the Rust meaning computed independently; "
        "declarations with literal counts through foreign keys; probe crates at run time (thorough).",
   note=BASE + "Floats are exact decimals in the model (generators avoid rounding ties); str::parse for floats is characterised only through the correspondence; non-ASCII digits / exponent spellings counted as unmodelled.", tech=P, ref="§6 C04, notes/C04.md"),
 "C05": dict(
   text="Theorems: C05_suffix_parse (is_possible_plural iff key = base(_ordinal)?_form), C05_cand_insert + C05_loop_candidate (same base+form twice = cardinal/ordinal clash -> error), C05_finish_group (merged iff >=2 candidates incl. other; errors InvalidKey / "
        "ConflictingPluralRuleType / PluralsAtNormalKey in that order), C05_unused_forms, C05_render_plural + C05_parse_time_eq_run_time (form of the CLDR category else other, same at parse time and run time); whole map (Theorems/C05Map.lean): C05_merge_plurals_map / _all_levels (merge_plurals = a declarative specification — group by base, decide per group — on every level: same map, same error, same warnings in the same order), C05_nonplural_keys_untouched, C05_merged_key_iff, C05_forms_exact. "
        "Correspondence: all form subsets x cardinal/ordinal x 10 locales (en fr ru ar pl ja cy ga he lt): merged keys, warnings, errors and the form rendered for counts 0..=200, 10^6, 1.5 via the ICU4X oracle; literal counts (integers and decimals) through references whose plural is inherited from another locale; the six t*_plural*! macros at run time vs ICU4X PluralRules; probe crates over en fr cy ru pt pt-PT rendered in one process.",
   note=BASE + "CLDR plural rules (ICU4X compiled data) are an oracle, not verified. Hypotheses of the whole-map theorem (sorted keys without white space) are what decoding establishes (C05_map_decoded_keys_wf, per level).", tech=P, ref="§6 C05, notes/C05.md"),
 "C06": dict(
   text="Theorems: C06_populate_subst (eval of populate v args = eval of v under the substituted environment: variables, literal counts fixing the branch, renamed counts; mutual induction over all value kinds), C06_populate_chain, "
        "C06_resolveNode_sound, C06_resolved_no_notset, C06_resolve_missing/_cycle/_self_reference/_two_cycle, C06_populate_errors (subkey target rejected), C06_resolve_fuel_monotone, C06_resolveAll_memo + C06_order_independent(_perm/_leaf/_eval/_full_of_wf) (Theorems/C06Order.lean: the resolved values are a function of the original world, whatever the order and the fuel in which resolve_foreign_keys visits the keys), C06_resolveAll_repeat (idempotent). "
        "Correspondence: reference graphs (chains to depth 6, every argument kind, targets of every kind, namespaces, null targets) and all cyclic graphs on <=3 (4) keys: the referencing key's denotation = target's denotation under substitution.",
   note=BASE + "Order independence is proved for worlds satisfying WorldWF (distinct keys per locale — what decoding produces); leaf equality, not pointer identity of shared cells. F11/F20 (null/absent target in an inheriting locale) are fixed (4bd75c2): C06_target_from_fallback_walk states that a reference reads its target in the effective locale of C03, C06_args_in_reference_locale that arguments and plural category stay in the locale of the reference.", tech=P, ref="§6 C06, notes/C06.md"),
 "C07": dict(
   text="Theorems: C07_builder_keys_eq_default, C07_merge_preserves_keys/_tree, C07_warnings_exact_flat/_nested, C07_check_warnings_exact (the warnings of check_locales_inner are exactly the spec list, in order), C07_no_warning_for_default, "
        "C07_warnings_nodup_flat, C07_inherits_silences_missing, C07_suppress_silences_surplus, C07_subkey_mismatch_error; whole pipeline (Theorems/C07Pipeline.lean): C07_pipeline(_of_config) (whenever Pipeline.run succeeds the warnings are exactly the earlier stages' warnings followed by the specification list computed from the resolved files, in order, and the builder keys have exactly the default locale's key tree at every depth), C07_pipeline_diagnostics_set, C07_pipeline_mismatch_sound/_complete/_iff, C07_pipeline_error_kinds. Correspondence: both feature builds (suppress_key_warnings on/off): emitted warnings as a multiset vs the set computed independently from the files.",
   note=BASE + "Plural merging happens before check_locales and is covered by C05; key distinctness (BTreeMap invariant) is an explicit, proved-established hypothesis.", tech=P, ref="§6 C07, notes/C07.md"),
 "C08": dict(
   text="Theorems: C08_keys_exact (get_keys_inner adds exactly the occurrences of variables/formatters/components/counts), C08_count_conflicts (error iff two count kinds disagree), C08_union_over_locales + C08_required_arguments "
        "(the key's fields = union over locales), C08_lit_kind (literal accessor iff every locale has a literal of one type); whole pipeline (Theorems/C08Pipeline.lean): C08_pipeline (whenever Pipeline.run succeeds, for every leaf key path of any depth the recorded variables, formatters, components and count kinds are exactly the union over the locales defining the key of the occurrences in their resolved values), C08_pipeline_builder_iff, C08_pipeline_count_conflict_sound/_complete/_iff. Correspondence: builder fields of the real parser vs the union of occurrences in each locale's final value; positive probe crate "
        "(supplying exactly that set compiles and renders); negative probes (omit a member / unknown argument / unknown key must not compile).",
   note=BASE + "`Compiles iff exactly that set is supplied` is TypedBuilder type-state: trusted, exercised by probe crates only.", tech=P, ref="§6 C08, notes/C08.md"),
 "C09": dict(
   text="Theorems: C09_parse_no_panic (for EVERY string ParsedValue::new's model reaches no panic outcome; fuel |s|+1 suffices: every recursive call is on a strictly shorter string, incl. decoded foreign-key arguments), C09_parse_fuel_irrelevant, "
        "C09_depth_linear, C09_decode_no_panic, C09_slices_in_bounds_*, C09_range_new_total; whole pipeline (Theorems/C09Pipeline.lean): C09_pipeline_no_panic(_of_config): for every configuration produced by Config.new and EVERY set of decoded files, Pipeline.run (decode, merge plurals, resolve foreign keys, check, index strings, builder keys) returns ok or a diagnostic, never a panic outcome, with sufficient fuel at every stage; C02_codegen_total + C01_source_renderable for the generator. Correspondence: parser, code generator (in-process) and build helper under catch_unwind on token soup, "
        "byte-mutated files, past panic witnesses (F1-F7, F18, F19, F21) and generated projects; deep inputs in subprocesses. Also: the generator and parser harnesses in their YAML and JSON5 builds (what those formats can say and JSON cannot: non-finite floats, anchors, hex, comments), identifier-like odd locale names through the generator, ranges with up to 63 branches, deep nesting (127..20000 levels) in the three formats. Known findings: F8 (40000 interpolations) and C09-json5-pest (200000 nested objects overflow the third-party JSON5 reader).",
   note=BASE + "Stack exhaustion is runtime behaviour the model cannot exhibit (only a linear depth bound is proved): known finding F8. Offsets are character offsets in the model; byte/char boundary safety is tied by the correspondence with multibyte characters next to every delimiter.",
   tech=P + "; panic sites are explicit outcomes", ref="§6 C09, notes/C09.md"),
 "C10": dict(
   text="Theorems: C10_amap_perm (BTreeMap built from a permutation of entries with distinct keys is the same map), C10_locale_keys_perm (decoding an object is invariant under permutation of its entries — no distinctness hypothesis since the fix of F13: C10_duplicate_key_rejected, C10_locale_keys_perm_fails), "
        "C10_duplicate_key_order_dependent (the pre-fix behaviour, kept as the regression witness); with C06_order_independent for the visiting order of foreign keys; whole files and pipeline (Theorems/C10Pipeline.lean): C10_decode_perm, C10_pipeline_perm(_full/_eq_of_ok/_after_decoding/_lookup) for entries permuted in any object at any depth (equal runs, or two decoding failures that are candidates of both files), C10_pipeline_deterministic. The model is a pure function, which gives run-to-run determinism of what it covers. Correspondence: each project loaded twice, with permuted entries, "
        "and written as JSON / JSON5 / YAML (three feature builds): identical keys, diagnostics and rendered text; generated code of two fresh generator processes identical; the inline declare_locales! macro under key reordering (compiled probe crate, texts equal to the file loader's).",
   note=BASE + "YAML/JSON5 front-ends are oracles compared through the implementation's dumps. Keys equal after trimming (F13) are rejected since fix b1a986a.", tech=P, ref="§6 C10, notes/C10.md"),
 "C11": dict(
   text="Theorems: C11_push_str, C11_index_sound/_full (after index_strings every string literal carries an index i with table[i] = its text; table grows at the end, no duplicates), C11_table_length (count = table length for every locale; propagate gives nested subkey locales "
        "their top locale's count, any depth), C11_locale_tables (every locale, through mergeKeys: Theorems/C11Full.lean), C11_accessors_read_their_text, C11_pipeline(_of_config) (whenever Pipeline.run succeeds every accessible literal of every locale and namespace carries an index into its top locale's table holding exactly its text; Theorems/C11Pipeline.lean), C11_json_roundtrip (the exported file decodes to the same strings for ALL Unicode strings). Correspondence: invariants checked on every locale of generated projects; "
        "build helper write_to_dir files decoded with a strict JSON reader (Lean spec) and serde_json.",
   note=BASE + "Surplus keys (present only in a non-default locale, never rendered) are not indexed: the statement is about accessible keys.", tech=P, ref="§6 C11, notes/C11.md, notes/C11json.md"),
 "C12": dict(
   text="Lean theorems over a model of langid.rs (filter_matches/find_match): for all request lists and all supported sets the chosen "
        "locale is supported, matches the first request any supported locale serves, is the exact match if one exists and otherwise a most "
        "specific less-specific form; default when nothing matches; unparseable entries ignored (C12_find_match_acceptable and lemmas). "
        "Correspondence: runtime harness path-includes the private langid.rs and runs filter_matches/find_match/find_locale/find_matchs on 4 "
        "declare_locales! enums; model and executable spec are run on the same cases. Also: the supported locales are read off their configured names by the check, and the same negotiation is run through contexts (init_i18n_context / resolve_locale_with_options without cookie, harness ctx_h).",
   note=BASE + "ICU4X LanguageIdentifier parsing is an oracle. No hooks.",
   tech="Lean 4 proof (induction over request list, stable-sort head lemma) + differential correspondence", ref="§6 C12"),
 "C13": dict(
   text="Theorems over a model of the generated Locale enum: C13_from_str_iff (from_str s = l iff trim s = name l), C13_from_str_as_str, C13_not_a_name (non-names parse to none / serde default), C13_serde_roundtrip (serde + cookie codec), "
        "C13_get_all, C13_default_first_perm, C13_config_new_wf, C13_all_representations. Correspondence: 5 locale sets (regions, scripts, variants, near-duplicates, RTL, default listed last / not listed) via declare_locales! and load_locales!: every identity method vs model vs ICU4X oracle; "
        "~11k strings around every name (case, 25 White_Space chars, prefixes, suffixes). Serde round trips also through bincode and postcard (formats that are not self-describing).",
   note=BASE + "ICU locale / langid / direction are computed by ICU4X at macro time: oracle (direct ICU4X calls + CLDR excerpt). Scoped-wrapper theorems are thin.", tech="Lean 4 proof + differential correspondence", ref="§6 C13, notes/C13.md"),
 "C14": dict(
   text="Lean theorems over a model of routing.rs path functions (PathBuilder, get_locale_from_path, get_new_path, localize_path, match/construct_path_segments): "
        "a locale is read iff the first segment after the base equals a locale name (C14_locale_from_path_iff); switching preserves every non-locale, non-localized "
        "segment, query and fragment (C14_switch_preserves/_meets_spec); A→B→A is the identity on normalised URLs under an explicit decidable compatibility hypothesis "
        "(C14_switch_roundtrip); C14_match_iff_serves (the matcher succeeds iff the route declaratively serves the path) and C14_switch_rewrites_localized (if the old URL is served by a route of the old locale, the new URL is served by the same route of the new locale: every localized segment is rewritten); C14_nested_* (Theorems/C14Nested.lean: the nested-route specification reports a locale only for an exact first segment, un-prefixed URLs use the default locale's segments). Correspondence: the real I18nNestedRoute driven natively vs leptos_router on each locale's plain tree, generated tables vs compatTables; router_h include!s the private routing.rs and runs the real functions on generated locale sets, base paths, tables, paths and switch sequences.",
   note=BASE + "match_nested / generate_routes are specified and run (impl vs spec), not modelled in Lean; leptos_router's own matching is the oracle there; see notes/C14.md. No hooks (include!).",
   tech="Lean 4 proof (induction over segment lists) + differential correspondence", ref="§6 C14, notes/C14.md"),
 "C15": dict(
   text="Lean theorems stating the documented precedence outright over a model of fetch_locale/resolve_locale/init_*context (cookie > Accept-Language match > default; sub-context: cookie > initial > parent > resolution; "
        "invalid cookie behaves like no cookie) for all inputs; thin theorems — the exhaustive correspondence run (≈146k combinations of cookie × cookie name × enabled × header × {main context, the generated <I18nContextProvider> component with its html-attribute props unset/true/false, resolve_locale* alone and under an already provided context, sub-contexts × parent × initial} on the real ssr code) carries most of the weight. C15Feature: with cookies not in use (library built without its `cookie` feature, enable_cookie=false, sub-context without cookie name) no kind of context depends on the jar and nothing is written back; the same cases also run on a harness build of leptos_i18n without the `cookie` feature.",
   note=BASE + "leptos-use's header/cookie readers and q-value handling are oracles; client-side (hydrate/csr) paths are modelled but not executed. See notes/C15.md.",
   tech="Lean 4 proof (decision logic) + exhaustive differential correspondence", ref="§6 C15, notes/C15.md"),
 "C16": dict(
   text="Refinement theorem: for every operation sequence over a tree of contexts (set, set_untracked, get, scope, subcontext, closures) the model's observations equal the abstract spec CtxId→Locale "
        "(latest set wins; scoped views share the cell; sub-contexts isolated) — C16_refinement, C16_isolation(_seq), C16_scope_shares; reactive observers: C16_memo_refinement (Memos with leptos' laziness modelled: a tracked set marks every observer dirty, an untracked one none — C16_tracked_set_notifies(_after_untracked), C16_untracked_set_keeps_cache); provider components over an owner tree: C16_provider_scoping(_seq), C16_sibling_provider_inits_from_parent. Correspondence: random op sequences (set/set_untracked/get/scope/subcontext/memos over get_locale, t_string!, td_string!, t_display!, t_plural!/provider/child owner/use_context, accessors of every macro flavour incl. t_plural!, executor ticks at arbitrary positions) on real I18nContexts, on two harness builds: plain ssr, and one where Effects / RenderEffects really run (reactive_graph/effects); C16_ticks_invisible (Theorems/C16Ticks.lean: inserting ticks anywhere changes no observation of model or specification) and leptos owners vs model vs spec. Wired sub-contexts (harness ops sub_wired / wire_set, model Wire + delivery at tick, Theorems/C16Wired.lean, an oracle that does not use the model), `t_plural!` and `t_format!` accessor kinds.",
   note=BASE + "leptos' reactive runtime (closure re-execution, RwSignal atomicity, effect scheduling) is trusted; effects run natively on a FIFO executor, not in wasm; a caller-wired initial-locale signal that changes (the property's stated exception) is not exercised. See notes/C16.md.",
   tech="Lean 4 proof (refinement by induction over op lists) + differential correspondence", ref="§6 C16, notes/C16.md"),
 "C12": dict(
   text="Lean theorems over a model of langid.rs (filter_matches/find_match): for all request lists and all supported sets the chosen "
        "locale is supported, matches the first request any supported locale serves, is the exact match if one exists and otherwise a most "
        "specific less-specific form; default when nothing matches; unparseable entries ignored (C12_find_match_acceptable and lemmas). "
        "Correspondence: runtime harness path-includes the private langid.rs and runs filter_matches/find_match/find_locale/find_matchs on 4 "
        "declare_locales! enums; model and executable spec are run on the same cases.",
   note=BASE + "ICU4X LanguageIdentifier parsing is an oracle. No hooks.",
   tech="Lean 4 proof (induction over request list, stable-sort head lemma) + differential correspondence", ref="§6 C12"),
 "C17": dict(
   text="Theorems: C17_embed_decode (decoding the embedded JS literal gives back exactly the units, for ALL unit lists and ALL Unicode strings), C17_embed_no_lt / C17_embed_script_safe (no `<`, hence no </script or <!--), "
        "C17_register_exact / _order_insensitive / _untouched (registered set = units touched by the render history). Correspondence: the real RegisterCtx::{provide_context, register, to_array} with runtime strings fed through a StringArray handle, 1-3 concurrent renders, and real renders (the generated accessors t_string!/t_display!/td_string!/t! inside the generated <I18nContextProvider>, several renders per process); output judged by the Lean decoder and serde_json.",
   note=BASE + "The browser's JS parser ~ the JS-literal decoder of the spec; hydrate-side wasm code, streaming / islands rendering not executed. Locale names / unit ids are pushed unescaped (identifiers): explicit hypothesis UnitNamesOk.", tech="Lean 4 proof (encoder/decoder round trip by induction) + differential correspondence", ref="§6 C17, notes/C17.md"),
 "C18": dict(
   text="Theorems: C18_formatter_args (from_name_and_args = the documented option table: first recognised occurrence else default), C18_unknown_option_ignored, C18_whitespace_insensitive, C18_unknown_name, C18_t_format_agrees (file syntax and t*_format! agree), with C06_populate_subst for formatted variables reached through `$t(..)` (checked on every clause), "
        "C18_cache_memo / _commutes / _threads (every request served make(key) whatever the history or schedule of atomic steps). Correspondence: exhaustive option product x whitespace variants through the real parser, every clause also through `$t(..)` references; formatted output vs direct ICU4X calls on 8 locales, also in a build WITHOUT icu_compiled_data behind a recording custom provider (every constructor asked for exactly once with the right locale and options); t_format! views following set_locale; request histories in one process; 16-thread races (support). The custom-provider stage runs twice, same requests: behind a hand-written IcuDataProvider impl and behind the impl generated by #[derive(IcuDataProvider)] over baked DataProviders (outputs vs ICU4X; recorded constructor calls / data loads vs the requests).",
   note=BASE + "ICU4X output is the oracle (no theorem); RwLock atomicity and leaked formatters trusted. Known finding C18-zone: time_length full|long cannot be rendered.", tech="Lean 4 proof + differential correspondence + ICU4X oracle", ref="§6 C18, notes/C18.md"),
 "C19": dict(
   text="Theorems over Config.new: C19_default_first (default first, present, no duplicates, set = listed + default), C19_duplicates_rejected, C19_inherits_valid / _unknown_rejected / _default_inherits_rejected, C19_required_fields, C19_unknown_ignored, "
        "C19_files_read(_order) (exactly the (namespace, locale) files in configuration order). Correspondence: ConfigFile::new on ~3k generated manifests (exhaustive locale lists <=3 over 4 names x 3 defaults) vs model vs independent spec; tracked files for generated layouts x 3 formats. Manifests mentioning the section header in comments / strings, CRLF line endings, files present only under another format's extension. "
        "The textual step before TOML decoding is modelled too (Model/Manifest.lean, Theorems/C19Section.lean, any manifest text): C19_section_reassemble (before ++ header ++ after is the manifest), C19_section_starts_line, C19_section_first, C19_section_absent_iff (ConfigNotPresent iff no line starts with the header), "
        "C19_mention_is_not_section / C19_blank_is_not_section (a comment or string mentioning the header is never the section), C19_whitespaced_shape, C19_line_numbers_kept (every character of the section is on the same line of the text handed to the TOML parser as in Cargo.toml). C19_text_before_ignored / C19_text_after_ignored (whole non-section lines before, and any text after the header, do not move the split); with the TOML parser as a parameter (Model/ManifestConfig.lean): C19_manifest_before_ignored (under the stated assumption that a blank first line does not change what the parser decodes, text before the section changes neither configuration nor error), C19_manifest_absent, C19_manifest_config (ConfigFile::new = Config.new of the decoded section, so the Config.new theorems speak about manifests). C19_multiline_string_witness: model side of the recorded finding C19-multiline-string. Correspondence for it: the private split_at_config_section, whose source text is extracted from /repo by the harness' build.rs on every build, vs Manifest.splitAtSection vs the statement on ~3k generated texts (Unicode blanks, zero-width look-alikes, CR / CRLF / missing line ends, near-miss headers); ConfigFile::new end to end on manifests with mentions around an indented section, and the line reported for a syntax error inside the section vs Manifest.whitespaced.",
   note=BASE + "The TOML parser is an oracle (Config.new starts from the decoded table; Manifest.whitespaced ends at the text handed to it). A line of a multi-line TOML string that starts with the header text is taken for the section by code and model alike (textual search).", tech=P, ref="§6 C19, notes/C19.md"),
 "C20": dict(
   text="Theorems over a model of find_used_datakey: C20_options_iff / C20_plurals_iff / C20_formatter_iff (option in the set iff some builder key records a plural count / a formatter of that family, any subkey depth, all namespaces), "
        "C20_key_uses_iff (with C08: iff some locale's value of that key contains such a node at any depth); whole pipeline (Theorems/C20Full.lean, C20Pipeline.lean): C20_pipeline(_plurals/_formatter/_of_config): whenever Pipeline.run succeeds, an option is requested iff some accessible key of some locale of some namespace, after plural merging and foreign-key resolution, contains a plural / formatter node of that family; C20_locales (the locales reported are exactly the configured ones). Correspondence: build helper parse_at_dir + get_icu_keys + get_locales + get_namespaces on projects placing plurals/formatters only in a non-default locale / subkeys / via foreign key / one namespace: "
        "data keys = union of the used options' keys (up to all five options over up to four namespaces); the datagen drivers (plain / with options / with data keys) carry exactly those keys plus the supplied ones; each option's key list contains what ICU4X's constructors document; the helper accepts whatever the macro's loader accepts; locales = configured ones.",
   note=BASE + "C20_full_statement as first written (quantifying over all keys incl. surplus keys of non-default locales) is false and is kept only as a def with the counterexample; the proved statement quantifies over accessible keys. That the data keys suffice for ICU4X at run time depends on ICU's tables (oracle).", tech=P, ref="§6 C20, notes/C20.md"),
}
PENDING = {}
def main():
    props = [json.loads(l)["id"] for l in open(os.path.join(V, "properties.jsonl"))]
    checks, na = [], []
    for p in props:
        if p in CLAIMED:
            c = CLAIMED[p]
            checks.append({
                "property_id": p,
                "quick_cmd": f"./check {p} --tier quick",
                "thorough_cmd": f"./check {p} --tier thorough",
                "evidence_file": f"evidence/{p}.json",
                "replay_cmd_template": f"./check {p} --replay {{path}}",
                "engine": "lean4-model+correspondence",
                "level_claimed": {"category": "proof", "text": c["text"], "design_ref": c["ref"]},
                "level_note": c["note"],
                "technique": c["tech"],
            })
        else:
            na.append({"property_id": p, "reason": PENDING.get(p, "check not built yet in this session; planned (DESIGN.md §6), not claimed until it runs")})
    m = {
        "version": 1,
        "setup_cmd": "./setup.sh",
        "hooks": {"guard": "none", "enable": "no hooks: harness crates reach private code with #[path]/include! of /repo sources",
                  "baseline_off_cmd": "cd /repo && cargo test --workspace --no-fail-fast --offline", "source_commits": [], "add_only": True},
        "engines": [{"name": "lean4-model+correspondence", "path": "lean/ harness/ vlib/ check",
                     "serves_properties": [c["property_id"] for c in checks],
                     "kind_free_text": "hand-written Lean 4 model + theorems; Rust harness line servers calling /repo code; python runner comparing impl / model / spec"}],
        "checks": checks,
        "notes": "See DESIGN.md. known_findings.txt lists repaired defects (fix: commits in /repo) and recorded findings.",
        "not_applicable": na,
    }
    json.dump(m, open(os.path.join(V, "MANIFEST.json"), "w"), indent=1)
    print("claimed", len(checks), "not claimed", len(na))
main()
