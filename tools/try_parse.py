#!/usr/bin/env python3
import sys, os, json
sys.path.insert(0, os.path.dirname(os.path.dirname(os.path.abspath(__file__))))
from vlib.common import *
from vlib import gen
rng = Rng(int(sys.argv[1]) if len(sys.argv) > 1 else 1)
N = int(sys.argv[2]) if len(sys.argv) > 2 else 2000
strs = []
for i in range(N):
    if i % 2 == 0:
        strs.append(gen.soup(rng))
    else:
        strs.append(gen.print_src(gen.gen_src(rng)))
impl, crash = run_lines(TARGET_DIR + "/release/parser_h", [{"op": "parse_new", "s": s} for s in strs])
print("crash", crash)
model = lean_driver([{"op": "parse.new", "s": s} for s in strs])
bad = 0
kinds = {}
for s, a, b in zip(strs, impl, model):
    a2 = {k: v for k, v in a.items() if k != "msg"}
    k = "ok" if "ok" in a else a.get("err", "panic")
    kinds[k] = kinds.get(k, 0) + 1
    if a2 != b:
        bad += 1
        if bad <= 5:
            print("MISMATCH", json.dumps(s), "\n impl ", json.dumps(a)[:600], "\n model", json.dumps(b)[:600])
print("cases", len(strs), "mismatches", bad, kinds)
