#!/usr/bin/env python3
"""tools/seed_verify.py <Cxx> <m1|m2> [extra checks...]
Confirms a seeded change produced by an independent agent (/tmp/mut_out/Cxx/mN), then runs the checks against it:
 1. scratch worktree of /repo HEAD + patch: builds, whole test suite passes;
 2. the demonstration fails with the change and passes without it;
 3. patch applied to /repo itself, `./check Cxx` (and extra checks) run, /repo restored (git checkout -- .);
 4. kept under /verif/seeded/Cxx-mN/ with meta.json (what it needs to manifest, what was run, which check caught it)."""
import json, os, re, shutil, subprocess, sys, time
V = os.path.dirname(os.path.dirname(os.path.abspath(__file__)))
pid, mn = sys.argv[1], sys.argv[2]
extra = sys.argv[3:]
src = f"/tmp/mut_out/{pid}/{mn}"
wt = f"/tmp/sv_wt_{pid}_{mn}"
env = dict(os.environ, CARGO_NET_OFFLINE="true", CARGO_TARGET_DIR="/tmp/sv_target", WT=wt)

def sh(cmd, cwd=None, timeout=3600, e=None):
    p = subprocess.run(cmd, shell=True, cwd=cwd, env=e or env, stdout=subprocess.PIPE, stderr=subprocess.STDOUT, timeout=timeout)
    return p.returncode, p.stdout.decode("utf-8", "replace")

meta = json.load(open(f"{src}/meta.json"))
res = {"property": pid, "mutation": mn, "summary": meta.get("summary"), "needs": meta.get("needs"), "agent_verified": meta.get("verified")}
sh(f"git -C /repo worktree remove --force {wt}")
rc, out = sh(f"git -C /repo worktree add --detach {wt} HEAD")
assert rc == 0, out
shutil.copy("/repo/Cargo.lock", f"{wt}/Cargo.lock")
rc, out = sh(f"git apply {src}/patch.diff", cwd=wt)
if rc != 0:
    rc, out = sh(f"git apply --3way {src}/patch.diff", cwd=wt)
res["patch_applies"] = rc == 0
if rc != 0:
    print("PATCH DOES NOT APPLY", out[-500:])
    sh(f"git -C /repo worktree remove --force {wt}")
    json.dump(res, open(f"/tmp/mut_out/{pid}/{mn}/verify.json", "w"), indent=1)
    sys.exit(1)
sh(f"git diff > /tmp/mut_out/{pid}/{mn}/patch_rebased.diff", cwd=wt)
t0 = time.time()
rc, out = sh("cargo test --workspace --no-fail-fast --offline 2>&1 | grep -E '^test result|FAILED|error(\\[|:)' | sort | uniq -c", cwd=wt)
passed = sum(int(m.group(1)) * int(m.group(2)) for m in re.finditer(r"\s*(\d+) test result: ok\. (\d+) passed", out))
failed = "FAILED" in out or "error" in out or re.search(r"[1-9]\d* failed", out)
res["suite"] = {"passed_incl_doctests": passed, "failed": bool(failed), "secs": round(time.time() - t0)}
print("suite:", res["suite"])
# demo with / without
demo = f"{src}/demo"
def run_demo():
    if os.path.exists(f"{demo}/run.sh"):
        return sh(f"bash run.sh", cwd=demo, timeout=3600)
    return sh(meta.get("demo_cmd", "false"), cwd=demo, timeout=3600)
rc1, o1 = run_demo()
res["demo_with_mutation_rc"] = rc1
sh("git checkout -- .", cwd=wt)
rc2, o2 = run_demo()
res["demo_without_rc"] = rc2
print("demo with:", rc1, "without:", rc2)
if rc2 != 0:
    print(o2[-1500:])
sh(f"git -C /repo worktree remove --force {wt}")
# run the checks against /repo with the patch
st = subprocess.run("git -C /repo status --porcelain", shell=True, stdout=subprocess.PIPE).stdout.decode().strip()
assert st == "", "/repo not clean: " + st
rc, out = sh(f"git -C /repo apply /tmp/mut_out/{pid}/{mn}/patch_rebased.diff")
assert rc == 0, out
res["checks"] = {}
try:
    for c in [pid] + extra:
        t0 = time.time()
        rc, out = sh(f"./check {c}", cwd=V, timeout=7200, e=dict(os.environ))
        lines = [l for l in out.split("\n") if l.startswith(("VIOLATION", "OK", "KNOWN", "HARNESS"))]
        res["checks"][c] = {"rc": rc, "lines": lines[:6], "secs": round(time.time() - t0)}
        print(c, rc, lines[:4])
        for l in lines:
            m = re.search(r"replay=(\S+)", l)
            if m and os.path.exists(m.group(1)):
                os.makedirs(f"{V}/seeded/{pid}-{mn}", exist_ok=True)
                shutil.copy(m.group(1), f"{V}/seeded/{pid}-{mn}/replay_{c}.json")
finally:
    sh("git -C /repo checkout -- .")
    # restore evidence of the unchanged tree is done by the caller re-running the check
ok = (not res["suite"]["failed"]) and rc1 != 0 and rc2 == 0
res["confirmed"] = bool(ok)
res["caught_by"] = [c for c, r in res["checks"].items() if r["rc"] == 1]
d = f"{V}/seeded/{pid}-{mn}"
os.makedirs(d, exist_ok=True)
shutil.copy(f"/tmp/mut_out/{pid}/{mn}/patch_rebased.diff", f"{d}/patch.diff")
if os.path.exists(f"{d}/demo"):
    shutil.rmtree(f"{d}/demo")
shutil.copytree(demo, f"{d}/demo", ignore=shutil.ignore_patterns("target", "Cargo.lock"))
json.dump(res, open(f"{d}/meta.json", "w"), indent=1)
print(json.dumps({k: res[k] for k in ("confirmed", "caught_by")}))
