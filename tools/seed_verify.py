#!/usr/bin/env python3
"""tools/seed_verify.py confirm <Cxx> <mN>     (parallelisable: SV_SLOT=k selects the cargo target dir)
   tools/seed_verify.py check   <Cxx> <mN> [extra checks...]   (sequential: patches /repo itself, then restores it)
Confirms a seeded change produced by an independent agent (/tmp/mut_out/Cxx/mN), then runs the checks against it:
 confirm: scratch worktree of /repo HEAD + patch: whole test suite passes; the demonstration fails with the change and
          passes without it;
 check:   patch applied to /repo itself, `./check Cxx` (and extra checks) run, /repo restored (git checkout -- .);
          kept under /verif/seeded/Cxx-mN/ with meta.json (what it needs, what was run, which check caught it)."""
import json, os, re, shutil, subprocess, sys, time
V = os.path.dirname(os.path.dirname(os.path.abspath(__file__)))
phase, pid, mn = sys.argv[1], sys.argv[2], sys.argv[3]
extra = sys.argv[4:]
src = next(f"{r}/{pid}/{mn}" for r in ("/tmp/mut_out8", "/tmp/mut_out7", "/tmp/mut_out6", "/tmp/mut_out5", "/tmp/mut_out4", "/tmp/mut_out3", "/tmp/mut_out2", "/tmp/mut_out") if os.path.exists(f"{r}/{pid}/{mn}/meta.json"))
wt = f"/tmp/sv_wt_{pid}_{mn}"
env = dict(os.environ, CARGO_NET_OFFLINE="true", CARGO_TARGET_DIR="/tmp/sv_target_" + os.environ.get("SV_SLOT", "0"), WT=wt)


def sh(cmd, cwd=None, timeout=5400, e=None):
    p = subprocess.run(cmd, shell=True, cwd=cwd, env=e or env, stdout=subprocess.PIPE, stderr=subprocess.STDOUT, timeout=timeout)
    return p.returncode, p.stdout.decode("utf-8", "replace")


meta = json.load(open(f"{src}/meta.json"))
if phase == "confirm":
    res = {"property": pid, "mutation": mn, "summary": meta.get("summary"), "needs": meta.get("needs"), "agent_verified": meta.get("verified")}
    sh(f"git -C /repo worktree remove --force {wt}")
    rc, out = sh(f"git -C /repo worktree add --detach {wt} HEAD")
    assert rc == 0, out
    shutil.copy("/repo/Cargo.lock", f"{wt}/Cargo.lock")
    rc, out = sh(f"git apply {src}/patch.diff", cwd=wt)
    if rc != 0:
        rc, out = sh(f"git apply --3way {src}/patch.diff", cwd=wt)
    res["patch_applies"] = rc == 0
    if rc != 0:
        print(pid, mn, "PATCH DOES NOT APPLY", out[-300:])
        sh(f"git -C /repo worktree remove --force {wt}")
        json.dump(res, open(f"{src}/verify.json", "w"), indent=1)
        sys.exit(1)
    sh(f"git diff HEAD > {src}/patch_rebased.diff", cwd=wt)
    t0 = time.time()
    rc, out = sh("cargo test --workspace --no-fail-fast --offline 2>&1 | grep -E '^test result|FAILED|^error' | sort | uniq -c", cwd=wt)
    passed = sum(int(m.group(1)) * int(m.group(2)) for m in re.finditer(r"\s*(\d+) test result: ok\. (\d+) passed", out))
    failed = ("FAILED" in out) or ("error" in out) or bool(re.search(r"[1-9]\d* failed", out)) or passed < 85
    res["suite"] = {"passed_incl_doctests": passed, "failed": bool(failed), "secs": round(time.time() - t0)}
    demo = f"{src}/demo"

    def run_demo():
        if os.path.exists(f"{demo}/run.sh"):
            return sh("bash run.sh", cwd=demo)
        return sh(meta.get("demo_cmd", "false"), cwd=demo)
    rc1, o1 = run_demo()
    sh("git reset -q --hard HEAD", cwd=wt)
    rc2, o2 = run_demo()
    res["demo_with_mutation_rc"], res["demo_without_rc"] = rc1, rc2
    res["confirmed"] = (not failed) and rc1 != 0 and rc2 == 0
    if not res["confirmed"]:
        res["demo_without_tail"] = o2[-800:]
        res["demo_with_tail"] = o1[-400:]
    sh(f"git -C /repo worktree remove --force {wt}")
    json.dump(res, open(f"{src}/verify.json", "w"), indent=1)
    print(pid, mn, "suite", res["suite"], "demo with/without", rc1, rc2, "confirmed", res["confirmed"])
    sys.exit(0)

# ---- check phase


def repo_lock():
    """/repo is patched in place: one user at a time (mkdir is atomic)"""
    import atexit
    while True:
        try:
            os.mkdir("/tmp/repo.lock")
            break
        except FileExistsError:
            time.sleep(5)
    atexit.register(lambda: os.path.isdir("/tmp/repo.lock") and os.rmdir("/tmp/repo.lock"))

repo_lock()
res = json.load(open(f"{src}/verify.json"))
st = subprocess.run("git -C /repo status --porcelain", shell=True, stdout=subprocess.PIPE).stdout.decode().strip()
assert st == "", "/repo not clean: " + st
rc, out = sh(f"git -C /repo apply {src}/patch_rebased.diff")
assert rc == 0, out
res["checks"] = {}
d = f"{V}/seeded/{pid}-{mn}"
os.makedirs(d, exist_ok=True)
try:
    for c in [pid] + extra:
        t0 = time.time()
        rc, out = sh(f"./check {c}", cwd=V, timeout=7200, e=dict(os.environ))
        lines = [l for l in out.split("\n") if l.startswith(("VIOLATION", "OK", "KNOWN", "HARNESS"))]
        res["checks"][c] = {"rc": rc, "lines": [l[:300] for l in lines[:6]], "secs": round(time.time() - t0)}
        print(pid, mn, c, rc, [l[:160] for l in lines[:3]])
        for l in lines:
            m = re.search(r"replay=(\S+)", l)
            if m and os.path.exists(m.group(1)):
                shutil.copy(m.group(1), f"{d}/replay_{c}.json")
finally:
    sh("git -C /repo checkout -- .")
    sh("git -C /repo clean -fdq")
    # the runs above rewrote evidence/<id>.json from a patched /repo: put back the committed evidence of the unchanged tree
    for c in [pid] + extra:
        sh(f"git -C {V} checkout -- evidence/{c}.json")
res["caught_by"] = [c for c, r in res["checks"].items() if r["rc"] == 1]
shutil.copy(f"{src}/patch_rebased.diff", f"{d}/patch.diff")
if os.path.exists(f"{d}/demo"):
    shutil.rmtree(f"{d}/demo")
shutil.copytree(f"{src}/demo", f"{d}/demo", symlinks=True, ignore_dangling_symlinks=True, ignore=shutil.ignore_patterns("target", "Cargo.lock", "*.log"))
json.dump(res, open(f"{d}/meta.json", "w"), indent=1)
print(json.dumps({"confirmed": res.get("confirmed"), "caught_by": res["caught_by"]}))
