#!/usr/bin/env python3
"""Writes seeded/README.md from seeded/*/meta.json."""
import glob, json, os
V = os.path.dirname(os.path.dirname(os.path.abspath(__file__)))
STRENGTHENED = {
    "C01-m11": "round 8: missed at first; variables / components before and after the reference in the reference graphs",
    "C01-m12": "round 8: only a broken correspondence at first; number / boolean literal keys judged against their source text",
    "C03-m12": "round 8: missed at first; compile-only probe in the `dynamic_load`+`ssr` feature set",
    "C04-m12": "round 8: missed at first; implicit fallback of the map syntax added to the fallback-position corpus",
    "C05-m11": "round 8: missed at first; `t_plural!` accessors created under another locale, then called",
    "C05-m12": "round 8: missed at first; pt / pt-PT in the plural-fallback family",
    "C06-m11": "round 8: missed at first; namespace-qualifier corpus",
    "C07-m12": "round 8: missed at first; every inherits shape through C07's oracle, `inherits` read from the manifest as written",
    "C09-m11": "round 8: missed at first; ranges with n branches around every multiple of 15",
    "C10-m12": "round 8: missed at first; fallbacks inside count lists through the three formats",
    "C12-m11": "round 8: missed by C12 at first (caught by C15); negotiation through contexts added to C12",
    "C12-m12": "round 8: same as C12-m11",
    "C16-m11": "round 8: a harness error of the self-test at first; now a violation",
    "C16-m12": "round 8: missed at first; `t_format` closure and memo kinds",
    "C17-m11": "round 8: missed at first; td_string! accesses leave the context on another locale",
    "C18-m11": "round 8: missed at first; compiled probe crate with formatted keys null / absent in some locales",
    "C19-m11": "round 8: missed at first; CRLF manifests",
    "C19-m12": "round 8: missed at first; files present only under another format's extension",
    "C20-m12": "round 8: missed at first; several locales of one language, identifiers handed to the datagen driver",
    "C02-m4": "re-run after round 7: had been caught by luck; probe groups are now sampled by priority (formatted keys first)",
    "C04-m5": "re-run after round 7: only a broken correspondence; negative integer counts of float ranges in every run",
    "C04-m7": "re-run after round 7: had been caught by luck; exact float values of small magnitude in every probe project",
    "C09-m9": "re-run after round 7: had been caught by luck; multibyte reference arguments in C09's corpus",
    "C02-m9": "round 6: missed at first; `t!` / `tu!` view flavours through a context added, also built before the context's locale is set and rendered after",
    "C02-m10": "round 6: missed at first; plural keys only the default locale translates (one match arm for all locales) in every probe project",
    "C06-m10": "round 6: only a broken correspondence at first; negative / decimal literal counts for plural targets (and the oracle's category table repaired, DESIGN \u00a710.7)",
    "C08-m9": "round 6: missed at first; kind-conflict family (plural / range / other range type / text on one count variable in every order)",
    "C08-m10": "round 6: only a non-compiling probe crate at first; nested and re-used components in every probe project, compile failures explained by delta debugging over the translation keys",
    "C16-m9": "round 6: missed at first; wired sub-contexts brought under the check (harness ops, model, Theorems/C16Wired.lean, model-independent oracle)",
    "C18-m10": "round 6: missed at first; second no-compiled-data build whose provider impl comes from #[derive(IcuDataProvider)]",
    "C03-m9": "round 7: missed by C03 at first (caught by C06 / C01); C06's fallback-walk family and oracle now also run in C03",
    "C03-m10": "round 7: same as C03-m9",
    "C04-m10": "round 7: missed by C04 at first (caught by C06 / C08); renamed count through a chain of references added to C04's declarations",
    "C05-m9": "round 7: missed at first; the plural projects also run through the `suppress_key_warnings` build",
    "C05-m10": "round 7: missed at first; plural categories through both no-compiled-data builds (hand-written and derived provider)",
    "C07-m9": "round 7: the check crashed at first (sorting tuples that hold None) \u2014 repaired; caught",
    "C07-m10": "round 7: missed by C07 at first (caught by C03); values made only of references to empty strings, spurious ExplicitDefaultInDefault is a violation",
    "C10-m9": "round 7: missed at first; degenerate declarations (typed range without branch, \u2026) through the three formats",
    "C11-m9": "round 7: missed at first; helper-written files compared with the macro-side parser build's tables, padded key names",
    "C12-m10": "round 7: missed by C12 at first (caught by C13); supported locales are read off their configured names",
    "C13-m10": "round 7: missed at first; serde round trips through bincode and postcard",
    "C15-m10": "round 7: missed at first; third ctx_h build without leptos_i18n's `cookie` feature",
    "C17-m10": "round 7: missed at first; real renders with accesses below an <I18nSubContextProvider>",
    "C19-m10": "round 7: missed at first; manifests mentioning the header text \u2014 which exposed the genuine defect C19-header-mention (fixed 9fed06a); the change was re-based on the repaired code",
    "C20-m10": "round 7: only a broken correspondence at first (the group was named `grp`, a well-formed language tag); group names varied, valid-by-construction projects must be accepted",
    "C01-m1": "missed at first (no key with more than 26 parts): probe projects now always contain one long key with an odd and one with an even number of parts",
    "C01-m2": "caught by C09 (panic) and C01 after non-ASCII tag/variable names were added to the C01 source stream (impl vs spec only: XID identifiers are outside the Lean model)",
    "C03-m1": "needed the comparison of `compute()` (the match arms) with the grouping implied by the walk — added (before, only `default_of` was compared)",
    "C05-m2": "missed by C05 at first (probe crate only in the thorough tier; random locales may lack ordinal rules): C05 quick now compiles a probe crate over en/fr/cy/ru with an ordinal and a cardinal key carrying every form",
    "C06-m1": "needed nested `$t(..)` references as arguments in a non-default locale — added to the reference-graph generator",
    "C06-m2": "needed references to subkey groups with and without arguments — added as explicit cases (also caught by C09 through impl≠model)",
    "C08-m2": "needed count variables with distinct values per name in the oracle environment (a renamed count must stay renamed) — fixed in C06's oracle, C08 catches it through the builder fields",
    "C16-m1": "missed by the first C16 check (reactive observers only in tracked-only sequences): model/spec/harness extended with Memos whose laziness is modelled; caught since",
    "C16-m2": "missed by the first C16 check (sub-contexts were created directly): provider components over an owner tree added to model, spec and harness; caught since",
    "C01-m3": "missed at first (C01 judged a key only in the locale defining it): C01 now renders every locale through the implementation's match arms and compares with the source of the effective locale; C03's corpus of inherits maps joined C01's stream",
    "C01-m4": "missed at first (no references in C01's stream): C01 runs C06's reference graphs and fallback-walk family; rebased onto the repaired `resolve_foreign_key_inner` (4bd75c2)",
    "C02-m3": "missed at first (probe crates skipped formatted variables): typed values for number/currency/date/time/list, 3 format-diverse locales with an inherits chain, formatted keys null/absent in some locales; all flavours must agree",
    "C02-m4": "missed at first: same strengthening as C02-m3",
    "C03-m4": "missed at first (no null plural forms generated): plural-null family added to C03",
    "C06-m4": "missed at first (literal counts never on a bound): five range shapes with counts on and next to every bound",
    "C08-m3": "missed at first (chains exposed only the outer variable; expectation read from the implementation's own values): chains expose inner variables, builder fields also judged against the model-resolved values",
    "C08-m4": "missed at first: literal counts of generated references are moved onto bounds of their target (`retarget_counts`); the unmodelled-identifier filter no longer hides projects with accented text from the model comparison",
    "C09-m3": "missed at first (no tail-into-cycle inherits map; a hang would have blocked the check): C03's corpus joined C09's stream, line servers are killed after 30 s without an answer",
    "C09-m4": "missed at first: extension / private-use / variant tags added to the odd locale names of the build-helper stream",
    "C11-m4": "missed at first (every locale had a string): empty-table locales and namespaces added",
    "C14-m3": "caught only as a model/implementation disagreement (`no-failing-input-found`) until the specification was strengthened (the same route must serve the new URL); nested empty route segments added to the generator",
    "C17-m3": "missed at first (namespaces were plain identifiers, expected names read back from the generated code): namespace `user-menu`, names judged against the configuration",
    "C04-m3": "the check crashed on the failing case at first (a Fraction in the replay payload) — repaired; caught thanks to count lists with up to 4 alternatives (generators had at most 2)",
    "C04-m4": "same crash; caught by float declarations with non-dyadic decimals and literal counts on every written bound",
    "C05-m3": "missed at first: plural-fallback family (forms inherited from another locale, literal counts whose category differs between the two locales) added to C05 and C06",
    "C13-m3": "the check raised a harness error at first (per-locale cross-check paired with the wrong locale when get_all() is out of order): list-level violations are now reported before any pairing",
    "C15-m3": "needed `resolve_locale_with_options` called under an already provided context — added",
    "C15-m4": "needed the generated <I18nContextProvider> component itself (html-attribute props unset/true/false) — added to the harness",
    "C16-m3": "missed at first: `t_plural!` accessors (closure and memo) added to the operation sequences",
    "C16-m4": "missed at first: memos over `t_display!` added",
    "C18-m3": "missed at first: every formatter clause is now also checked through `$t(..)` references (direct, with arguments, chained, inherited)",
    "C20-m3": "missed at first: up to all seven formatter families at once over up to four namespaces",
    "C20-m4": "missed at first: the plural key counted by a range in a later locale added to the generator",
    "C01-m5": "round 4: caught after references were placed at the very start / end of a string (a resolved number / boolean literal then starts the value)",
    "C01-m6": "round 4: caught after probe expressions got argument values that mention each other's names (`x = y, y = x` with locals)",
    "C02-m5": "round 4: caught after literal keys got one type per key (integral / huge floats) and every probe project carries literal keys",
    "C02-m6": "round 4: missed at first; overlapping float branches in every probe project and counts that walk the bounds themselves first",
    "C03-m5": "round 4: first seen only as a broken correspondence (the default locale's own empty value made every project fail); empty-value family fixed",
    "C03-m6": "round 4: the generated crate does not compile (no input beyond the project): C03 now compiles a probe crate; reported as no-failing-input-found",
    "C07-m5": "round 4: first only a broken correspondence; both mismatch directions are now generated and judged by an independent oracle",
    "C08-m5": "round 4: missed at first; fallback-walk family with a variable per locale and referencing keys present independently of each other",
    "C08-m6": "round 4: missed at first; same family (inherits chains of depth 2 and more)",
    "C12-m6": "round 4: missed at first; ASCII white space around request entries, oracle parses the trimmed entry",
    "C14-m5": "round 4: outside the check at first (match_nested was not run): nested-route harness + specification + 4 theorems; also found defects C14-glued / C14-short (fixed 54cc961)",
    "C16-m5": "round 4: missed at first; `provide_again` (a nested <I18nContextProvider> below an existing context) added",
    "C17-m5": "round 4: outside the check at first (the generated component was not rendered): real-render mode added",
    "C17-m6": "round 4: outside the check at first (the generated get_translations() was not called): real-render mode, several renders per process",
    "C18-m5": "round 4: outside the check at first (code only compiled without icu_compiled_data): harness fmt_np_h with a recording custom provider",
    "C18-m6": "round 4: caught after views made under one locale are rendered after set_locale",
    "C19-m5": "round 4: missed at first (an existing file reported missing was skipped silently): `.yml` names, and LocaleFileNotFound on a complete project is a violation",
    "C05-m7": "round 5: missed at first; pt and pt-PT rendered in one process and every plural key x locale probed with counts 0 and 1",
    "C06-m7": "round 5: first only a broken correspondence; ordinal plural targets added to the reference graphs",
    "C08-m8": "round 5: the generated crate does not compile at 17+ alternatives (no input beyond the project): an 18-branch range in every probe project; reported as no-failing-input-found",
    "C10-m7": "round 5: outside the check at first (declare_locales! was never expanded with permuted keys): declare_locales! probe crate added",
    "C12-m8": "round 5: first only a broken correspondence; find_locale's own answer is now judged by the specification",
    "C16-m7": "round 5: invisible under plain ssr (effects never run): second harness build with effects running and tick steps",
    "C16-m8": "round 5: same as C16-m7",
    "C20-m8": "round 5: invisible to an expectation read off into_data_keys: documented-keys pin per option",
    "C10-m1": "missed at first (different first errors under permutation were tolerated): diagnostics of the post-decoding stages are now required to be identical under permutation, with cyclic / doubly-broken projects in the corpus",
}
rows = []
for f in sorted(glob.glob(os.path.join(V, "seeded", "*", "meta.json"))):
    m = json.load(open(f))
    d = os.path.basename(os.path.dirname(f))
    caught = ", ".join(m.get("caught_by") or []) or "—"
    lines = []
    for c, r in (m.get("checks") or {}).items():
        for l in r["lines"]:
            if l.startswith("VIOLATION"):
                lines.append(l.split(" replay=")[0].replace("VIOLATION ", "") + (" (no-failing-input-found)" if "no-failing-input-found" in l else ""))
                break
    rows.append((d, m["property"], (m.get("summary") or "").split(". ")[0][:230], (m.get("needs") or "")[:260], caught, STRENGTHENED.get(d, "")))
with open(os.path.join(V, "seeded", "README.md"), "w") as out:
    out.write("# Seeded changes\n\nEach directory holds `patch.diff` (applies to /repo HEAD with `git -C /repo apply`), `demo/` (the author's demonstration: fails with the change, "
              "passes without it), `meta.json` (property, what the change needs to manifest, what was run: suite result with the change, demo exit codes with/without, "
              "every check run against it with its VIOLATION lines) and `replay_<check>.json` (the replay file the check wrote).\n\n"
              "The changes were written by independent sub-agents that were given only the text of one property and a scratch worktree of /repo (nothing from /verif). "
              "Every change was confirmed here in a scratch worktree (`tools/seed_verify.py confirm`): the whole suite passes with it (85 tests + 28 doctests), its "
              "demonstration fails with it and passes without it. Then it was applied to /repo, the checks were run (`tools/seed_verify.py check`), and /repo was restored.\n\n"
              "| id | property | change | needs | caught by | note |\n|---|---|---|---|---|---|\n")
    for r in rows:
        out.write("| " + " | ".join(x.replace("|", "\\|").replace("\n", " ") for x in r) + " |\n")
    out.write(f"\n{len(rows)} changes, {sum(1 for r in rows if r[4] != '—')} caught by at least one check in the quick tier.\n")
print(len(rows))
