#!/usr/bin/env python3
"""tools/seed_sweep.py [ids...]   — re-runs the property's quick check against every seeded change kept under
/verif/seeded/<Cxx-mN>/ (patch applied to /repo itself, check run, /repo restored), and rewrites `checks`, `caught_by`
and `patch_applies_to_head` in its meta.json.  A patch that no longer applies (the code it touched was repaired since)
is reported as `needs-rebase`; nothing is run for it.  Sequential: /repo is modified while a check runs."""
import glob, json, os, re, shutil, subprocess, sys, time
V = os.path.dirname(os.path.dirname(os.path.abspath(__file__)))


def sh(cmd, cwd=None, timeout=7200):
    p = subprocess.run(cmd, shell=True, cwd=cwd, stdout=subprocess.PIPE, stderr=subprocess.STDOUT, timeout=timeout)
    return p.returncode, p.stdout.decode("utf-8", "replace")




HELD = [False]


def repo_lock():
    """/repo is patched in place: one user at a time (mkdir is atomic); taken per change so that others can get in between"""
    import atexit
    while True:
        try:
            os.mkdir("/tmp/repo.lock")
            break
        except FileExistsError:
            time.sleep(5)
    HELD[0] = True
    atexit.register(repo_unlock)


def repo_unlock():
    if HELD[0] and os.path.isdir("/tmp/repo.lock"):
        os.rmdir("/tmp/repo.lock")
    HELD[0] = False

repo_lock()
ids = sys.argv[1:] or sorted(os.path.basename(os.path.dirname(f)) for f in glob.glob(f"{V}/seeded/*/meta.json"))
st = sh("git -C /repo status --porcelain")[1].strip()
assert st == "", "/repo not clean: " + st
head = sh("git -C /repo rev-parse --short HEAD")[1].strip()
summary = []
for d in ids:
    repo_unlock()
    time.sleep(0.5)
    repo_lock()
    dd = f"{V}/seeded/{d}"
    meta = json.load(open(f"{dd}/meta.json"))
    pid = meta["property"]
    rc, out = sh(f"git -C /repo apply --check {dd}/patch.diff")
    meta["patch_applies_to_head"] = {"head": head, "applies": rc == 0}
    if rc != 0:
        summary.append((d, "needs-rebase"))
        json.dump(meta, open(f"{dd}/meta.json", "w"), indent=1)
        print(d, "needs-rebase", flush=True)
        continue
    rc, out = sh(f"git -C /repo apply {dd}/patch.diff")
    assert rc == 0, out
    try:
        t0 = time.time()
        rc, out = sh(f"./check {pid}", cwd=V)
        lines = [l for l in out.split("\n") if l.startswith(("VIOLATION", "OK", "KNOWN", "HARNESS"))]
        meta.setdefault("checks", {})[pid] = {"rc": rc, "lines": [l[:300] for l in lines[:6]], "secs": round(time.time() - t0), "repo_head": head}
        for l in lines:
            m = re.search(r"replay=(\S+)", l)
            if m and os.path.exists(m.group(1)):
                shutil.copy(m.group(1), f"{dd}/replay_{pid}.json")
                break
    finally:
        sh("git -C /repo checkout -- .")
        sh("git -C /repo clean -fdq")
    meta["caught_by"] = [c for c, r in meta["checks"].items() if r["rc"] == 1]
    json.dump(meta, open(f"{dd}/meta.json", "w"), indent=1)
    how = "caught" if rc == 1 else ("MISSED" if rc == 0 else f"rc={rc}")
    if rc == 1 and all("no-failing-input-found" in l for l in lines if l.startswith("VIOLATION")):
        how = "caught (no-failing-input-found)"
    summary.append((d, how))
    print(d, how, [l[:120] for l in lines[:2]], flush=True)
st = sh("git -C /repo status --porcelain")[1].strip()
assert st == "", "/repo not clean after the sweep: " + st
print(json.dumps(summary))
