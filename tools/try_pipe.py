#!/usr/bin/env python3
import sys, os, json
sys.path.insert(0, os.path.dirname(os.path.dirname(os.path.abspath(__file__))))
from vlib.common import *
from vlib import gen, proj
rng = Rng(int(sys.argv[1]) if len(sys.argv) > 1 else 1)
N = int(sys.argv[2]) if len(sys.argv) > 2 else 200
ps = [proj.gen_project(rng) for _ in range(N)]
impl = run_lines_resilient(TARGET_DIR + "/release/parser_h", [proj.harness_req(p) for p in ps])
reqs, idx = [], []
for i, (p, r) in enumerate(zip(ps, impl)):
    m = proj.model_req(p, r)
    if m is not None:
        reqs.append(m); idx.append(i)
model = lean_driver(reqs)
kinds = {}
bad = 0
for i, m in zip(idx, model):
    r = impl[i]
    a = proj.canon_result(r["result"]) if "result" in r else {"panic": True, "raw": r}
    b = proj.canon_result(m)
    k = "ok" if "ok" in a else a.get("err", "panic")
    kinds[k] = kinds.get(k, 0) + 1
    if a != b:
        bad += 1
        if bad <= int(os.environ.get("SHOW", "3")):
            print("MISMATCH case", i, proj.first_diff(a, b))
            print("  files:", json.dumps(proj.file_list(ps[i]), ensure_ascii=False)[:1500])
            print("  cfg:", impl[i].get("cfg"))
            if "err" in r.get("result", {}): print("  impl msg:", r["result"].get("msg"))
for i, r in enumerate(impl):
    if "cfg" not in r:
        k = "cfgerr:" + str(r.get("result", r).get("err", r))[:60]
        kinds[k] = kinds.get(k, 0) + 1
print("cases", N, "compared", len(idx), "mismatches", bad, kinds)
