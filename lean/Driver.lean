import Driver.Util
import Driver.Langid
import Driver.Escape
import Driver.Pipeline
import Driver.Eval
import Driver.Context
import Driver.Router
import Driver.FormatCache
import Driver.LocaleEnum
open Lean Driver

def dispatch (j : Json) : R Json := do
  let op ← strF j "op"
  match op with
  | "langid.filter" => opLangidFilter j
  | "escape.json" => opEscapeJson j
  | "escape.embed" => opEscapeEmbed j
  | "escape.decode" => opEscapeDecode j
  | "pipeline.run" => opPipelineRun j
  | "parse.new" => opParseNew j
  | "range.new" => opRangeNew j
  | "key.new" => opKeyNew j
  | "config.new" => opConfigNew j
  | "manifest.split" => opManifestSplit j
  | "eval.batch" => opEvalBatch j
  | "ctx.resolve" => opCtxResolve j
  | "ctx.ops" => opCtxOps j
  | "router.locale" => opRouterLocale j
  | "router.new_path" => opRouterNewPath j
  | "router.switch_seq" => opRouterSwitchSeq j
  | "router.roundtrip" => opRouterRoundtrip j
  | "router.match" => opRouterMatch j
  | "router.construct" => opRouterConstruct j
  | "router.localize" => opRouterLocalize j
  | "router.path_builder" => opRouterPathBuilder j
  | "router.nested" => opRouterNested j
  | "router.tables" => opRouterTables j
  | "locale.parse" => opLocaleParse j
  | "locale.describe" => opLocaleDescribe j
  | "locale.config" => opLocaleConfig j
  | "fmt.spec" => opFmtSpec j
  | "fmt.src" => opFmtSrc j
  | "fmt.cache" => opFmtCache j
  | "fmt.table" => opFmtTable j
  | "fmt.doc" => opFmtDoc j
  | _ => .error s!"unknown op {op}"

def handle (line : String) : String :=
  match Json.parse line with
  | .error e => (jobj [("bad_op", Json.str s!"json: {e}")]).compress
  | .ok j =>
    match dispatch j with
    | .ok r => r.compress
    | .error e => (jobj [("bad_op", Json.str e)]).compress

partial def loop (h : IO.FS.Stream) (out : IO.FS.Stream) : IO Unit := do
  let line ← h.getLine
  if line.isEmpty then return ()
  let t := line.trimAscii.toString
  if t.isEmpty then loop h out else
  out.putStrLn (handle t)
  loop h out

def main : IO Unit := do
  let out ← IO.getStdout
  loop (← IO.getStdin) out
  out.flush
