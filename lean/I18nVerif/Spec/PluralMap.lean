import I18nVerif.Model.Plurals
import I18nVerif.Spec.PluralSpec
/-
Specification of the **whole key map** that `Locale::merge_plurals` leaves behind (property C05),
written from the property text — group the keys by base, decide per group — and not as the two loops
of the code.

The reading of one key (`base`, rule type, form) is `Plurals.isPossiblePlural`; what it accepts is
characterised independently of the code by `C05_suffix_parse` (`key = base ++ ("_ordinal")? ++ "_" ++ form`,
value not `null` / ranges / subkeys).
-/
namespace I18nVerif.PluralMap
open I18nVerif Str PluralSpec Plurals

abbrev Keys := List (Str × PV)
/-- how the nested locales are merged (the recursive call) -/
abbrev Rec := KeyPath → Loc → Res (Loc × List Warning)

/-- the plural reading of an entry: `(base, rule type, form)`; `none` for `null`, ranges, subkeys and
    for keys that do not end in a form suffix -/
def reading (kv : Str × PV) : Option (Str × RuleTy × Form) := isPossiblePlural kv.1 kv.2

/-! ### first part: nested locales, and two keys on one `(base, form)` slot -/

/-- the value of a key once its nested locale (if it holds one) has been merged -/
def nested (rec : Rec) (path : KeyPath) (k : Str) : PV → Res (PV × List Warning)
  | .subkeys (some sub) =>
    match rec (pushKey path k) sub with
    | .ok (sub', w) => .ok (.subkeys (some sub'), w)
    | .err e => .err e
    | .panic p => .panic p
  | v => .ok (v, [])

/-- `kv` is a plural form whose slot `(base, form)` is already taken by one of the keys `before` it
    (necessarily of the other rule type: `C05_same_slot_means_mixed`) -/
def slotTaken (before : Keys) (kv : Str × PV) : Bool :=
  match reading kv with
  | none => false
  | some (b, _, f) => before.any (fun kv' =>
      match reading kv' with
      | some (b', _, f') => decide (b' = b ∧ f' = f)
      | none => false)

/-- In key order: every nested locale is merged (the first failure is the failure of the whole
    merge) and a plural form key whose slot is taken by an earlier key is
    `ConflictingPluralRuleType`.  Result: the same keys with the nested locales replaced, and the
    warnings of the nested merges in key order.  `before` = the keys already seen. -/
def firstPass (rec : Rec) (path : KeyPath) : Keys → Keys → Res (Keys × List Warning)
  | _, [] => .ok ([], [])
  | before, (k, v) :: rest =>
    match nested rec path k v with
    | .err e => .err e
    | .panic p => .panic p
    | .ok (v', w) =>
      if slotTaken before (k, v') then .err "ConflictingPluralRuleType"
      else match firstPass rec path (before ++ [(k, v')]) rest with
        | .err e => .err e
        | .panic p => .panic p
        | .ok (r, ws) => .ok ((k, v') :: r, w ++ ws)

/-! ### second part: the groups -/

def allForms : List Form := [.zero, .one, .two, .few, .many, .other]

/-- the entry written for form `f` of `base` (form, key, rule type, value) -/
def slotEntry (keys : Keys) (base : Str) (f : Form) : Option (Form × Str × RuleTy × PV) :=
  keys.findSome? (fun kv =>
    match reading kv with
    | some (b, r, f') => if b = base ∧ f' = f then some (f, kv.1, r, kv.2) else none
    | none => none)

/-- the candidate forms of `base`, in form order -/
def candsOf (keys : Keys) (base : Str) : Cands := allForms.filterMap (slotEntry keys base)

/-- the bases that occur, without repetition, in key (`str`) order -/
def basesOf (keys : Keys) : List Str :=
  (AMap.ofList ((keys.filterMap reading).map (fun r => (r.1, ())))).map Prod.fst

/-- a base is merged when it has at least two candidate forms, one of them `other` -/
def merges (keys : Keys) (base : Str) : Bool :=
  decide (2 ≤ (candsOf keys base).length) && (slotEntry keys base .other).isSome

/-- an entry stays an ordinary key unless it is a form of a merged base -/
def survives (keys : Keys) (kv : Str × PV) : Bool :=
  match reading kv with
  | none => true
  | some (b, _, _) => !merges keys b

def survivors (keys : Keys) : Keys := keys.filter (survives keys)

/-- the count variable of every merged plural (`Key::count()`) -/
def countKey : Str := "var_count".toList

/-- the written forms other than `other`, in form order -/
def formsOfCands (cs : Cands) : List (Form × PV) :=
  (cs.filter (fun x => x.1 != .other)).map (fun x => (x.1, x.2.2.2))

/-- the rule type of a merged base: that of its `other` form -/
def ruleOf (keys : Keys) (base : Str) : RuleTy :=
  match slotEntry keys base .other with
  | some (_, _, r, _) => r
  | none => .cardinal

/-- the value a merged base holds: `Plurals { rule_type, count_key, other, forms }` built from exactly
    the written forms -/
def pluralOf (keys : Keys) (base : Str) : PV :=
  match slotEntry keys base .other with
  | some (_, _, r, other) => .plurals r countKey other (formsOfCands (candsOf keys base))
  | none => .dflt

/-- the error of one merged base, in the order the checks are made -/
def groupError (orc : Oracle) (locale : Str) (keys : Keys) (base : Str) : Option String :=
  if (Key.new base).isNone then some "InvalidKey"
  else if (candsOf keys base).any (fun x => x.1 != .other && x.2.2.1 != ruleOf keys base) then
    some "ConflictingPluralRuleType"
  else if (orc.cats locale (ruleOf keys base)).isNone then some "InvalidLocale"
  else if (survivors keys).any (fun kv => kv.1 == base) then some "PluralsAtNormalKey"
  else none

/-- the `UnusedForm` warnings of one merged base -/
def groupWarnings (orc : Oracle) (locale : Str) (path : KeyPath) (keys : Keys) (base : Str) : List Warning :=
  match orc.cats locale (ruleOf keys base) with
  | none => []
  | some cats =>
    (unused cats (formsOfCands (candsOf keys base))).map
      (fun f => Warning.unusedForm locale (pushKey path base) f (ruleOf keys base))

def mergedBases (keys : Keys) : List Str := (basesOf keys).filter (merges keys)

/-- the groups, decided one by one in base order: the first error wins; otherwise the map holds the
    surviving keys with their values and, for every merged base, `base ↦ pluralOf base` -/
def secondPass (orc : Oracle) (locale : Str) (path : KeyPath) (keys : Keys) (ws : List Warning) :
    Res (Keys × List Warning) :=
  match (mergedBases keys).findSome? (groupError orc locale keys) with
  | some e => .err e
  | none =>
    .ok (AMap.ofList (survivors keys ++ (mergedBases keys).map (fun b => (b, pluralOf keys b))),
         ws ++ (mergedBases keys).flatMap (groupWarnings orc locale path keys))

/-- one level of keys, the nested locales being merged by `rec` -/
def specLevel (rec : Rec) (orc : Oracle) (locale : Str) (path : KeyPath) (keys : Keys) :
    Res (Keys × List Warning) :=
  match firstPass rec path [] keys with
  | .err e => .err e
  | .panic p => .panic p
  | .ok (keys1, ws) => secondPass orc locale path keys1 ws

/-- one level of keys, nested locales left as they are -/
def specMergedKeys (orc : Oracle) (locale : Str) (path : KeyPath) (keys : Keys) : Res (Keys × List Warning) :=
  specLevel (fun _ l => .ok (l, [])) orc locale path keys

/-- put the key map of a level back into its locale -/
def wrap (n t : Str) (s : List Str) (c : Nat) : Res (Keys × List Warning) → Res (Loc × List Warning)
  | .ok (keys', ws) => .ok (.mk n t keys' s c, ws)
  | .err e => .err e
  | .panic p => .panic p

/-- all levels (fuel bounds the nesting depth, like in the model) -/
def specAll (orc : Oracle) (locale : Str) : Nat → KeyPath → Loc → Res (Loc × List Warning)
  | 0, _, _ => .panic "fuel"
  | fuel + 1, path, .mk n t keys s c =>
    wrap n t s c (specLevel (specAll orc locale fuel) orc locale path keys)

end I18nVerif.PluralMap
