import I18nVerif.Model.Check
/-!
Spec-side vocabulary for C11 (string tables): the string literals `index_strings` visits, the
depth of that traversal, and what it means for the indices to agree with a table.
-/
namespace I18nVerif.Check
open I18nVerif

mutual
/-- the string literals (text, index) at the positions `ParsedValue::index_strings` visits:
    literals, inside components, bloc items, range branches, plural forms and `other` -/
def strLits : PV → List (Str × Option Nat)
  | .lit (.str s i) => [(s, i)]
  | .lit (.signed _) => []
  | .lit (.unsigned _) => []
  | .lit (.float _) => []
  | .lit (.bool _) => []
  | .comp _ inner => strLits inner
  | .bloc items => strLitsL items
  | .ranges _ _ bs => strLitsB bs
  | .plurals _ _ other forms => strLitsF forms ++ strLits other
  | .var _ _ => []
  | .dflt => []
  | .fk _ => []
  | .subkeys _ => []
def strLitsL : List PV → List (Str × Option Nat)
  | [] => []
  | x :: xs => strLits x ++ strLitsL xs
def strLitsB : List (Range × PV) → List (Str × Option Nat)
  | [] => []
  | (_, v) :: rest => strLits v ++ strLitsB rest
def strLitsF : List (Form × PV) → List (Str × Option Nat)
  | [] => []
  | (_, v) :: rest => strLits v ++ strLitsF rest
end

mutual
/-- nesting depth of the positions `index_strings` visits (a leaf has depth 0) -/
def depth : PV → Nat
  | .comp _ inner => depth inner + 1
  | .bloc items => depthL items + 1
  | .ranges _ _ bs => depthB bs + 1
  | .plurals _ _ other forms => max (depthF forms) (depth other) + 1
  | .lit _ => 0
  | .var _ _ => 0
  | .dflt => 0
  | .fk _ => 0
  | .subkeys _ => 0
def depthL : List PV → Nat
  | [] => 0
  | x :: xs => max (depth x) (depthL xs)
def depthB : List (Range × PV) → Nat
  | [] => 0
  | (_, v) :: rest => max (depth v) (depthB rest)
def depthF : List (Form × PV) → Nat
  | [] => 0
  | (_, v) :: rest => max (depth v) (depthF rest)
end

/-- every literal that carries an index reads its own text from the table -/
def Valid (tbl : List Str) (lits : List (Str × Option Nat)) : Prop :=
  ∀ s i, (s, some i) ∈ lits → tbl[i]? = some s

/-- every literal carries an index, and reads its own text from the table -/
def Full (tbl : List Str) (lits : List (Str × Option Nat)) : Prop :=
  ∀ s oi, (s, oi) ∈ lits → ∃ i, oi = some i ∧ tbl[i]? = some s

/-- executable versions -/
def validB (tbl : List Str) (lits : List (Str × Option Nat)) : Bool :=
  lits.all (fun (s, oi) => match oi with | some i => tbl[i]? == some s | none => true)
def fullB (tbl : List Str) (lits : List (Str × Option Nat)) : Bool :=
  lits.all (fun (s, oi) => match oi with | some i => tbl[i]? == some s | none => false)


/-! ### string counts in the builder-keys tree (`propagate_string_count`) -/

mutual
/-- in every nested `Subkeys` node, at any depth, the `i`-th locale carries the `i`-th count
    (as far as both lists go) -/
def countsAgreeLV (counts : List Nat) : LV → Bool
  | .value _ _ => true
  | .subkeys locales keys =>
    (locales.zip counts).all (fun p => p.1.count == p.2) && countsAgree counts keys
def countsAgree (counts : List Nat) : List (Str × LV) → Bool
  | [] => true
  | (_, lv) :: rest => countsAgreeLV counts lv && countsAgree counts rest
end

mutual
/-- in every nested `Subkeys` node the counts of the locales are exactly `counts` -/
def countsEqLV (counts : List Nat) : LV → Bool
  | .value _ _ => true
  | .subkeys locales keys => locales.map Loc.count == counts && countsEq counts keys
def countsEq (counts : List Nat) : List (Str × LV) → Bool
  | [] => true
  | (_, lv) :: rest => countsEqLV counts lv && countsEq counts rest
end

mutual
/-- every nested `Subkeys` node has exactly `n` locales -/
def lensLV (n : Nat) : LV → Bool
  | .value _ _ => true
  | .subkeys locales keys => locales.length == n && lensBKI n keys
def lensBKI (n : Nat) : List (Str × LV) → Bool
  | [] => true
  | (_, lv) :: rest => lensLV n lv && lensBKI n rest
end

mutual
/-- subkey nesting depth of a builder-keys tree -/
def depthLV : LV → Nat
  | .value _ _ => 0
  | .subkeys _ keys => depthBKI keys + 1
def depthBKI : List (Str × LV) → Nat
  | [] => 0
  | (_, lv) :: rest => max (depthLV lv) (depthBKI rest)
end

end I18nVerif.Check
