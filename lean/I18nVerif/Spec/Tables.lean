import I18nVerif.Spec.Index
/-!
Spec vocabulary for the string table of a whole locale (C11): freshly parsed values carry no
index; a locale's stored values agree with a table; the `i`-th locale of every nested `Subkeys`
node of a builder-keys tree agrees with a table.
-/
namespace I18nVerif.Check
open I18nVerif

mutual
/-- no string literal anywhere in the value (also below foreign keys and subkeys) carries an index —
    what the parser produces (`usize::MAX`) -/
def Fresh : PV → Bool
  | .lit (.str _ i) => i.isNone
  | .lit (.signed _) => true
  | .lit (.unsigned _) => true
  | .lit (.float _) => true
  | .lit (.bool _) => true
  | .var _ _ => true
  | .dflt => true
  | .fk (.set inner) => Fresh inner
  | .fk (.notSet _ _) => true
  | .ranges _ _ bs => FreshB bs
  | .comp _ inner => Fresh inner
  | .bloc items => FreshL items
  | .subkeys none => true
  | .subkeys (some (.mk _ _ keys _ _)) => FreshK keys
  | .plurals _ _ other forms => Fresh other && FreshF forms
def FreshL : List PV → Bool
  | [] => true
  | x :: xs => Fresh x && FreshL xs
def FreshB : List (Range × PV) → Bool
  | [] => true
  | (_, v) :: rest => Fresh v && FreshB rest
def FreshF : List (Form × PV) → Bool
  | [] => true
  | (_, v) :: rest => Fresh v && FreshF rest
def FreshK : List (Str × PV) → Bool
  | [] => true
  | (_, v) :: rest => Fresh v && FreshK rest
end

/-- every value stored under a key reads its own texts from `tbl` -/
def KeysValid (tbl : List Str) (ks : List (Str × PV)) : Prop :=
  ∀ kv ∈ ks, Valid tbl (strLits kv.2)

mutual
/-- in every nested `Subkeys` node, the values of the `i`-th locale read their texts from `tbl` -/
def TreeValidLV (i : Nat) (tbl : List Str) : LV → Prop
  | .value _ _ => True
  | .subkeys locales keys => (∀ l, locales[i]? = some l → KeysValid tbl l.keys) ∧ TreeValid i tbl keys
def TreeValid (i : Nat) (tbl : List Str) : List (Str × LV) → Prop
  | [] => True
  | (_, lv) :: rest => TreeValidLV i tbl lv ∧ TreeValid i tbl rest
end

mutual
/-- the keys of every (nested) locale are pairwise distinct, as in a `BTreeMap` -/
def DistinctPV : PV → Bool
  | .subkeys (some (.mk _ _ keys _ _)) => decide ((keys.map Prod.fst).Nodup) && DistinctK keys
  | .fk (.set inner) => DistinctPV inner
  | _ => true
def DistinctK : List (Str × PV) → Bool
  | [] => true
  | (_, v) :: rest => DistinctPV v && DistinctK rest
end

def DistinctLoc (l : Loc) : Bool := decide ((l.keys.map Prod.fst).Nodup) && DistinctK l.keys

end I18nVerif.Check
