import I18nVerif.Model.Langid
/-!
Specification of C12, written without reference to how `filter_matches` works
(it only shares the data types `LangId`/`Loc` with the model).
-/
namespace I18nVerif.Langid.Spec
open I18nVerif.Langid

/-- a supported locale `l` is a *less specific form* of (or equal to) the requested `req`:
    every subtag `l` has is the one `req` has -/
def lessSpecificOrEq (l req : LangId) : Bool :=
  (l.lang.isNone || l.lang == req.lang) && (l.script.isNone || l.script == req.script)
    && (l.region.isNone || l.region == req.region) && (l.variants.isEmpty || l.variants == req.variants)

/-- number of script/region/variant subtags -/
def nSubtags (l : LangId) : Nat := l.script.toList.length + l.region.toList.length + l.variants.length

/-- first request (in preference order) that some supported locale matches -/
def firstServed (reqs : List LangId) (avail : List Loc) : Option LangId :=
  reqs.find? (fun r => avail.any (fun l => lessSpecificOrEq l.lid r))

/-- Is `r` an acceptable answer for `reqs` over `avail` with default `dflt`?
* nobody matches anything ⇒ the default;
* otherwise `r` is supported, matches the first served request, is the exact match when there is
  one and in any case no less specific than any other supported locale matching that request. -/
def acceptable (reqs : List LangId) (avail : List Loc) (dflt r : Loc) : Bool :=
  match firstServed reqs avail with
  | none => r == dflt
  | some req =>
    avail.contains r && lessSpecificOrEq r.lid req
      && avail.all (fun l => !lessSpecificOrEq l.lid req || nSubtags l.lid ≤ nSubtags r.lid)
      && (!avail.any (fun l => l.lid == req) || r.lid == req)

end I18nVerif.Langid.Spec
