import I18nVerif.Model.Codegen
/-
Predicates used as hypotheses of the C02 theorems (executable, so that `example`s can check them
on concrete values by `decide`), and the specification of the per-key locale dispatch.
-/
namespace I18nVerif.Codegen
open I18nVerif

mutual
/-- every string literal of the value carries an index, and the table holds that string there
    (what `index_strings` establishes — C11) -/
def indexed (tbl : List Str) : PV → Bool
  | .lit (.str s (some i)) => tbl[i]? == some s
  | .lit (.str _ none) => false
  | .lit _ => true
  | .var _ _ => true
  | .dflt => true
  | .subkeys _ => true
  | .comp _ inner => indexed tbl inner
  | .bloc items => indexedL tbl items
  | .fk (.set inner) => indexed tbl inner
  | .fk (.notSet _ _) => true
  | .ranges _ _ bs => indexedB tbl bs
  | .plurals _ _ other forms => indexed tbl other && indexedF tbl forms
def indexedL (tbl : List Str) : List PV → Bool
  | [] => true
  | x :: xs => indexed tbl x && indexedL tbl xs
def indexedB (tbl : List Str) : List (Range × PV) → Bool
  | [] => true
  | (_, v) :: rest => indexed tbl v && indexedB tbl rest
def indexedF (tbl : List Str) : List (Form × PV) → Bool
  | [] => true
  | (_, v) :: rest => indexed tbl v && indexedF tbl rest
end

mutual
/-- a value the generator is meant to receive: no `Default`, no `Subkeys`, no unresolved foreign
    key anywhere, and no `Ranges` without branches (the parser rejects those: `EmptyRange`) -/
def renderable : PV → Bool
  | .dflt => false
  | .subkeys _ => false
  | .fk (.notSet _ _) => false
  | .fk (.set inner) => renderable inner
  | .lit _ => true
  | .var _ _ => true
  | .comp _ inner => renderable inner
  | .bloc items => renderableL items
  | .ranges _ _ bs => !bs.isEmpty && renderableB bs
  | .plurals _ _ other forms => renderable other && renderableF forms
def renderableL : List PV → Bool
  | [] => true
  | x :: xs => renderable x && renderableL xs
def renderableB : List (Range × PV) → Bool
  | [] => true
  | (_, v) :: rest => renderable v && renderableB rest
def renderableF : List (Form × PV) → Bool
  | [] => true
  | (_, v) :: rest => renderable v && renderableF rest
end

mutual
/-- the Display back-end builds no `Either` wrapper, so it does not need the branch list of a
    `Ranges` to be non-empty: `renderable` without that clause -/
def renderableD : PV → Bool
  | .dflt => false
  | .subkeys _ => false
  | .fk (.notSet _ _) => false
  | .fk (.set inner) => renderableD inner
  | .lit _ => true
  | .var _ _ => true
  | .comp _ inner => renderableD inner
  | .bloc items => renderableDL items
  | .ranges _ _ bs => renderableDB bs
  | .plurals _ _ other forms => renderableD other && renderableDF forms
def renderableDL : List PV → Bool
  | [] => true
  | x :: xs => renderableD x && renderableDL xs
def renderableDB : List (Range × PV) → Bool
  | [] => true
  | (_, v) :: rest => renderableD v && renderableDB rest
def renderableDF : List (Form × PV) → Bool
  | [] => true
  | (_, v) :: rest => renderableD v && renderableDF rest
end

mutual
/-- every tuple of a generated view expression has at most 26 components (leptos implements
    its view traits for tuples up to that size) -/
def VExpr.tuplesOk : VExpr → Bool
  | .tuple items => decide (items.length ≤ tupleMaxSize) && tuplesOkL items
  | .comp _ c => c.tuplesOk
  | .rangeMatch _ arms => tuplesOkA arms
  | .pluralMatch _ _ arms other => tuplesOkF arms && other.tuplesOk
  | .str _ => true
  | .lit _ => true
  | .var _ _ => true
  | .empty => true
def tuplesOkL : List VExpr → Bool
  | [] => true
  | x :: xs => x.tuplesOk && tuplesOkL xs
def tuplesOkA : List (Range × VExpr) → Bool
  | [] => true
  | (_, e) :: rest => e.tuplesOk && tuplesOkA rest
def tuplesOkF : List (Form × VExpr) → Bool
  | [] => true
  | (_, e) :: rest => e.tuplesOk && tuplesOkF rest
end

mutual
/-- no `Multiple` (at any depth) has a `Fallback` among its alternatives — what `Range::flatten`
    establishes for every range the parser builds -/
def noInnerFallback : Range → Bool
  | .multi l => noInnerFallbackL l
  | .exact _ => true
  | .bounds _ _ => true
  | .fallback => true
def noInnerFallbackL : List Range → Bool
  | [] => true
  | r :: rs => !Ranges.isFallback r && noInnerFallback r && noInnerFallbackL rs
end

/-- shape invariant of the wrappers `EitherOfWrapper::new` builds -/
def Wrapper.wf : Wrapper → Bool
  | .single => true
  | .duo => true
  | .multiple n => decide (3 ≤ n) && decide (n ≤ 16)
  | .nested last => last.wf

/-- `d` is the effective locale of `l` for a key: `l` itself when it defines the key, otherwise
    the locale whose `compute` entry lists `l` -/
def IsEffective (compute : List (Str × List Str)) (defining : List Str) (l d : Str) : Prop :=
  (l ∈ defining ∧ d = l) ∨ (l ∉ defining ∧ ∃ s, AMap.get? d compute = some s ∧ l ∈ s)

end I18nVerif.Codegen
