import I18nVerif.Spec.Tables
/-!
`FreshS`: like `Fresh` (no string literal carries an index), but also inside the arguments of a
not-yet-resolved foreign key — what the parser really produces, and what foreign-key resolution
needs (argument values are substituted into the target's value).
-/
namespace I18nVerif.Check
open I18nVerif

mutual
def FreshS : PV → Bool
  | .lit (.str _ i) => i.isNone
  | .lit (.signed _) => true
  | .lit (.unsigned _) => true
  | .lit (.float _) => true
  | .lit (.bool _) => true
  | .var _ _ => true
  | .dflt => true
  | .fk (.set inner) => FreshS inner
  | .fk (.notSet _ args) => FreshSK args
  | .ranges _ _ bs => FreshSB bs
  | .comp _ inner => FreshS inner
  | .bloc items => FreshSL items
  | .subkeys none => true
  | .subkeys (some (.mk _ _ keys _ _)) => FreshSK keys
  | .plurals _ _ other forms => FreshS other && FreshSF forms
def FreshSL : List PV → Bool
  | [] => true
  | x :: xs => FreshS x && FreshSL xs
def FreshSB : List (Range × PV) → Bool
  | [] => true
  | (_, v) :: rest => FreshS v && FreshSB rest
def FreshSF : List (Form × PV) → Bool
  | [] => true
  | (_, v) :: rest => FreshS v && FreshSF rest
def FreshSK : List (Str × PV) → Bool
  | [] => true
  | (_, v) :: rest => FreshS v && FreshSK rest
end

end I18nVerif.Check
