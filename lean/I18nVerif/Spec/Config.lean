import I18nVerif.Model.Config
import I18nVerif.Model.Pipeline
/-
C19 — specification side: how a field of the `[package.metadata.leptos-i18n]` table is looked up,
and which files a configuration names.
-/
namespace I18nVerif.Config.Spec
open I18nVerif I18nVerif.Config

/-- the value of the (first) entry called `name` -/
def lookup (table : List (Str × TV)) (name : Str) : Option TV :=
  (table.find? (fun p => p.1 == name)).map (·.2)

/-- the six field names the visitor knows -/
def knownFields : List Str :=
  ["default".toList, "locales".toList, "namespaces".toList, "locales-dir".toList,
   "translations-path".toList, "inherits".toList]

def asStr : TV → Res Str
  | .str s => .ok s
  | _ => .err "ConfigFileDeser"

/-- what the table declares for field `name`: the decoded value of its entry, if there is one and it decodes -/
def declared {α} (table : List (Str × TV)) (name : Str) (decode : TV → Res α) : Option α :=
  match lookup table name with
  | some v => match decode v with
    | .ok x => some x
    | _ => none
  | none => none

/-- reading a list of things in order, stopping at the first failure -/
def readSeq {α β} (read : α → Res β) : List α → Res (List β)
  | [] => .ok []
  | x :: xs =>
    match read x with
    | .err e => .err e
    | .panic p => .panic p
    | .ok y =>
      match readSeq read xs with
      | .ok ys => .ok (y :: ys)
      | .err e => .err e
      | .panic p => .panic p

def mapRes {α β} (f : α → β) : Res α → Res β
  | .ok a => .ok (f a)
  | .err e => .err e
  | .panic p => .panic p

/-- the namespace keys `parse_locales_raw` iterates over: the configured namespaces, or the one anonymous namespace -/
def nsKeys (c : Config) : List (Option Str) :=
  match c.namespaces with
  | some l => l.map some
  | none => [none]

/-- opening and decoding the file of one (namespace, locale) pair -/
def readOne (inp : Pipeline.Input) (p : Option Str × Str) : Res Loc :=
  match Pipeline.findFile inp.files p.1 p.2 with
  | none => .err "LocaleFileNotFound"
  | some j => Decode.locale p.2 j

/-- the (namespace, locale) pairs whose file is read, in the order they are read:
    namespaces (if any) in configuration order, and for each the locales in `c.locales` order -/
def pairsToRead (c : Config) : List (Option Str × Str) :=
  match c.namespaces with
  | some nss => nss.flatMap (fun ns => c.locales.map (fun l => (some ns, l)))
  | none => c.locales.map (fun l => (none, l))

def joinPath (segs : List Str) (ext : Str) : Str :=
  "/".toList.intercalate segs ++ '.' :: ext

/-- the candidate paths of each file to read: `dir/locale/ns.ext` with namespaces, else
    `dir/locale.ext`, one candidate per extension of the enabled format, in that order -/
def filesToRead (c : Config) (exts : List Str) : List (List Str) :=
  (pairsToRead c).map (fun p =>
    match p.1 with
    | some ns => exts.map (fun e => joinPath [c.localesDir, p.2, ns] e)
    | none => exts.map (fun e => joinPath [c.localesDir, p.2] e))

end I18nVerif.Config.Spec
