import I18nVerif.Model.Context
/-!
Specification of C16, as a function of the **history** of operations (most recent first) — no cells, no
mutation.  It shares with the model only the vocabulary (`Op`, `Obs`) and the naming convention (contexts, views
and closures are numbered in creation order).

`current h c` = the locale context `c` shows after history `h` =
"the locale of the most recent `set_locale` / `set_locale_untracked` on *any* view of `c`, else the locale `c`
was created with".  An operation naming a view or closure that does not exist is rejected (`Obs.bad`) and
leaves no trace in the history.
-/
namespace I18nVerif.Context.Spec
open I18nVerif.Context

/-- accepted operations, most recent first -/
abbrev Hist := List Op

/-- number of contexts created so far -/
def nCtx : Hist → Nat
  | [] => 0
  | .newRoot _ :: h => nCtx h + 1
  | .sub _ _ _ :: h => nCtx h + 1
  | _ :: h => nCtx h

/-- which context each view is a view of -/
def views : Hist → List Nat
  | [] => []
  | .newRoot _ :: h => views h ++ [nCtx h]
  | .sub _ _ _ :: h => views h ++ [nCtx h]
  | .scope v :: h => views h ++ ((views h)[v]?).toList
  | _ :: h => views h

/-- which view each closure captured -/
def closures : Hist → List Nat
  | [] => []
  | .makeClosure v :: h => closures h ++ [v]
  | _ :: h => closures h

/-- the locale shown by context `c` after `h` -/
def current : Hist → Nat → Option Locale
  | [], _ => none
  | .set v l :: h, c => if (views h)[v]? = some c then some l else current h c
  | .setUntracked v l :: h, c => if (views h)[v]? = some c then some l else current h c
  | .newRoot init :: h, c => if c = nCtx h then some init else current h c
  | .sub parent initial fallback :: h, c =>
    if c = nCtx h then
      -- explicit initial locale, else the parent's locale at creation time, else the normal resolution
      match initial, parent with
      | some i, _ => some i
      | none, some pv => (match (views h)[pv]? with | some pc => current h pc | none => none)
      | none, none => some fallback
    else current h c
  | .scope _ :: h, c => current h c
  | .get _ :: h, c => current h c
  | .getUntracked _ :: h, c => current h c
  | .makeClosure _ :: h, c => current h c
  | .callClosure _ :: h, c => current h c

/-- the locale a view shows: that of its context -/
def viewLocale (h : Hist) (v : Nat) : Option Locale :=
  match (views h)[v]? with
  | some c => current h c
  | none => none

/-- what the operation must observe after history `h` -/
def obsAt (h : Hist) : Op → Obs
  | .newRoot _ => .view (views h).length
  | .sub none _ _ => .view (views h).length
  | .sub (some pv) _ _ => if (viewLocale h pv).isSome then .view (views h).length else .bad
  | .scope v => if v < (views h).length then .view (views h).length else .bad
  | .set v _ => if (viewLocale h v).isSome then .none else .bad
  | .setUntracked v _ => if (viewLocale h v).isSome then .none else .bad
  | .get v => match viewLocale h v with | some l => .locale l | none => .bad
  | .getUntracked v => match viewLocale h v with | some l => .locale l | none => .bad
  | .makeClosure v => if v < (views h).length then .closure (closures h).length else .bad
  | .callClosure i =>
    match (closures h)[i]? with
    | some v => match viewLocale h v with | some l => .locale l | none => .bad
    | none => .bad

/-- expected observations of a whole sequence, starting after history `h` -/
def observe (h : Hist) : List Op → List Obs
  | [] => []
  | op :: ops =>
    let o := obsAt h op
    o :: observe (if o = .bad then h else op :: h) ops

/-- the expected observations of an operation sequence run from scratch -/
def observations (ops : List Op) : List Obs := observe [] ops

end I18nVerif.Context.Spec
