import I18nVerif.Model.Context
/-!
Specification of C16, as a function of the **history** of operations (most recent first) — no cells, no
mutation, no owner chain to walk.  It shares with the model only the vocabulary (`Op`, `Obs`) and the naming
convention (contexts, views, closures, memos and owners are numbered in creation order).

* `current h c` = the locale context `c` shows after history `h` =
  "the locale of the most recent `set_locale` / `set_locale_untracked` on *any* view of `c`, else the locale `c`
  was created with";
* reactive accessors: a memo returns "the value of the cell at the memo's last (re)evaluation, where a read
  re-evaluates iff the memo was never read or a tracked `set_locale` on its context happened since"
  (`memoStale`, `memoCache`, `memoRead`);
* providers: "a sub-context is visible exactly in the subtree of its provider's children" — what `use_i18n()`
  finds in an owner is fixed when the owner is created: the context provided there, else what its parent owner
  sees (`visible`); no later operation changes it.

* wired sub-contexts (the property's stated exception "unless the caller wired an initial-locale signal"): a wire has a
  value — "the locale of the most recent `wireSet` on it, else the locale it was created with" — and a **seen** value —
  "its value at the most recent tick, else at creation" (`wires`).  A tick **delivers** a wire whose value differs from its
  seen value: the context then shows the wire's value (`current (.tick :: h)`), exactly as after a tracked `set_locale`
  (`memoStale`).  So a wired sub-context shows "the locale of the most recent `set*` on it or the most recently delivered
  wire value, whichever came last";
* ticks (`Op.tick`: the executor runs the pending effects) are otherwise **invisible**: a tick is accepted, observes nothing
  and, as long as no wire is due, no function of the history looks at it ("the last locale set" does not depend on when
  the event loop turns).

An operation naming a view / closure / memo / owner that does not exist is rejected (`Obs.bad`) and leaves no
trace in the history.
-/
namespace I18nVerif.Context.Spec
open I18nVerif.Context

/-- accepted operations, most recent first -/
abbrev Hist := List Op

/-- number of contexts created so far -/
def nCtx : Hist → Nat
  | [] => 0
  | .newRoot _ :: h => nCtx h + 1
  | .sub _ _ _ :: h => nCtx h + 1
  | .provideRoot _ :: h => nCtx h + 1
  | .provider _ _ _ :: h => nCtx h + 1
  | .subWired _ _ :: h => nCtx h + 1
  | _ :: h => nCtx h

/-- number of owners created so far -/
def nOwners : Hist → Nat
  | [] => 0
  | .provideRoot _ :: h => nOwners h + 1
  | .childOwner _ :: h => nOwners h + 1
  | .provider _ _ _ :: h => nOwners h + 1
  | _ :: h => nOwners h

/-- the context `use_i18n()` finds in owner `o` — decided when `o` is created -/
def visible : Hist → Nat → Option Nat
  | [], _ => none
  | .provideRoot _ :: h, o => if o = nOwners h then some (nCtx h) else visible h o
  | .childOwner p :: h, o => if o = nOwners h then visible h p else visible h o
  | .provider _ _ _ :: h, o => if o = nOwners h then some (nCtx h) else visible h o
  | .newRoot _ :: h, o => visible h o
  | .sub _ _ _ :: h, o => visible h o
  | .scope _ :: h, o => visible h o
  | .set _ _ :: h, o => visible h o
  | .setUntracked _ _ :: h, o => visible h o
  | .get _ :: h, o => visible h o
  | .getUntracked _ :: h, o => visible h o
  | .makeClosure _ :: h, o => visible h o
  | .callClosure _ :: h, o => visible h o
  | .makeMemo _ :: h, o => visible h o
  | .readMemo _ :: h, o => visible h o
  | .useCtx _ :: h, o => visible h o
  | .tick :: h, o => visible h o
  | .subWired _ _ :: h, o => visible h o
  | .wireSet _ _ :: h, o => visible h o

/-- which context each view is a view of -/
def views : Hist → List Nat
  | [] => []
  | .newRoot _ :: h => views h ++ [nCtx h]
  | .sub _ _ _ :: h => views h ++ [nCtx h]
  | .provideRoot _ :: h => views h ++ [nCtx h]
  | .provider _ _ _ :: h => views h ++ [nCtx h]
  | .subWired _ _ :: h => views h ++ [nCtx h]
  | .scope v :: h => views h ++ ((views h)[v]?).toList
  | .useCtx o :: h => views h ++ (visible h o).toList
  | _ :: h => views h

/-- which view each closure captured -/
def closures : Hist → List Nat
  | [] => []
  | .makeClosure v :: h => closures h ++ [v]
  | _ :: h => closures h

/-- which view each memo is derived from -/
def memoViews : Hist → List Nat
  | [] => []
  | .makeMemo v :: h => memoViews h ++ [v]
  | _ :: h => memoViews h

/-- the wires after `h`, in creation order: the context each feeds, its value (the latest `wireSet` on it, else the locale
    it was created with) and its seen value (its value at the latest tick, else at creation) -/
def wires : Hist → List Wire
  | [] => []
  | .subWired _ w :: h => wires h ++ [{ ctx := nCtx h, val := w, seen := w }]
  | .wireSet i l :: h =>
    match (wires h)[i]? with
    | some w => (wires h).set i { w with val := l }
    | none => wires h
  | .tick :: h => (wires h).map (fun w => { w with seen := w.val })
  | _ :: h => wires h

/-- what a tick after `h` delivers into context `c`: the value of the wire of `c`, if it differs from its seen value -/
def due (h : Hist) (c : Nat) : Option Locale := pending (wires h) c

/-- the locale shown by context `c` after `h` -/
def current : Hist → Nat → Option Locale
  | [], _ => none
  | .set v l :: h, c => if (views h)[v]? = some c then some l else current h c
  | .setUntracked v l :: h, c => if (views h)[v]? = some c then some l else current h c
  | .newRoot init :: h, c => if c = nCtx h then some init else current h c
  | .provideRoot init :: h, c => if c = nCtx h then some init else current h c
  | .sub parent initial fallback :: h, c =>
    if c = nCtx h then
      -- explicit initial locale, else the parent's locale at creation time, else the normal resolution
      match initial, parent with
      | some i, _ => some i
      | none, some pv => (match (views h)[pv]? with | some pc => current h pc | none => none)
      | none, none => some fallback
    else current h c
  | .provider o initial fallback :: h, c =>
    if c = nCtx h then
      -- explicit initial locale, else the locale of the context visible where the provider is rendered, else the resolution
      match initial, visible h o with
      | some i, _ => some i
      | none, some pc => some ((current h pc).getD fallback)
      | none, none => some fallback
    else current h c
  | .scope _ :: h, c => current h c
  | .get _ :: h, c => current h c
  | .getUntracked _ :: h, c => current h c
  | .makeClosure _ :: h, c => current h c
  | .callClosure _ :: h, c => current h c
  | .makeMemo _ :: h, c => current h c
  | .readMemo _ :: h, c => current h c
  | .childOwner _ :: h, c => current h c
  | .useCtx _ :: h, c => current h c
  | .tick :: h, c =>
    -- a tick delivers the wire of `c` if it is due
    match due h c with
    | some l => some l
    | none => current h c
  | .subWired _ w :: h, c => if c = nCtx h then some w else current h c
  | .wireSet _ _ :: h, c => current h c

/-- the locale a view shows: that of its context -/
def viewLocale (h : Hist) (v : Nat) : Option Locale :=
  match (views h)[v]? with
  | some c => current h c
  | none => none

/-- the context a memo depends on -/
def memoCtx (h : Hist) (i : Nat) : Option Nat :=
  match (memoViews h)[i]? with
  | some v => (views h)[v]?
  | none => none

/-- must memo `i` be (re)evaluated at its next read?  Yes iff it was never read, or a *tracked* `set_locale` on a
    view of its context, or the delivery of a wire into its context, happened since its last read. -/
def memoStale : Hist → Nat → Bool
  | [], _ => true
  | .makeMemo _ :: h, i => if i = (memoViews h).length then true else memoStale h i
  | .set v _ :: h, i => if memoCtx h i = (views h)[v]? then true else memoStale h i
  | .readMemo j :: h, i => if j = i then false else memoStale h i
  | .setUntracked _ _ :: h, i => memoStale h i
  | .newRoot _ :: h, i => memoStale h i
  | .sub _ _ _ :: h, i => memoStale h i
  | .scope _ :: h, i => memoStale h i
  | .get _ :: h, i => memoStale h i
  | .getUntracked _ :: h, i => memoStale h i
  | .makeClosure _ :: h, i => memoStale h i
  | .callClosure _ :: h, i => memoStale h i
  | .provideRoot _ :: h, i => memoStale h i
  | .childOwner _ :: h, i => memoStale h i
  | .provider _ _ _ :: h, i => memoStale h i
  | .useCtx _ :: h, i => memoStale h i
  | .tick :: h, i => if ((memoCtx h i).bind (due h)).isSome then true else memoStale h i
  | .subWired _ _ :: h, i => memoStale h i
  | .wireSet _ _ :: h, i => memoStale h i

/-- the value memo `i` computed at its last evaluation -/
def memoCache : Hist → Nat → Option Locale
  | [], _ => none
  | .makeMemo _ :: h, i => if i = (memoViews h).length then none else memoCache h i
  | .readMemo j :: h, i =>
    if j = i ∧ memoStale h i = true then (match memoCtx h i with | some c => current h c | none => none)
    else memoCache h i
  | .set _ _ :: h, i => memoCache h i
  | .setUntracked _ _ :: h, i => memoCache h i
  | .newRoot _ :: h, i => memoCache h i
  | .sub _ _ _ :: h, i => memoCache h i
  | .scope _ :: h, i => memoCache h i
  | .get _ :: h, i => memoCache h i
  | .getUntracked _ :: h, i => memoCache h i
  | .makeClosure _ :: h, i => memoCache h i
  | .callClosure _ :: h, i => memoCache h i
  | .provideRoot _ :: h, i => memoCache h i
  | .childOwner _ :: h, i => memoCache h i
  | .provider _ _ _ :: h, i => memoCache h i
  | .useCtx _ :: h, i => memoCache h i
  | .tick :: h, i => memoCache h i
  | .subWired _ _ :: h, i => memoCache h i
  | .wireSet _ _ :: h, i => memoCache h i

/-- what reading memo `i` returns now -/
def memoRead (h : Hist) (i : Nat) : Option Locale :=
  match (memoViews h)[i]? with
  | none => none
  | some v => if memoStale h i then viewLocale h v else memoCache h i

/-- what the operation must observe after history `h` -/
def obsAt (h : Hist) : Op → Obs
  | .newRoot _ => .view (views h).length
  | .sub none _ _ => .view (views h).length
  | .sub (some pv) _ _ => if (viewLocale h pv).isSome then .view (views h).length else .bad
  | .scope v => if v < (views h).length then .view (views h).length else .bad
  | .set v _ => if (viewLocale h v).isSome then .none else .bad
  | .setUntracked v _ => if (viewLocale h v).isSome then .none else .bad
  | .get v => match viewLocale h v with | some l => .locale l | none => .bad
  | .getUntracked v => match viewLocale h v with | some l => .locale l | none => .bad
  | .makeClosure v => if v < (views h).length then .closure (closures h).length else .bad
  | .callClosure i =>
    match (closures h)[i]? with
    | some v => match viewLocale h v with | some l => .locale l | none => .bad
    | none => .bad
  | .makeMemo v => if v < (views h).length then .memo (memoViews h).length else .bad
  | .readMemo i => match memoRead h i with | some l => .locale l | none => .bad
  | .provideRoot _ => .provided (views h).length (nOwners h) (nCtx h)
  | .childOwner o => if o < nOwners h then .owner (nOwners h) else .bad
  | .provider o _ _ => if o < nOwners h then .provided (views h).length (nOwners h) (nCtx h) else .bad
  | .useCtx o =>
    if o < nOwners h then
      match visible h o with
      | some c => .found (views h).length c
      | none => .notFound
    else .bad
  | .tick => .none
  | .subWired none _ => .wired (views h).length (wires h).length
  | .subWired (some pv) _ => if (viewLocale h pv).isSome then .wired (views h).length (wires h).length else .bad
  | .wireSet i _ => if i < (wires h).length then .none else .bad

/-- expected observations of a whole sequence, starting after history `h` -/
def observe (h : Hist) : List Op → List Obs
  | [] => []
  | op :: ops =>
    let o := obsAt h op
    o :: observe (if o = .bad then h else op :: h) ops

/-- the history (accepted operations, most recent first) after running `ops` from history `h` -/
def history (h : Hist) : List Op → Hist
  | [] => h
  | op :: ops => history (if obsAt h op = .bad then h else op :: h) ops

/-- the expected observations of an operation sequence run from scratch -/
def observations (ops : List Op) : List Obs := observe [] ops

end I18nVerif.Context.Spec
