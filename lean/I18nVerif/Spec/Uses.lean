import I18nVerif.Spec.Datakey
import I18nVerif.Spec.BkiPath
/-!
C20 — structural, executable reading of "a value uses an ICU option": it contains a `Plurals` node,
or a variable whose formatter belongs to the option's family — at any depth: inside components,
bloc items, range branches, plural forms / `other`, and the inner value of a resolved foreign key.
(`Proofs/DatakeyAll.lean: usesB_iff` proves it equivalent to `Spec.ValueUses`.)
-/
namespace I18nVerif.Datakey.Spec
open I18nVerif I18nVerif.Datakey

mutual
def hasPlurals : PV → Bool
  | .plurals _ _ _ _ => true
  | .comp _ inner => hasPlurals inner
  | .bloc items => hasPluralsL items
  | .ranges _ _ bs => hasPluralsB bs
  | .fk (.set inner) => hasPlurals inner
  | .fk (.notSet _ _) => false
  | .var _ _ => false
  | .lit _ => false
  | .dflt => false
  | .subkeys _ => false
def hasPluralsL : List PV → Bool
  | [] => false
  | x :: xs => hasPlurals x || hasPluralsL xs
def hasPluralsB : List (Range × PV) → Bool
  | [] => false
  | (_, x) :: xs => hasPlurals x || hasPluralsB xs
end

mutual
def hasFmt (o : Opt) : PV → Bool
  | .var _ f => fmtOpt f == some o
  | .comp _ inner => hasFmt o inner
  | .bloc items => hasFmtL o items
  | .ranges _ _ bs => hasFmtB o bs
  | .plurals _ _ other forms => hasFmtF o forms || hasFmt o other
  | .fk (.set inner) => hasFmt o inner
  | .fk (.notSet _ _) => false
  | .lit _ => false
  | .dflt => false
  | .subkeys _ => false
def hasFmtL (o : Opt) : List PV → Bool
  | [] => false
  | x :: xs => hasFmt o x || hasFmtL o xs
def hasFmtB (o : Opt) : List (Range × PV) → Bool
  | [] => false
  | (_, x) :: xs => hasFmt o x || hasFmtB o xs
def hasFmtF (o : Opt) : List (Form × PV) → Bool
  | [] => false
  | (_, x) :: xs => hasFmt o x || hasFmtF o xs
end

/-- the value uses option `o` -/
def usesB (v : PV) (o : Opt) : Bool := (o == .plurals && hasPlurals v) || hasFmt o v

/-- some locale of the namespace uses option `o` at an accessible key: a key path `p` at which
    the default locale (the first one) has a plain value — any subkey depth — and at which some
    locale's (reduced) value uses `o` -/
def NsUses (ns : NS) (o : Opt) : Prop :=
  ∃ dl, ns.locales.head? = some dl ∧ ∃ p, Check.leafValAt dl.keys p = true ∧
    ∃ l ∈ ns.locales, ∃ v, Check.valueAt l.keys p = some v ∧ ValueUses v o

end I18nVerif.Datakey.Spec
