import I18nVerif.Model.Router
/-!
Specification of C14, written without reference to how `routing.rs` works: it only shares the data
types (`Str`, `PSeg`, `Tables`) with the model.  Everything is phrased on *segments*: the maximal runs
of non-`/` characters of a path.
-/
namespace I18nVerif.Router.Spec
open I18nVerif.Router

/-- segments of a path, scanning left to right; `cur` is the segment being read (reversed) -/
def segmentsAux : Str → Str → List Str
  | [], cur => if cur.isEmpty then [] else [cur.reverse]
  | c :: cs, cur =>
    if c = '/' then (if cur.isEmpty then segmentsAux cs [] else cur.reverse :: segmentsAux cs [])
    else segmentsAux cs (c :: cur)

/-- the segments of a path: maximal runs of characters other than `/` -/
def segments (s : Str) : List Str := segmentsAux s []

/-- `xs` with the prefix `pre` removed, when it starts with it -/
def dropPrefix : List Str → List Str → Option (List Str)
  | [], xs => some xs
  | _ :: _, [] => none
  | b :: bs, x :: xs => if b = x then dropPrefix bs xs else none

/-- the segments of the path after the base path; `none` when the path is not under the base path -/
def afterBase (path base : Str) : Option (List Str) := dropPrefix (segments base) (segments path)

/-- "the first path segment after the base path equals the name of locale `l` exactly" -/
def readsAs (names : List Str) (path base : Str) (l : Nat) : Bool :=
  match afterBase path base with
  | some (s :: _) => names[l]? == some s
  | _ => false

/-- is `r` the right answer for "which locale does this URL carry"?  `some l` only when the first segment
    after the base is exactly `l`'s name; `none` only when it is no locale's name -/
def localeOk (names : List Str) (path base : Str) (r : Option Nat) : Bool :=
  match r with
  | some l => readsAs names path base l
  | none => (List.range names.length).all (fun l => !readsAs names path base l)

/-- the fragment carried by a `Location::hash` (which includes the leading `#` in the browser) -/
def fragment : Str → Str
  | '#' :: f => f
  | f => f

/-- `?query#fragment`, each part only when present -/
def queryAndFragment (search hash : Str) : Str :=
  (if search = [] then [] else '?' :: search) ++ (if hash = [] then [] else '#' :: fragment hash)

def dropCharPrefix : Str → Str → Option Str
  | [], s => some s
  | _ :: _, [] => none
  | p :: ps, c :: cs => if p = c then dropCharPrefix ps cs else none

/-- `s` without the suffix `suf`, when it ends with it -/
def dropSuffix (s suf : Str) : Option Str := (dropCharPrefix suf.reverse s.reverse).map List.reverse

/-- `a` and `b` are static segments at the same place of the two rows -/
def rowHas : Row → Row → Str → Str → Bool
  | sa :: ra, sb :: rb, a, b => (sa == PSeg.static a && sb == PSeg.static b) || rowHas ra rb a b
  | _, _, _, _ => false

/-- `a` (old locale) and `b` (new locale) are static segments at the same place of the same route -/
def counterpart : Tables → Tables → Str → Str → Bool
  | ra :: tA, rb :: tB, a, b => rowHas ra rb a b || counterpart tA tB a b
  | _, _, _, _ => false

def pointwise (P : Str → Str → Bool) : List Str → List Str → Bool
  | [], [] => true
  | a :: as, b :: bs => P a b && pointwise P as bs
  | _, _ => false

/-- may segment `a` become `b` when switching?  Only if it stays the same, or `a` is a static segment of a route
    of the old locale and `b` its counterpart for the new locale -/
def segOk (tA tB : Option Tables) (a b : Str) : Bool :=
  a == b || match tA, tB with
    | some tA, some tB => counterpart tA tB a b
    | _, _ => false

/-- `r'` differs from `r` only in localized segments: same number of segments, each one kept or replaced by
    its counterpart -/
def onlyLocalizedChanged (tA tB : Option Tables) (r r' : List Str) : Bool :=
  pointwise (segOk tA tB) r r'

/-- the segments after the base and after the old locale's prefix (if the URL carries it) -/
def restOf (names : List Str) (rest : List Str) (loc : Option Nat) : List Str :=
  match loc, rest with
  | some l, s :: tl => if names[l]? == some s then tl else rest
  | _, _ => rest

/-- the locale prefix of locale `l`: absent for the default locale (index 0) -/
def localePrefix (names : List Str) (l : Nat) : List Str :=
  if l == 0 then [] else [names.getD l []]

/-- Is `out` an acceptable result of switching the URL `path?search#hash` (under `base`, currently carrying
    `loc`'s prefix or none) to locale `new`?  It must be `pathname ++ ?query#fragment` where the pathname's
    segments are: the base path's, the new locale's prefix, then the old remaining segments changed only in
    localized segments.  Nothing is required of a path that is not under the base path. -/
def switchOk (names : List Str) (tA tB : Option Tables) (path search hash base : Str)
    (new : Nat) (loc : Option Nat) (out : Str) : Bool :=
  match afterBase path base with
  | none => true
  | some rest =>
    match dropSuffix out (queryAndFragment search hash) with
    | none => false
    | some p =>
      match dropPrefix (segments base ++ localePrefix names new) (segments p) with
      | none => false
      | some r' => onlyLocalizedChanged tA tB (restOf names rest loc) r'

/-! #### the route tables the router produces

`generate_routes_for_each_locale` walks the *same* route tree once per locale; only the values of
`i18n_path!` static segments differ.  `compatTables` is that shape (decidable). -/

def goodSeg (s : Str) : Bool := !s.isEmpty && !s.contains '/'

def compatSeg : PSeg → PSeg → Bool
  | .unit, .unit => true
  | .param _, .param _ => true
  | .optional a, .optional b => a == b
  | .static a, .static b => (a.isEmpty && b.isEmpty) || (goodSeg a && goodSeg b)
  | .splat _, .splat _ => true
  | _, _ => false

def compatRow : Row → Row → Bool
  | [], [] => true
  | a :: as, b :: bs => compatSeg a b && compatRow as bs
  | _, _ => false

def compatTables : Tables → Tables → Bool
  | [], [] => true
  | a :: as, b :: bs => compatRow a b && compatTables as bs
  | _, _ => false

def compatOpt : Option Tables → Option Tables → Bool
  | some a, some b => compatTables a b
  | _, _ => true

/-! #### "the localized segments *are* rewritten": the new URL is served by the same route

`switchOk` only says that every segment is kept *or* replaced by its counterpart; a result in which a localized
segment is simply copied satisfies it.  The strong judgement adds: if the old remaining segments are served by a
route of the old locale, the new remaining segments are served by the *same* route (same index) of the new locale's
table.  Since the two tables differ exactly in the localized static segments, this forces them to be rewritten. -/

/-- Is the list of segments `r` served by the route `row`, the way `leptos_router` matches a path against the
    segments of a route?  A non-empty static segment is the next segment; an empty static segment (a nested route
    with `path=""`) and a unit `()` consume nothing; a parameter is any one segment; an optional parameter is zero
    or one segment (either choice may be the one that works); a splat is all the rest (possibly nothing); at the end
    of the route no segment may be left. -/
def servesRow : Row → List Str → Bool
  | [], r => r.isEmpty
  | .unit :: ps, r => servesRow ps r
  | .static m :: ps, r =>
    if m.isEmpty then servesRow ps r
    else match r with
      | s :: tl => s == m && servesRow ps tl
      | [] => false
  | .param _ :: ps, r =>
    match r with
    | _ :: tl => servesRow ps tl
    | [] => false
  | .optional _ :: ps, r =>
    servesRow ps r || match r with
      | _ :: tl => servesRow ps tl
      | [] => false
  | .splat _ :: _, _ => true

/-- some route (same index in both tables) serves `r` in the old locale's table and `r'` in the new locale's -/
def pairServes : Tables → Tables → List Str → List Str → Bool
  | ra :: tA, rb :: tB, r, r' => (servesRow ra r && servesRow rb r') || pairServes tA tB r r'
  | _, _, _, _ => false

/-- no route of the old locale serves `r`, or a route that serves `r` serves `r'` in the new locale's table
    (same index).  Existential over the routes: when several routes serve `r` any of them may be the one. -/
def sameRouteServes (tA tB : Tables) (r r' : List Str) : Bool :=
  !(tA.any (fun row => servesRow row r)) || pairServes tA tB r r'

/-- nothing is demanded when either locale has no route table -/
def sameRouteServesOpt : Option Tables → Option Tables → List Str → List Str → Bool
  | some tA, some tB, r, r' => sameRouteServes tA tB r r'
  | _, _, _, _ => true

/-- **Strong judgement of a switch**: as `switchOk`, and — when both locales have a route table — if the old
    remaining segments are served by a route of the old locale, the new remaining segments are served by the same
    route of the new locale.  A result that copies a localized segment instead of rewriting it fails. -/
def switchOkStrong (names : List Str) (tA tB : Option Tables) (path search hash base : Str)
    (new : Nat) (loc : Option Nat) (out : Str) : Bool :=
  match afterBase path base with
  | none => true
  | some rest =>
    match dropSuffix out (queryAndFragment search hash) with
    | none => false
    | some p =>
      match dropPrefix (segments base ++ localePrefix names new) (segments p) with
      | none => false
      | some r' =>
        onlyLocalizedChanged tA tB (restOf names rest loc) r' && sameRouteServesOpt tA tB (restOf names rest loc) r'

/-- the name under which the ideal judgement was stated while `match_path_segments` did not meet it (before the
    repair `e02576e` the checked judgement had a narrower premise); now the same thing as `switchOkStrong` -/
abbrev switchOkFull := switchOkStrong

/-- a URL in the form the router itself produces: base path, locale prefix (none for the default), segments -/
def normalPath (base : Str) (pfx r : List Str) : Str :=
  let items := segments base ++ pfx ++ r
  if items.isEmpty then ['/'] else (items.map (fun s => '/' :: s)).flatten

/-- the base path, once its outer slashes are trimmed, has no empty segment inside
    (true of the four documented spellings `foo`, `/foo`, `foo/`, `/foo/`, of `""` and of `/`) -/
def normalBase (base : Str) : Bool := trimSlashes base == join (segs base)

/-- the explicit, decidable hypotheses of the round-trip theorem `C14_switch_roundtrip` for the normalised URL
    `normalPath base (localePrefix a) r`:
    well-formed names and segments, a normalised base path, route tables of the shape the router generates,
    the remaining segments do not themselves start with the name of the default locale when no prefix is written
    (otherwise the URL reads as a different one), and the localized segments translate back
    (the new URL is matched by the same route in the other locale's table). -/
def roundtripHyp (names : List Str) (tA tB : Option Tables) (base : Str) (a b : Nat) (r : List Str) : Bool :=
  names.all goodSeg && r.all goodSeg && normalBase base && compatOpt tA tB && compatOpt tB tA
    && (a != 0 || r.head? != names[0]?)
    && match localizeSegs tA tB r with
       | .ok r' => (b != 0 || r'.head? != names[0]?) && localizeSegs tB tA r' == .ok r
       | .panic _ => false

end I18nVerif.Router.Spec
