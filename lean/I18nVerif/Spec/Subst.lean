import I18nVerif.Model.Foreign
import I18nVerif.Spec.Eval
/-
Specification side of C06 ("foreign keys are pure substitution").

`substEnv ρ args` is the environment in which the *target* of `$t(target, {args})` has to be
rendered so that it shows what the referencing key shows under `ρ`: a supplied argument replaces
the variable of that name, and the `count` argument (stored under the name `var_count`) either
fixes the count (literal) or renames the count variable (`{{ var }}`).

Also here: the decidable tree predicates used by the C06 theorems
(`NoNotSet`, `SetClosed`, `PluralsWf`, `HasSubkeys`, `OracleTotal`).
-/
namespace I18nVerif.Subst
open I18nVerif

/-- the number a literal count argument denotes (`none`: strings and booleans are not counts) -/
def litDec : Lit → Option Dec
  | .unsigned n => some (Dec.ofInt n)
  | .signed i => some (Dec.ofInt i)
  | .float d => some d
  | _ => none

/-- the count seen by a range/plural of the target whose count variable is `k` -/
def substCount (ρ : Eval.Env) (args : List (Str × PV)) (k : Str) : Dec :=
  match AMap.get? Foreign.countArgName args with
  | none => ρ.count k
  | some (.lit l) =>
    match litDec l with
    | some d => d
    | none => ρ.count k
  | some (.var key _) => ρ.count key
  | some (.bloc vs) =>
    match Foreign.findVariable vs with
    | .ok key => ρ.count key
    | _ => ρ.count k
  | some _ => ρ.count k

/-- the environment of the target: `ρ ⊕ ⟦args⟧ρ` -/
def substEnv (ρ : Eval.Env) (args : List (Str × PV)) : Eval.Env where
  var := fun k f =>
    match AMap.get? k args with
    | some a => Eval.eval ρ a
    | none => ρ.var k f
  comp := ρ.comp
  count := substCount ρ args
  cat := ρ.cat

/-- The parse-time CLDR oracle (ICU4X called by `populate` on a literal count) and the run-time one
    (`ρ.cat`, ICU4X called by the generated code) give the same plural category to every literal
    number.  Nothing is assumed about operands the oracle table does not contain. -/
def OracleAgrees (orc : Oracle) (locale : Str) (ρ : Eval.Env) : Prop :=
  ∀ (rule : RuleTy) (l : Lit) (d : Dec) (f : Form),
    litDec l = some d → orc.cat locale rule (Foreign.operandKey l) = some f → f = ρ.cat rule d

/-! ### Tree predicates -/

mutual
/-- no unresolved foreign key anywhere `Reduce.reduce` goes: components, blocs, branches, forms,
    *inside resolved foreign keys* and inside subkey groups -/
def NoNotSet : PV → Bool
  | .fk (.notSet _ _) => false
  | .fk (.set i) => NoNotSet i
  | .comp _ i => NoNotSet i
  | .bloc l => NoNotSetL l
  | .ranges _ _ bs => NoNotSetB bs
  | .plurals _ _ o fs => NoNotSet o && NoNotSetF fs
  | .subkeys (some (.mk _ _ keys _ _)) => NoNotSetK keys
  | .subkeys none => true
  | .dflt => true
  | .lit _ => true
  | .var _ _ => true
def NoNotSetL : List PV → Bool
  | [] => true
  | x :: xs => NoNotSet x && NoNotSetL xs
def NoNotSetB : List (Range × PV) → Bool
  | [] => true
  | (_, x) :: xs => NoNotSet x && NoNotSetB xs
def NoNotSetF : List (Form × PV) → Bool
  | [] => true
  | (_, x) :: xs => NoNotSet x && NoNotSetF xs
def NoNotSetK : List (Str × PV) → Bool
  | [] => true
  | (_, x) :: xs => NoNotSet x && NoNotSetK xs
end

mutual
/-- The nodes resolution does *not* look into — already resolved foreign keys and subkey groups —
    contain no unresolved foreign key.  True of every parser output (it contains no `Set` node and
    no subkey group below a value), and implied by `NoNotSet`. -/
def SetClosed : PV → Bool
  | .fk (.notSet _ args) => SetClosedK args
  | .fk (.set i) => NoNotSet i
  | .comp _ i => SetClosed i
  | .bloc l => SetClosedL l
  | .ranges _ _ bs => SetClosedB bs
  | .plurals _ _ o fs => SetClosed o && SetClosedF fs
  | .subkeys l => NoNotSet (.subkeys l)
  | .dflt => true
  | .lit _ => true
  | .var _ _ => true
def SetClosedL : List PV → Bool
  | [] => true
  | x :: xs => SetClosed x && SetClosedL xs
def SetClosedB : List (Range × PV) → Bool
  | [] => true
  | (_, x) :: xs => SetClosed x && SetClosedB xs
def SetClosedF : List (Form × PV) → Bool
  | [] => true
  | (_, x) :: xs => SetClosed x && SetClosedF xs
def SetClosedK : List (Str × PV) → Bool
  | [] => true
  | (_, x) :: xs => SetClosed x && SetClosedK xs
end

mutual
/-- `Plurals.forms` never has an entry for `other` (that one is the separate field `other`):
    `merge_plurals` builds `forms` from the candidates `≠ other`. Checked wherever `populate` goes. -/
def PluralsWf : PV → Bool
  | .fk (.set i) => PluralsWf i
  | .fk (.notSet _ _) => true
  | .comp _ i => PluralsWf i
  | .bloc l => PluralsWfL l
  | .ranges _ _ bs => PluralsWfB bs
  | .plurals _ _ o fs => PluralsWf o && PluralsWfF fs
  | .subkeys _ => true
  | .dflt => true
  | .lit _ => true
  | .var _ _ => true
def PluralsWfL : List PV → Bool
  | [] => true
  | x :: xs => PluralsWf x && PluralsWfL xs
def PluralsWfB : List (Range × PV) → Bool
  | [] => true
  | (_, x) :: xs => PluralsWf x && PluralsWfB xs
def PluralsWfF : List (Form × PV) → Bool
  | [] => true
  | (f, x) :: xs => f != .other && PluralsWf x && PluralsWfF xs
end

def PluralsWfK : List (Str × PV) → Bool
  | [] => true
  | (_, x) :: xs => PluralsWf x && PluralsWfK xs

/-- is the `count` argument a literal? (then `populate` selects one branch and does not look at the others) -/
def isLitCount (args : List (Str × PV)) : Bool :=
  match AMap.get? Foreign.countArgName args with
  | some (.lit _) => true
  | _ => false

mutual
/-- the value is a subkey group, or contains one at a place `populate` is certain to visit:
    below components, blocs and resolved foreign keys; and — when the count argument is not a
    literal (`lit = false`) — in any range branch or plural form. -/
def HasSubkeys (lit : Bool) : PV → Bool
  | .subkeys _ => true
  | .fk (.set i) => HasSubkeys lit i
  | .fk (.notSet _ _) => false
  | .comp _ i => HasSubkeys lit i
  | .bloc l => HasSubkeysL lit l
  | .ranges _ _ bs => !lit && HasSubkeysB lit bs
  | .plurals _ _ o fs => !lit && (HasSubkeys lit o || HasSubkeysF lit fs)
  | .dflt => false
  | .lit _ => false
  | .var _ _ => false
def HasSubkeysL (lit : Bool) : List PV → Bool
  | [] => false
  | x :: xs => HasSubkeys lit x || HasSubkeysL lit xs
def HasSubkeysB (lit : Bool) : List (Range × PV) → Bool
  | [] => false
  | (_, x) :: xs => HasSubkeys lit x || HasSubkeysB lit xs
def HasSubkeysF (lit : Bool) : List (Form × PV) → Bool
  | [] => false
  | (_, x) :: xs => HasSubkeys lit x || HasSubkeysF lit xs
end

/-- the only way `populate` can panic: the count argument is a literal number `l`, some plural of
    rule type `rule` is supported in the locale, and the oracle table has no category for `l` -/
def PanicWitness (orc : Oracle) (locale : Str) (args : List (Str × PV)) (p : String) : Prop :=
  p = "oracle: plural category missing" ∧
  ∃ (l : Lit) (d : Dec) (rule : RuleTy),
    AMap.get? Foreign.countArgName args = some (.lit l) ∧ litDec l = some d ∧
    orc.cats locale rule ≠ none ∧ orc.cat locale rule (Foreign.operandKey l) = none

/-- the oracle has a category for every literal number in every supported rule type of the locale
    (ICU4X's `category_for` is total; the table handed to the model must contain the operands used) -/
def OracleTotal (orc : Oracle) (locale : Str) : Prop :=
  ∀ (rule : RuleTy) (l : Lit) (d : Dec), litDec l = some d → orc.cats locale rule ≠ none →
    orc.cat locale rule (Foreign.operandKey l) ≠ none

/-! ### Resolution: world invariant, fuel -/

/-- every value stored in the world is a subkey group (rejected as a target anyway) or `SetClosed` -/
def WorldClosed (w : World) : Prop :=
  ∀ top target value, w.getValueAt top target = .ok (some value) →
    (∃ l, value = .subkeys l) ∨ SetClosed value = true


/-- `r'` is `r` computed with more fuel: either `r` ran out of fuel, or nothing changed -/
def FuelLe {α : Type} (r r' : Res α) : Prop := r = .panic "fuel" ∨ r' = r


mutual
/-- fuel that suffices to walk over a value that has no unresolved foreign key -/
def fuelNeed : PV → Nat
  | .comp _ i => fuelNeed i + 1
  | .bloc l => fuelNeedL l + 1
  | .ranges _ _ bs => fuelNeedB bs + 1
  | .plurals _ _ o fs => max (fuelNeed o) (fuelNeedF fs) + 1
  | .fk _ => 1
  | .subkeys _ => 1
  | .dflt => 1
  | .lit _ => 1
  | .var _ _ => 1
def fuelNeedL : List PV → Nat
  | [] => 1
  | x :: xs => max (fuelNeed x) (fuelNeedL xs) + 1
def fuelNeedB : List (Range × PV) → Nat
  | [] => 1
  | (_, x) :: xs => max (fuelNeed x) (fuelNeedB xs) + 1
def fuelNeedF : List (Form × PV) → Nat
  | [] => 1
  | (_, x) :: xs => max (fuelNeed x) (fuelNeedF xs) + 1
end


def fuelNeedK : List (Str × PV) → Nat
  | [] => 1
  | (_, x) :: xs => max (fuelNeed x) (fuelNeedK xs) + 1


end I18nVerif.Subst
