import I18nVerif.Model.Value
import I18nVerif.Model.World
/-
Specification for plural keys (property C05), independent of how `is_possible_plural`,
`merge_plurals`, `check_forms` and the plural accessors are written: how a plural key is spelled,
which form of a merged key is the one to render, which written forms are unused.
CLDR itself (ICU4X data) is an oracle: `Oracle.cats`/`Oracle.cat` at parse time, `Env.cat` at run time.
-/
namespace I18nVerif.PluralSpec
open I18nVerif

/-- the marker of ordinal forms -/
def ordinalMark : Str := "_ordinal".toList

def ruleMark : RuleTy → Str
  | .ordinal => ordinalMark
  | .cardinal => []

/-- the suffix that marks a key as the `form` of a plural of rule type `rule`:
    `_zero|_one|_two|_few|_many|_other`, preceded by `_ordinal` for ordinal forms -/
def suffix (rule : RuleTy) (form : Form) : Str := ruleMark rule ++ '_' :: form.name.toList

/-- the key under which form `form` (rule type `rule`) of the plural key `base` is written -/
def pluralKey (base : Str) (rule : RuleTy) (form : Form) : Str := base ++ suffix rule form

/-- values that may be a plural form (everything but ranges, subkeys and an explicit default) -/
def plainValue : PV → Bool
  | .ranges _ _ _ => false
  | .subkeys _ => false
  | .dflt => false
  | _ => true

/-- the form to render for CLDR category `f`: the written one, else `other` -/
def pick (f : Form) : List (Form × α) → α → α
  | [], other => other
  | (f', v) :: rest, other => if f' = f then v else pick f rest other

/-- the written forms that the locale's rules (categories `cats`) can never select, in order -/
def unused (cats : List Form) (forms : List (Form × α)) : List Form :=
  (forms.map (·.1)).filter (fun f => !cats.contains f)

end I18nVerif.PluralSpec
