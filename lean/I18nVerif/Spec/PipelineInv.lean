import I18nVerif.Model.Pipeline
import I18nVerif.Spec.Subst
import I18nVerif.Spec.Reduce
/-!
Invariants of the loading pipeline (`Model/Pipeline.lean`) used by the whole-pipeline no-panic
theorem (C09).  One invariant per stage:

* after `parseRaw`          : every stored leaf is `Raw` (what the parser produces), every key map is
                              sorted, every leaf containing a foreign key is registered;
* after `mergePluralsAll`   : the same, and every registered path is still found (under its own key
                              or under the plural base key, `mergedLast`);
* after `Foreign.resolveAll`: every stored leaf is `Flat` and has no unresolved foreign key;
* `checkAll` on such a world reaches none of its panic sites.

A *leaf* is a value stored under a key that is not a group of subkeys.
-/
namespace I18nVerif.PipeInv
open I18nVerif

/-- the two outcomes `panic` of the model that are artefacts of the model (constant fuel, finite
    oracle table), not panic sites of the Rust code -/
def Benign (s : String) : Prop := s = "fuel" ∨ s = "oracle: plural category missing"

/-- a `BTreeMap` as the model stores it: strictly sorted by key -/
def Sorted {α : Type} (m : List (Str × α)) : Prop := m.Pairwise (fun a b => AMap.strLt a.1 b.1 = true)

mutual
/-- no group of subkeys anywhere inside the value (arguments and resolved foreign keys included) -/
def Flat : PV → Bool
  | .subkeys _ => false
  | .fk (.set i) => Flat i
  | .fk (.notSet _ args) => FlatK args
  | .comp _ i => Flat i
  | .bloc l => FlatL l
  | .ranges _ _ bs => FlatB bs
  | .plurals _ _ o fs => Flat o && FlatF fs
  | .dflt => true
  | .lit _ => true
  | .var _ _ => true
def FlatL : List PV → Bool
  | [] => true
  | x :: xs => Flat x && FlatL xs
def FlatB : List (Range × PV) → Bool
  | [] => true
  | (_, x) :: xs => Flat x && FlatB xs
def FlatF : List (Form × PV) → Bool
  | [] => true
  | (_, x) :: xs => Flat x && FlatF xs
def FlatK : List (Str × PV) → Bool
  | [] => true
  | (_, x) :: xs => Flat x && FlatK xs
end

mutual
/-- what `ParsedValue::new` / the serde visitors produce below a key: no group of subkeys and no
    *resolved* foreign key anywhere (arguments included) -/
def Raw : PV → Bool
  | .subkeys _ => false
  | .fk (.set _) => false
  | .fk (.notSet _ args) => RawK args
  | .comp _ i => Raw i
  | .bloc l => RawL l
  | .ranges _ _ bs => RawB bs
  | .plurals _ _ o fs => Raw o && RawF fs
  | .dflt => true
  | .lit _ => true
  | .var _ _ => true
def RawL : List PV → Bool
  | [] => true
  | x :: xs => Raw x && RawL xs
def RawB : List (Range × PV) → Bool
  | [] => true
  | (_, x) :: xs => Raw x && RawB xs
def RawF : List (Form × PV) → Bool
  | [] => true
  | (_, x) :: xs => Raw x && RawF xs
def RawK : List (Str × PV) → Bool
  | [] => true
  | (_, x) :: xs => Raw x && RawK xs
end

mutual
/-- no foreign-key node at any place `Foreign.containsFK` (= `hasFK`) looks at (it does not look below a
    foreign key): `FKFree v = !containsFK v` -/
def FKFree : PV → Bool
  | .fk _ => false
  | .comp _ i => FKFree i
  | .bloc l => FKFreeL l
  | .ranges _ _ bs => FKFreeB bs
  | .plurals _ _ o fs => FKFree o && FKFreeF fs
  | .subkeys _ => true
  | .dflt => true
  | .lit _ => true
  | .var _ _ => true
def FKFreeL : List PV → Bool
  | [] => true
  | x :: xs => FKFree x && FKFreeL xs
def FKFreeB : List (Range × PV) → Bool
  | [] => true
  | (_, x) :: xs => FKFree x && FKFreeB xs
def FKFreeF : List (Form × PV) → Bool
  | [] => true
  | (_, x) :: xs => FKFree x && FKFreeF xs
end

mutual
/-- `P path leaf` for every leaf of a key tree; a group is `subkeys (some _)`, an emptied group
    (`subkeys none`) is not allowed.  `here` is the path of the value, `pre` the path of the map. -/
def TreeV (P : List Str → PV → Prop) (here : List Str) : PV → Prop
  | .subkeys (some (.mk _ _ keys _ _)) => TreeK P here keys
  | .subkeys none => False
  | .dflt => P here .dflt
  | .fk f => P here (.fk f)
  | .ranges ck t bs => P here (.ranges ck t bs)
  | .lit l => P here (.lit l)
  | .var k f => P here (.var k f)
  | .comp k i => P here (.comp k i)
  | .bloc l => P here (.bloc l)
  | .plurals r ck o fs => P here (.plurals r ck o fs)
def TreeK (P : List Str → PV → Prop) (pre : List Str) : List (Str × PV) → Prop
  | [] => True
  | (k, v) :: rest => TreeV P (pre ++ [k]) v ∧ TreeK P pre rest
end

mutual
/-- every key map of the tree (all depths) is sorted -/
def SortedV : PV → Prop
  | .subkeys (some (.mk _ _ keys _ _)) => Sorted keys ∧ SortedK keys
  | _ => True
def SortedK : List (Str × PV) → Prop
  | [] => True
  | (_, v) :: rest => SortedV v ∧ SortedK rest
end

/-- a locale's key map: sorted at every depth -/
def SortedTree (keys : List (Str × PV)) : Prop := Sorted keys ∧ SortedK keys

mutual
/-- nesting depth of the groups of subkeys (what the fuel of `fkPathsOf` / `mergePlurals` bounds) -/
def gDepthV : PV → Nat
  | .subkeys (some (.mk _ _ keys _ _)) => gDepthK keys + 1
  | _ => 0
def gDepthK : List (Str × PV) → Nat
  | [] => 0
  | (_, v) :: rest => max (gDepthV v) (gDepthK rest)
end

def isGroup : PV → Bool
  | .subkeys _ => true
  | _ => false

/-- `Foreign.mergedPath` on the list of keys: the last key replaced by its plural base key -/
def mergedLast (q : List Str) : Option (List Str) :=
  match q.getLast? with
  | none => none
  | some last =>
    match Str.rsplitOnceC '_' last with
    | none => none
    | some (base, _) =>
      let base := (Str.stripSuffix "_ordinal".toList base).getD base
      match Key.new base with
      | none => none
      | some b => some (q.dropLast ++ [b])

/-- position `q` of locale `name` in namespace `nsk` is one a registered path resolves: the path
    itself or its plural base -/
def Cov (paths : List (Str × KeyPath)) (name : Str) (nsk : Option Str) (q : List Str) : Prop :=
  ∃ p, (name, p) ∈ paths ∧ p.ns = nsk ∧ (p.path = q ∨ mergedLast p.path = some q)

/-- a world as `parseRaw` builds it: namespaced ⇔ every namespace has a name; not namespaced ⇔ one
    anonymous namespace; namespace names and locale names are pairwise distinct -/
structure WorldWF (w : World) : Prop where
  nsSome : w.namespaced = true → ∀ ns ∈ w.nss, ns.key.isSome = true
  nsNone : w.namespaced = false → ∃ locs, w.nss = [⟨none, locs⟩]
  nsDistinct : (w.nss.map NS.key).Pairwise (· ≠ ·)
  locDistinct : ∀ ns ∈ w.nss, (ns.locales.map Loc.name).Pairwise (· ≠ ·)
  nonempty : ∀ ns ∈ w.nss, ns.locales ≠ []

/-- what `Config.new` guarantees about a configuration (`cfg_file.rs`: the default locale is put
    first, duplicate locales / namespaces are rejected) -/
structure CfgWF (cfg : Config.Config) : Prop where
  locales : cfg.locales ≠ []
  localesDistinct : cfg.locales.Pairwise (· ≠ ·)
  nsDistinct : ∀ l, cfg.namespaces = some l → l.Pairwise (· ≠ ·)

end I18nVerif.PipeInv
