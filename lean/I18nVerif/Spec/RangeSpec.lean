import I18nVerif.Model.Value
/-
Specification of count specifications (property C04), independent of how `Range::new`,
`Range::do_match` and `find_value` are written: what a written count specification *means*
(Rust's reading of `a`, `a..b`, `a..=b`, `..b`, `a..`, `..`/`_`, `|` / list alternatives) and which
branch of a list of branches is the selected one (the first whose specification contains the count).
Numbers are the exact decimals `Dec` (`m · 10^(-e)`); `Dec.le/lt/eq` compare them by
cross-multiplication (for integers, `e = 0`, they are `≤`/`<`/`=` on `Int`: `Proofs/Ranges.lean`).
-/
namespace I18nVerif.RangeSpec
open I18nVerif

inductive CountSpec where
  /-- `a` -/
  | exact (v : Dec)
  /-- `lo..hi` (`inclusive = false`) or `lo..=hi` (`inclusive = true`); a missing bound is open -/
  | range (lo : Option Dec) (hi : Option Dec) (inclusive : Bool)
  /-- `s₁ | s₂ | …` or a list of count specifications -/
  | alt (l : List CountSpec)
  /-- `_`, `..`, the empty list: every count -/
  | any
deriving Repr, Inhabited

/-- does the written specification contain the count `n`? -/
def CountSpec.contains : CountSpec → Dec → Bool
  | .exact v, n => Dec.eq v n
  | .range lo hi inclusive, n =>
    (match lo with
      | some a => Dec.le a n
      | none => true) &&
    (match hi with
      | some b => if inclusive then Dec.le n b else Dec.lt n b
      | none => true)
  | .alt l, n => containsAny l n
  | .any, _ => true
where
  /-- some alternative contains `n` -/
  containsAny : List CountSpec → Dec → Bool
    | [], _ => false
    | s :: ss, n => s.contains n || containsAny ss n

/-- the meaning of a `Range` value as a written specification -/
def specOf : Range → CountSpec
  | .exact v => .exact v
  | .bounds lo (.incl hi) => .range lo (some hi) true
  | .bounds lo (.excl hi) => .range lo (some hi) false
  | .bounds lo .unb => .range lo none false
  | .multi l => .alt (specOfL l)
  | .fallback => .any
where
  specOfL : List Range → List CountSpec
    | [] => []
    | r :: rs => specOf r :: specOfL rs

/-- the selected branch: the first one whose specification contains the count -/
def select (n : Dec) : List (CountSpec × α) → Option α
  | [] => none
  | (s, v) :: rest => if s.contains n then some v else select n rest

/-- the meaning on integers, stated without `Dec`: `a..b` is `a ≤ n < b`, `a..=b` is `a ≤ n ≤ b` -/
def intContains (lo hi : Option Int) (inclusive : Bool) (n : Int) : Bool :=
  (match lo with
    | some a => decide (a ≤ n)
    | none => true) &&
  (match hi with
    | some b => if inclusive then decide (n ≤ b) else decide (n < b)
    | none => true)

end I18nVerif.RangeSpec
