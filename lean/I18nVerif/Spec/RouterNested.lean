import I18nVerif.Spec.Router
/-!
Specification of the *route matching* half of C14 (`I18nNestedRoute::match_nested`, the "N + 1 route families" of an
`<I18nRoute>`), written from the property text, without reference to how `routing.rs` does it
(no `CURRENT_ROUTE_LOCALE`, no `find_map`):

* a URL under the base path whose first segment after the base **equals** the name of locale `l` is offered to the
  route tree with that segment removed and `l`'s localized segments; a match reports `l`;
* a URL is (then) offered as it is to the route tree with the **default** locale's (index 0) localized segments; a match
  reports no locale;
* nothing else: a URL that is not under the base path, or that only some other locale's localized segments would
  serve without that locale's prefix, is not matched.

How a plain route tree (every localized segment replaced by one locale's word) serves a list of segments is
`leptos_router`'s business; it is a parameter here (`serves`), filled in by the check with the answer of the real
`leptos_router` on the plain tree.  Lives in its own file so that the proofs about `Spec/Router.lean` are not rebuilt.
-/
namespace I18nVerif.Router.Spec
open I18nVerif.Router

/-- one way a URL may be served by an `<I18nRoute>` -/
structure Candidate where
  /-- the locale the match reports (`I18nRouteMatch::locale`); `none` = no locale prefix in the URL -/
  reports : Option Nat
  /-- the locale whose localized segments the route tree is instantiated with -/
  segmentsOf : Nat
  /-- the segments offered to the route tree -/
  rest : List Str
deriving Repr, DecidableEq

/-- the locales whose name equals the segment `s` exactly (at most one when the names are distinct) -/
def namedBy (names : List Str) (s : Str) : List Nat :=
  (List.range names.length).filter (fun l => names[l]? == some s)

/-- The candidates of a URL, in the order in which they are to be tried; `none` when the path is not under the base
    path (then nothing may match).  The prefixed family of locale `l` applies only when the first segment after the
    base path *equals* `l`'s name; the un-prefixed family always applies and uses the default locale (index 0). -/
def routeCandidates (names : List Str) (path base : Str) : Option (List Candidate) :=
  match afterBase path base with
  | none => none
  | some rest =>
    let pre : List Candidate := match rest with
      | s :: tl => (namedBy names s).map (fun l => { reports := some l, segmentsOf := l, rest := tl })
      | [] => []
    some (pre ++ [{ reports := none, segmentsOf := 0, rest := rest }])

/-- the expected result: the first candidate that the plain route tree of its locale serves, with the locale it
    reports; `serves l r` = what `leptos_router` answers for the tree with `l`'s words on the segments `r` -/
def expectedMatch {α : Type} (cands : Option (List Candidate)) (serves : Candidate → Option α) : Option (Option Nat × α) :=
  match cands with
  | none => none
  | some cs => cs.findSome? (fun c => (serves c).map (fun m => (c.reports, m)))

/-- is `result` (`none` = no route matched; `some (locale, m)`) the right answer for this URL? -/
def nestedRouteOk {α : Type} [BEq α] (cands : Option (List Candidate)) (serves : Candidate → Option α)
    (result : Option (Option Nat × α)) : Bool :=
  result == expectedMatch cands serves

/-- the part of the judgement that needs no oracle: a reported locale is named by the first whole segment after
    the base path -/
def reportedLocaleOk (names : List Str) (path base : Str) (locale : Option Nat) : Bool :=
  match locale with
  | none => true
  | some l => readsAs names path base l

/-! #### the route tables (`generate_routes_for_each_locale`) and the generated routes (`generate_routes`) -/

/-- every pair of the per-locale tables has the shape the switching theorems assume (`compatTables`) -/
def allCompat (ts : List Tables) : Bool :=
  ts.all (fun a => ts.all (fun b => compatTables a b))

/-- the N + 1 families `generate_routes` must list, from the per-locale tables (each row starts with the empty
    static segment of the base route): for every locale, its rows with that first segment replaced by the locale's
    name; then the default locale's rows with it removed -/
def familiesOf (names : List Str) (ts : List Tables) : Tables :=
  let pref := (names.zip ts).map (fun (n, t) => t.map (fun row => PSeg.static n :: row.drop 1))
  pref.flatten ++ (ts.headD []).map (fun row => row.drop 1)

end I18nVerif.Router.Spec
