import I18nVerif.Model.Check
/-!
# Spec for C07 — the key diagnostics of one locale against the builder keys

The builder keys (`BKI`) are the key tree of the default locale.  For a non-default locale
`top` merged at key path `path`:

* `missingFlat` / `keysW`: one `missing top (path/k)` per builder key `k` the locale has no entry
  for — only when the locale does not inherit (`implicit = true`); an entry that is `null` is an
  entry.  Nothing is reported *below* a missing or `null` group.
* `surplusW`: one `surplus top (path/k)` per key of the locale that is not a builder key —
  unless the crate is built with `suppress_key_warnings`.
* groups present on both sides are compared recursively, one level down (`belowW`).

Values are looked at after `reduce` (as the code does); `reduce` keeps the key names of a group.
-/
namespace I18nVerif.Spec.Diagnostics
open I18nVerif Check

/-- `path/k` -/
def child (p : KeyPath) (k : Str) : KeyPath := ⟨p.ns, p.path ++ [k]⟩

/-- surplus keys, in the order of the locale's keys -/
def surplusW (top : Str) (suppress : Bool) (path : KeyPath) (locKeys bkiKeys : List Str) : List Warning :=
  if suppress then []
  else (locKeys.filter (fun k => !bkiKeys.contains k)).map (fun k => .surplus top (child path k))

/-- missing keys of a flat key set, in the order of the builder keys -/
def missingFlat (top : Str) (implicit : Bool) (path : KeyPath) (locKeys bkiKeys : List Str) : List Warning :=
  if implicit then (bkiKeys.filter (fun k => !locKeys.contains k)).map (fun k => .missing top (child path k))
  else []

mutual
/-- diagnostics strictly below `kp`, for the (reduced) value `cur` of the locale at `kp` -/
def belowW (top : Str) (implicit suppress : Bool) (kp : KeyPath) (cur : PV) : LV → List Warning
  | .value _ _ => []
  | .subkeys _ bkeys =>
    match cur with
    | .subkeys (some l) =>
      keysW top implicit suppress kp l.keys bkeys
        ++ surplusW top suppress kp (l.keys.map Prod.fst) (bkeys.map Prod.fst)
    | _ => []
/-- the walk over the builder keys of one level: `missing` for absent keys, recursion into groups -/
def keysW (top : Str) (implicit suppress : Bool) (path : KeyPath) (locKeys : List (Str × PV)) :
    List (Str × LV) → List Warning
  | [] => []
  | (k, lv) :: rest =>
    (match AMap.get? k locKeys with
      | none => if implicit then [.missing top (child path k)] else []
      | some v =>
        match Reduce.reduce v with
        | .ok cur => belowW top implicit suppress (child path k) cur lv
        | _ => [])
    ++ keysW top implicit suppress path locKeys rest
end

/-- all diagnostics of merging a locale with keys `locKeys` at `path` -/
def localeW (top : Str) (implicit suppress : Bool) (path : KeyPath) (locKeys : List (Str × PV))
    (bki : BKI) : List Warning :=
  keysW top implicit suppress path locKeys bki
    ++ surplusW top suppress path (locKeys.map Prod.fst) (bki.map Prod.fst)

/-- `DefaultTo::Implicit` -/
def isImplicit : DefaultTo → Bool
  | .implicit _ => true
  | .explicit _ => false

/-- the locale a warning is about -/
def warnLocale : Warning → Str
  | .missing l _ => l
  | .surplus l _ => l
  | .unusedForm l _ _ _ => l

mutual
/-- representation invariants of builder keys: distinct keys at every level (they are `BTreeMap`s)
    and, for a group, the first recorded locale (the default locale's group) has exactly the
    group's keys -/
def LV.WF : LV → Prop
  | .value _ _ => True
  | .subkeys locales keys =>
    (∃ dl, locales.head? = some dl ∧ dl.keys.map Prod.fst = keys.map Prod.fst)
      ∧ (keys.map Prod.fst).Nodup ∧ WFL keys
def WFL : List (Str × LV) → Prop
  | [] => True
  | (_, lv) :: rest => LV.WF lv ∧ WFL rest
end

def BKI.WF (bki : BKI) : Prop := (bki.map Prod.fst).Nodup ∧ WFL bki

mutual
/-- distinct keys at every level -/
def LV.ND : LV → Prop
  | .value _ _ => True
  | .subkeys _ keys => (keys.map Prod.fst).Nodup ∧ NDL keys
def NDL : List (Str × LV) → Prop
  | [] => True
  | (_, lv) :: rest => LV.ND lv ∧ NDL rest
end

/-- the keys of a locale are distinct at every level the code descends into (groups as `reduce`
    returns them), down to depth `n` — locales are `BTreeMap`s, so this always holds -/
def NDLoc : Nat → Loc → Prop
  | 0, _ => True
  | n + 1, loc => (loc.keys.map Prod.fst).Nodup
      ∧ ∀ k v sub, (k, v) ∈ loc.keys → Reduce.reduce v = .ok (.subkeys (some sub)) → NDLoc n sub

mutual
/-- same key tree: same keys in the same order, groups where groups are, values where values are
    (what a merge never changes; the diagnostics only depend on this) -/
def LV.Sk : LV → LV → Prop
  | .value _ _, .value _ _ => True
  | .subkeys _ ks, .subkeys _ ks' => SkL ks ks'
  | .value _ _, .subkeys _ _ => False
  | .subkeys _ _, .value _ _ => False
def SkL : List (Str × LV) → List (Str × LV) → Prop
  | [], [] => True
  | (k, lv) :: r, (k', lv') :: r' => k = k' ∧ LV.Sk lv lv' ∧ SkL r r'
  | [], _ :: _ => False
  | _ :: _, [] => False
end

/-- the diagnostics of a whole `check_locales_inner`: locale after locale, each against the key
    tree of the default locale; a locale with an `inherits` entry (or any locale under
    `suppress_key_warnings`) gets no `missing` -/
def checkW (suppress : Bool) (inherits : List (Str × Str)) (path : KeyPath) (others : List Loc) (bki : BKI) :
    List Warning :=
  others.flatMap (fun l =>
    localeW l.name (!suppress && (AMap.get? l.name inherits).isNone) suppress path l.keys bki)

/-- a flat builder-key level: values only -/
def isFlat (bki : BKI) : Prop := ∀ e ∈ bki, ∃ iol d, e.2 = LV.value iol d

end I18nVerif.Spec.Diagnostics
