import I18nVerif.Model.Langid
/-!
Specification of C15: the documented precedence, written as the obvious `match`.
Shares only the data types `Loc` / `LangId` with the models.

* "the cookie holds a configured locale name": the value, surrounding white space aside, *is* one of the
  configured names (exact, case-sensitive comparison) — `cookieLocale`;
* "best match for the Accept-Language header / navigator.languages": property C12's business; here it is the
  parameter `bestMatch : Option Loc` (`none` = no supported locale matches any requested language);
* the cookie of a context is the one it was configured with (`cookieInUse = false`: cookies disabled, or a
  sub-context created without a cookie name) — a cookie that is not in use is never consulted.
-/
namespace I18nVerif.Resolve.Spec
open I18nVerif.Langid

/-- Unicode `White_Space` -/
def isSpace (c : Char) : Bool :=
  [0x09, 0x0A, 0x0B, 0x0C, 0x0D, 0x20, 0x85, 0xA0, 0x1680, 0x2000, 0x2001, 0x2002, 0x2003, 0x2004, 0x2005, 0x2006,
   0x2007, 0x2008, 0x2009, 0x200A, 0x2028, 0x2029, 0x202F, 0x205F, 0x3000].contains c.toNat

/-- remove leading and trailing white space -/
def strip (s : List Char) : List Char := ((s.dropWhile isSpace).reverse.dropWhile isSpace).reverse

/-- the locale named by a cookie value, if any: `named[i] = (name, locale)` -/
def cookieLocale (named : List (List Char × Loc)) (cookieInUse : Bool) (value : Option (List Char)) : Option Loc :=
  match cookieInUse, value with
  | true, some v => (named.find? (fun nl => nl.1 == strip v)).map (·.2)
  | _, _ => none

/-- main context: valid cookie, else best match, else default -/
def rootLocale (validCookie bestMatch : Option Loc) (dflt : Loc) : Loc :=
  match validCookie, bestMatch with
  | some c, _ => c
  | none, some m => m
  | none, none => dflt

/-- sub-context: valid cookie, explicit initial locale, parent's locale, then the same resolution -/
def subLocale (validCookie initial parent bestMatch : Option Loc) (dflt : Loc) : Loc :=
  match validCookie, initial, parent with
  | some c, _, _ => c
  | none, some i, _ => i
  | none, none, some p => p
  | none, none, none => rootLocale none bestMatch dflt

end I18nVerif.Resolve.Spec
