import I18nVerif.Model.Parse
import I18nVerif.Spec.Eval
/-
Source grammar of an interpolated translation string (property C01): what a translator writes.
A string is a list of items — literal text, `{{ var }}`, `<tag> … </tag>` with items inside, to any
depth — together with the whitespace the grammar tolerates inside `{{ }}` and inside tags.
`printL` writes the string, `evalSrc` says what the accessor has to produce for it, `WF` says when
the list of items is the way the printed string is *read* (no text item smuggles in a `<`, a `{{` or a
`$t(`, names are identifiers, the `w*` are whitespace).

Whitespace positions of a component `<w1 name w2> kids <w4/w3 name w5>`: these five are all the
positions `find_opening_tag` / `find_closing_tag` accept (both `trim` the text between `<` and `>`;
the closing tag then strips `/` and `trim_start`s).  Not accepted by the code, hence not printed:
whitespace inside the name, and anything between `{`/`{` or `}`/`}` of a variable.
-/
namespace I18nVerif.Src
open I18nVerif Str

inductive Item where
  | text (s : Str)
  /-- `{{w1 name w2}}` -/
  | var (name : Str) (w1 w2 : Str)
  /-- `<w1 name w2>kids<w4/w3 name w5>` -/
  | comp (name : Str) (w1 w2 w3 w4 w5 : Str) (kids : List Item)

/-- `<w1 name w2>` -/
def openTag (name w1 w2 : Str) : Str := ['<'] ++ w1 ++ name ++ w2 ++ ['>']
/-- `<w4/w3 name w5>` -/
def closeTag (name w3 w4 w5 : Str) : Str := ['<'] ++ w4 ++ ['/'] ++ w3 ++ name ++ w5 ++ ['>']

mutual
def printI : Item → Str
  | .text s => s
  | .var n w1 w2 => ['{', '{'] ++ w1 ++ n ++ w2 ++ ['}', '}']
  | .comp n w1 w2 w3 w4 w5 kids => openTag n w1 w2 ++ printL kids ++ closeTag n w3 w4 w5
def printL : List Item → Str
  | [] => []
  | i :: is => printI i ++ printL is
end

/- the text an accessor must produce: text verbatim, variables looked up, components applied to
   their rendered children -/
mutual
def evalI (ρ : Eval.Env) : Item → Str
  | .text s => s
  | .var n _ _ => ρ.var ("var_".toList ++ n) .none
  | .comp n _ _ _ _ _ kids => ρ.comp ("comp_".toList ++ n) (evalSrc ρ kids)
def evalSrc (ρ : Eval.Env) : List Item → Str
  | [] => []
  | i :: is => evalI ρ i ++ evalSrc ρ is
end

/-- an occurrence of `pat` in `s ++ x` *starts inside* `s` -/
def occIn (pat : Str) : Str → Str → Bool
  | [], _ => false
  | c :: cs, x => pat.isPrefixOf (c :: cs ++ x) || occIn pat cs x

def wsOk (w : Str) : Bool := w.all isWs

/-- characters a name may be made of: no whitespace, none of `< > / { } , $` -/
def nameChar (c : Char) : Bool :=
  !isWs c && c != '<' && c != '>' && c != '/' && c != '{' && c != '}' && c != ',' && c != '$'

/-- `name` is made of name characters and `pre ++ name` is an identifier `Key::new` keeps as it is -/
def nameOk (pre : Str) (name : Str) : Bool :=
  name.all nameChar && Key.new (pre ++ name) == some (pre ++ name)

/-- a text item `s` followed by the printed string `x`: no `{{` and no `$t(` starts inside `s`
    (this covers text ending in `{` before a variable, `$t` + `(` split over adjacent texts, …) -/
def textOk (s x : Str) : Bool :=
  !s.contains '<' && !occIn ['{', '{'] s x && !occIn ['$', 't', '('] s x

mutual
/-- conditions on one item, given the printed string `x` of the items that follow it in its list -/
def wfI : Item → Str → Bool
  | .text s, x => textOk s x
  | .var n w1 w2, _ => nameOk "var_".toList n && wsOk w1 && wsOk w2
  | .comp n w1 w2 w3 w4 w5 kids, _ =>
    nameOk "comp_".toList n && wsOk w1 && wsOk w2 && wsOk w3 && wsOk w4 && wsOk w5 && wfL kids
def wfL : List Item → Bool
  | [] => true
  | i :: is => wfI i (printL is) && wfL is
end

/-- well-formed source (decidable) -/
def WF (t : List Item) : Prop := wfL t = true

instance (t : List Item) : Decidable (WF t) := by unfold WF; infer_instance

/-- no component anywhere at top level of the list (used for the variables-only theorem) -/
def isComp : Item → Bool
  | .comp .. => true
  | _ => false

def isText : Item → Bool
  | .text _ => true
  | _ => false

end I18nVerif.Src
