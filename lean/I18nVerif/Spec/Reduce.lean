import I18nVerif.Model.Reduce
/-!
Executable predicates about values before / after `reduce` (C01).

* `Clean v`   — `v` contains no unresolved foreign key and no emptied (`None`) subkeys, at any depth
                (the two `unreachable!`/`unwrap_at` panic sites of `reduce` / `reduce_into`).
* `Reduced v` — the normal form `reduce` produces: no foreign-key node, blocs are flat, have at
                least two items, contain no empty string literal, no `Default`/`Subkeys` item and no
                two adjacent literals.
-/
namespace I18nVerif.Reduce
open I18nVerif

mutual
def Clean : PV → Bool
  | .lit _ => true
  | .var _ _ => true
  | .dflt => true
  | .fk (.set inner) => Clean inner
  | .fk (.notSet _ _) => false
  | .ranges _ _ bs => CleanB bs
  | .comp _ inner => Clean inner
  | .bloc items => CleanL items
  | .subkeys none => false
  | .subkeys (some (.mk _ _ keys _ _)) => CleanK keys
  | .plurals _ _ other forms => Clean other && CleanF forms
def CleanL : List PV → Bool
  | [] => true
  | x :: xs => Clean x && CleanL xs
def CleanB : List (Range × PV) → Bool
  | [] => true
  | (_, v) :: rest => Clean v && CleanB rest
def CleanF : List (Form × PV) → Bool
  | [] => true
  | (_, v) :: rest => Clean v && CleanF rest
def CleanK : List (Str × PV) → Bool
  | [] => true
  | (_, v) :: rest => Clean v && CleanK rest
end

/-- what may stand as an item of a reduced bloc -/
def itemOk : PV → Bool
  | .bloc _ => false
  | .fk _ => false
  | .dflt => false
  | .subkeys _ => false
  | .lit l => !l.isEmptyStr
  | _ => true

def isLit : PV → Bool
  | .lit _ => true
  | _ => false

/-- no two adjacent literals -/
def noAdjLit : List PV → Bool
  | [] => true
  | [_] => true
  | x :: y :: rest => !(isLit x && isLit y) && noAdjLit (y :: rest)

mutual
def Reduced : PV → Bool
  | .lit _ => true
  | .var _ _ => true
  | .dflt => true
  | .fk _ => false
  | .ranges _ _ bs => ReducedB bs
  | .comp _ inner => Reduced inner
  | .bloc items => decide (2 ≤ items.length) && items.all itemOk && noAdjLit items && ReducedL items
  | .subkeys none => false
  | .subkeys (some (.mk _ _ keys _ _)) => ReducedK keys
  | .plurals _ _ other forms => Reduced other && ReducedF forms
def ReducedL : List PV → Bool
  | [] => true
  | x :: xs => Reduced x && ReducedL xs
def ReducedB : List (Range × PV) → Bool
  | [] => true
  | (_, v) :: rest => Reduced v && ReducedB rest
def ReducedF : List (Form × PV) → Bool
  | [] => true
  | (_, v) :: rest => Reduced v && ReducedF rest
def ReducedK : List (Str × PV) → Bool
  | [] => true
  | (_, v) :: rest => Reduced v && ReducedK rest
end

end I18nVerif.Reduce
