import I18nVerif.Model.Pipeline
import I18nVerif.Spec.Diagnostics
import I18nVerif.Spec.BkiPath
import I18nVerif.Spec.Occ
/-!
# Spec for C07 / C08 on the whole pipeline

Everything here is computed from the **resolved world** (`Pipeline.resolved`: the files as decoded,
plurals merged, foreign keys resolved) and the configuration — never from what `check_locales`
builds.

* `keyTree ks` — the key tree of a locale with key map `ks`: every value reduced (as the code looks
  at it), then the values forgotten: a group stays a group of its keys, anything else is a leaf.
  It is written as a builder-key tree (`BKI`) with dummy contents so that the diagnostics
  specification of C07 (`Spec.Diagnostics.checkW`, which only looks at key names and at
  group-or-leaf) can be applied to it.
* `nsW` / `worldW` — the diagnostics of one namespace / of all namespaces in configuration order.
* `MismatchAt`, `NsMismatch` — a group in one locale where the default locale has a value, or the
  other way round.
* `CountConflictAt`, `NsCountConflict` — two count occurrences of one variable, of different kind,
  in the values some locales hold for one accessible key.
-/
namespace I18nVerif.PipeDiag
open I18nVerif Check Spec.Diagnostics

mutual
/-- a (reduced) value as a node of the key tree: a group keeps its keys, anything else is a leaf -/
def skelPV : PV → LV
  | .subkeys (some (.mk _ _ keys _ _)) => .subkeys [] (skelK keys)
  | .subkeys none => .value (.lit .string) ⟨[], []⟩
  | .lit _ => .value (.lit .string) ⟨[], []⟩
  | .var _ _ => .value (.lit .string) ⟨[], []⟩
  | .dflt => .value (.lit .string) ⟨[], []⟩
  | .fk _ => .value (.lit .string) ⟨[], []⟩
  | .ranges _ _ _ => .value (.lit .string) ⟨[], []⟩
  | .comp _ _ => .value (.lit .string) ⟨[], []⟩
  | .bloc _ => .value (.lit .string) ⟨[], []⟩
  | .plurals _ _ _ _ => .value (.lit .string) ⟨[], []⟩
def skelK : List (Str × PV) → BKI
  | [] => []
  | (k, v) :: rest => (k, skelPV v) :: skelK rest
end

/-- the key tree of a locale: reduce every value, keep key names (in order) and group-or-leaf -/
def keyTree (ks : List (Str × PV)) : Option BKI :=
  match Reduce.reduceKeys ks with
  | .ok rk => some (skelK rk)
  | _ => none

/-- **the diagnostics of one namespace**: every non-default locale, in configuration order, against
    the key tree of the default locale (the first locale): `Spec.Diagnostics.checkW` -/
def nsW (suppress : Bool) (inherits : List (Str × Str)) (ns : NS) : List Warning :=
  match ns.locales with
  | [] => []
  | dl :: others =>
    match keyTree dl.keys with
    | some t => checkW suppress inherits ⟨ns.key, []⟩ others t
    | none => []

/-- **the diagnostics of the whole check**: namespace after namespace, in configuration order -/
def worldW (suppress : Bool) (inherits : List (Str × Str)) (nss : List NS) : List Warning :=
  nss.flatMap (nsW suppress inherits)

/-! ### key paths -/

/-- the keys of the group a locale with key map `ks` has at key path `q` (`[]`: the locale itself) -/
def groupAt (ks : List (Str × PV)) : List Str → Option (List (Str × PV))
  | [] => some ks
  | k :: rest =>
    match valueAt ks (k :: rest) with
    | some (.subkeys (some l)) => some l.keys
    | _ => none

/-- at key path `p` the default locale (keys `dks`) has a group where the locale (keys `lks`) has a
    plain value other than `null`, or a plain value where the locale has a group -/
def MismatchAt (dks lks : List (Str × PV)) (p : List Str) : Prop :=
  (∃ g v, valueAt dks p = some (.subkeys (some g)) ∧ valueAt lks p = some v ∧ isLeafVal v = true ∧ v ≠ .dflt) ∨
  (∃ v g, valueAt dks p = some v ∧ isLeafVal v = true ∧ valueAt lks p = some (.subkeys g))

/-- some non-default locale of the namespace mismatches the default locale somewhere -/
def NsMismatch (ns : NS) : Prop :=
  ∃ dl others, ns.locales = dl :: others ∧ ∃ l ∈ others, ∃ p, MismatchAt dl.keys l.keys p

/-- the default locale holds an explicit `null` at an accessible place -/
def NsDefaultNull (ns : NS) : Prop :=
  ∃ dl others, ns.locales = dl :: others ∧ ∃ p, valueAt dl.keys p = some .dflt

/-- at the accessible key `p` (a plain value of the default locale) two count occurrences — in the
    values of two locales, or at two places of one value — give variable `n` the kinds `t1 ≠ t2` -/
def CountConflictAt (locs : List Loc) (p : List Str) (n : Str) (t1 t2 : CountTy) : Prop :=
  ∃ l1 ∈ locs, ∃ l2 ∈ locs, ∃ v1 v2, valueAt l1.keys p = some v1 ∧ valueAt l2.keys p = some v2 ∧
    (n, t1) ∈ Occ.occCounts v1 ∧ (n, t2) ∈ Occ.occCounts v2 ∧ t1 ≠ t2

def NsCountConflict (ns : NS) : Prop :=
  ∃ dl others, ns.locales = dl :: others ∧ ∃ p, leafValAt dl.keys p = true ∧
    ∃ n t1 t2, CountConflictAt ns.locales p n t1 t2

/-- the value is a plain literal of type `t`, or an explicit default (`null`) -/
def LitOrNull (t : LitTy) (v : PV) : Prop := v = .dflt ∨ ∃ l, v = .lit l ∧ l.ty = t

/-- **what an error of `check_locales` on a namespace witnesses**, per error kind -/
def NsErr (ns : NS) (e : String) : Prop :=
  (e = "SubKeyMissmatch" ∧ NsMismatch ns) ∨
  (e = "ExplicitDefaultInDefault" ∧ NsDefaultNull ns) ∨
  (e = "RangeTypeMissmatch" ∧ ∃ dl others, ns.locales = dl :: others ∧ ∃ p, leafValAt dl.keys p = true ∧
      ∃ n t t', CountConflictAt ns.locales p n (.range t) (.range t')) ∨
  (e = "RangeAndPluralsMix" ∧ ∃ dl others, ns.locales = dl :: others ∧ ∃ p, leafValAt dl.keys p = true ∧
      ∃ n t, CountConflictAt ns.locales p n .plural (.range t))

/-- **the specification of C08 for one accessible key** `p`: the recorded interpolation keys `K` are
    exactly the union, over the locales `locs` that hold a value at `p`, of what that value uses —
    components; variable names (occurring as variable or as count); for each variable the formatters it
    occurs with; and its count kind (a range's numeric type, or "plural") -/
structure SigIsUnion (K : IKeys) (locs : List Loc) (p : List Str) : Prop where
  comps : ∀ c, c ∈ K.comps ↔ ∃ l ∈ locs, ∃ v, valueAt l.keys p = some v ∧ c ∈ Occ.occComps v
  vars : ∀ n, Occ.hasVar K n = true ↔ ∃ l ∈ locs, ∃ v, valueAt l.keys p = some v ∧
    (n ∈ (Occ.occVars v).map (·.1) ∨ n ∈ (Occ.occCounts v).map (·.1))
  fmts : ∀ n f, f ∈ Occ.fmtsOf K n ↔ ∃ l ∈ locs, ∃ v, valueAt l.keys p = some v ∧ (n, f) ∈ Occ.occVars v
  counts : ∀ n ty, Occ.countOf K n = some ty ↔
    ∃ l ∈ locs, ∃ v, valueAt l.keys p = some v ∧ (n, ty) ∈ Occ.occCounts v

/-! ### the order in which `check_locales` visits the places where it can fail

Only used to *state* the unconditional forms of the error theorems
(`C07_pipeline_mismatch_full_statement`, `C08_pipeline_count_conflict_full_statement`), which are
not proved. -/

/-- a place: namespace index, locale index (0 = the default locale), key path -/
structure Pos where
  ns : Nat
  loc : Nat
  path : List Str

/-- key paths in visiting order: depth first, a node before what is below it, siblings in the
    order of the key maps (`BTreeMap` order) -/
def pathBefore (p q : List Str) : Bool := Pipeline.listLt AMap.strLt p q

/-- namespaces in configuration order; within a namespace first the whole default locale
    (`make_builder_keys`), then the other locales in configuration order -/
def Pos.before (a b : Pos) : Prop :=
  a.ns < b.ns ∨ (a.ns = b.ns ∧ (a.loc < b.loc ∨ (a.loc = b.loc ∧ pathBefore a.path b.path = true)))

/-- the locale at the place mismatches the default locale there -/
def MismatchCause (nss : List NS) (pos : Pos) : Prop :=
  ∃ ns dl others l, nss[pos.ns]? = some ns ∧ ns.locales = dl :: others ∧ 0 < pos.loc ∧
    ns.locales[pos.loc]? = some l ∧ MismatchAt dl.keys l.keys pos.path

/-- the value of the locale at the place (an accessible key) takes part in a count conflict with the
    locales merged before it, or with itself -/
def ConflictCause (nss : List NS) (pos : Pos) : Prop :=
  ∃ ns dl others, nss[pos.ns]? = some ns ∧ ns.locales = dl :: others ∧ leafValAt dl.keys pos.path = true ∧
    ∃ n t1 t2, CountConflictAt (ns.locales.take (pos.loc + 1)) pos.path n t1 t2

/-- the default locale holds `null` at the place -/
def NullCause (nss : List NS) (pos : Pos) : Prop :=
  ∃ ns dl others, nss[pos.ns]? = some ns ∧ ns.locales = dl :: others ∧ pos.loc = 0 ∧
    valueAt dl.keys pos.path = some .dflt

/-- some cause of failure of the check is present at the place -/
def CauseAt (nss : List NS) (pos : Pos) : Prop :=
  MismatchCause nss pos ∨ ConflictCause nss pos ∨ NullCause nss pos

/-! ### the diagnostics of one locale, as a set, read off the two locales directly

`DiagAt top implicit suppress path lks dks w`: `w` is a diagnostic of comparing the locale `top` with
key map `lks` against the default locale's key map `dks`, both located at `path`:
* a key of the default locale absent from the locale (`missing`, only when `implicit`);
* a key of the locale absent from the default locale (`surplus`, unless `suppress`);
* or a diagnostic one level down, below a key that is a group in both (values as the code looks at
  them: after `reduce`).
Nothing else — in particular nothing below a group that is absent or `null` in the locale. -/
inductive DiagAt (top : Str) (implicit suppress : Bool) : KeyPath → List (Str × PV) → List (Str × PV) → Warning → Prop
  | missing {path : KeyPath} {lks dks : List (Str × PV)} {k : Str} (hd : k ∈ dks.map Prod.fst)
      (hl : k ∉ lks.map Prod.fst) (hi : implicit = true) :
      DiagAt top implicit suppress path lks dks (.missing top (child path k))
  | surplus {path : KeyPath} {lks dks : List (Str × PV)} {k : Str} (hl : k ∈ lks.map Prod.fst)
      (hd : k ∉ dks.map Prod.fst) (hs : suppress = false) :
      DiagAt top implicit suppress path lks dks (.surplus top (child path k))
  | inGroup {path : KeyPath} {lks dks : List (Str × PV)} {k : Str} {dv v : PV} {d1 l1 : Loc} {w : Warning}
      (hdv : AMap.get? k dks = some dv) (hdr : Reduce.reduce dv = .ok (.subkeys (some d1)))
      (hlv : AMap.get? k lks = some v) (hlr : Reduce.reduce v = .ok (.subkeys (some l1)))
      (h : DiagAt top implicit suppress (child path k) l1.keys d1.keys w) :
      DiagAt top implicit suppress path lks dks w

/-- `w` is a key diagnostic of the namespace: of some non-default locale against the default locale;
    `missing` only for a locale without `inherits` entry in a build without `suppress_key_warnings` -/
def NsDiag (suppress : Bool) (inherits : List (Str × Str)) (ns : NS) (w : Warning) : Prop :=
  ∃ dl others, ns.locales = dl :: others ∧ ∃ l ∈ others,
    DiagAt l.name (!suppress && (AMap.get? l.name inherits).isNone) suppress ⟨ns.key, []⟩ l.keys dl.keys w

end I18nVerif.PipeDiag
