import I18nVerif.Model.Escape
/-!
Specification side of C11 (JSON export) and C17 (embedded translations): *readers*, written from
the grammars (RFC 8259 for JSON; ECMA-262 `StringLiteral` / `ArrayLiteral` / `ObjectLiteral` for
the embedded script), not from the encoders.  Only the data type `TUnit` is shared with the model.

`parseValue` reads the JSON value grammar: insignificant white space, `null`, strings with every
JSON escape (`\" \\ \/ \b \f \n \r \t \uXXXX`, UTF-16 surrogate pairs combined, lone surrogates
rejected, raw characters below U+0020 rejected), arrays, objects.  Numbers and `true`/`false` are
not needed by either format and are rejected.  Every text this reader accepts is accepted with the
same value by any conforming JSON reader, and — JSON being a subset of ECMAScript expressions — by
a JavaScript engine.  With `js := true` the reader additionally refuses raw U+2028 / U+2029 inside a
string literal (line terminators in ECMAScript before ES2019), so that what it accepts is a valid
expression for every engine.

Recursion is on an explicit fuel (the callers pass the length of the input, which always suffices),
so that everything here evaluates by kernel reduction (`decide`).
-/
namespace I18nVerif.Escape.Spec
open I18nVerif.Escape

inductive JVal where
  | null
  | str (s : List Char)
  | arr (l : List JVal)
  | obj (l : List (List Char × JVal))
deriving Repr, Inhabited

/-- what a string body consists of before UTF-16 decoding: characters, and `\uXXXX` code units -/
inductive Item where
  | raw (c : Char)
  | unit (n : Nat)
deriving Repr, DecidableEq

def isWs (c : Char) : Bool := c = ' ' || c = '\t' || c = '\n' || c = '\r'

def skipWs : List Char → List Char
  | [] => []
  | c :: cs => if isWs c then skipWs cs else c :: cs

def hexVal? (c : Char) : Option Nat :=
  let n := c.toNat
  if 48 ≤ n ∧ n ≤ 57 then some (n - 48)
  else if 65 ≤ n ∧ n ≤ 70 then some (n - 55)
  else if 97 ≤ n ∧ n ≤ 102 then some (n - 87)
  else none

def hex4? (a b c d : Char) : Option Nat :=
  match hexVal? a, hexVal? b, hexVal? c, hexVal? d with
  | some x, some y, some z, some w => some (((x * 16 + y) * 16 + z) * 16 + w)
  | _, _, _, _ => none

/-- the single-character escapes of JSON (all of them are escapes of ECMAScript too) -/
def simpleEscape? (e : Char) : Option Char :=
  if e = '"' then some '"'
  else if e = '\\' then some '\\'
  else if e = '/' then some '/'
  else if e = 'b' then some '\x08'
  else if e = 'f' then some '\x0c'
  else if e = 'n' then some '\n'
  else if e = 'r' then some '\r'
  else if e = 't' then some '\t'
  else none

/-- body of a string literal up to and including the closing quote; the rest of the input is returned -/
def scanBody (js : Bool) : List Char → Option (List Item × List Char)
  | [] => none
  | c :: rest =>
    if c = '"' then some ([], rest)
    else if c = '\\' then
      match rest with
      | [] => none
      | e :: rest1 =>
        if e = 'u' then
          match rest1 with
          | a :: b :: c' :: d :: rest2 =>
            match hex4? a b c' d, scanBody js rest2 with
            | some n, some (is, r) => some (Item.unit n :: is, r)
            | _, _ => none
          | _ => none
        else
          match simpleEscape? e, scanBody js rest1 with
          | some ch, some (is, r) => some (Item.raw ch :: is, r)
          | _, _ => none
    else if c.toNat < 0x20 then none
    else if js && (c = '\u2028' || c = '\u2029') then none
    else
      match scanBody js rest with
      | some (is, r) => some (Item.raw c :: is, r)
      | none => none

def isHighSurrogate (n : Nat) : Bool := 0xD800 ≤ n && n ≤ 0xDBFF
def isLowSurrogate (n : Nat) : Bool := 0xDC00 ≤ n && n ≤ 0xDFFF

/-- UTF-16 decoding of the escapes: a high surrogate must be followed by an escaped low one -/
def combine : List Item → Option (List Char)
  | [] => some []
  | Item.raw c :: r => (combine r).map (c :: ·)
  | Item.unit h :: r =>
    if isHighSurrogate h then
      match r with
      | Item.unit l :: r' =>
        if isLowSurrogate l then
          (combine r').map (Char.ofNat (0x10000 + (h - 0xD800) * 0x400 + (l - 0xDC00)) :: ·)
        else none
      | _ => none
    else if isLowSurrogate h then none
    else (combine r).map (Char.ofNat h :: ·)

/-- a string literal after its opening quote -/
def parseStringTail (js : Bool) (s : List Char) : Option (List Char × List Char) :=
  match scanBody js s with
  | some (is, r) => (combine is).map (·, r)
  | none => none

mutual
/-- `value`, preceded by white space -/
def parseValue (js : Bool) : Nat → List Char → Option (JVal × List Char)
  | 0, _ => none
  | f + 1, s =>
    match skipWs s with
    | '"' :: r => (parseStringTail js r).map (fun (x, r') => (JVal.str x, r'))
    | 'n' :: 'u' :: 'l' :: 'l' :: r => some (JVal.null, r)
    | '[' :: r =>
      match skipWs r with
      | ']' :: r' => some (JVal.arr [], r')
      | _ =>
        match parseValue js f r with
        | some (v, r1) => parseArrRest js f [v] r1
        | none => none
    | '{' :: r =>
      match skipWs r with
      | '}' :: r' => some (JVal.obj [], r')
      | _ =>
        match parseMember js f r with
        | some (m, r1) => parseObjRest js f [m] r1
        | none => none
    | _ => none
/-- after a value inside `[ ]`: `, value` … or `]`; `acc` holds the values read so far, reversed -/
def parseArrRest (js : Bool) : Nat → List JVal → List Char → Option (JVal × List Char)
  | 0, _, _ => none
  | f + 1, acc, s =>
    match skipWs s with
    | ']' :: r => some (JVal.arr acc.reverse, r)
    | ',' :: r =>
      match parseValue js f r with
      | some (v, r1) => parseArrRest js f (v :: acc) r1
      | none => none
    | _ => none
/-- `string : value`, preceded by white space -/
def parseMember (js : Bool) : Nat → List Char → Option ((List Char × JVal) × List Char)
  | 0, _ => none
  | f + 1, s =>
    match skipWs s with
    | '"' :: r =>
      match parseStringTail js r with
      | some (k, r1) =>
        match skipWs r1 with
        | ':' :: r2 =>
          match parseValue js f r2 with
          | some (v, r3) => some ((k, v), r3)
          | none => none
        | _ => none
      | none => none
    | _ => none
/-- after a member inside `{ }`: `, member` … or `}` -/
def parseObjRest (js : Bool) : Nat → List (List Char × JVal) → List Char → Option (JVal × List Char)
  | 0, _, _ => none
  | f + 1, acc, s =>
    match skipWs s with
    | '}' :: r => some (JVal.obj acc.reverse, r)
    | ',' :: r =>
      match parseMember js f r with
      | some (m, r1) => parseObjRest js f (m :: acc) r1
      | none => none
    | _ => none
end

/-! ### Typed views of a decoded value -/

def asStr : JVal → Option (List Char)
  | JVal.str s => some s
  | _ => none

def allStrs : List JVal → Option (List (List Char))
  | [] => some []
  | v :: vs =>
    match asStr v, allStrs vs with
    | some s, some ss => some (s :: ss)
    | _, _ => none

def asStrList : JVal → Option (List (List Char))
  | JVal.arr l => allStrs l
  | _ => none

def lookupKey (k : List Char) : List (List Char × JVal) → Option JVal
  | [] => none
  | (k', v) :: m => if k' = k then some v else lookupKey k m

/-- the property names `locale`, `id`, `values` -/
def kLocale : List Char := ['l', 'o', 'c', 'a', 'l', 'e']
def kId : List Char := ['i', 'd']
def kValues : List Char := ['v', 'a', 'l', 'u', 'e', 's']
/-- the global `window.__LEPTOS_I18N_TRANSLATIONS` -/
def globalRef : List Char := ['w', 'i', 'n', 'd', 'o', 'w', '.', '_', '_', 'L', 'E', 'P', 'T', 'O', 'S', '_', 'I', '1', '8', 'N', '_', 'T', 'R', 'A', 'N', 'S', 'L', 'A', 'T', 'I', 'O', 'N', 'S']
/-- `</script` and `<!--` -/
def patEndScript : List Char := ['<', '/', 's', 'c', 'r', 'i', 'p', 't']
def patComment : List Char := ['<', '!', '-', '-']

/-- `{locale: string, id: string | null, values: string[]}`: exactly these three properties, each
    once, in any order (the shape `init_translations` deserialises) -/
def asUnit : JVal → Option TUnit
  | JVal.obj m =>
    if m.length = 3 then
      match lookupKey kLocale m, lookupKey kId m, lookupKey kValues m with
      | some (JVal.str l), some (JVal.str i), some vs => (asStrList vs).map (fun v => ⟨l, some i, v⟩)
      | some (JVal.str l), some JVal.null, some vs => (asStrList vs).map (fun v => ⟨l, none, v⟩)
      | _, _, _ => none
    else none
  | _ => none

def allUnits : List JVal → Option (List TUnit)
  | [] => some []
  | v :: vs =>
    match asUnit v, allUnits vs with
    | some u, some us => some (u :: us)
    | _, _ => none

def asUnitList : JVal → Option (List TUnit)
  | JVal.arr l => allUnits l
  | _ => none

def stripPrefix : List Char → List Char → Option (List Char)
  | [], s => some s
  | _ :: _, [] => none
  | p :: ps, c :: cs => if p = c then stripPrefix ps cs else none

/-! ### The two readers -/

/-- **JSON text → list of strings** (C11): the whole input is one JSON array of strings -/
def jsonDecodeStrings (s : List Char) : Option (List (List Char)) :=
  match parseValue false (s.length + 1) s with
  | some (v, rest) => if skipWs rest = [] then asStrList v else none
  | none => none

/-- **Embedded script → translation units** (C17): the script is the single statement
    `window.__LEPTOS_I18N_TRANSLATIONS = <array literal>;` and the value assigned is an array of
    `{locale, id, values}` objects.  (The hydrating client reads that global with `Reflect::get`
    and deserialises it with `serde_wasm_bindgen`.) -/
def jsDecodeEmbedded (s : List Char) : Option (List TUnit) :=
  match stripPrefix globalRef s with
  | none => none
  | some r0 =>
    match skipWs r0 with
    | '=' :: r1 =>
      match parseValue true (s.length + 1) r1 with
      | some (v, rest) =>
        match skipWs rest with
        | ';' :: r2 => if skipWs r2 = [] then asUnitList v else none
        | _ => none
      | none => none
    | _ => none

/-! ### Embedding in HTML -/

/-- `c` is the (lower-case or non-letter) pattern character `p`, or its ASCII upper-case form -/
def eqCI (p c : Char) : Bool := c = p || (65 ≤ c.toNat && c.toNat ≤ 90 && c.toNat + 32 = p.toNat)

def startsWithCI : List Char → List Char → Bool
  | [], _ => true
  | _ :: _, [] => false
  | p :: ps, c :: cs => eqCI p c && startsWithCI ps cs

/-- does `pat` (lower case) occur in `s`, ASCII case-insensitively? -/
def hasInfixCI (pat : List Char) : List Char → Bool
  | [] => pat.isEmpty
  | c :: cs => startsWithCI pat (c :: cs) || hasInfixCI pat cs

/-- HTML: the text of a `<script>` element ends at the first `</script` (any case), and `<!--`
    switches the tokenizer to the "script data escaped" states; a script text containing neither is
    passed to the JavaScript engine exactly as written. -/
def scriptSafe (s : List Char) : Bool :=
  !hasInfixCI patEndScript s && !hasInfixCI patComment s

/-! ### C17 as one executable predicate -/

def subsetOf (a b : List TUnit) : Bool := a.all (fun u => b.contains u)

def keysDistinct : List TUnit → Bool
  | [] => true
  | u :: us => !(us.any (fun v => v.sameKey u)) && keysDistinct us

/-- The script `out` is what C17 asks for, for a render that used the units `touched`
    (history order, repetitions allowed): it survives HTML embedding, it is a valid script, its value
    lists no unit twice, lists every touched unit with exactly its strings in order, and nothing else. -/
def embedOk (out : List Char) (touched : List TUnit) : Bool :=
  scriptSafe out &&
  match jsDecodeEmbedded out with
  | none => false
  | some us => keysDistinct us && subsetOf us touched && subsetOf touched us

/-- The file content `out` is what C11 asks for, for the string table `strs` -/
def jsonOk (out : List Char) (strs : List (List Char)) : Bool :=
  jsonDecodeStrings out == some strs

end I18nVerif.Escape.Spec
