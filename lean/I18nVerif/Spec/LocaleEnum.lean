import I18nVerif.Model.Str
/-!
Specification of C13, written without reference to how the generated code works: predicates that
judge an *answer* (of the implementation or of the model) against the configured names.
`cfgDefault` / `cfgLocales` are the `default` and `locales` entries of the configuration as written;
`names` is the list of configured names in the order of the enum.
-/
namespace I18nVerif.LocaleEnum.Spec
open I18nVerif Str

/-- "the string `s` is the configured name `n`" — modulo surrounding white space (DESIGN O2) -/
def isName (s n : Str) : Bool := trim s == n

/-- an answer of `from_str` / the cookie codec: `some i` only for the locale whose name `s` is,
    `none` only when `s` is no configured name -/
def fromStrOk (names : List Str) (s : Str) (r : Option Nat) : Bool :=
  match r with
  | some i => (names[i]?).any (isName s)
  | none => !names.any (isName s)

/-- an answer of serde: the locale whose name `s` is; the default (index 0) when `s` is no name -/
def serdeOk (names : List Str) (s : Str) (r : Nat) : Bool :=
  if names.any (isName s) then (names[r]?).any (isName s) else r == 0

/-- every locale's string form parses back to it, through every string representation -/
def roundTripOk (names : List Str) (asStr : Nat → Option Str) (parse : Str → Option Nat) : Bool :=
  (List.range names.length).all (fun i =>
    match asStr i with
    | some n => names[i]? == some n && parse n == some i
    | none => false)

/-- `get_all` (as names): every configured locale exactly once, the default first -/
def getAllOk (cfgDefault : Str) (cfgLocales : List Str) (all : List Str) : Bool :=
  all.head? == some cfgDefault && all.all (fun n => all.count n == 1) &&
  all.isPerm (if cfgLocales.contains cfgDefault then cfgLocales else cfgDefault :: cfgLocales)

end I18nVerif.LocaleEnum.Spec
