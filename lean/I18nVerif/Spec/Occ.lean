import I18nVerif.Model.Check
/-
C08 — what a value *uses*: the variables (with the formatter of each occurrence), the components
and the count variables (with the kind of count) that occur in a parsed value, at any depth: inside
components, bloc items, range branches, plural forms and resolved foreign keys.

This is the specification side of "a key's required arguments": it does not look at how
`get_keys_inner` accumulates them (no accumulator, no errors), it only reads the value.
Lists are in reading order; the theorems use them as sets.
-/
namespace I18nVerif.Occ
open I18nVerif I18nVerif.Check

mutual
/-- every `{{ key, fmt }}` occurrence -/
def occVars : PV → List (Str × Fmt)
  | .var k f => [(k, f)]
  | .comp _ inner => occVars inner
  | .bloc items => occVarsL items
  | .ranges _ _ bs => occVarsB bs
  | .plurals _ _ other forms => occVarsF forms ++ occVars other
  | .fk (.set inner) => occVars inner
  | .fk (.notSet _ _) => []
  | .lit _ => []
  | .dflt => []
  | .subkeys _ => []
def occVarsL : List PV → List (Str × Fmt)
  | [] => []
  | x :: xs => occVars x ++ occVarsL xs
def occVarsB : List (Range × PV) → List (Str × Fmt)
  | [] => []
  | (_, x) :: xs => occVars x ++ occVarsB xs
def occVarsF : List (Form × PV) → List (Str × Fmt)
  | [] => []
  | (_, x) :: xs => occVars x ++ occVarsF xs
end

mutual
/-- every `<key>…</key>` occurrence -/
def occComps : PV → List Str
  | .var _ _ => []
  | .comp k inner => k :: occComps inner
  | .bloc items => occCompsL items
  | .ranges _ _ bs => occCompsB bs
  | .plurals _ _ other forms => occCompsF forms ++ occComps other
  | .fk (.set inner) => occComps inner
  | .fk (.notSet _ _) => []
  | .lit _ => []
  | .dflt => []
  | .subkeys _ => []
def occCompsL : List PV → List Str
  | [] => []
  | x :: xs => occComps x ++ occCompsL xs
def occCompsB : List (Range × PV) → List Str
  | [] => []
  | (_, x) :: xs => occComps x ++ occCompsB xs
def occCompsF : List (Form × PV) → List Str
  | [] => []
  | (_, x) :: xs => occComps x ++ occCompsF xs
end

mutual
/-- every count variable: a range contributes its count key typed by the range's numeric type,
    a plural contributes its count key as a plural count -/
def occCounts : PV → List (Str × CountTy)
  | .var _ _ => []
  | .comp _ inner => occCounts inner
  | .bloc items => occCountsL items
  | .ranges ck t bs => occCountsB bs ++ [(ck, .range t)]
  | .plurals _ ck other forms => (ck, .plural) :: (occCountsF forms ++ occCounts other)
  | .fk (.set inner) => occCounts inner
  | .fk (.notSet _ _) => []
  | .lit _ => []
  | .dflt => []
  | .subkeys _ => []
def occCountsL : List PV → List (Str × CountTy)
  | [] => []
  | x :: xs => occCounts x ++ occCountsL xs
def occCountsB : List (Range × PV) → List (Str × CountTy)
  | [] => []
  | (_, x) :: xs => occCounts x ++ occCountsB xs
def occCountsF : List (Form × PV) → List (Str × CountTy)
  | [] => []
  | (_, x) :: xs => occCounts x ++ occCountsF xs
end

/-- the value uses nothing at all: no variable, no component, no count -/
def noOcc (v : PV) : Bool := (occVars v).isEmpty && (occComps v).isEmpty && (occCounts v).isEmpty

mutual
/-- no unresolved foreign key is left anywhere in the value (the state after `resolve_foreign_keys`) -/
def resolved : PV → Bool
  | .fk (.notSet _ _) => false
  | .fk (.set inner) => resolved inner
  | .comp _ inner => resolved inner
  | .bloc items => resolvedL items
  | .ranges _ _ bs => resolvedB bs
  | .plurals _ _ other forms => resolvedF forms && resolved other
  | .var _ _ => true
  | .lit _ => true
  | .dflt => true
  | .subkeys _ => true
def resolvedL : List PV → Bool
  | [] => true
  | x :: xs => resolved x && resolvedL xs
def resolvedB : List (Range × PV) → Bool
  | [] => true
  | (_, x) :: xs => resolved x && resolvedB xs
def resolvedF : List (Form × PV) → Bool
  | [] => true
  | (_, x) :: xs => resolved x && resolvedF xs
end

mutual
/-- nesting depth of a value (bounds the recursion depth of `get_keys_inner`) -/
def depth : PV → Nat
  | .fk (.set inner) => depth inner + 1
  | .fk (.notSet _ _) => 0
  | .comp _ inner => depth inner + 1
  | .bloc items => depthL items + 1
  | .ranges _ _ bs => depthB bs + 1
  | .plurals _ _ other forms => max (depthF forms) (depth other) + 1
  | .var _ _ => 0
  | .lit _ => 0
  | .dflt => 0
  | .subkeys _ => 0
def depthL : List PV → Nat
  | [] => 0
  | x :: xs => max (depth x) (depthL xs)
def depthB : List (Range × PV) → Nat
  | [] => 0
  | (_, x) :: xs => max (depth x) (depthB xs)
def depthF : List (Form × PV) → Nat
  | [] => 0
  | (_, x) :: xs => max (depth x) (depthF xs)
end

/-! ### Observations on the accumulated signature of a key (`InterpolationKeys`) -/

/-- the record of a variable (`VarInfo::default()` when absent) -/
def info (K : IKeys) (n : Str) : VarInfo := (AMap.get? n K.vars).getD {}
def hasVar (K : IKeys) (n : Str) : Bool := (AMap.get? n K.vars).isSome
def fmtsOf (K : IKeys) (n : Str) : List Fmt := (info K n).fmts
def countOf (K : IKeys) (n : Str) : Option CountTy := (info K n).count

/-- **the specification of C08 for one value**: `K'` is `K` extended by exactly the occurrences
`vs` (variables with formatter), `cs` (components), `ns` (count variables) -/
structure Extends (K K' : IKeys) (vs : List (Str × Fmt)) (cs : List Str) (ns : List (Str × CountTy)) : Prop where
  /-- components: old ∪ occurring -/
  comps : ∀ c, c ∈ K'.comps ↔ c ∈ K.comps ∨ c ∈ cs
  /-- variable names: old ∪ names of variable occurrences ∪ count keys -/
  dom : ∀ n, hasVar K' n = true ↔ hasVar K n = true ∨ n ∈ vs.map (·.1) ∨ n ∈ ns.map (·.1)
  /-- formatters of each variable: old ∪ those it occurs with -/
  fmts : ∀ n f, f ∈ fmtsOf K' n ↔ f ∈ fmtsOf K n ∨ (n, f) ∈ vs
  /-- a count occurrence fixes the count kind of its variable -/
  countNew : ∀ n ty, (n, ty) ∈ ns → countOf K' n = some ty
  /-- a variable without count occurrence keeps its count kind -/
  countOld : ∀ n, n ∉ ns.map (·.1) → countOf K' n = countOf K n
  /-- every count occurrence agrees with what was recorded before -/
  agree : ∀ n ty, (n, ty) ∈ ns → countOf K n = none ∨ countOf K n = some ty

/-- the count occurrences `ns` agree with each other and with what `K` already records:
    one kind of count per variable -/
def Consistent (K : IKeys) (ns : List (Str × CountTy)) : Prop :=
  (∀ n ty, (n, ty) ∈ ns → countOf K n = none ∨ countOf K n = some ty) ∧
  (∀ n ty ty', (n, ty) ∈ ns → (n, ty') ∈ ns → ty = ty')

/-- `n` is recorded with count kind `ty`: by an occurrence in `ns` or already in `K` -/
def Recorded (K : IKeys) (ns : List (Str × CountTy)) (n : Str) (ty : CountTy) : Prop :=
  (n, ty) ∈ ns ∨ countOf K n = some ty

/-- a value that is not a plain literal / explicit default / subkeys uses at least one variable,
    component or count (true of every value `reduce` returns: see `Keys.reduce_normal`) -/
def normal : PV → Bool
  | .lit _ => true
  | .dflt => true
  | .subkeys _ => true
  | v => !noOcc v

end I18nVerif.Occ
