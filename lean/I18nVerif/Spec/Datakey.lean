import I18nVerif.Model.Datakey
import I18nVerif.Spec.Occ
/-
C20 — specification side: the signatures (`InterpolationKeys`) of all interpolated keys of the
builder keys, at any subkey depth; what it means for a signature / a value to use an ICU option.
-/
namespace I18nVerif.Datakey.Spec
open I18nVerif I18nVerif.Check I18nVerif.Datakey

mutual
/-- the signature of every `.value (.interpol k) _` leaf below a `LocaleValue`, at any depth -/
def leavesLV : LV → List IKeys
  | .subkeys _ keys => leaves keys
  | .value (.lit _) _ => []
  | .value (.interpol k) _ => [k]
/-- … of builder keys -/
def leaves : List (Str × LV) → List IKeys
  | [] => []
  | (_, lv) :: rest => leavesLV lv ++ leaves rest
end

/-- the record of one variable asks for option `o`: it is a plural count (for `plurals`), or one
    of its formatters belongs to the family of `o` -/
def InfoUses (info : VarInfo) (o : Opt) : Prop :=
  (o = .plurals ∧ info.count = some .plural) ∨ ∃ f ∈ info.fmts, fmtOpt f = some o

/-- some variable of some interpolated key, at any depth, asks for option `o` -/
def KeysUse (b : BKI) (o : Opt) : Prop :=
  ∃ k ∈ leaves b, ∃ p ∈ k.vars, InfoUses p.2 o

/-- a value asks for option `o`: it contains a plural node (for `plurals`), or a variable with a
    formatter of the family of `o` — at any depth (components, range branches, plural forms,
    resolved foreign keys) -/
def ValueUses (v : PV) (o : Opt) : Prop :=
  (o = .plurals ∧ ∃ n, (n, CountTy.plural) ∈ Occ.occCounts v) ∨
  ∃ n f, (n, f) ∈ Occ.occVars v ∧ fmtOpt f = some o

mutual
/-- the values of a locale at any subkey depth -/
def leafValues : PV → List PV
  | .subkeys (some (.mk _ _ keys _ _)) => leafValuesK keys
  | .subkeys none => []
  | .dflt => [.dflt]
  | .fk f => [.fk f]
  | .ranges ck t bs => [.ranges ck t bs]
  | .lit l => [.lit l]
  | .var k f => [.var k f]
  | .comp k i => [.comp k i]
  | .bloc items => [.bloc items]
  | .plurals r ck o fs => [.plurals r ck o fs]
def leafValuesK : List (Str × PV) → List PV
  | [] => []
  | (_, v) :: rest => leafValues v ++ leafValuesK rest
end

end I18nVerif.Datakey.Spec
