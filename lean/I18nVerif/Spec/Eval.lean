import I18nVerif.Model.Value
import I18nVerif.Model.Ranges
/-
Denotation of a `ParsedValue`: the text an accessor produces for it under an environment
(supplied variables, components, counts) — the meaning the generated code gives to a value
(`flatten` / `flatten_string` in `leptos_i18n_macro/src/load_locales/parsed_value.rs`, the range
`match`/`if` chains and the plural `match category_for(count)`).
-/
namespace I18nVerif.Eval
open I18nVerif

structure Env where
  /-- the text shown for variable `key` under formatter `fmt` (ICU formatting is an oracle) -/
  var : Str → Fmt → Str
  /-- component `key` applied to its rendered children -/
  comp : Str → Str → Str
  /-- the number supplied for count variable `key` -/
  count : Str → Dec
  /-- CLDR plural category of a number in the locale being rendered (oracle) -/
  cat : RuleTy → Dec → Form

mutual
def eval (ρ : Env) : PV → Str
  | .lit l => l.display
  | .var k f => ρ.var k f
  | .comp k inner => ρ.comp k (eval ρ inner)
  | .bloc items => evalL ρ items
  | .fk (.set inner) => eval ρ inner
  | .fk (.notSet _ _) => []
  | .dflt => []
  | .subkeys _ => []
  | .ranges ck _ bs => evalBranches ρ (ρ.count ck) bs
  | .plurals rule ck other forms =>
    match evalForm ρ (ρ.cat rule (ρ.count ck)) forms with
    | some s => s
    | none => eval ρ other
def evalL (ρ : Env) : List PV → Str
  | [] => []
  | x :: xs => eval ρ x ++ evalL ρ xs
/-- first branch whose count specification contains the count -/
def evalBranches (ρ : Env) (c : Dec) : List (Range × PV) → Str
  | [] => []
  | (r, v) :: rest => if Ranges.doMatch r c then eval ρ v else evalBranches ρ c rest
def evalForm (ρ : Env) (f : Form) : List (Form × PV) → Option Str
  | [] => none
  | (f', v) :: rest => if f' == f then some (eval ρ v) else evalForm ρ f rest
end

end I18nVerif.Eval
