import I18nVerif.Model.Value
/-
C18 — the *documented* meaning of `{{ var, formatter(arg: value; ...) }}` and of
`t*_format!(.., formatter: name(arg: value; ...))` (docs/book/src/declare/08_formatters.md, rustdoc of the
`t_format*!` macros): which formatter is selected and with which options.

Nothing here refers to how the parser works: the documentation is a table (formatter name → its options, the
values each option accepts, its default), and the selected value of an option is
"the value of the first argument that names the option and carries an accepted value; the default otherwise".
Arguments naming no option of the formatter, and values that are not accepted, have no effect.
-/
namespace I18nVerif.FormatSpec
open I18nVerif

/-- what an option accepts -/
inductive Allowed where
  /-- one of the listed words -/
  | oneOf (vals : List String)
  /-- a currency code: at most three ASCII characters, none of them NUL (`tinystr::TinyAsciiStr<3>`) -/
  | code3
deriving Repr, DecidableEq

structure OptDecl where
  name : String
  allowed : Allowed
  dflt : String
deriving Repr, DecidableEq

def lengths : Allowed := .oneOf ["full", "long", "medium", "short"]

/-- the documentation, as a table -/
def documented : List (String × List OptDecl) := [
  ("number",   [⟨"grouping_strategy", .oneOf ["auto", "never", "always", "min2"], "auto"⟩]),
  ("currency", [⟨"width", .oneOf ["short", "narrow"], "short"⟩, ⟨"currency_code", .code3, "USD"⟩]),
  ("date",     [⟨"date_length", lengths, "medium"⟩]),
  ("time",     [⟨"time_length", lengths, "short"⟩]),
  ("datetime", [⟨"date_length", lengths, "medium"⟩, ⟨"time_length", lengths, "short"⟩]),
  ("list",     [⟨"list_type", .oneOf ["and", "or", "unit"], "unit"⟩,
                ⟨"list_style", .oneOf ["wide", "short", "narrow"], "wide"⟩])]

/-- the six formatter names -/
def names : List Str := documented.map (·.1.toList)

/-- the options of a formatter; `none` = no such formatter -/
def optionsOf (name : Str) : Option (List OptDecl) :=
  (documented.find? (fun e => e.1.toList == name)).map (·.2)

def Allowed.ok : Allowed → Str → Bool
  | .oneOf vals, v => vals.any (fun x => x.toList == v)
  | .code3, v => v.length ≤ 3 && v.all (fun c => c.toNat < 128 && c.toNat != 0)

/-- does the argument `(k, v)` set this option? -/
def OptDecl.setBy (d : OptDecl) (kv : Str × Str) : Bool := kv.1 == d.name.toList && d.allowed.ok kv.2

/-- the value an option takes given the (trimmed) arguments: first argument that sets it, else the default -/
def OptDecl.select (d : OptDecl) (args : List (Str × Str)) : Str :=
  match args.filter d.setBy with
  | kv :: _ => kv.2
  | [] => d.dflt.toList

/-- value of option `opt` of formatter `name` -/
def valueOf (name : Str) (opt : String) (args : List (Str × Str)) : Str :=
  match optionsOf name with
  | none => []
  | some ds =>
    match ds.find? (fun d => d.name == opt) with
    | some d => d.select args
    | none => []

/-! accepted words → the options handed to ICU4X (the word is the lower-case name of the ICU option value) -/
def toGrouping (v : Str) : Grouping :=
  if v = "never".toList then .never else if v = "always".toList then .always
  else if v = "min2".toList then .min2 else .auto
def toDateLen (v : Str) : DateLen :=
  if v = "full".toList then .full else if v = "long".toList then .long
  else if v = "short".toList then .short else .medium
def toTimeLen (v : Str) : TimeLen :=
  if v = "full".toList then .full else if v = "long".toList then .long
  else if v = "medium".toList then .medium else .short
def toListTy (v : Str) : ListTy :=
  if v = "and".toList then .and else if v = "or".toList then .or else .unit
def toListStyle (v : Str) : ListStyle :=
  if v = "short".toList then .short else if v = "narrow".toList then .narrow else .wide
def toCurWidth (v : Str) : CurWidth :=
  if v = "narrow".toList then .narrow else .short

/-- **the reference**: formatter selected by `name(args)`; `args` = the `(option, value)` pairs in source order,
each side trimmed; a formatter written without parentheses has `args = []`. `none` = unknown formatter name. -/
def specFormatter (name : Str) (args : List (Str × Str)) : Option Fmt :=
  let opt := fun o => valueOf name o args
  if name = "number".toList then some (.number (toGrouping (opt "grouping_strategy")))
  else if name = "currency".toList then some (.currency (toCurWidth (opt "width")) (opt "currency_code"))
  else if name = "date".toList then some (.date (toDateLen (opt "date_length")))
  else if name = "time".toList then some (.time (toTimeLen (opt "time_length")))
  else if name = "datetime".toList then some (.dateTime (toDateLen (opt "date_length")) (toTimeLen (opt "time_length")))
  else if name = "list".toList then some (.list (toListTy (opt "list_type")) (toListStyle (opt "list_style")))
  else none

/-! ### Structured source of a formatter clause, with its optional whitespace -/

/-- one `name : value` argument with the whitespace around both sides -/
structure ArgSrc where
  w1 : Str
  key : Str
  w2 : Str
  w3 : Str
  val : Str
  w4 : Str
deriving Repr

/-- `w0 name w1 ( arg ; arg ; ... ) w2`; with `args = none`: `w0 name w1`. `inner` is the whitespace between the
parentheses when there is no argument. -/
structure Src where
  w0 : Str
  name : Str
  w1 : Str
  args : Option (List ArgSrc)
  inner : Str
  w2 : Str
deriving Repr

def ArgSrc.print (a : ArgSrc) : Str := a.w1 ++ a.key ++ a.w2 ++ ':' :: (a.w3 ++ a.val ++ a.w4)

def printArgs (inner : Str) : List ArgSrc → Str
  | [] => inner
  | [a] => a.print
  | a :: b :: rest => a.print ++ ';' :: printArgs inner (b :: rest)

def Src.print (s : Src) : Str :=
  match s.args with
  | none => s.w0 ++ s.name ++ s.w1
  | some as => s.w0 ++ s.name ++ s.w1 ++ '(' :: (printArgs s.inner as ++ ')' :: s.w2)

/-- the same clause without any optional whitespace -/
def Src.strip (s : Src) : Src :=
  { w0 := [], name := s.name, w1 := [], inner := [], w2 := [],
    args := s.args.map (fun as => as.map (fun a => { a with w1 := [], w2 := [], w3 := [], w4 := [] })) }

def Src.pairs (s : Src) : List (Str × Str) :=
  match s.args with
  | none => []
  | some as => as.map (fun a => (a.key, a.val))

def allWs (w : Str) : Bool := w.all Str.isWs

/-- no leading / trailing whitespace -/
def trimmed (x : Str) : Bool := Str.trimStart x == x && Str.trimEnd x == x

def ArgSrc.wf (a : ArgSrc) : Bool :=
  allWs a.w1 && allWs a.w2 && allWs a.w3 && allWs a.w4 && trimmed a.key && trimmed a.val &&
  !a.key.contains ':' && !a.key.contains ';' && !a.val.contains ';'

/-- paddings are whitespace; the name has no `(`, option names no `:` `;`, values no `;`; none of them has
leading or trailing whitespace -/
def Src.wf (s : Src) : Bool :=
  allWs s.w0 && allWs s.w1 && allWs s.inner && allWs s.w2 && trimmed s.name && !s.name.contains '(' &&
  match s.args with
  | none => true
  | some as => as.all ArgSrc.wf

end I18nVerif.FormatSpec
