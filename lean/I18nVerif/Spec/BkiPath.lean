import I18nVerif.Model.Check
/-!
Key paths into the builder-keys tree and into a locale (shared by the full statements of C11 and C20).

* `nodeAt bki p`  — the nested `Subkeys` node of the builder keys at the (non-empty) key path `p`:
                    its recorded locales (one per top-level locale, same order) and its own keys.
* `lvAt bki p`    — the builder key (`LocaleValue`) at key path `p`.
* `valueAt ks p`  — the value a locale with key map `ks` holds at key path `p`, as the code sees
                    it: after `reduce`, descending through groups (`Subkeys`) only.
* `leafValAt ks p` — that value exists and is not a group.
-/
namespace I18nVerif.Check
open I18nVerif

/-- the builder key at a key path -/
def lvAt : BKI → List Str → Option LV
  | _, [] => none
  | b, k :: rest =>
    match AMap.get? k b with
    | none => none
    | some lv =>
      match rest with
      | [] => some lv
      | _ :: _ =>
        match lv with
        | .subkeys _ ks => lvAt ks rest
        | .value _ _ => none

/-- the nested `Subkeys` node at a key path: (locales recorded there, its keys) -/
def nodeAt (b : BKI) (p : List Str) : Option (List Loc × BKI) :=
  match lvAt b p with
  | some (.subkeys ls ks) => some (ls, ks)
  | _ => none

/-- the (reduced) value of a locale with key map `ks` at key path `p` -/
def valueAt : List (Str × PV) → List Str → Option PV
  | _, [] => none
  | ks, k :: rest =>
    match AMap.get? k ks with
    | none => none
    | some v =>
      match Reduce.reduce v with
      | .ok cur =>
        (match rest with
          | [] => some cur
          | _ :: _ =>
            match cur with
            | .subkeys (some l) => valueAt l.keys rest
            | _ => none)
      | _ => none

/-- a value that is not a group -/
def isLeafVal : PV → Bool
  | .subkeys _ => false
  | _ => true

def leafOpt : Option PV → Bool
  | some c => isLeafVal c
  | none => false

/-- the locale with key map `ks` has a plain (non-group) value at key path `p` — for the default
    locale: `p` is an accessible key (a leaf of the builder keys) -/
def leafValAt (ks : List (Str × PV)) (p : List Str) : Bool := leafOpt (valueAt ks p)

end I18nVerif.Check
