import I18nVerif.Model.Check
/-!
Key paths into the builder-keys tree and into a locale (shared by the full statements of C11 and C20).

* `nodeAt bki p`  — the nested `Subkeys` node of the builder keys at the (non-empty) key path `p`:
                    its recorded locales (one per top-level locale, same order) and its own keys.
* `lvAt bki p`    — the builder key (`LocaleValue`) at key path `p`.
* `valueAt ks p`  — the value a locale with key map `ks` holds at key path `p`, as the code sees
                    it: after `reduce`, descending through groups (`Subkeys`) only.
-/
namespace I18nVerif.Check
open I18nVerif

/-- the builder key at a key path -/
def lvAt : BKI → List Str → Option LV
  | _, [] => none
  | b, k :: rest =>
    match AMap.get? k b with
    | none => none
    | some lv =>
      match rest with
      | [] => some lv
      | _ :: _ =>
        match lv with
        | .subkeys _ ks => lvAt ks rest
        | .value _ _ => none

/-- the nested `Subkeys` node at a key path: (locales recorded there, its keys) -/
def nodeAt (b : BKI) (p : List Str) : Option (List Loc × BKI) :=
  match lvAt b p with
  | some (.subkeys ls ks) => some (ls, ks)
  | _ => none

/-- the (reduced) value of a locale with key map `ks` at key path `p` -/
def valueAt : List (Str × PV) → List Str → Option PV
  | _, [] => none
  | ks, k :: rest =>
    match AMap.get? k ks with
    | none => none
    | some v =>
      match Reduce.reduce v with
      | .ok cur =>
        (match rest with
          | [] => some cur
          | _ :: _ =>
            match cur with
            | .subkeys (some l) => valueAt l.keys rest
            | _ => none)
      | _ => none

end I18nVerif.Check
