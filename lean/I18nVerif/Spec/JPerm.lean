import I18nVerif.Model.Pipeline
/-!
# "Same logical content" of translation files (C10)

`JPerm j j'`: the transport trees `j` and `j'` (what serde hands to the visitors, objects as lists of
entries in document order) differ only by the order of the entries of objects — of *any* object, at
*any* depth.  It is the least relation that

* relates equal scalars,
* relates arrays element by element (arrays keep their order),
* relates objects whose entry lists are related by `EPerm JPerm`: the least relation on entry lists that
  is closed under congruence (`cons`: same key, related values), adjacent transposition (`swap`) and
  transitivity.

`JPerm` is an equivalence relation (`JPerm.refl/symm/trans` in `Proofs/PermAll.lean`) and contains every
permutation of the entries of one object (`JPerm.obj_of_perm`).

`InputPerm inp inp'`: two pipeline inputs with the same configuration, oracle and flags whose file lists
hold, position by position, the same `(namespace, locale)` name and `JPerm`-related trees.
-/
namespace I18nVerif
open Str

/-- element-wise relation on arrays (core Lean has no `List.Forall₂`) -/
inductive LRel (R : J → J → Prop) : List J → List J → Prop
  | nil : LRel R [] []
  | cons {x x' : J} {l l' : List J} : R x x' → LRel R l l' → LRel R (x :: l) (x' :: l')

/-- entry lists of two objects, up to the order of the entries and up to `R` on the values -/
inductive EPerm (R : J → J → Prop) : List (Str × J) → List (Str × J) → Prop
  | nil : EPerm R [] []
  | cons (k : Str) {x x' : J} {l l' : List (Str × J)} :
      R x x' → EPerm R l l' → EPerm R ((k, x) :: l) ((k, x') :: l')
  | swap (a b : Str × J) (l : List (Str × J)) : EPerm R (a :: b :: l) (b :: a :: l)
  | trans {l₁ l₂ l₃ : List (Str × J)} : EPerm R l₁ l₂ → EPerm R l₂ l₃ → EPerm R l₁ l₃

/-- **same logical content**: equal up to the order of the entries of every object, at any depth -/
inductive JPerm : J → J → Prop
  | null : JPerm .null .null
  | bool (b : Bool) : JPerm (.bool b) (.bool b)
  | unsigned (n : Nat) : JPerm (.unsigned n) (.unsigned n)
  | signed (i : Int) : JPerm (.signed i) (.signed i)
  | float (d : Dec) : JPerm (.float d) (.float d)
  | str (s : Str) : JPerm (.str s) (.str s)
  | arr {l l' : List J} : LRel JPerm l l' → JPerm (.arr l) (.arr l')
  | obj {l l' : List (Str × J)} : EPerm JPerm l l' → JPerm (.obj l) (.obj l')

/-- entry-wise: same keys in the same order, `JPerm`-related values (`EPerm JPerm` is: a permutation, then
`ERel` — `EPerm.decompose`, `EPerm.compose`) -/
inductive ERel : List (Str × J) → List (Str × J) → Prop
  | nil : ERel [] []
  | cons (k : Str) {x x' : J} {l l' : List (Str × J)} : JPerm x x' → ERel l l' → ERel ((k, x) :: l) ((k, x') :: l')

/-- the file lists of two inputs: same `(namespace, locale)` at every position, `JPerm`-related trees -/
inductive FilesPerm : List ((Option Str × Str) × J) → List ((Option Str × Str) × J) → Prop
  | nil : FilesPerm [] []
  | cons (k : Option Str × Str) {j j' : J} {l l' : List ((Option Str × Str) × J)} :
      JPerm j j' → FilesPerm l l' → FilesPerm ((k, j) :: l) ((k, j') :: l')

/-- two inputs with the same logical content: same configuration, oracle and flags; files equal up to
the order of object entries -/
structure InputPerm (a b : Pipeline.Input) : Prop where
  cfg : a.cfg = b.cfg
  oracle : a.oracle = b.oracle
  suppress : a.suppress = b.suppress
  files : FilesPerm a.files b.files

/-- what the pipeline sees of the files: `findFile`.  Weaker than `InputPerm` (the file *list* may also be
reordered or hold shadowed duplicates) and all that the theorems need. -/
structure InputPermLookup (a b : Pipeline.Input) : Prop where
  cfg : a.cfg = b.cfg
  oracle : a.oracle = b.oracle
  suppress : a.suppress = b.suppress
  files : ∀ ns l,
    (Pipeline.findFile a.files ns l = none ∧ Pipeline.findFile b.files ns l = none) ∨
    (∃ j j', Pipeline.findFile a.files ns l = some j ∧ Pipeline.findFile b.files ns l = some j' ∧ JPerm j j')

namespace Res

def isOk : Res α → Bool
  | .ok _ => true
  | _ => false

/-- two outcomes that agree up to *which* failure is reported: equal, or both failures -/
def SameOutcome (r r' : Res α) : Prop := r = r' ∨ (r.isOk = false ∧ r'.isOk = false)

end Res

/-! ### Candidate failures of the decoder

`Decode.value` stops at the first failing entry of an object in document order, so *which* failure it
reports can depend on the order.  `Decode.Cand fuel top inRange key j` is the order-independent *set* of
failures the decoder can report for `j` in some order of the entries: every invalid key, every candidate
failure of an entry's value, `DuplicateKey` when two valid keys coincide after trimming — recursively;
for everything that is not a group of subkeys, the one failure of `Decode.value` itself (arrays of range
entries are decoded in array order, and the decoding of a `{count, value}` entry does not depend on the
order of its two fields). -/

/-- a failure: an error kind or a panic site -/
inductive Fail where
  | err (kind : String)
  | panic (site : String)

def Res.fail? : Res α → Option Fail
  | .ok _ => none
  | .err e => some (.err e)
  | .panic p => some (.panic p)

namespace Decode

def Cand : Nat → Str → Bool → Str → J → Fail → Prop
  | 0, _, _, _, _, f => f = .panic "fuel"
  | fuel + 1, top, inRange, key, j, f =>
    match j with
    | .obj l =>
      if inRange then f = .err "RangeSubkeys"
      else
        (∃ p, p ∈ l ∧ Key.new p.1 = none ∧ f = .err "InvalidKey") ∨
        (∃ p, p ∈ l ∧ ∃ k', Key.new p.1 = some k' ∧ Cand fuel top false k' p.2 f) ∨
        (¬ (l.filterMap (fun p => Key.new p.1)).Nodup ∧ f = .err "DuplicateKey")
    | j => (value (fuel + 1) top inRange key j).fail? = some f

/-- candidate failures of a whole file (`Decode.locale`, which gives `J.size j + 1` units of fuel) -/
def LocaleCand (name : Str) (j : J) (f : Fail) : Prop :=
  match j with
  | .obj _ => Cand (J.size j + 1) name false name j f
  | _ => f = .err "Serde"

end Decode

end I18nVerif
