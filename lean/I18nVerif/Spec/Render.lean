import I18nVerif.Model.Pipeline
import I18nVerif.Model.Codegen
import I18nVerif.Spec.BkiPath
import I18nVerif.Spec.Fallback
import I18nVerif.Spec.PipelineInv
/-!
# The generated accessor of one key, as the model sees it (end-to-end statement of C01)

`Pipeline.run` returns, per namespace, the checked locales (`NsOut.locales`, in configuration order,
each with its string table) and the builder keys (`NsOut.keys`).  The values of a key live

* for a top-level key `k`: in the key map of the top-level locale;
* for a nested key `g.….k`: in the key map of the locale recorded **at the same position** in the
  nested `Subkeys` node of the builder keys (`LV.subkeys locales keys`).

`renderKeyNs` is what `leptos_i18n_macro` generates for one key and what the generated code does at
run time: the `match locale { L::d | L::x… => arm_d, … }` built from `DefaultedLocales::compute`
(`Codegen.dispatch`), the arm = `to_token_stream` / `as_string_impl` of the value the arm's locale
holds for the key, evaluated against the arm's locale's (top-level) string table.

Spec side: `definedIn`, `sourceValue` speak about the *resolved world* (`Pipeline.resolved`: the
files as parsed, plurals merged, foreign keys resolved), i.e. about what the translator wrote.
-/
namespace I18nVerif.Render
open I18nVerif Check

/-- the value the `i`-th locale holds for key path `p`: top level in its own key map `ks`, below a
    group in the key map of the `i`-th locale recorded in the nested `Subkeys` node of `b` -/
def storedAt (i : Nat) : List Str → List (Str × PV) → BKI → Option PV
  | [], _, _ => none
  | [k], ks, _ => AMap.get? k ks
  | k :: k2 :: rest, _, b =>
    match AMap.get? k b with
    | some (.subkeys locs sub) =>
      (match locs[i]? with
        | some l => storedAt i (k2 :: rest) l.keys sub
        | none => none)
    | _ => none

/-- … in a namespace of the pipeline output -/
def storedIn (o : Pipeline.NsOut) (i : Nat) (p : List Str) : Option PV :=
  match o.locales[i]? with
  | some L => storedAt i p L.keys o.keys
  | none => none

/-- the string table the generated code of the `i`-th locale indexes (`I18N_TRANSLATIONS`): the
    table of the **top-level** locale, also for nested keys -/
def tableOf (o : Pipeline.NsOut) (i : Nat) : List Str :=
  match o.locales[i]? with
  | some L => L.strings
  | none => []

/-- the locales that get an arm of their own: those that are not defaulted for this key -/
def definingOf (names : List Str) (d : Defaults) : List Str :=
  names.filter (fun x => !(AMap.contains x d.mapping))

/-- what the generator knows about the key at leaf `p` (with `Defaults` `d`) -/
def keyArms (names : List Str) (o : Pipeline.NsOut) (p : List Str) (d : Defaults) : Codegen.KeyArms where
  defining := definingOf names d
  compute := Check.compute d
  value := fun x =>
    match names.idxOf? x with
    | some i => (storedIn o i p).getD .dflt
    | none => .dflt
  table := fun x =>
    match names.idxOf? x with
    | some i => tableOf o i
    | none => []

/-- **The generated accessor of key path `p` of one namespace at locale `l`**, for the back-end
    `ot` (`view`: `to_token_stream` + rendering the view; `string`/`display`: `as_string_impl` + what
    `Display::fmt` writes).  `names` are the locale names in configuration order (the variants of the
    `Locale` enum).  `none`: `p` is not an accessible key, or no arm matches (does not compile), or
    the generator panics. -/
def renderKeyNs (names : List Str) (o : Pipeline.NsOut) (p : List Str) (l : Str) (ρ : Eval.Env)
    (ot : Codegen.OutputType) : Option Str :=
  match Spec.Fallback.leafAt o.keys p with
  | none => none
  | some (_, d) =>
    -- `match locale { … }`
    match Codegen.dispatch (Check.compute d) (definingOf names d) l with
    | none => none
    | some x =>
      match names.idxOf? x with
      | none => none
      | some i =>
        -- the arm: the code generated from the value the arm's locale holds at `p`
        match storedIn o i p with
        | none => none
        | some v =>
          match ot with
          | .view =>
            (match Codegen.toTokenStream v with
              | .ok e => some (Codegen.renderView (tableOf o i) ρ e)
              | _ => none)
          | _ =>
            (match Codegen.asStringImpl v with
              | .ok e => some (Codegen.renderDisplay (tableOf o i) ρ e)
              | _ => none)

/-- the namespace with key `ns` of an output -/
def findNs (out : Pipeline.Output) (ns : Option Str) : Option Pipeline.NsOut :=
  out.nss.find? (fun o => o.key == ns)

/-- `t!(i18n, ns.p…)` rendered as a view, at locale `l` -/
def renderKey (out : Pipeline.Output) (ns : Option Str) (p : List Str) (l : Str) (ρ : Eval.Env) : Option Str :=
  match findNs out ns with
  | some o => renderKeyNs out.locales o p l ρ .view
  | none => none

/-- `t_string!` / `t_display!` -/
def renderKeyString (out : Pipeline.Output) (ns : Option Str) (p : List Str) (l : Str) (ρ : Eval.Env) : Option Str :=
  match findNs out ns with
  | some o => renderKeyNs out.locales o p l ρ .string
  | none => none

/-! ### the spec side: what the translation files say -/

/-- locale name `x` *defines* key path `p`: no non-default locale (`locs.tail`) of that name leaves
    `p` undefined (absent or `null`, itself or a group on the way).  The default locale
    (`locs.head`) defines every accessible key.  (Same predicate as in `C03_fallback_end_to_end`.) -/
def definedIn (locs : List Loc) (p : List Str) (x : Str) : Bool :=
  !(locs.tail.any (fun l => l.name == x && Spec.Fallback.undefinedAtPath l.keys p))

/-- the value locale `x` holds at `p` in the translation files (after `reduce`) -/
def sourceValue (locs : List Loc) (p : List Str) (x : Str) : Option PV :=
  match locs.find? (fun l => l.name == x) with
  | some l => valueAt l.keys p
  | none => none

/-- the locale whose translation is shown for `l` at `p`: first locale on `l, inherits l, …` that
    defines `p`, else the default locale -/
def effectiveLocale (cfg : Config.Config) (locs : List Loc) (p : List Str) (l : Str) : Str :=
  Spec.Fallback.effective cfg.inherits cfg.default (definedIn locs p) l

/-- what `ConfigFile::new` guarantees and the theorem needs: `CfgWF` (locale list non-empty, locale and
    namespace names distinct), the default locale is listed first, and every `inherits` target is a
    listed locale -/
structure CfgOK (cfg : Config.Config) : Prop where
  wf : PipeInv.CfgWF cfg
  defaultFirst : cfg.locales.head? = some cfg.default
  inheritsKnown : ∀ kv ∈ cfg.inherits, kv.2 ∈ cfg.locales

end I18nVerif.Render
