import I18nVerif.Model.Check
/-!
# Spec for C03 — fallback along the `inherits` chain, then the default locale

`effective inherits dflt defined l` is the locale whose value is used for locale `l`, for one
key: walk `l, inherits l, inherits (inherits l), …`

* the first locale on the way that *defines* the key is the answer;
* a locale on the way that does not define the key and has no `inherits` entry → the default locale;
* the walk comes back to a locale already seen → the default locale.

The walk is written with fuel; at most `inherits.length` different locales have an `inherits`
entry, hence `inherits.length + 1` steps are enough (`Proofs/Defaults.lean`, `walk_fuel_irrel`:
the result is the same for every larger fuel).
-/
namespace I18nVerif.Spec.Fallback
open I18nVerif

def walk (inherits : List (Str × Str)) (dflt : Str) (defined : Str → Bool) :
    Nat → Str → List Str → Str
  | 0, _, _ => dflt
  | fuel + 1, cur, seen =>
    if defined cur then cur
    else if seen.contains cur then dflt
    else match AMap.get? cur inherits with
      | none => dflt
      | some nxt => walk inherits dflt defined fuel nxt (cur :: seen)

def effective (inherits : List (Str × Str)) (dflt : Str) (defined : Str → Bool) (l : Str) : Str :=
  walk inherits dflt defined (inherits.length + 1) l []

/-! ### which locales define a key (presence pattern), which builder key is a leaf -/

/-- the value `cur` (of a locale, after `reduce`) does not define the key path `p` below it:
    it is `null`, or it is a group that does not define `p` -/
def undefinedAtPath : List (Str × PV) → List Str → Bool
  | _, [] => false
  | keys, k :: rest =>
    match AMap.get? k keys with
    | none => true                                    -- absent
    | some v =>
      match Reduce.reduce v with
      | .ok .dflt => true                             -- `null`
      | .ok (.subkeys (some l)) => undefinedAtPath l.keys rest
      | _ => false

/-- one level: key `k` is absent or `null` -/
def undefinedAt (keys : List (Str × PV)) (k : Str) : Bool := undefinedAtPath keys [k]

/-- the leaf (a plain value key) of a builder-key tree at a key path -/
def leafAt : Check.BKI → List Str → Option (Check.IOL × Check.Defaults)
  | _, [] => none
  | bki, k :: rest =>
    match AMap.get? k bki with
    | some (.value iol d) => (match rest with | [] => some (iol, d) | _ :: _ => none)
    | some (.subkeys _ keys) => leafAt keys rest
    | none => none

end I18nVerif.Spec.Fallback
