import I18nVerif.Model.Value
/-!
`Solid`: what the code generator needs of a value besides "foreign keys resolved" — at no depth a
`Default` (`null`), a group of subkeys, or a `Ranges` without branches.  The decoders reject `null`
/ objects / empty arrays at those places (`RangeNull`, `RangeSubkeys`, `EmptyRange`), plural forms
that are `null` are never candidates (`is_possible_plural`), the string parser never produces them,
and foreign-key resolution substitutes solid values into solid values.

`SolidV` / `SolidKeys`: what a *locale* stores under its keys — a group of such keys, a `Default`
(only at key level), or a solid value.
-/
namespace I18nVerif.Render
open I18nVerif

mutual
/-- no `Default`, no `Subkeys`, no `Ranges` without branches anywhere inside the value (inner value
    of a resolved foreign key and arguments of an unresolved one included) -/
def Solid : PV → Bool
  | .dflt => false
  | .subkeys _ => false
  | .lit _ => true
  | .var _ _ => true
  | .fk (.set i) => Solid i
  | .fk (.notSet _ args) => SolidK args
  | .comp _ i => Solid i
  | .bloc l => SolidL l
  | .ranges _ _ bs => !bs.isEmpty && SolidB bs
  | .plurals _ _ o fs => Solid o && SolidF fs
def SolidL : List PV → Bool
  | [] => true
  | x :: xs => Solid x && SolidL xs
def SolidB : List (Range × PV) → Bool
  | [] => true
  | (_, x) :: xs => Solid x && SolidB xs
def SolidF : List (Form × PV) → Bool
  | [] => true
  | (_, x) :: xs => Solid x && SolidF xs
def SolidK : List (Str × PV) → Bool
  | [] => true
  | (_, x) :: xs => Solid x && SolidK xs
end

mutual
/-- a value stored under a key of a locale: a group of such values, `Default`, or a solid value -/
def SolidV : PV → Bool
  | .subkeys (some (.mk _ _ keys _ _)) => SolidKeys keys
  | .subkeys none => false
  | .dflt => true
  | .lit _ => true
  | .var _ _ => true
  | .fk (.set i) => Solid i
  | .fk (.notSet _ args) => SolidK args
  | .comp _ i => Solid i
  | .bloc l => SolidL l
  | .ranges _ _ bs => !bs.isEmpty && SolidB bs
  | .plurals _ _ o fs => Solid o && SolidF fs
def SolidKeys : List (Str × PV) → Bool
  | [] => true
  | (_, v) :: rest => SolidV v && SolidKeys rest
end

end I18nVerif.Render
