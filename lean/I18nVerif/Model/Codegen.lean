import I18nVerif.Model.Value
import I18nVerif.Model.Ranges
import I18nVerif.Spec.Eval
/-
Code-generator back-ends of `leptos_i18n_macro` and the run-time helpers the generated code calls.

Mirrors
* `leptos_i18n_macro/src/load_locales/parsed_value.rs`: `Literal::to_token_stream`
  (`index_translations::<N, I>(TABLE)`), `flatten` (view back-end), `flatten_string` (Display
  back-end), `to_token_stream`, `as_string_impl`;
* `leptos_i18n_macro/src/load_locales/ranges.rs`: `to_tokens_integers/floats`,
  `to_tokens_integers_string/floats_string` (a `match count { pattern => branch, … }` for integer
  types, an `if … else if …` chain for floats: both select the *first* arm whose count
  specification contains the count), `range_to_condition`;
* `leptos_i18n_macro/src/load_locales/plurals.rs:93-162`
  (`match rules.category_for(count) { Form => …, _ => other }`);
* `leptos_i18n_macro/src/utils/mod.rs:52-113`: `EitherOfWrapper::{new, wrap}`, `fit_in_leptos_tuple`;
* `leptos_i18n_macro/src/load_locales/interpolate.rs:761-869`: the per-key `match locale` arms
  `L::x | L::defaulted… => …` built from `DefaultedLocales::compute()`;
* `leptos_i18n/src/macro_helpers/mod.rs:70-104` (`LitWrapper`), `:264-279` (`index_translations`);
* `leptos_i18n/src/scopes.rs`, `leptos_i18n/src/macro_helpers/scope.rs`,
  `leptos_i18n_macro/src/utils/scoped.rs` (scoping is type-state only).

The generated Rust is represented by two small expression languages (`VExpr`: the view
expression; `DExpr`: the body of `Display::fmt`) together with their meaning (`renderView`,
`renderDisplay`).  What is *not* represented: the `let k = Clone::clone(&k);` capture prologues
(and the `get_keys_inner(..).unwrap_at("…_1")` calls that compute them — they re-run on the same
value a pass that already succeeded in the parser), the `Either…` constructors around match arms
(an `Either` renders as its content; their *shape* is modelled separately by `eitherNew`/`wrap`),
`move ||` closures and `{ … }` blocks.  Panics of the generator are explicit `Res.panic` outcomes.
-/
namespace I18nVerif.Codegen
open I18nVerif

/-! ### Generated expressions -/

/-- the view expression produced by `to_token_stream` -/
inductive VExpr where
  /-- `index_translations::<N, idx>(TABLE)` -/
  | str (idx : Nat)
  /-- a numeric / boolean literal token -/
  | lit (l : Lit)
  /-- `{ let k = clone(&k); <formatter>.var_to_view(k, locale) }` -/
  | var (key : Str) (fmt : Fmt)
  /-- `move || key(to_children(move || child))` -/
  | comp (key : Str) (child : VExpr)
  /-- `(a, b, …,)` -/
  | tuple (items : List VExpr)
  /-- `""` -/
  | empty
  /-- `match count() { pat => arm, … }` / `if cond { arm } else if …` -/
  | rangeMatch (countKey : Str) (arms : List (Range × VExpr))
  /-- `match rules.category_for(count()) { Form => arm, …, _ => other }` -/
  | pluralMatch (rule : RuleTy) (countKey : Str) (arms : List (Form × VExpr)) (other : VExpr)
deriving Repr, Inhabited

/-- the body of `Display::fmt` produced by `as_string_impl` -/
inductive DExpr where
  /-- `Display::fmt(&index_translations::<N, idx>(TABLE), f)` -/
  | writeStr (idx : Nat)
  /-- `Display::fmt(&<literal>, f)` -/
  | writeLit (l : Lit)
  /-- `<formatter>.var_fmt(key, locale)` -/
  | writeVar (key : Str) (fmt : Fmt)
  /-- `DisplayComponent::fmt(key, f, |f| body)` -/
  | writeComp (key : Str) (body : DExpr)
  /-- `{ a?; b?; … Ok(()) }` -/
  | seq (items : List DExpr)
  /-- `Ok(())` -/
  | ok
  | rangeMatch (countKey : Str) (arms : List (Range × DExpr))
  | pluralMatch (rule : RuleTy) (countKey : Str) (arms : List (Form × DExpr)) (other : DExpr)
deriving Repr, Inhabited

/-- `usize::MAX`, the index of a string literal that was never indexed (`Lit.str _ none`) -/
def usizeMax : Nat := 18446744073709551615

def idxOf : Option Nat → Nat
  | some i => i
  | none => usizeMax

/-- `Literal::to_token_stream` -/
def litTok : Lit → VExpr
  | .str _ i => .str (idxOf i)
  | l => .lit l

/-- `Display::fmt(&#lit_ts, __formatter)` -/
def litWrite : Lit → DExpr
  | .str _ i => .writeStr (idxOf i)
  | l => .writeLit l

/-! ### `fit_in_leptos_tuple` -/

def tupleMaxSize : Nat := 26

/-- `<[T]>::chunks(n)` (`n > 0`): consecutive pieces of length `n`, the last one possibly shorter.
    Fuel = the length of the slice (each step removes at least one element when `n > 0`). -/
def chunksAux (n : Nat) : Nat → List α → List (List α)
  | 0, _ => []
  | fuel + 1, xs => if xs.isEmpty then [] else xs.take n :: chunksAux n fuel (xs.drop n)

def chunks (n : Nat) (xs : List α) : List (List α) := chunksAux n xs.length xs

/-- `fit_in_leptos_tuple` with explicit fuel: at most 26 items → one tuple; otherwise split into
    `chunks(len.div_ceil(26))` and nest.  Every chunk is strictly shorter than the input, so
    `fuel = length` suffices (`Proofs/Codegen.lean: fitAux_fuel`). -/
def fitAux : Nat → List VExpr → VExpr
  | 0, xs => .tuple xs
  | fuel + 1, xs =>
    if xs.length ≤ tupleMaxSize then .tuple xs
    else
      let chunkSize := (xs.length + (tupleMaxSize - 1)) / tupleMaxSize
      .tuple ((chunks chunkSize xs).map (fitAux fuel))

def fitInLeptosTuple (xs : List VExpr) : VExpr := fitAux xs.length xs

/-! ### View back-end: `flatten`, `to_token_stream` -/

/-- the final `match &mut tokens[..]` of `to_token_stream` -/
def finishView : Res (List VExpr) → Res VExpr
  | .ok [] => .ok .empty
  | .ok [x] => .ok x
  | .ok xs => .ok (fitInLeptosTuple xs)
  | .err e => .err e
  | .panic p => .panic p

mutual
/-- `flatten`: the tokens pushed for a value (in order) -/
def flatten : PV → Res (List VExpr)
  | .dflt => .panic "flatten: defaulted value should never have been rendered"
  | .subkeys _ => .panic "flatten: subkeys should never have been rendered"
  | .lit l => .ok [litTok l]
  | .ranges ck _ bs =>
    -- `EitherOfWrapper::new(ranges.len())` comes first
    if bs.isEmpty then .panic "EitherOfWrapper::new: 0"
    else
      match armsView bs with
      | .ok arms => .ok [.rangeMatch ck arms]
      | .err e => .err e
      | .panic p => .panic p
  | .var k f => .ok [.var k f]
  | .comp k inner =>
    match finishView (flatten inner) with
    | .ok e => .ok [.comp k e]
    | .err e => .err e
    | .panic p => .panic p
  | .bloc items => flattenL items
  | .fk (.set inner) => flatten inner
  | .fk (.notSet _ _) => .panic "as_inner: flatten"
  | .plurals rule ck other forms =>
    -- `other_ts` is computed before the (lazy) arms are expanded
    match finishView (flatten other) with
    | .err e => .err e
    | .panic p => .panic p
    | .ok o =>
      match formsView forms with
      | .ok arms => .ok [.pluralMatch rule ck arms o]
      | .err e => .err e
      | .panic p => .panic p
def flattenL : List PV → Res (List VExpr)
  | [] => .ok []
  | x :: xs =>
    match flatten x with
    | .err e => .err e
    | .panic p => .panic p
    | .ok a =>
      match flattenL xs with
      | .ok b => .ok (a ++ b)
      | .err e => .err e
      | .panic p => .panic p
def armsView : List (Range × PV) → Res (List (Range × VExpr))
  | [] => .ok []
  | (r, v) :: rest =>
    match finishView (flatten v) with
    | .err e => .err e
    | .panic p => .panic p
    | .ok e =>
      match armsView rest with
      | .ok arms => .ok ((r, e) :: arms)
      | .err e => .err e
      | .panic p => .panic p
def formsView : List (Form × PV) → Res (List (Form × VExpr))
  | [] => .ok []
  | (f, v) :: rest =>
    match finishView (flatten v) with
    | .err e => .err e
    | .panic p => .panic p
    | .ok e =>
      match formsView rest with
      | .ok arms => .ok ((f, e) :: arms)
      | .err e => .err e
      | .panic p => .panic p
end

/-- `parsed_value::to_token_stream` -/
def toTokenStream (v : PV) : Res VExpr := finishView (flatten v)

/-! ### Display back-end: `flatten_string`, `as_string_impl` -/

/-- the final `match &mut tokens[..]` of `as_string_impl` -/
def finishDisplay : Res (List DExpr) → Res DExpr
  | .ok [] => .ok .ok
  | .ok [x] => .ok x
  | .ok xs => .ok (.seq xs)
  | .err e => .err e
  | .panic p => .panic p

mutual
/-- `flatten_string` -/
def flattenString : PV → Res (List DExpr)
  | .dflt => .panic "flatten_string: defaulted value should never have been rendered"
  | .subkeys _ => .panic "flatten_string: subkeys should never have been rendered"
  | .lit l => .ok [litWrite l]
  | .ranges ck _ bs =>
    match armsDisplay bs with
    | .ok arms => .ok [.rangeMatch ck arms]
    | .err e => .err e
    | .panic p => .panic p
  | .var k f => .ok [.writeVar k f]
  | .comp k inner =>
    match finishDisplay (flattenString inner) with
    | .ok e => .ok [.writeComp k e]
    | .err e => .err e
    | .panic p => .panic p
  | .bloc items => flattenStringL items
  | .fk (.set inner) => flattenString inner
  | .fk (.notSet _ _) => .panic "as_inner: flatten_string"
  | .plurals rule ck other forms =>
    match finishDisplay (flattenString other) with
    | .err e => .err e
    | .panic p => .panic p
    | .ok o =>
      match formsDisplay forms with
      | .ok arms => .ok [.pluralMatch rule ck arms o]
      | .err e => .err e
      | .panic p => .panic p
def flattenStringL : List PV → Res (List DExpr)
  | [] => .ok []
  | x :: xs =>
    match flattenString x with
    | .err e => .err e
    | .panic p => .panic p
    | .ok a =>
      match flattenStringL xs with
      | .ok b => .ok (a ++ b)
      | .err e => .err e
      | .panic p => .panic p
def armsDisplay : List (Range × PV) → Res (List (Range × DExpr))
  | [] => .ok []
  | (r, v) :: rest =>
    match finishDisplay (flattenString v) with
    | .err e => .err e
    | .panic p => .panic p
    | .ok e =>
      match armsDisplay rest with
      | .ok arms => .ok ((r, e) :: arms)
      | .err e => .err e
      | .panic p => .panic p
def formsDisplay : List (Form × PV) → Res (List (Form × DExpr))
  | [] => .ok []
  | (f, v) :: rest =>
    match finishDisplay (flattenString v) with
    | .err e => .err e
    | .panic p => .panic p
    | .ok e =>
      match formsDisplay rest with
      | .ok arms => .ok ((f, e) :: arms)
      | .err e => .err e
      | .panic p => .panic p
end

/-- `parsed_value::as_string_impl` -/
def asStringImpl (v : PV) : Res DExpr := finishDisplay (flattenString v)

/-! ### Meaning of the generated expressions

`tbl` is the string table of the arm's locale (`I18N_TRANSLATIONS`); `index_translations::<N, I>`
is `tbl[I]` — an out-of-range `I` does not compile (const evaluation fails), the total
`getD … []` below is only ever used in theorems under the hypothesis that the index is valid.
A tuple of views renders as the concatenation of its components, a text node as its text.
A range `match`/`if` chain renders the first arm whose specification contains the count (a
non-exhaustive `match` does not compile; the model renders nothing).  -/

mutual
def renderView (tbl : List Str) (ρ : Eval.Env) : VExpr → Str
  | .str i => tbl.getD i []
  | .lit l => l.display
  | .var k f => ρ.var k f
  | .comp k c => ρ.comp k (renderView tbl ρ c)
  | .tuple items => renderViewL tbl ρ items
  | .empty => []
  | .rangeMatch ck arms => renderArms tbl ρ (ρ.count ck) arms
  | .pluralMatch rule ck arms other =>
    match renderForms tbl ρ (ρ.cat rule (ρ.count ck)) arms with
    | some s => s
    | none => renderView tbl ρ other
def renderViewL (tbl : List Str) (ρ : Eval.Env) : List VExpr → Str
  | [] => []
  | x :: xs => renderView tbl ρ x ++ renderViewL tbl ρ xs
def renderArms (tbl : List Str) (ρ : Eval.Env) (c : Dec) : List (Range × VExpr) → Str
  | [] => []
  | (r, e) :: rest => if Ranges.doMatch r c then renderView tbl ρ e else renderArms tbl ρ c rest
def renderForms (tbl : List Str) (ρ : Eval.Env) (f : Form) : List (Form × VExpr) → Option Str
  | [] => none
  | (f', e) :: rest => if f' == f then some (renderView tbl ρ e) else renderForms tbl ρ f rest
end

mutual
/-- the text written to the formatter (writes to a `String` do not fail, so every `?` continues) -/
def renderDisplay (tbl : List Str) (ρ : Eval.Env) : DExpr → Str
  | .writeStr i => tbl.getD i []
  | .writeLit l => l.display
  | .writeVar k f => ρ.var k f
  | .writeComp k c => ρ.comp k (renderDisplay tbl ρ c)
  | .seq items => renderDisplayL tbl ρ items
  | .ok => []
  | .rangeMatch ck arms => renderDArms tbl ρ (ρ.count ck) arms
  | .pluralMatch rule ck arms other =>
    match renderDForms tbl ρ (ρ.cat rule (ρ.count ck)) arms with
    | some s => s
    | none => renderDisplay tbl ρ other
def renderDisplayL (tbl : List Str) (ρ : Eval.Env) : List DExpr → Str
  | [] => []
  | x :: xs => renderDisplay tbl ρ x ++ renderDisplayL tbl ρ xs
def renderDArms (tbl : List Str) (ρ : Eval.Env) (c : Dec) : List (Range × DExpr) → Str
  | [] => []
  | (r, e) :: rest => if Ranges.doMatch r c then renderDisplay tbl ρ e else renderDArms tbl ρ c rest
def renderDForms (tbl : List Str) (ρ : Eval.Env) (f : Form) : List (Form × DExpr) → Option Str
  | [] => none
  | (f', e) :: rest => if f' == f then some (renderDisplay tbl ρ e) else renderDForms tbl ρ f rest
end

/-! ### `range_to_condition` (float chains)

The condition generated for one branch of a float range; `none` = no condition (`Fallback`: a
bare `{ … }` block).  Inside `Multiple`, `filter_map` silently drops fallbacks. -/
mutual
def rangeCond : Range → Dec → Option Bool
  | .exact v, c => some (Dec.eq c v)
  | .bounds start stop, c =>
    some ((match start with
      | some s => !(Dec.lt c s)
      | none => true) &&
    (match stop with
      | .incl e => Dec.le c e
      | .excl e => Dec.lt c e
      | .unb => true))
  | .multi l, c => some (rangeCondAny l c)
  | .fallback, _ => none
def rangeCondAny : List Range → Dec → Bool
  | [], _ => false
  | r :: rs, c =>
    match rangeCond r c with
    | some b => b || rangeCondAny rs c
    | none => rangeCondAny rs c
end

/-- the branch of an `if`-chain arm is taken -/
def condTaken (r : Range) (c : Dec) : Bool := (rangeCond r c).getD true

/-! ### `EitherOfWrapper` -/

inductive Wrapper where
  | single
  | duo
  /-- `EitherOf{n}`, `3 ≤ n ≤ 16` -/
  | multiple (n : Nat)
  /-- `EitherOf16` whose 16th variant holds `last` -/
  | nested (last : Wrapper)
deriving Repr, DecidableEq, Inhabited

/-- `EitherOfWrapper::new` with fuel (`size - 15 < size`, so `fuel = size` suffices);
    `none` = the `unreachable!("0 locales ?")` -/
def eitherNewAux : Nat → Nat → Option Wrapper
  | _, 0 => none
  | _, 1 => some .single
  | _, 2 => some .duo
  | 0, _ + 3 => none
  | fuel + 1, n + 3 =>
    if n + 3 ≤ 16 then some (.multiple (n + 3))
    else (eitherNewAux fuel (n + 3 - 15)).map .nested

def eitherNew (n : Nat) : Option Wrapper := eitherNewAux n n

/-- `EitherOfWrapper::wrap`: the path of variant indices (0 = `A`/`Left`, 1 = `B`/`Right`, …) from
    the outermost constructor inwards; `none` = the `LETTERS[i]` index panic -/
def wrap : Wrapper → Nat → Option (List Nat)
  | .single, _ => some []
  | .duo, i => some [if i = 0 then 0 else 1]
  | .multiple _, i => if i < 16 then some [i] else none
  | .nested last, i => if i ≤ 14 then some [i] else (wrap last (i - 15)).map (15 :: ·)

/-- number of values the wrapper was built for -/
def Wrapper.size : Wrapper → Nat
  | .single => 1
  | .duo => 2
  | .multiple n => n
  | .nested last => 15 + last.size

/-- a variant path exists in the `Either…` type the wrapper denotes -/
def Wrapper.validPath : Wrapper → List Nat → Bool
  | .single, p => p.isEmpty
  | .duo, p => match p with | [k] => k < 2 | _ => false
  | .multiple n, p => match p with | [k] => k < n | _ => false
  | .nested last, p =>
    match p with
    | k :: p' => if k < 15 then p'.isEmpty else k == 15 && last.validPath p'
    | [] => false

/-! ### The per-key `match locale` (`create_locale_impl`, `create_locale_string_impl`) -/

/-- patterns of the arm of defining locale `d`: `L::d | L::x…` for `x ∈ compute[d]` -/
def armPats (compute : List (Str × List Str)) (d : Str) : List Str :=
  d :: (AMap.get? d compute).getD []

/-- the arm selected by `match locale { … }` for `l`: arms are emitted for the defining locales in
    reverse order, the first one with a matching pattern is taken.  `none`: no arm matches (such
    a `match` is rejected by rustc as non-exhaustive). -/
def dispatch (compute : List (Str × List Str)) (defining : List Str) (l : Str) : Option Str :=
  defining.reverse.find? (fun d => (armPats compute d).contains l)

/-- the literal accessors (`load_locales/mod.rs: create_locale_type_inner`, `literal_accessors`)
    emit the same arms in declaration order -/
def dispatchLit (compute : List (Str × List Str)) (defining : List Str) (l : Str) : Option Str :=
  defining.find? (fun d => (armPats compute d).contains l)

/-- index given to `either_wrapper.wrap` for the arm of `d` (position before `.rev()`) -/
def armIndex (defining : List Str) (d : Str) : Nat := defining.idxOf d

/-! ### Scoping (`scope_i18n!`, `use_i18n_scoped!`, `scope_locale!`)

A scope is a *type*: the keys struct of a sub-tree (`|_k| _k.a().b()` is only used for its return
type).  `ScopedLocale<L, S>` holds the base locale and `PhantomData<S>`. -/

/-- key structs: a leaf is a value accessor, a node is a subkeys struct with one method per key -/
inductive KTree (α : Type) where
  | leaf (a : α)
  | node (kids : List (Str × KTree α))

/-- the accessor chain `.k₁().k₂()…`; `none` = no such method (does not compile) -/
def KTree.lookup : KTree α → List Str → Option (KTree α)
  | t, [] => some t
  | .leaf _, _ :: _ => none
  | .node kids, k :: ks =>
    match AMap.get? k kids with
    | some c => c.lookup ks
    | none => none

/-- the new scope type `NS` of `scope_ctx_util(ctx, |_k| _k.p())`: the return type of the chain -/
def KTree.scope (t : KTree α) (pfx : List Str) : Option (KTree α) := t.lookup pfx

/-- scopes applied one after the other -/
def KTree.scopeChain (t : KTree α) : List (List Str) → Option (KTree α)
  | [] => some t
  | p :: ps => (t.scope p).bind (·.scopeChain ps)

/-- `ScopedLocale<L, S>` as (base locale, path of `S` from the root keys struct) -/
structure ScopedLocale where
  locale : Str
  pfx : List Str
deriving Repr, DecidableEq

/-- `scope_locale_util(locale, |_k| _k.p())` = `ScopedLocale::new(locale.to_base_locale())`
    with the scope type advanced by `p` -/
def ScopedLocale.scope (sl : ScopedLocale) (p : List Str) : ScopedLocale :=
  { locale := sl.locale, pfx := sl.pfx ++ p }

def ScopedLocale.scopeChain (sl : ScopedLocale) : List (List Str) → ScopedLocale
  | [] => sl
  | p :: ps => (sl.scope p).scopeChain ps

/-- `Locale::get_keys(sl).q()`: `LocaleKeys::from_locale(sl.to_base_locale())` at type `S::Keys`,
    then the accessor chain `q`.  `world l` is the root keys struct instantiated at locale `l`. -/
def ScopedLocale.access (world : Str → KTree α) (sl : ScopedLocale) (q : List Str) : Option (KTree α) :=
  ((world sl.locale).lookup sl.pfx).bind (·.lookup q)

/-! ### `LitWrapper` (accessor of a key that is a plain literal in every locale) -/

/-- `LitWrapper<T>(T)` for `T ∈ {&'static str, u64, i64, f64, bool}` -/
structure LitWrapper where
  val : Lit

namespace LitWrapper
/-- `builder`, `display_builder`, `build`: identity -/
def builder (w : LitWrapper) : LitWrapper := w
def displayBuilder (w : LitWrapper) : LitWrapper := w
def build (w : LitWrapper) : LitWrapper := w
/-- `into_view`: `self.0` as a view (a text node showing `Display` of the value) -/
def intoView (w : LitWrapper) : VExpr := .lit w.val
/-- `build_string`: `Literal::into_str` — identity on `&str`, `"true"/"false"`, `to_string()` -/
def buildString (w : LitWrapper) : Str :=
  match w.val with
  | .str s _ => s
  | .bool b => if b then "true".toList else "false".toList
  | .signed v => (Lit.signed v).display
  | .unsigned v => (Lit.unsigned v).display
  | .float d => (Lit.float d).display
/-- `build_display`: `self.0` as `impl Display` -/
def buildDisplay (w : LitWrapper) : Str := w.val.display
/-- `inner`: the const accessor (the raw value; its text is its `Display`) -/
def inner (w : LitWrapper) : Lit := w.val
end LitWrapper

/-- the literal accessor arm `LitWrapper::new(#lit)` with `#lit = to_token_stream(value)`:
    a string literal is fetched from the table at run time / const-eval time -/
def litAccessor (tbl : List Str) (v : PV) : Option LitWrapper :=
  match toTokenStream v with
  | .ok (.str i) => some ⟨.str (tbl.getD i []) (some i)⟩
  | .ok (.lit l) => some ⟨l⟩
  | _ => none

/-! ### The accessor of one key, and the nine macro flavours (`t_macro/mod.rs`)

`t!`/`tu!`/`td!` × view/`_string`/`_display` all expand to
`get_key(input).k₁().k₂()….builder_fn()…build_fn()`; they differ in where the locale comes from
(`InputType`) and in which back-end runs (`OutputType`). -/

inductive OutputType | view | string | display deriving DecidableEq, Repr
inductive InputType | locale | context | untracked deriving DecidableEq, Repr

/-- what the generator knows about one (non-literal) key -/
structure KeyArms where
  /-- locales whose value for the key is not `Default`, in declaration order -/
  defining : List Str
  /-- `DefaultedLocales::compute()` of the key -/
  compute : List (Str × List Str)
  /-- the key's value in a defining locale -/
  value : Str → PV
  /-- the string table of that locale -/
  table : Str → List Str

/-- `builder().…build().into_view()` / `display_builder().…build_string()` / `…build_display()`
    at locale `l`: the `match locale` of `into_view_impl` / `display_impl`, then the arm.
    `none`: no arm (does not compile) or the generator panicked. -/
def KeyArms.text (k : KeyArms) (ρ : Eval.Env) (o : OutputType) (l : Str) : Option Str :=
  match dispatch k.compute k.defining l with
  | none => none
  | some d =>
    match o with
    | .view =>
      match toTokenStream (k.value d) with
      | .ok e => some (renderView (k.table d) ρ e)
      | _ => none
    | _ =>
      match asStringImpl (k.value d) with
      | .ok e => some (renderDisplay (k.table d) ρ e)
      | _ => none

/-- what the first macro argument is: a context (its current locale, its scope prefix) or a
    (possibly scoped) locale value -/
inductive Source where
  | ctx (cell : Str) (pfx : List Str)
  | locale (sl : ScopedLocale)

/-- `I18nContext::get_keys` / `get_keys_untracked` / `Locale::get_keys`: all three are
    `LocaleKeys::from_locale(<the locale>)` at the scope type; a mismatch of macro and argument
    kind does not type-check -/
def Source.resolve : InputType → Source → Option ScopedLocale
  | .context, .ctx c p => some ⟨c, p⟩
  | .untracked, .ctx c p => some ⟨c, p⟩
  | .locale, .locale sl => some sl
  | _, _ => none

/-- the text of `<macro>!(src, q₁.q₂.…, args)`; `root` is the root keys struct -/
def flavourText (root : KTree KeyArms) (ρ : Eval.Env) (i : InputType) (o : OutputType)
    (src : Source) (q : List Str) : Option Str :=
  match src.resolve i with
  | none => none
  | some sl =>
    match (root.lookup sl.pfx).bind (·.lookup q) with
    | some (.leaf k) => k.text ρ o sl.locale
    | _ => none

end I18nVerif.Codegen
