import I18nVerif.Model.Value
/-
A strict JSON reader for the argument object of a foreign key
(`serde_json::from_str::<BTreeMap<String, Literal>>`): an object whose values are strings,
numbers or booleans.  Written from the JSON grammar (RFC 8259) with serde_json's number
classification (non-negative integers that fit `u64` → unsigned, negative ones that fit `i64` →
signed, everything else → float).
-/
namespace I18nVerif.Json
open I18nVerif Str

inductive JLit where
  | str (s : Str)
  | unsigned (v : Nat)
  | signed (v : Int)
  | float (d : Dec)
  | bool (b : Bool)
deriving Repr, Inhabited

def isJsonWs (c : Char) : Bool := c == ' ' || c == '\t' || c == '\n' || c == '\r'
def skipWs (s : Str) : Str := s.dropWhile isJsonWs

def hexVal (c : Char) : Option Nat :=
  if '0' ≤ c && c ≤ '9' then some (c.toNat - '0'.toNat)
  else if 'a' ≤ c && c ≤ 'f' then some (c.toNat - 'a'.toNat + 10)
  else if 'A' ≤ c && c ≤ 'F' then some (c.toNat - 'A'.toNat + 10)
  else none

def hex4 (a b c d : Char) : Option Nat := do
  let a ← hexVal a; let b ← hexVal b; let c ← hexVal c; let d ← hexVal d
  pure (((a * 16 + b) * 16 + c) * 16 + d)

def scalar (n : Nat) : Option Char :=
  if n < 0xD800 || (0xDFFF < n && n < 0x110000) then some (Char.ofNat n) else none

/-- body of a JSON string after the opening quote: decoded text and the rest after the closing quote -/
def strBody : Str → Option (Str × Str)
  | [] => none
  | '"' :: rest => some ([], rest)
  | '\\' :: 'u' :: a :: b :: c :: d :: rest =>
    match hex4 a b c d with
    | none => none
    | some hi =>
      if 0xD800 ≤ hi && hi ≤ 0xDBFF then
        -- high surrogate: a low surrogate escape must follow
        match rest with
        | '\\' :: 'u' :: a' :: b' :: c' :: d' :: rest' =>
          match hex4 a' b' c' d' with
          | none => none
          | some lo =>
            if 0xDC00 ≤ lo && lo ≤ 0xDFFF then
              match scalar (0x10000 + (hi - 0xD800) * 0x400 + (lo - 0xDC00)), strBody rest' with
              | some ch, some (t, r) => some (ch :: t, r)
              | _, _ => none
            else none
        | _ => none
      else
        match scalar hi, strBody rest with
        | some ch, some (t, r) => some (ch :: t, r)
        | _, _ => none
  | '\\' :: e :: rest =>
    let dec : Option Char :=
      if e == '"' then some '"' else if e == '\\' then some '\\' else if e == '/' then some '/'
      else if e == 'b' then some (Char.ofNat 8) else if e == 'f' then some (Char.ofNat 12)
      else if e == 'n' then some '\n' else if e == 'r' then some '\r' else if e == 't' then some '\t' else none
    match dec, strBody rest with
    | some ch, some (t, r) => some (ch :: t, r)
    | _, _ => none
  | c :: rest =>
    if c.toNat < 0x20 || c == '\\' then none
    else match strBody rest with
      | some (t, r) => some (c :: t, r)
      | none => none

/-- serde_json rejects numbers that do not fit a finite `f64` ("number out of range") -/
def finiteF64 (d : Dec) : Bool :=
  let b : Dec := Dec.ofInt ((2 : Int) ^ 1024 - (2 : Int) ^ 970)
  Dec.lt d b && Dec.lt (Dec.ofInt (-((2 : Int) ^ 1024 - (2 : Int) ^ 970))) d

def checkFinite : Option (JLit × Str) → Option (JLit × Str)
  | some (.float d, rest) => if finiteF64 d then some (.float d, rest) else none
  | other => other

/-- a JSON number at the head of the input: classified literal and the rest (before the range check) -/
def numberRaw (s : Str) : Option (JLit × Str) :=
  let (neg, s1) := match s with
    | '-' :: r => (true, r)
    | _ => (false, s)
  let intDigits := s1.takeWhile isDigit
  let s2 := s1.dropWhile isDigit
  if intDigits.isEmpty then none
  else if intDigits.length > 1 && intDigits.head? == some '0' then none
  else
    let (frac, s3, hasFrac) := match s2 with
      | '.' :: r => (r.takeWhile isDigit, r.dropWhile isDigit, true)
      | _ => ([], s2, false)
    if hasFrac && frac.isEmpty then none else
    let expPart : Option (Option (Bool × Str) × Str) := match s3 with
      | c :: r =>
        if c == 'e' || c == 'E' then
          let (eneg, r1) := match r with
            | '-' :: r' => (true, r')
            | '+' :: r' => (false, r')
            | _ => (false, r)
          let ed := r1.takeWhile isDigit
          if ed.isEmpty then none else some (some (eneg, ed), r1.dropWhile isDigit)
        else some (none, s3)
      | [] => some (none, s3)
    match expPart with
    | none => none
    | some (ex, rest) =>
      let mant : Nat := (intDigits ++ frac).foldl (fun acc c => acc * 10 + digitVal c) 0
      match ex, hasFrac with
      | none, false =>
        if !neg then
          if mant ≤ 18446744073709551615 then some (.unsigned mant, rest) else some (.float ⟨mant, 0⟩, rest)
        else if mant == 0 then some (.float ⟨0, 0⟩, rest)          -- `-0` is the float -0.0
        else if mant ≤ 9223372036854775808 then some (.signed (-(mant : Int)), rest)
        else some (.float ⟨-(mant : Int), 0⟩, rest)
      | _, _ =>
        let m : Int := if neg then -(mant : Int) else mant
        let e10 : Int := (frac.length : Int) - (match ex with
          | some (eneg, ed) =>
            let v : Int := (ed.foldl (fun acc c => acc * 10 + digitVal c) 0 : Nat)
            if eneg then -v else v
          | none => 0)
        if e10 ≥ 0 then some (.float ⟨m, e10.toNat⟩, rest)
        else some (.float ⟨m * (10 : Int) ^ (-e10).toNat, 0⟩, rest)

/-- a JSON number at the head of the input: classified literal and the rest -/
def number (s : Str) : Option (JLit × Str) := checkFinite (numberRaw s)

def value (s : Str) : Option (JLit × Str) :=
  match s with
  | '"' :: r => (strBody r).map (fun (t, rest) => (.str t, rest))
  | 't' :: 'r' :: 'u' :: 'e' :: r => some (.bool true, r)
  | 'f' :: 'a' :: 'l' :: 's' :: 'e' :: r => some (.bool false, r)
  | _ => number s

/-- members after `{` (first = no comma expected yet); fuel bounds the number of members -/
def members : Nat → Bool → Str → Option (List (Str × JLit) × Str)
  | 0, _, _ => none
  | fuel + 1, first, s =>
    match skipWs s with
    | '}' :: rest => if first then some ([], rest) else none
    | s1 =>
      let s2? : Option Str := if first then some s1 else
        match s1 with
        | ',' :: r => some (skipWs r)
        | _ => none
      match s2? with
      | none => none
      | some s2 =>
        match s2 with
        | '"' :: r =>
          match strBody r with
          | none => none
          | some (k, r1) =>
            match skipWs r1 with
            | ':' :: r2 =>
              match value (skipWs r2) with
              | none => none
              | some (v, r3) =>
                match skipWs r3 with
                | '}' :: rest => some ([(k, v)], rest)
                | r4 =>
                  match members fuel false r4 with
                  | some (ms, rest) => some ((k, v) :: ms, rest)
                  | none => none
            | _ => none
        | _ => none

/-- the whole text must be one object (surrounding whitespace allowed) -/
def parseObject (s : Str) : Option (List (Str × JLit)) :=
  match skipWs s with
  | '{' :: r =>
    match members (s.length + 1) true r with
    | some (ms, rest) => if (skipWs rest).isEmpty then some ms else none
    | none => none
  | _ => none

end I18nVerif.Json
