/-
Model of the two hand-written string encoders of the repository (as they are *after* the fixes of
F15 and F16) and of the registration map behind the embedded translations.

* `leptos_i18n_build/src/lib.rs`: `write_json_str` + `impl Display for TranslationsFormatter`
  → `jsonEscChar`, `jsonQuote`, `formatter`.
* `leptos_i18n/src/fetch_translations.rs` (`dynamic_load` + `ssr`): `push_js_str`,
  `RegisterCtx::{register, to_array}` → `jsEscChar`, `jsQuote`, `register`, `toArray`.

Strings are `List Char`; a Lean `Char` is a Unicode scalar value, exactly a Rust `char`.
The former behaviours (Rust `{:?}` for the build helper, the raw push for `to_array`) are kept as
`oldDebug*` / `oldRaw*`, only to state the regression witnesses.
-/
namespace I18nVerif.Escape

/-! ### `{:04X}` -/

/-- upper-case hexadecimal digit of a value `< 16` (Rust `{:X}`) -/
def hexDigit : Nat → Char
  | 0 => '0' | 1 => '1' | 2 => '2' | 3 => '3' | 4 => '4' | 5 => '5' | 6 => '6' | 7 => '7'
  | 8 => '8' | 9 => '9' | 10 => 'A' | 11 => 'B' | 12 => 'C' | 13 => 'D' | 14 => 'E' | _ => 'F'

/-- Rust `format!("{:04X}", n)` for `n < 0x10000` -/
def hex4 (n : Nat) : List Char :=
  [hexDigit (n / 4096 % 16), hexDigit (n / 256 % 16), hexDigit (n / 16 % 16), hexDigit (n % 16)]

/-! ### F15: `write_json_str` and the formatter of the build helper -/

/-- one arm of the `match c` in `write_json_str` (same order of arms) -/
def jsonEscChar (c : Char) : List Char :=
  if c = '"' then ['\\', '"']
  else if c = '\\' then ['\\', '\\']
  else if c = '\n' then ['\\', 'n']
  else if c = '\r' then ['\\', 'r']
  else if c = '\t' then ['\\', 't']
  else if c = '\x08' then ['\\', 'b']
  else if c = '\x0c' then ['\\', 'f']
  else if c.toNat < 0x20 then '\\' :: 'u' :: hex4 c.toNat
  else [c]

/-- the `for c in s.chars()` loop with a per-character escaper -/
def escBody (esc : Char → List Char) : List Char → List Char
  | [] => []
  | c :: cs => esc c ++ escBody esc cs

/-- `write_json_str`: opening quote, escaped characters, closing quote -/
def jsonQuote (s : List Char) : List Char := '"' :: (escBody jsonEscChar s ++ ['"'])

/-- `for s in iter { write!(f, ",")?; write_json_str(f, s)?; }` -/
def formatterRest : List (List Char) → List Char
  | [] => []
  | s :: ss => ',' :: (jsonQuote s ++ formatterRest ss)

/-- `impl Display for TranslationsFormatter`: `[`, the first string, `,string` for the others, `]` -/
def formatter : List (List Char) → List Char
  | [] => ['[', ']']
  | s :: ss => '[' :: (jsonQuote s ++ (formatterRest ss ++ [']']))

/-! ### F16: `push_js_str`, `RegisterCtx::register`, `RegisterCtx::to_array` -/

/-- one arm of the `match c` in `push_js_str` (same order of arms) -/
def jsEscChar (c : Char) : List Char :=
  if c = '"' then ['\\', '"']
  else if c = '\\' then ['\\', '\\']
  else if c = '\n' then ['\\', 'n']
  else if c = '\r' then ['\\', 'r']
  else if c = '\t' then ['\\', 't']
  else if c = '\x08' then ['\\', 'b']
  else if c = '\x0c' then ['\\', 'f']
  else if c = '<' then ['\\', 'u', '0', '0', '3', 'C']
  else if c = '\u2028' then ['\\', 'u', '2', '0', '2', '8']
  else if c = '\u2029' then ['\\', 'u', '2', '0', '2', '9']
  else if c.toNat < 0x20 then '\\' :: 'u' :: hex4 c.toNat
  else [c]

def jsQuote (s : List Char) : List Char := '"' :: (escBody jsEscChar s ++ ['"'])

/-- a translation unit as stored in the map: key `(locale, id)` (the names `Locale::as_str`,
    `TranslationUnitId::to_str`; `none` for the unit id `()`), value `T::STRINGS.as_slice()` -/
structure TUnit where
  locale : List Char
  id : Option (List Char)
  values : List (List Char)
deriving DecidableEq, Repr, Inhabited

def TUnit.sameKey (a b : TUnit) : Bool := a.locale == b.locale && a.id == b.id

/-- `HashMap::insert`: the value of an existing key is replaced, a new key is added -/
def mapInsert (u : TUnit) : List TUnit → List TUnit
  | [] => [u]
  | v :: m => if v.sameKey u then u :: m else v :: mapInsert u m

/-- `RegisterCtx::register::<T>()`: `use_context()` may find no context (`none`): nothing happens -/
def register (ctx : Option (List TUnit)) (u : TUnit) : Option (List TUnit) :=
  match ctx with
  | none => none
  | some m => some (mapInsert u m)

/-- the map after a render that touched `hist` (in this order, with repetitions), starting from
    `RegisterCtx::provide_context()` (an empty map) -/
def registered (hist : List TUnit) : List TUnit := hist.foldl (fun m u => mapInsert u m) []

/-- the inner `for value in *values` loop, `first` flag included -/
def valuesLoop (first : Bool) : List (List Char) → List Char
  | [] => []
  | v :: vs => (if first then [] else [',']) ++ (jsQuote v ++ valuesLoop false vs)

/-! String literals of `to_array`, spelled as character lists (each one is tied to its text by an
`example` below, so that proofs never have to unfold `String.toList`). -/

/-- `{"locale":"` -/
def litLocale : List Char := ['{', '"', 'l', 'o', 'c', 'a', 'l', 'e', '"', ':', '"']
/-- `","id":"` -/
def litId : List Char := ['"', ',', '"', 'i', 'd', '"', ':', '"']
/-- `","values":[` -/
def litValues : List Char := ['"', ',', '"', 'v', 'a', 'l', 'u', 'e', 's', '"', ':', '[']
/-- `","id":null,"values":[` -/
def litIdNull : List Char := ['"', ',', '"', 'i', 'd', '"', ':', 'n', 'u', 'l', 'l', ',', '"', 'v', 'a', 'l', 'u', 'e', 's', '"', ':', '[']
/-- `]}` -/
def litClose : List Char := [']', '}']
/-- `window.__LEPTOS_I18N_TRANSLATIONS` -/
def globalName : List Char := ['w', 'i', 'n', 'd', 'o', 'w', '.', '_', '_', 'L', 'E', 'P', 'T', 'O', 'S', '_', 'I', '1', '8', 'N', '_', 'T', 'R', 'A', 'N', 'S', 'L', 'A', 'T', 'I', 'O', 'N', 'S']
/-- `];` -/
def litEnd : List Char := [']', ';']

example : litLocale = "{\"locale\":\"".toList := by decide +kernel
example : litId = "\",\"id\":\"".toList := by decide +kernel
example : litValues = "\",\"values\":[".toList := by decide +kernel
example : litIdNull = "\",\"id\":null,\"values\":[".toList := by decide +kernel
example : litClose = "]}".toList := by decide +kernel
example : globalName ++ [' ', '=', ' ', '['] = "window.__LEPTOS_I18N_TRANSLATIONS = [".toList := by decide +kernel
example : litEnd = "];".toList := by decide +kernel

/-- one iteration of the outer loop, after the separating comma.  `locale.as_str()` and the id
    string are pushed as they are. -/
def unitBody (u : TUnit) : List Char :=
  litLocale ++ (u.locale ++
    ((match u.id with
      | some i => litId ++ (i ++ litValues)
      | none => litIdNull) ++
    (valuesLoop true u.values ++ litClose)))

def unitsLoop (first : Bool) : List TUnit → List Char
  | [] => []
  | u :: us => (if first then [] else [',']) ++ (unitBody u ++ unitsLoop false us)

/-- `window.__LEPTOS_I18N_TRANSLATIONS = [` -/
def arrayPrefix : List Char := globalName ++ [' ', '=', ' ', '[']

/-- `RegisterCtx::to_array`, for the entries of the map in the order the `HashMap` iterates them -/
def toArray (entries : List TUnit) : List Char :=
  arrayPrefix ++ (unitsLoop true entries ++ litEnd)

/-! ### The former behaviours (for the witnesses of F15 / F16 only) -/

def hexDigitLower : Nat → Char
  | 10 => 'a' | 11 => 'b' | 12 => 'c' | 13 => 'd' | 14 => 'e' | 15 => 'f' | n => hexDigit n

/-- minimal-width lower-case hexadecimal, most significant digit first (`{:x}`), by fuel -/
def hexLower : Nat → Nat → List Char
  | 0, _ => []
  | fuel + 1, n => (if n < 16 then [] else hexLower fuel (n / 16)) ++ [hexDigitLower (n % 16)]

/-- Characters `char::escape_debug` certainly writes as `\u{..}`: an *under*-approximation of Rust's
    "not printable / grapheme-extending" tables, enough for the witnesses. -/
def oldDebugUnprintable (c : Char) : Bool :=
  let n := c.toNat
  n < 0x20 || (0x7f ≤ n && n ≤ 0xa0) || n == 0xad || (0x200b ≤ n && n ≤ 0x200f)
    || (0x2028 ≤ n && n ≤ 0x202e) || n == 0xfeff

/-- Rust `{:?}` on a `str`, character by character (`'` is left alone inside strings) -/
def oldDebugEscChar (c : Char) : List Char :=
  if c = '"' then ['\\', '"']
  else if c = '\\' then ['\\', '\\']
  else if c = '\n' then ['\\', 'n']
  else if c = '\r' then ['\\', 'r']
  else if c = '\t' then ['\\', 't']
  else if c = '\x00' then ['\\', '0']
  else if oldDebugUnprintable c then ['\\', 'u', '{'] ++ (hexLower 6 c.toNat ++ ['}'])
  else [c]

def oldDebugQuote (s : List Char) : List Char := '"' :: (escBody oldDebugEscChar s ++ ['"'])

def oldFormatterRest : List (List Char) → List Char
  | [] => []
  | s :: ss => ',' :: (oldDebugQuote s ++ oldFormatterRest ss)

/-- the formatter before F15: `write!(f, "{:?}", s)` -/
def oldFormatter : List (List Char) → List Char
  | [] => ['[', ']']
  | s :: ss => '[' :: (oldDebugQuote s ++ (oldFormatterRest ss ++ [']']))

def oldValuesLoop (first : Bool) : List (List Char) → List Char
  | [] => []
  | v :: vs => (if first then [] else [',']) ++ ('"' :: (v ++ ['"']) ++ oldValuesLoop false vs)

def oldUnitBody (u : TUnit) : List Char :=
  litLocale ++ (u.locale ++
    ((match u.id with
      | some i => litId ++ (i ++ litValues)
      | none => litIdNull) ++
    (oldValuesLoop true u.values ++ litClose)))

def oldUnitsLoop (first : Bool) : List TUnit → List Char
  | [] => []
  | u :: us => (if first then [] else [',']) ++ (oldUnitBody u ++ oldUnitsLoop false us)

/-- `to_array` before F16: the value is pushed between two quotes as it is -/
def oldToArray (entries : List TUnit) : List Char :=
  arrayPrefix ++ (oldUnitsLoop true entries ++ litEnd)

end I18nVerif.Escape
