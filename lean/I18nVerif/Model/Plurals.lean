import I18nVerif.Model.World
import I18nVerif.Model.Key
/-
`Locale::is_possible_plural`, `Locale::merge_plurals`, `Plurals::check_forms`
(`locale.rs:537-636`, `plurals.rs:95-111`).
-/
namespace I18nVerif.Plurals
open I18nVerif Str

/-- `is_possible_plural`: `(base, rule type, form)` -/
def isPossiblePlural (key : Str) (v : PV) : Option (Str × RuleTy × Form) :=
  match v with
  | .ranges _ _ _ => none
  | .subkeys _ => none
  | .dflt => none
  | _ =>
    match rsplitOnceC '_' key with
    | none => none
    | some (base, suffix) =>
      let (base, rule) : Str × RuleTy := match stripSuffix "_ordinal".toList base with
        | some b => (b, .ordinal)
        | none => (base, .cardinal)
      (Form.ofStr suffix).map (fun f => (base, rule, f))

/-- candidates of one base key: a `BTreeMap<PluralForm, (Key, PluralRuleType, ParsedValue)>` -/
abbrev Cands := List (Form × Str × RuleTy × PV)

def candInsert (f : Form) (e : Str × RuleTy × PV) : Cands → Cands × Bool
  | [] => ([(f, e)], false)
  | (f', e') :: rest =>
    if f' == f then ((f, e) :: rest, true)
    else if f.toNat < f'.toNat then ((f, e) :: (f', e') :: rest, false)
    else let (r, d) := candInsert f e rest; ((f', e') :: r, d)

/-- `check_forms`: one warning per written form the locale's rules never select -/
def checkForms (orc : Oracle) (locale : Str) (path : KeyPath) (rule : RuleTy) (forms : List (Form × PV)) :
    Res (List Warning) :=
  match orc.cats locale rule with
  | none => .err "InvalidLocale"
  | some used => .ok ((forms.filter (fun (f, _) => !used.contains f)).map (fun (f, _) => .unusedForm locale path f rule))

def pushKey (p : KeyPath) (k : Str) : KeyPath := { p with path := p.path ++ [k] }

/-- second loop of `merge_plurals`: turn the candidate groups into `Plurals` or put them back -/
def finishGroups (orc : Oracle) (locale : Str) (path : KeyPath) :
    List (Str × Cands) → List (Str × PV) → List Warning → Res (List (Str × PV) × List Warning)
  | [], keys, ws => .ok (keys, ws)
  | (base, cands) :: rest, keys, ws =>
    let putBack (cs : Cands) := cs.foldl (fun m (_, k, _, v) => AMap.insert' k v m) keys
    if cands.length == 1 then finishGroups orc locale path rest (putBack cands) ws
    else match cands.find? (fun (f, _) => f == .other) with
      | none => finishGroups orc locale path rest (putBack cands) ws
      | some (_, _, ruleTy, other) =>
        let others := cands.filter (fun (f, _) => f != .other)
        match Key.new base with
        | none => .err "InvalidKey"
        | some key =>
          if others.any (fun (_, _, r, _) => r != ruleTy) then .err "ConflictingPluralRuleType"
          else
            let forms := others.map (fun (f, _, _, v) => (f, v))
            match checkForms orc locale (pushKey path key) ruleTy forms with
            | .err e => .err e
            | .panic p => .panic p
            | .ok ws' =>
              let (keys', displaced) := AMap.insert key (.plurals ruleTy "var_count".toList other forms) keys
              if displaced.isSome then .err "PluralsAtNormalKey"
              else finishGroups orc locale path rest keys' (ws ++ ws')

/-- `Locale::merge_plurals` (fuel bounds the subkey depth) -/
def mergePlurals (orc : Oracle) (locale : Str) : Nat → KeyPath → Loc → Res (Loc × List Warning)
  | 0, _, _ => .panic "fuel"
  | fuel + 1, path, .mk n t keys s c =>
    -- first loop: recurse into subkeys, split candidates from ordinary keys
    let rec loop : List (Str × PV) → List (Str × PV) → List (Str × Cands) → List Warning →
        Res (List (Str × PV) × List (Str × Cands) × List Warning)
      | [], acc, groups, ws => .ok (acc, groups, ws)
      | (k, v) :: rest, acc, groups, ws =>
        let v' : Res (PV × List Warning) := match v with
          | .subkeys (some sub) =>
            match mergePlurals orc locale fuel (pushKey path k) sub with
            | .ok (sub', w) => .ok (.subkeys (some sub'), w)
            | .err e => .err e
            | .panic p => .panic p
          | other => .ok (other, [])
        match v' with
        | .err e => .err e
        | .panic p => .panic p
        | .ok (v, w) =>
          match isPossiblePlural k v with
          | some (base, rule, form) =>
            let cur := (AMap.get? base groups).getD []
            let (cur', displaced) := candInsert form (k, rule, v) cur
            if displaced then .err "ConflictingPluralRuleType"
            else loop rest acc (AMap.insert' base cur' groups) (ws ++ w)
          | none => loop rest (AMap.insert' k v acc) groups (ws ++ w)
    match loop keys [] [] [] with
    | .err e => .err e
    | .panic p => .panic p
    | .ok (acc, groups, ws) =>
      match finishGroups orc locale path groups acc ws with
      | .ok (keys', ws') => .ok (.mk n t keys' s c, ws')
      | .err e => .err e
      | .panic p => .panic p

def locDepth : Nat := 64

end I18nVerif.Plurals
