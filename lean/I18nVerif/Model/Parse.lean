import I18nVerif.Model.Value
import I18nVerif.Model.Key
import I18nVerif.Model.Formatter
import I18nVerif.Model.Json
/-
`ParsedValue::new` and its helpers (`leptos_i18n_parser/src/parse_locales/parsed_value.rs:125-439`),
function by function, in the order the Rust code tries them:
`find_foreign_key` → `find_component` → `find_variable` → literal.
Recursion is by fuel (`new s` uses `|s| + 1`, enough because every recursive call is on a strictly
shorter string); running out of fuel is the explicit outcome `panic "fuel"`.
-/
namespace I18nVerif.Parse
open I18nVerif Str

/-- `parse_key_path`: `ns:key.sub.key` -/
def parseKeyPath (p : Str) : Option KeyPath :=
  let (ns?, rest) : Option (Option Str) × Str :=
    match splitOnceC ':' p with
    | some (ns, rest) => ((Key.new ns).map some, rest)
    | none => (some none, p)
  match ns? with
  | none => none
  | some ns =>
    let keys := (splitC '.' rest).map Key.new
    if keys.all Option.isSome then some ⟨ns, keys.filterMap id⟩ else none

/-- the scan of `parse_foreign_key_args`: index (in chars) of the `}` that closes the first `{`;
    `none` = "malformed foreign key" (a `}` at depth 0, or no closing brace at all) -/
def closingBrace : Str → Nat → Nat → Option Nat
  | [], _, _ => none
  | c :: cs, depth, i =>
    if c == '{' then closingBrace cs (depth + 1) (i + 1)
    else if c == '}' then
      match depth with
      | 0 => none
      | 1 => some i
      | d + 2 => closingBrace cs (d + 1) (i + 1)
    else closingBrace cs depth (i + 1)

def litToPV : Json.JLit → Lit
  | .str s => .str s none
  | .unsigned v => .unsigned v
  | .signed v => .signed v
  | .float d => .float d
  | .bool b => .bool b

/-- `parse_foreign_key_args_inner`: JSON object → `var_<name>` ↦ parsed value (a `BTreeMap`) -/
def parseFKArgsInner (rec_ : Str → Res PV) (s : Str) : Res (List (Str × PV)) :=
  match Json.parseObject s with
  | none => .err "InvalidForeignKeyArgs"
  | some members =>
    -- serde collects into a BTreeMap<String, Literal> first (duplicate names: last wins), then
    -- iterates in key order
    let sorted := AMap.ofList members
    let rec go : List (Str × Json.JLit) → List (Str × PV) → Res (List (Str × PV))
      | [], acc => .ok acc
      | (k, v) :: rest, acc =>
        let pv : Res PV := match v with
          | .str t => rec_ t
          | other => .ok (.lit (litToPV other))
        match pv with
        | .ok pv => go rest (AMap.insert' ("var_".toList ++ trim k) pv acc)
        | .err e => .err e
        | .panic p => .panic p
    go sorted []

/-- `parse_foreign_key_args`: `(args, text after the closing parenthesis)` -/
def parseFKArgs (rec_ : Str → Res PV) (s : Str) : Res (List (Str × PV) × Str) :=
  match closingBrace s 0 0 with
  | none => .err "UnexpectedToken"
  | some index =>
    let before := s.take (index + 1)
    let after := s.drop (index + 1)
    match stripPrefix [')'] (trimStart after) with
    | none => .err "UnexpectedToken"
    | some after =>
      match parseFKArgsInner rec_ before with
      | .ok args => .ok (args, after)
      | .err e => .err e
      | .panic p => .panic p

/-- `find_foreign_key` -/
def findForeignKey (rec_ : Str → Res PV) (value : Str) : Option (Res PV) :=
  match splitOnce "$t(".toList value with
  | none => none
  | some (before, rest) =>
    match splitAtFirst (fun c => c == ',' || c == ')') rest with
    | none => none
    | some (keypath, sep, after) =>
      match parseKeyPath keypath with
      | none => none
      | some target =>
        let argsAfter : Res (List (Str × PV) × Str) :=
          if sep == ',' then parseFKArgs rec_ after else .ok ([], after)
        match argsAfter with
        | .err e => some (.err e)
        | .panic p => some (.panic p)
        | .ok (args, after) =>
          let this := PV.fk (.notSet target args)
          match rec_ before with
          | .err e => some (.err e)
          | .panic p => some (.panic p)
          | .ok b =>
            match rec_ after with
            | .err e => some (.err e)
            | .panic p => some (.panic p)
            | .ok a => some (.ok (.bloc [b, this, a]))

/-- `find_variable` -/
def findVariable (rec_ : Str → Res PV) (value : Str) : Option (Res PV) :=
  match splitOnce "{{".toList value with
  | none => none
  | some (before, rest) =>
    match splitOnce "}}".toList rest with
    | none => none
    | some (ident, after) =>
      let ident := trim ident
      match rec_ before with
      | .err e => some (.err e)
      | .panic p => some (.panic p)
      | .ok b =>
        match rec_ after with
        | .err e => some (.err e)
        | .panic p => some (.panic p)
        | .ok a =>
          match splitOnceC ',' ident with
          | some (id, fmt) =>
            match Formatter.parseFormatter fmt with
            | .err e => some (.err e)
            | .panic p => some (.panic p)
            | .ok f =>
              match Key.new ("var_".toList ++ trim id) with
              | none => none
              | some key => some (.ok (.bloc [b, .var key f, a]))
          | none =>
            match Key.new ("var_".toList ++ ident) with
            | none => none
            | some key => some (.ok (.bloc [b, .var key .none, a]))

/-- `find_opening_tag`: (before, trimmed ident, after, skip) -/
def findOpeningTag (value : Str) : Option (Str × Str × Str × Nat) :=
  match splitOnceC '<' value with
  | none => none
  | some (before, rest) =>
    match splitOnceC '>' rest with
    | none => none
    | some (ident, after) => some (before, trim ident, after, before.length + ident.length + 2)

/-- the loop of `find_closing_tag`: walk over the string; at every `<` that has a `>` somewhere
    after it, classify the text in between.  State: depth, best `(start, end)` so far.
    `i` is the offset of `s` in the original value. -/
def closingScan (key : Str) : Str → Nat → Nat → Option (Nat × Nat) → Option (Nat × Nat)
  | [], _, _, found => found
  | c :: cs, i, depth, found =>
    if c == '<' then
      match splitOnceC '>' cs with
      | none => closingScan key cs (i + 1) depth found
      | some (identRaw, _) =>
        let ident := trim identRaw
        match stripPrefix ['/'] ident with
        | some closing =>
          if trimStart closing != key then closingScan key cs (i + 1) depth found
          else if depth == 0 then closingScan key cs (i + 1) depth (some (i, i + identRaw.length + 2))
          else closingScan key cs (i + 1) (depth - 1) found
        | none =>
          if ident == key then closingScan key cs (i + 1) (depth + 1) found
          else closingScan key cs (i + 1) depth found
    else closingScan key cs (i + 1) depth found

/-- `find_closing_tag`: (component key, between, after) -/
def findClosingTag (value key : Str) : Option (Str × Str × Str) :=
  match Key.new ("comp_".toList ++ key) with
  | none => none
  | some keyIdent =>
    match closingScan key value 0 0 none with
    | none => none
    | some (start, stop) => some (keyIdent, value.take start, value.drop stop)

/-- `find_valid_component`: skip opening tags that have no closing tag -/
def findValidComponent : Nat → Str → Nat → Option (Str × Str × Str × Str)
  | 0, _, _ => none
  | fuel + 1, value, skipSum =>
    match findOpeningTag (value.drop skipSum) with
    | none => none
    | some (before, key, after, skip) =>
      match findClosingTag after key with
      | some (keyIdent, between, after') => some (keyIdent, value.take (skipSum + before.length), between, after')
      | none => findValidComponent fuel value (skipSum + skip)

/-- `find_component` -/
def findComponent (rec_ : Str → Res PV) (value : Str) : Option (Res PV) :=
  match findValidComponent (value.length + 1) value 0 with
  | none => none
  | some (key, before, between, after) =>
    match rec_ before with
    | .err e => some (.err e)
    | .panic p => some (.panic p)
    | .ok b =>
      match rec_ between with
      | .err e => some (.err e)
      | .panic p => some (.panic p)
      | .ok m =>
        match rec_ after with
        | .err e => some (.err e)
        | .panic p => some (.panic p)
        | .ok a => some (.ok (.bloc [b, .comp key m, a]))

/-- `ParsedValue::new` with explicit fuel -/
def newF : Nat → Str → Res PV
  | 0, _ => .panic "fuel"
  | fuel + 1, value =>
    match findForeignKey (newF fuel) value with
    | some r => r
    | none =>
      match findComponent (newF fuel) value with
      | some r => r
      | none =>
        match findVariable (newF fuel) value with
        | some r => r
        | none => .ok (.lit (.str value none))

def new (value : Str) : Res PV := newF (value.length + 1) value

end I18nVerif.Parse
