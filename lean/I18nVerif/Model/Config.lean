import I18nVerif.Model.Value
import I18nVerif.Model.Key
/-
`ConfigFile::new` after TOML decoding and `CfgFileVisitor::visit_map` (`cfg_file.rs`).
The TOML parser is an oracle: the model starts from the decoded `[package.metadata.leptos-i18n]`
table (fields in document order).
-/
namespace I18nVerif.Config
open I18nVerif Str

/-- decoded TOML value, as far as the visitor looks at it -/
inductive TV where
  | str (s : Str)
  | arr (l : List TV)
  | table (l : List (Str × TV))
  | other
deriving Repr, Inhabited

structure Config where
  default : Str
  locales : List Str
  namespaces : Option (List Str)
  localesDir : Str
  inherits : List (Str × Str)
deriving Repr, Inhabited

def asKey : TV → Res Str
  | .str s => match Key.new s with
    | some k => .ok k
    | none => .err "ConfigFileDeser"
  | _ => .err "ConfigFileDeser"

def asKeys : TV → Res (List Str)
  | .arr l =>
    let rec go : List TV → Res (List Str)
      | [] => .ok []
      | x :: xs =>
        match asKey x, go xs with
        | .ok k, .ok ks => .ok (k :: ks)
        | .panic p, _ => .panic p
        | _, .panic p => .panic p
        | .err e, _ => .err e
        | _, .err e => .err e
    go l
  | _ => .err "ConfigFileDeser"

def asKeyMap : TV → Res (List (Str × Str))
  | .table l =>
    let rec go : List (Str × TV) → List (Str × Str) → Res (List (Str × Str))
      | [], acc => .ok acc
      | (k, v) :: rest, acc =>
        match Key.new k, asKey v with
        | some k', .ok v' => go rest (AMap.insert' k' v' acc)
        | none, _ => .err "ConfigFileDeser"
        | _, .err e => .err e
        | _, .panic p => .panic p
    go l []
  | _ => .err "ConfigFileDeser"

structure Raw where
  default : Option Str := none
  locales : Option (List Str) := none
  namespaces : Option (List Str) := none
  localesDir : Option Str := none
  translationsUri : Option Str := none
  inherits : Option (List (Str × Str)) := none

/-- the `while let Some(field)` loop of `visit_map` -/
def fields : List (Str × TV) → Raw → Res Raw
  | [], r => .ok r
  | (k, v) :: rest, r =>
    if k == "default".toList then
      if r.default.isSome then .err "ConfigFileDeser" else
      match asKey v with
      | .ok x => fields rest { r with default := some x }
      | .err e => .err e
      | .panic p => .panic p
    else if k == "locales".toList then
      if r.locales.isSome then .err "ConfigFileDeser" else
      match asKeys v with
      | .ok x => fields rest { r with locales := some x }
      | .err e => .err e
      | .panic p => .panic p
    else if k == "namespaces".toList then
      if r.namespaces.isSome then .err "ConfigFileDeser" else
      match asKeys v with
      | .ok x => fields rest { r with namespaces := some x }
      | .err e => .err e
      | .panic p => .panic p
    else if k == "locales-dir".toList then
      if r.localesDir.isSome then .err "ConfigFileDeser" else
      match v with
      | .str s => fields rest { r with localesDir := some s }
      | _ => .err "ConfigFileDeser"
    else if k == "translations-path".toList then
      if r.translationsUri.isSome then .err "ConfigFileDeser" else
      match v with
      | .str s => fields rest { r with translationsUri := some s }
      | _ => .err "ConfigFileDeser"
    else if k == "inherits".toList then
      if r.inherits.isSome then .err "ConfigFileDeser" else
      match asKeyMap v with
      | .ok x => fields rest { r with inherits := some x }
      | .err e => .err e
      | .panic p => .panic p
    else fields rest r      -- unknown fields are skipped

def duplicates (l : List Str) : Bool :=
  match l with
  | [] => false
  | x :: xs => xs.contains x || duplicates xs

/-- `position` + `swap(0, i)` / push + `swap(0, len)` -/
def defaultFirst (default : Str) (locales : List Str) : List Str :=
  match locales.idxOf? default with
  | some i =>
    match locales with
    | [] => []
    | first :: _ => if i == 0 then locales else (locales.set i first).set 0 default
  | none =>
    match locales with
    | [] => [default]
    | first :: rest => default :: rest ++ [first]

/-- `ConfigFile::new` from the decoded table -/
def new (table : List (Str × TV)) : Res Config :=
  match fields table {} with
  | .err e => .err e
  | .panic p => .panic p
  | .ok r =>
    match r.default, r.locales with
    | none, _ => .err "ConfigFileDeser"
    | _, none => .err "ConfigFileDeser"
    | some default, some locales =>
      let inherits := r.inherits.getD []
      let known (k : Str) := locales.contains k || k == default
      if inherits.any (fun (k, v) => !known k || !known v) then .err "ConfigFileDeser"
      else if AMap.contains default inherits then .err "ConfigFileDeser"
      else
        let locales' := defaultFirst default locales
        if duplicates locales' then .err "DuplicateLocalesInConfig"
        else if (r.namespaces.map duplicates).getD false then .err "DuplicateNamespacesInConfig"
        else .ok { default, locales := locales', namespaces := r.namespaces,
                   localesDir := r.localesDir.getD "locales".toList, inherits }

end I18nVerif.Config
