/-
`split_at_config_section` and the line-preserving blanking of `ConfigFile::new` (`cfg_file.rs`): the *textual* step
that precedes TOML decoding.  The manifest is a `List Char` (every index the code computes is a line offset plus
the length of a whitespace prefix, hence a character boundary).  The TOML parser itself stays an oracle.
-/
namespace I18nVerif.Manifest

/-- `const HEADER` -/
def header : List Char := "[package.metadata.leptos-i18n]".toList

/-- `char::is_whitespace` (Unicode `White_Space`), what `str::trim_start` removes -/
def isWs (c : Char) : Bool :=
  let n := c.toNat
  (9 ≤ n && n ≤ 13) || n == 0x20 || n == 0x85 || n == 0xA0 || n == 0x1680 || (0x2000 ≤ n && n ≤ 0x200A) ||
    n == 0x2028 || n == 0x2029 || n == 0x202F || n == 0x205F || n == 0x3000

/-- `str::trim_start` -/
def trimStart (l : List Char) : List Char := l.dropWhile isWs

/-- `str::split_inclusive('\n')`: every line keeps its terminator, no empty last line -/
def lines : List Char → List (List Char)
  | [] => []
  | c :: cs =>
    if c = '\n' then [c] :: lines cs
    else match lines cs with
      | [] => [[c]]
      | l :: ls => (c :: l) :: ls

/-- `trimmed.starts_with(HEADER)` -/
def startsSection (line : List Char) : Bool := header.isPrefixOf (trimStart line)

/-- the `for line in …` loop; `pre` is the text of the lines already passed (`&manifest[..offset]`) -/
def findSection : List (List Char) → List Char → Option (List Char × List Char)
  | [], _ => none
  | l :: ls, pre =>
    if startsSection l then
      some (pre ++ l.takeWhile isWs, (trimStart l).drop header.length ++ ls.flatten)
    else findSection ls (pre ++ l)

/-- `split_at_config_section` -/
def splitAtSection (m : List Char) : Option (List Char × List Char) := findSection (lines m) []

/-- number of line terminators -/
def countNl (l : List Char) : Nat := l.count '\n'

/-- `cfg_file_whitespaced`: the text handed to the TOML parser -/
def whitespaced (m : List Char) : Option (List Char) :=
  (splitAtSection m).map fun (b, r) => b.filter (· == '\n') ++ r

/-- 1-based line of the character at offset `k` -/
def lineOf (text : List Char) (k : Nat) : Nat := countNl (text.take k) + 1

end I18nVerif.Manifest
