import I18nVerif.Model.Value
/-
`ParsedValue::reduce` / `reduce_into` (`parsed_value.rs:672-757`): flatten nested blocs, drop empty
strings, join adjacent literals, unwrap resolved foreign keys.
Panic sites: an unresolved foreign key (`as_inner_mut`/`into_inner`), emptied subkeys.
-/
namespace I18nVerif.Reduce
open I18nVerif

/-- push a literal at the end of a bloc, joining with a literal already there -/
def pushLit (l : Lit) (acc : List PV) : List PV :=
  match acc.getLast? with
  | some (.lit last) => acc.dropLast ++ [.lit (last.join l)]
  | _ => acc ++ [.lit l]

/-- the tail of `reduce` on a bloc -/
def wrapBloc : List PV → PV
  | [] => PV.empty
  | [one] => one
  | l => .bloc l

mutual
def reduce : PV → Res PV
  | .lit l => .ok (.lit l)
  | .var k f => .ok (.var k f)
  | .dflt => .ok .dflt
  | .fk (.set inner) => reduce inner
  | .fk (.notSet _ _) => .panic "reduce: unresolved foreign key"
  | .ranges ck t bs =>
    match reduceBranches bs with
    | .ok bs => .ok (.ranges ck t bs)
    | .err e => .err e
    | .panic p => .panic p
  | .comp k inner =>
    match reduce inner with
    | .ok i => .ok (.comp k i)
    | .err e => .err e
    | .panic p => .panic p
  | .subkeys (some (.mk n t keys s c)) =>
    match reduceKeys keys with
    | .ok keys => .ok (.subkeys (some (.mk n t keys s c)))
    | .err e => .err e
    | .panic p => .panic p
  | .subkeys none => .panic "reduce: empty subkeys"
  | .bloc items =>
    match reduceIntoL items [] with
    | .ok acc => .ok (wrapBloc acc)
    | .err e => .err e
    | .panic p => .panic p
  | .plurals r ck other forms =>
    match reduceForms forms, reduce other with
    | .ok fs, .ok o => .ok (.plurals r ck o fs)
    | .panic p, _ => .panic p
    | _, .panic p => .panic p
    | .err e, _ => .err e
    | _, .err e => .err e

def reduceInto : PV → List PV → Res (List PV)
  | .dflt, acc => .ok acc
  | .subkeys _, acc => .ok acc
  | .ranges ck t bs, acc =>
    match reduceBranches bs with
    | .ok bs => .ok (acc ++ [.ranges ck t bs])
    | .err e => .err e
    | .panic p => .panic p
  | .plurals r ck other forms, acc =>
    match reduceForms forms, reduce other with
    | .ok fs, .ok o => .ok (acc ++ [.plurals r ck o fs])
    | .panic p, _ => .panic p
    | _, .panic p => .panic p
    | .err e, _ => .err e
    | _, .err e => .err e
  | .fk (.set inner), acc => reduceInto inner acc
  | .fk (.notSet _ _), _ => .panic "reduce_into: unresolved foreign key"
  | .lit l, acc => if l.isEmptyStr then .ok acc else .ok (pushLit l acc)
  | .var k f, acc => .ok (acc ++ [.var k f])
  | .comp k inner, acc =>
    match reduce inner with
    | .ok i => .ok (acc ++ [.comp k i])
    | .err e => .err e
    | .panic p => .panic p
  | .bloc items, acc => reduceIntoL items acc

def reduceIntoL : List PV → List PV → Res (List PV)
  | [], acc => .ok acc
  | x :: xs, acc =>
    match reduceInto x acc with
    | .ok acc' => reduceIntoL xs acc'
    | .err e => .err e
    | .panic p => .panic p

def reduceBranches : List (Range × PV) → Res (List (Range × PV))
  | [] => .ok []
  | (r, v) :: rest =>
    match reduce v, reduceBranches rest with
    | .ok v', .ok rest' => .ok ((r, v') :: rest')
    | .panic p, _ => .panic p
    | _, .panic p => .panic p
    | .err e, _ => .err e
    | _, .err e => .err e

def reduceForms : List (Form × PV) → Res (List (Form × PV))
  | [] => .ok []
  | (f, v) :: rest =>
    match reduce v, reduceForms rest with
    | .ok v', .ok rest' => .ok ((f, v') :: rest')
    | .panic p, _ => .panic p
    | _, .panic p => .panic p
    | .err e, _ => .err e
    | _, .err e => .err e

def reduceKeys : List (Str × PV) → Res (List (Str × PV))
  | [] => .ok []
  | (k, v) :: rest =>
    match reduce v, reduceKeys rest with
    | .ok v', .ok rest' => .ok ((k, v') :: rest')
    | .panic p, _ => .panic p
    | _, .panic p => .panic p
    | .err e, _ => .err e
    | _, .err e => .err e
end

end I18nVerif.Reduce
