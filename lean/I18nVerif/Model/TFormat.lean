import I18nVerif.Model.Formatter
/-
`leptos_i18n_macro/src/t_format/parsed_input.rs` (`ParsedInput::parse`, `parse_formatter`, `parse_arg`): the
`t*_format!` macros take `formatter: name` or `formatter: name(arg: value; arg: value ...)`. Name, argument names and
values are Rust identifiers (tokens: no surrounding whitespace to trim), collected in source order and handed to the
*same* `Formatter::from_name_and_args` as the file syntax — `Some(&args)` when the parentheses are present, `None`
otherwise. An unknown name is the compile error "unknown formatter name.".
-/
namespace I18nVerif.TFormat
open I18nVerif Formatter

def parse (name : Str) (args : Option (List (Str × Str))) : Res Fmt :=
  match fromNameAndArgs name args with
  | some f => .ok f
  | none => .err "unknown formatter name."

end I18nVerif.TFormat
