import I18nVerif.Model.Decode
import I18nVerif.Model.Foreign
import I18nVerif.Model.Check
import I18nVerif.Model.Config
/-
The whole loading pipeline: `parse_locales_raw` (files in the order the code opens them) →
`merge_plurals` → `resolve_foreign_keys` → `check_locales` (`mod.rs:40-153`).
-/
namespace I18nVerif.Pipeline
open I18nVerif Str

structure Input where
  cfg : Config.Config
  /-- decoded content of each file the configuration names: `(namespace, locale) ↦ tree`;
      an absent entry is a missing file -/
  files : List ((Option Str × Str) × J)
  oracle : Oracle
  suppress : Bool := false

structure NsOut where
  key : Option Str
  locales : List Loc
  keys : Check.BKI

structure Output where
  locales : List Str
  namespaced : Bool
  nss : List NsOut
  warnings : List Warning

def findFile (files : List ((Option Str × Str) × J)) (ns : Option Str) (locale : Str) : Option J :=
  (files.find? (fun (k, _) => k.1 == ns && k.2 == locale)).map (·.2)

/-- keys (at any depth) whose value contains a foreign key: what parsing registers in `ForeignKeysPaths` -/
def fkPathsOf (locale : Str) : Nat → KeyPath → List (Str × PV) → List (Str × KeyPath)
  | 0, _, _ => []
  | fuel + 1, path, keys =>
    keys.foldl (fun acc (k, v) =>
      let kp := Plurals.pushKey path k
      match v with
      | .subkeys (some l) => acc ++ fkPathsOf locale fuel kp l.keys
      | v => if Foreign.hasFK 1000000 v then acc ++ [(locale, kp)] else acc) []

def listLt (lt : α → α → Bool) : List α → List α → Bool
  | [], [] => false
  | [], _ :: _ => true
  | _ :: _, [] => false
  | a :: as, b :: bs => if lt a b then true else if lt b a then false else listLt lt as bs

/-- the order of `BTreeSet<(Key, KeyPath)>` -/
def pathLt (a b : Str × KeyPath) : Bool :=
  if AMap.strLt a.1 b.1 then true else if AMap.strLt b.1 a.1 then false
  else match a.2.ns, b.2.ns with
    | none, some _ => true
    | some _, none => false
    | some x, some y =>
      if AMap.strLt x y then true else if AMap.strLt y x then false else listLt AMap.strLt a.2.path b.2.path
    | none, none => listLt AMap.strLt a.2.path b.2.path

def insertSorted (x : Str × KeyPath) : List (Str × KeyPath) → List (Str × KeyPath)
  | [] => [x]
  | y :: ys => if pathLt x y then x :: y :: ys else if pathLt y x then y :: insertSorted x ys else y :: ys

def decodeNs (inp : Input) (ns : Option Str) : List Str → Res (List Loc)
  | [] => .ok []
  | l :: ls =>
    match findFile inp.files ns l with
    | none => .err "LocaleFileNotFound"
    | some j =>
      match Decode.locale l j with
      | .err e => .err e
      | .panic p => .panic p
      | .ok loc =>
        match decodeNs inp ns ls with
        | .ok locs => .ok (loc :: locs)
        | .err e => .err e
        | .panic p => .panic p

def decodeAll (inp : Input) : List (Option Str) → Res (List NS)
  | [] => .ok []
  | ns :: rest =>
    match decodeNs inp ns inp.cfg.locales with
    | .err e => .err e
    | .panic p => .panic p
    | .ok locs =>
      match decodeAll inp rest with
      | .ok nss => .ok (⟨ns, locs⟩ :: nss)
      | .err e => .err e
      | .panic p => .panic p

def mergePluralsNs (orc : Oracle) (ns : Option Str) : List Loc → List Warning → Res (List Loc × List Warning)
  | [], ws => .ok ([], ws)
  | l :: ls, ws =>
    match Plurals.mergePlurals orc l.name 1000000 ⟨ns, []⟩ l with
    | .err e => .err e
    | .panic p => .panic p
    | .ok (l', w) =>
      match mergePluralsNs orc ns ls (ws ++ w) with
      | .ok (ls', ws') => .ok (l' :: ls', ws')
      | .err e => .err e
      | .panic p => .panic p

def mergePluralsAll (orc : Oracle) : List NS → List Warning → Res (List NS × List Warning)
  | [], ws => .ok ([], ws)
  | ns :: rest, ws =>
    match mergePluralsNs orc ns.key ns.locales ws with
    | .err e => .err e
    | .panic p => .panic p
    | .ok (locs, ws') =>
      match mergePluralsAll orc rest ws' with
      | .ok (nss, ws'') => .ok (⟨ns.key, locs⟩ :: nss, ws'')
      | .err e => .err e
      | .panic p => .panic p

def checkAll (inp : Input) : List NS → List Warning → Res (List NsOut × List Warning)
  | [], ws => .ok ([], ws)
  | ns :: rest, ws =>
    match Check.checkLocalesInner inp.suppress 1000000 inp.cfg.inherits ns.key ns.locales ws with
    | .err e => .err e
    | .panic p => .panic p
    | .ok (locs, bki, ws') =>
      match checkAll inp rest ws' with
      | .ok (outs, ws'') => .ok (⟨ns.key, locs, bki⟩ :: outs, ws'')
      | .err e => .err e
      | .panic p => .panic p

/-- the state after `parse_locales_raw`: decoded locales and the registered foreign-key paths -/
def parseRaw (inp : Input) : Res (World × List (Str × KeyPath)) :=
  let nsKeys : List (Option Str) := match inp.cfg.namespaces with
    | some l => l.map some
    | none => [none]
  match decodeAll inp nsKeys with
  | .err e => .err e
  | .panic p => .panic p
  | .ok nss =>
    let paths := nss.foldl (fun acc ns =>
      ns.locales.foldl (fun acc l => (fkPathsOf l.name 1000000 ⟨ns.key, []⟩ l.keys).foldl (fun a p => insertSorted p a) acc) acc) []
    .ok (⟨inp.cfg.namespaces.isSome, nss⟩, paths)

/-- the state after `merge_plurals` and `resolve_foreign_keys` -/
def resolved (inp : Input) : Res (World × List Warning) :=
  match parseRaw inp with
  | .err e => .err e
  | .panic p => .panic p
  | .ok (w, paths) =>
    match mergePluralsAll inp.oracle w.nss [] with
    | .err e => .err e
    | .panic p => .panic p
    | .ok (nss, ws) =>
      let w' : World := { w with nss := nss }
      match Foreign.resolveAll inp.oracle ⟨inp.cfg.default, inp.cfg.inherits⟩ 1000000 paths w' with
      | .err e => .err e
      | .panic p => .panic p
      | .ok w'' => .ok (w'', ws)

/-- `parse_locales`: everything -/
def run (inp : Input) : Res Output :=
  match resolved inp with
  | .err e => .err e
  | .panic p => .panic p
  | .ok (w, ws) =>
    match checkAll inp w.nss ws with
    | .err e => .err e
    | .panic p => .panic p
    | .ok (outs, ws') => .ok ⟨inp.cfg.locales, w.namespaced, outs, ws'⟩

end I18nVerif.Pipeline
