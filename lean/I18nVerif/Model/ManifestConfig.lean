import I18nVerif.Model.Manifest
import I18nVerif.Model.Config
/-
`ConfigFile::new` from the text of Cargo.toml: the textual split (`Model/Manifest.lean`), the TOML parser — an external
call, here the parameter `toml` from the text handed to it to the decoded table in document order — and `Config.new`.
-/
namespace I18nVerif.Manifest
open I18nVerif I18nVerif.Config

def configOfManifest (toml : List Char → Res (List (Str × TV))) (m : List Char) : Res Config :=
  match whitespaced m with
  | none => .err "ConfigNotPresent"
  | some w =>
    match toml w with
    | .ok table => Config.new table
    | .err e => .err e
    | .panic p => .panic p

end I18nVerif.Manifest
