import I18nVerif.Model.Check
import I18nVerif.Model.Pipeline
/-
`leptos_i18n_build`: which ICU data the translations need (`datakey.rs:9-58` `Options`,
`find_used_datakey`; `lib.rs:79-94` `get_locales`, `lib.rs:141-159` `get_icu_keys_inner`).
The `HashSet<Options>` is a duplicate-free list (its iteration order is unspecified in Rust; only
membership is meaningful).  `Options::into_data_keys` (the ICU key tables) is outside the model.
-/
namespace I18nVerif.Datakey
open I18nVerif I18nVerif.Check

/-- `Options` -/
inductive Opt where
  | plurals
  | formatDateTime
  | formatList
  | formatNums
  | formatCurrency
deriving DecidableEq, Repr, Inhabited

/-- the `match formatter` of `find_used_datakey`: `Formatter::None => continue` -/
def fmtOpt : Fmt → Option Opt
  | .none => none
  | .number _ => some .formatNums
  | .date _ => some .formatDateTime
  | .time _ => some .formatDateTime
  | .dateTime _ _ => some .formatDateTime
  | .list _ _ => some .formatList
  | .currency _ _ => some .formatCurrency

/-- `HashSet::insert` -/
def insertOpt (o : Opt) (acc : List Opt) : List Opt :=
  if acc.contains o then acc else acc ++ [o]

/-- `if matches!(var_infos.range_count, Some(RangeOrPlural::Plural)) { insert(Plurals) }` -/
def countStep (acc : List Opt) : Option CountTy → List Opt
  | some .plural => insertOpt .plurals acc
  | _ => acc

/-- the body of `for formatter in &var_infos.formatters` -/
def fmtStep (acc : List Opt) (f : Fmt) : List Opt :=
  match fmtOpt f with
  | some o => insertOpt o acc
  | none => acc

/-- the body of the loop over `iter_vars()` -/
def varOpts (acc : List Opt) (info : VarInfo) : List Opt :=
  info.fmts.foldl fmtStep (countStep acc info.count)

/-- the loop over `iter_vars()` -/
def varsOpts (acc : List Opt) (vars : List (Str × VarInfo)) : List Opt :=
  vars.foldl (fun a p => varOpts a p.2) acc

mutual
/-- one `LocaleValue` of the loop of `find_used_datakey` -/
def usedLV : LV → List Opt → List Opt
  | .subkeys _ keys, acc => usedBKI keys acc
  | .value (.lit _) _, acc => acc
  | .value (.interpol k) _, acc => varsOpts acc k.vars
/-- `find_used_datakey` -/
def usedBKI : List (Str × LV) → List Opt → List Opt
  | [], acc => acc
  | (_, lv) :: rest, acc => usedBKI rest (usedLV lv acc)
end

/-- `find_used_datakey` on an empty set -/
def usedOptions (b : BKI) : List Opt := usedBKI b []

/-- `get_icu_keys_inner`: the builder keys of every namespace (or the single set of keys) -/
def icuOptions (out : Pipeline.Output) : List Opt :=
  out.nss.foldl (fun acc ns => usedBKI ns.keys acc) []

/-- `get_locales`: the locale names of the first namespace (`take(1)`), or of the locales -/
def getLocales (out : Pipeline.Output) : List Str :=
  match out.nss with
  | ns :: _ => ns.locales.map Loc.name
  | [] => []

end I18nVerif.Datakey
