import I18nVerif.Model.World
import I18nVerif.Model.Ranges
import I18nVerif.Model.Key
/-
Foreign keys: `ParsedValue::populate`, `Ranges::populate*`, `Plurals::populate*`,
`Plurals::find_variable`, `resolve_foreign_key{,_inner}`, `resolve_foreign_keys`
(`parsed_value.rs:441-579`, `ranges.rs:455-748`, `plurals.rs:113-253`, `mod.rs:115-127`).

The Rust code resolves in place through `RefCell`s; the model is the pure function it computes:
a foreign-key node becomes `Set (populate (resolved target) (resolved args))`.  The cycle guard
(`try_borrow_mut`) is the `visiting` list of keys whose resolution is on the call stack.
-/
namespace I18nVerif.Foreign
open I18nVerif Str

/-- `Plurals::find_variable`: exactly one variable among whitespace-only strings -/
def findVariable (values : List PV) : Res Str :=
  let isBlank : PV → Bool
    | .lit (.str s _) => (trim s).isEmpty
    | _ => false
  let rest1 := values.dropWhile isBlank
  match rest1 with
  | .var key _ :: rest2 => if rest2.all isBlank then .ok key else .err "InvalidCountArg"
  | _ => .err "InvalidCountArg"

/-- integer conversion of a literal count to the range's type: `Ok count`, `CountArgOutsideRange`
    or `InvalidCountArgType` — the 30 (count kind × range type) cases of `populate_with_count_arg` -/
def countFor (t : RangeTy) : Lit → Option (Res Dec)
  | .float d => some (if t.isFloat then .ok d else .err "InvalidCountArgType")
  | .unsigned n =>
    some (if t.isFloat then .err "InvalidCountArgType"
      else if t.inRange n then .ok (Dec.ofInt n) else .err "CountArgOutsideRange")
  | .signed i =>
    some (if t.isFloat then .err "InvalidCountArgType"
      else if t.inRange i then .ok (Dec.ofInt i) else .err "CountArgOutsideRange")
  | _ => none

def operandKey : Lit → Str
  | .float d => "f:".toList ++ d.display
  | .unsigned n => "u:".toList ++ natToStr n
  | .signed i => "i:".toList ++ intToStr i
  | _ => []

def countArgName : Str := "var_count".toList

mutual
/-- `ParsedValue::populate` -/
def populate (orc : Oracle) (locale : Str) (args : List (Str × PV)) : PV → Res PV
  | .dflt => .ok .dflt
  | .lit l => .ok (.lit l)
  | .fk (.set inner) => populate orc locale args inner
  | .fk (.notSet p a) => .ok (.fk (.notSet p a))
  | .var key f =>
    match AMap.get? key args with
    | some v => .ok v
    | none => .ok (.var key f)
  | .comp key inner =>
    match populate orc locale args inner with
    | .ok i => .ok (.comp key i)
    | .err e => .err e
    | .panic p => .panic p
  | .bloc items =>
    match populateL orc locale args items with
    | .ok l => .ok (.bloc l)
    | .err e => .err e
    | .panic p => .panic p
  | .subkeys _ => .err "InvalidForeignKey"
  | .ranges ck t bs =>
    match AMap.get? countArgName args with
    | none =>
      match populateB orc locale args bs with
      | .ok bs' => .ok (.ranges ck t bs')
      | .err e => .err e
      | .panic p => .panic p
    | some countArg =>
      match countArg with
      | .lit l =>
        match countFor t l with
        | none => .err "InvalidCountArg"
        | some (.err e) => .err e
        | some (.panic p) => .panic p
        | some (.ok c) => findValue orc locale args c bs
      | .bloc values =>
        match findVariable values with
        | .err e => .err e
        | .panic p => .panic p
        | .ok newKey =>
          match populateB orc locale args bs with
          | .ok bs' => .ok (.ranges newKey t bs')
          | .err e => .err e
          | .panic p => .panic p
      | .var key _ =>
        match populateB orc locale args bs with
        | .ok bs' => .ok (.ranges key t bs')
        | .err e => .err e
        | .panic p => .panic p
      | _ => .err "InvalidCountArg"
  | .plurals rule ck other forms =>
    let withKey (k : Str) : Res PV :=
      match populate orc locale args other, populateF orc locale args forms with
      | .ok o, .ok fs => .ok (.plurals rule k o fs)
      | .panic p, _ => .panic p
      | _, .panic p => .panic p
      | .err e, _ => .err e
      | _, .err e => .err e
    match AMap.get? countArgName args with
    | none => withKey ck
    | some countArg =>
      match countArg with
      | .lit (.str _ _) => .err "InvalidCountArg"
      | .lit (.bool _) => .err "InvalidCountArg"
      | .lit l =>
        match orc.cats locale rule with
        | none => .err "InvalidLocale"
        | some _ =>
          match orc.cat locale rule (operandKey l) with
          | none => .panic "oracle: plural category missing"
          | some .other => populate orc locale args other
          | some f =>
            match selectForm orc locale args f forms with
            | some r => r
            | none => populate orc locale args other
      | .bloc values =>
        match findVariable values with
        | .ok k => withKey k
        | .err e => .err e
        | .panic p => .panic p
      | .var key _ => withKey key
      | _ => .err "InvalidCountArg"

/-- `self.forms.get(&cat)` then populate: `none` when the form was not written -/
def selectForm (orc : Oracle) (locale : Str) (args : List (Str × PV)) (f : Form) :
    List (Form × PV) → Option (Res PV)
  | [] => none
  | (f', v) :: rest => if f' == f then some (populate orc locale args v) else selectForm orc locale args f rest

/-- `find_value`: first branch whose range contains the count -/
def findValue (orc : Oracle) (locale : Str) (args : List (Str × PV)) (c : Dec) : List (Range × PV) → Res PV
  | [] => .err "CountArgNoMatch"
  | (r, v) :: rest => if Ranges.doMatch r c then populate orc locale args v else findValue orc locale args c rest

def populateL (orc : Oracle) (locale : Str) (args : List (Str × PV)) : List PV → Res (List PV)
  | [] => .ok []
  | x :: xs =>
    match populate orc locale args x with
    | .err e => .err e
    | .panic p => .panic p
    | .ok x' =>
      match populateL orc locale args xs with
      | .ok xs' => .ok (x' :: xs')
      | .err e => .err e
      | .panic p => .panic p

def populateB (orc : Oracle) (locale : Str) (args : List (Str × PV)) : List (Range × PV) → Res (List (Range × PV))
  | [] => .ok []
  | (r, x) :: xs =>
    match populate orc locale args x with
    | .err e => .err e
    | .panic p => .panic p
    | .ok x' =>
      match populateB orc locale args xs with
      | .ok xs' => .ok ((r, x') :: xs')
      | .err e => .err e
      | .panic p => .panic p

def populateF (orc : Oracle) (locale : Str) (args : List (Str × PV)) : List (Form × PV) → Res (List (Form × PV))
  | [] => .ok []
  | (f, x) :: xs =>
    match populate orc locale args x with
    | .err e => .err e
    | .panic p => .panic p
    | .ok x' =>
      match populateF orc locale args xs with
      | .ok xs' => .ok ((f, x') :: xs')
      | .err e => .err e
      | .panic p => .panic p
end

/-- what `resolve_foreign_key*` reads of the configuration: the default locale and the `inherits` table -/
structure Fallbacks where
  default : Str
  inherits : List (Str × Str)
deriving Inhabited

/-- `cfg_file.extensions.get(cur).filter(|l| !visited.contains(l)).unwrap_or(&cfg_file.default)` -/
def nextLocale (fb : Fallbacks) (visited : List Str) (cur : Str) : Str :=
  match AMap.get? cur fb.inherits with
  | some l => if visited.contains l then fb.default else l
  | none => fb.default

/-- the loop of `resolve_foreign_key_inner`: walking from `cur` through `inherits` (a locale already visited, or no
    entry, means the default locale), the first locale whose value at `target` is neither absent nor an explicit
    default, with that value.  The default locale has nowhere to fall back to: `MissingForeignKey` /
    `ExplicitDefaultInDefault`.  Each turn either stops or adds a locale with an `inherits` entry to `visited`
    (or moves to the default locale, which stops): `inherits.length + 2` turns suffice. -/
def findDefining (w : World) (fb : Fallbacks) : Nat → List Str → Str → KeyPath → Res (Str × PV)
  | 0, _, _, _ => .panic "fuel"
  | fuel + 1, visited, cur, target =>
    match w.getValueAt cur target with
    | .err e => .err e
    | .panic p => .panic p
    | .ok (some .dflt) =>
      if cur == fb.default then .err "ExplicitDefaultInDefault"
      else findDefining w fb fuel (cur :: visited) (nextLocale fb (cur :: visited) cur) target
    | .ok (some v) => .ok (cur, v)
    | .ok none =>
      if cur == fb.default then .err "MissingForeignKey"
      else findDefining w fb fuel (cur :: visited) (nextLocale fb (cur :: visited) cur) target

/-- physical identity of a key: (namespace-qualified path, locale) -/
abbrev KeyId := Str × KeyPath

mutual
/-- `ParsedValue::resolve_foreign_key` as a pure function: every foreign-key node of `pv` (which
    lives in key `phys`; lookups are made in locale `top`) becomes `Set`. -/
def resolvePV (orc : Oracle) (w : World) (dflt : Fallbacks) :
    Nat → List KeyId → KeyId → Str → PV → Res PV
  | 0, _, _, _, _ => .panic "fuel"
  | fuel + 1, visiting, phys, top, pv =>
    match pv with
    | .var k f => .ok (.var k f)
    | .lit l => .ok (.lit l)
    | .dflt => .ok .dflt
    | .subkeys l => .ok (.subkeys l)
    | .fk (.set inner) => .ok (.fk (.set inner))
    | .comp k inner =>
      match resolvePV orc w dflt fuel visiting phys top inner with
      | .ok i => .ok (.comp k i)
      | .err e => .err e
      | .panic p => .panic p
    | .bloc items =>
      match resolveL orc w dflt fuel visiting phys top items with
      | .ok l => .ok (.bloc l)
      | .err e => .err e
      | .panic p => .panic p
    | .ranges ck t bs =>
      match resolveB orc w dflt fuel visiting phys top bs with
      | .ok l => .ok (.ranges ck t l)
      | .err e => .err e
      | .panic p => .panic p
    | .plurals r ck other forms =>
      match resolveF orc w dflt fuel visiting phys top forms with
      | .err e => .err e
      | .panic p => .panic p
      | .ok fs =>
        match resolvePV orc w dflt fuel visiting phys top other with
        | .ok o => .ok (.plurals r ck o fs)
        | .err e => .err e
        | .panic p => .panic p
    | .fk (.notSet target args) => resolveNode orc w dflt fuel visiting phys top target args

/-- `resolve_foreign_key_inner` (the node lives in key `phys`; `top` is the locale of the node: its arguments are
    resolved and the target populated in `top`; the target's value is the one of the first locale of `top`'s
    fallback walk which defines it) -/
def resolveNode (orc : Oracle) (w : World) (dflt : Fallbacks) :
    Nat → List KeyId → KeyId → Str → KeyPath → List (Str × PV) → Res PV
  | 0, _, _, _, _, _ => .panic "fuel"
  | fuel + 1, visiting, phys, top, target, args =>
    match findDefining w dflt (dflt.inherits.length + 2) [] top target with
    | .err e => .err e
    | .panic p => .panic p
    | .ok (src, value) =>
      let tid : KeyId := (src, target)
      let visiting' := phys :: visiting
      -- re-entering a key whose foreign key is being resolved: `try_borrow_mut` fails
      if visiting'.contains tid then .err "RecursiveForeignKey" else
      match resolvePV orc w dflt fuel visiting' tid src value with
      | .err e => .err e
      | .panic p => .panic p
      | .ok value' =>
        match resolveArgs orc w dflt fuel visiting' phys top args with
        | .err e => .err e
        | .panic p => .panic p
        | .ok args' =>
          match populate orc top args' value' with
          | .ok v => .ok (.fk (.set v))
          | .err e => .err e
          | .panic p => .panic p

def resolveL (orc : Oracle) (w : World) (dflt : Fallbacks) :
    Nat → List KeyId → KeyId → Str → List PV → Res (List PV)
  | 0, _, _, _, _ => .panic "fuel"
  | _ + 1, _, _, _, [] => .ok []
  | fuel + 1, visiting, phys, top, x :: xs =>
    match resolvePV orc w dflt fuel visiting phys top x with
    | .err e => .err e
    | .panic p => .panic p
    | .ok x' =>
      match resolveL orc w dflt fuel visiting phys top xs with
      | .ok xs' => .ok (x' :: xs')
      | .err e => .err e
      | .panic p => .panic p

def resolveB (orc : Oracle) (w : World) (dflt : Fallbacks) :
    Nat → List KeyId → KeyId → Str → List (Range × PV) → Res (List (Range × PV))
  | 0, _, _, _, _ => .panic "fuel"
  | _ + 1, _, _, _, [] => .ok []
  | fuel + 1, visiting, phys, top, (r, x) :: xs =>
    match resolvePV orc w dflt fuel visiting phys top x with
    | .err e => .err e
    | .panic p => .panic p
    | .ok x' =>
      match resolveB orc w dflt fuel visiting phys top xs with
      | .ok xs' => .ok ((r, x') :: xs')
      | .err e => .err e
      | .panic p => .panic p

def resolveF (orc : Oracle) (w : World) (dflt : Fallbacks) :
    Nat → List KeyId → KeyId → Str → List (Form × PV) → Res (List (Form × PV))
  | 0, _, _, _, _ => .panic "fuel"
  | _ + 1, _, _, _, [] => .ok []
  | fuel + 1, visiting, phys, top, (f, x) :: xs =>
    match resolvePV orc w dflt fuel visiting phys top x with
    | .err e => .err e
    | .panic p => .panic p
    | .ok x' =>
      match resolveF orc w dflt fuel visiting phys top xs with
      | .ok xs' => .ok ((f, x') :: xs')
      | .err e => .err e
      | .panic p => .panic p

def resolveArgs (orc : Oracle) (w : World) (dflt : Fallbacks) :
    Nat → List KeyId → KeyId → Str → List (Str × PV) → Res (List (Str × PV))
  | 0, _, _, _, _ => .panic "fuel"
  | _ + 1, _, _, _, [] => .ok []
  | fuel + 1, visiting, phys, top, (k, x) :: xs =>
    match resolvePV orc w dflt fuel visiting phys top x with
    | .err e => .err e
    | .panic p => .panic p
    | .ok x' =>
      match resolveArgs orc w dflt fuel visiting phys top xs with
      | .ok xs' => .ok ((k, x') :: xs')
      | .err e => .err e
      | .panic p => .panic p
end

mutual
/-- is there a foreign key anywhere in the value? — what `ForeignKey::new` registers in `ForeignKeysPaths`
    while parsing (exact, structural) -/
def containsFK : PV → Bool
  | .fk _ => true
  | .comp _ i => containsFK i
  | .bloc l => containsFKL l
  | .ranges _ _ bs => containsFKB bs
  | .plurals _ _ o fs => containsFK o || containsFKF fs
  | _ => false
def containsFKL : List PV → Bool
  | [] => false
  | x :: xs => containsFK x || containsFKL xs
def containsFKB : List (Range × PV) → Bool
  | [] => false
  | (_, x) :: xs => containsFK x || containsFKB xs
def containsFKF : List (Form × PV) → Bool
  | [] => false
  | (_, x) :: xs => containsFK x || containsFKF xs
end

/-- kept for its callers: the fuel argument is ignored -/
def hasFK (_fuel : Nat) (v : PV) : Bool := containsFK v

/-- `get_merged_plural_at`: the path with its last key replaced by the plural base key it may have been merged
    into (the paths are registered before `merge_plurals`) -/
def mergedPath (p : KeyPath) : Option KeyPath :=
  match p.path.getLast? with
  | none => none
  | some last =>
    match rsplitOnceC '_' last with
    | none => none
    | some (base, _) =>
      let base := (stripSuffix "_ordinal".toList base).getD base
      match Key.new base with
      | none => none
      | some b => some { p with path := p.path.dropLast ++ [b] }

/-- resolve the value stored at `p` (if any) and store the result -/
def resolveAt (orc : Oracle) (dflt : Fallbacks) (fuel : Nat) (locale : Str) (p : KeyPath) (w : World) : Res (World × Bool) :=
  match w.getValueAt locale p with
  | .err e => .err e
  | .panic s => .panic s
  | .ok none => .ok (w, false)
  | .ok (some v) =>
    match resolvePV orc w dflt fuel [] (locale, p) locale v with
    | .err e => .err e
    | .panic s => .panic s
    | .ok v' => .ok (w.setValueAt locale p v', true)

/-- `resolve_foreign_keys`: registered `(locale, path)` pairs in `BTreeSet` order; for each, the value at the
    registered path *and* the plural the key may have been merged into are resolved (both can exist: `x_one` → `x`
    while `x_one_one`/`x_one_other` → `x_one`); neither existing is the panic site `resolve_foreign_keys_1` -/
def resolveAll (orc : Oracle) (dflt : Fallbacks) (fuel : Nat) : List (Str × KeyPath) → World → Res World
  | [], w => .ok w
  | (locale, p) :: rest, w =>
    match resolveAt orc dflt fuel locale p w with
    | .err e => .err e
    | .panic s => .panic s
    | .ok (w1, found1) =>
      let second : Res (World × Bool) := match mergedPath p with
        | none => .ok (w1, false)
        | some p' => resolveAt orc dflt fuel locale p' w1
      match second with
      | .err e => .err e
      | .panic s => .panic s
      | .ok (w2, found2) =>
        if found1 || found2 then resolveAll orc dflt fuel rest w2 else .panic "resolve_foreign_keys_1"

end I18nVerif.Foreign
