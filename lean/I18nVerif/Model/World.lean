import I18nVerif.Model.Value
/-
`LocalesOrNamespaces`, `get_value_at`, warnings and the CLDR oracle.
-/
namespace I18nVerif

structure NS where
  key : Option Str
  locales : List Loc
deriving Inhabited

/-- `LocalesOrNamespaces`: `namespaced = false` ⇒ exactly one `NS` with `key = none` -/
structure World where
  namespaced : Bool
  nss : List NS
deriving Inhabited

inductive Warning where
  | missing (locale : Str) (path : KeyPath)
  | surplus (locale : Str) (path : KeyPath)
  | unusedForm (locale : Str) (path : KeyPath) (form : Form) (rule : RuleTy)
deriving Repr

/-- ICU4X as an oracle: plural categories of a locale, category of a literal operand -/
structure Oracle where
  cats : Str → RuleTy → Option (List Form)
  cat : Str → RuleTy → Str → Option Form

namespace World

/-- `Locale::get_value_at` -/
def locGet : List (Str × PV) → List Str → Res (Option PV)
  | _, [] => .ok none
  | keys, [k] => .ok (AMap.get? k keys)
  | keys, k :: rest =>
    match AMap.get? k keys with
    | none => .ok none
    | some (.subkeys (some l)) => locGet l.keys rest
    | some (.subkeys none) => .panic "get_value_at: empty subkeys"
    | some _ => .ok none
termination_by _ p => p.length

/-- `LocalesOrNamespaces::get_value_at` -/
def getValueAt (w : World) (top : Str) (p : KeyPath) : Res (Option PV) :=
  match p.ns, w.namespaced with
  | none, true => .ok none
  | some _, false => .ok none
  | none, false =>
    match w.nss with
    | ns :: _ =>
      match ns.locales.find? (fun l => l.name == top) with
      | some l => locGet l.keys p.path
      | none => .ok none
    | [] => .ok none
  | some target, true =>
    match w.nss.find? (fun ns => ns.key == some target) with
    | none => .ok none
    | some ns =>
      match ns.locales.find? (fun l => l.name == top) with
      | some l => locGet l.keys p.path
      | none => .ok none

/-- replace the value at a path (used by the pure rendering of in-place foreign-key resolution) -/
def locSet : List (Str × PV) → List Str → PV → List (Str × PV)
  | keys, [], _ => keys
  | keys, [k], v => keys.map (fun (k', v') => if k' == k then (k', v) else (k', v'))
  | keys, k :: rest, v =>
    keys.map (fun (k', v') =>
      if k' == k then
        match v' with
        | .subkeys (some (.mk n t ks s c)) => (k', .subkeys (some (.mk n t (locSet ks rest v) s c)))
        | other => (k', other)
      else (k', v'))
termination_by _ p => p.length

def setValueAt (w : World) (top : Str) (p : KeyPath) (v : PV) : World :=
  { w with nss := w.nss.map (fun ns =>
      if ns.key == p.ns then
        { ns with locales := ns.locales.map (fun l => if l.name == top then l.setKeys (locSet l.keys p.path v) else l) }
      else ns) }

end World
end I18nVerif
