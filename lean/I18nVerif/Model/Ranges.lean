import I18nVerif.Model.Value
/-
Ranges (`leptos_i18n_parser/src/parse_locales/ranges.rs`): number parsing for the ten numeric
types, `Range::new`, `Range::flatten`, `Range::do_match`, `check_deserialization`.
Numbers are exact (`Dec`); integer types carry their bounds (the property is *about* MIN/MAX and
`checked_sub`), floats are the finite decimals a file can spell (non-finite values are rejected).
-/
namespace I18nVerif.Ranges
open I18nVerif Str

/-- `str::parse::<iN/uN>()`: optional sign (`-` only for signed types), at least one digit, in range -/
def parseInt (t : RangeTy) (s : Str) : Option Int :=
  let signed := t.min < 0
  let (neg, digits) : Bool × Str := match s with
    | '-' :: r => (true, r)
    | '+' :: r => (false, r)
    | _ => (false, s)
  if neg && !signed then none else
  match parseDigits digits with
  | none => none
  | some n =>
    let v : Int := if neg then -(n : Int) else n
    if t.inRange v then some v else none

def lower (s : Str) : Str := s.map Char.toLower

/-- largest magnitude that still rounds to a finite float: `|v| < 2^(emax+1) - 2^(emax-p)` -/
def finiteBound : RangeTy → Int
  | .f32 => (2 : Int) ^ 128 - (2 : Int) ^ 103
  | _ => (2 : Int) ^ 1024 - (2 : Int) ^ 970

def isFinite (t : RangeTy) (d : Dec) : Bool :=
  let b := Dec.ofInt (finiteBound t)
  Dec.lt d b && Dec.lt (Dec.ofInt (-(finiteBound t))) d

/-- `str::parse::<f32/f64>()` restricted to finite results (non-finite values are not range numbers) -/
def parseFloat (t : RangeTy) (s : Str) : Option Dec :=
  let (neg, body) : Bool × Str := match s with
    | '-' :: r => (true, r)
    | '+' :: r => (false, r)
    | _ => (false, s)
  let intD := body.takeWhile isDigit
  let r1 := body.dropWhile isDigit
  let (frac, r2) : Str × Str := match r1 with
    | '.' :: r => (r.takeWhile isDigit, r.dropWhile isDigit)
    | _ => ([], r1)
  if intD.isEmpty && frac.isEmpty then none else
  let exp? : Option Int := match r2 with
    | [] => some 0
    | c :: r =>
      if c == 'e' || c == 'E' then
        let (eneg, ed) : Bool × Str := match r with
          | '-' :: r' => (true, r')
          | '+' :: r' => (false, r')
          | _ => (false, r)
        match parseDigits ed with
        | some v => some (if eneg then -(v : Int) else v)
        | none => none
      else none
  match exp? with
  | none => none
  | some ex =>
    let mant : Nat := (intD ++ frac).foldl (fun acc c => acc * 10 + digitVal c) 0
    let m : Int := if neg then -(mant : Int) else mant
    let e10 : Int := (frac.length : Int) - ex
    let d : Dec := if e10 ≥ 0 then ⟨m, e10.toNat⟩ else ⟨m * (10 : Int) ^ (-e10).toNat, 0⟩
    if isFinite t d then some d else none

def parseNum (t : RangeTy) (s : Str) : Option Dec :=
  if t.isFloat then parseFloat t s else (parseInt t s).map Dec.ofInt

/-- `RangeNumber::range_end_bound` of an exclusive end: integers `checked_sub(1)`, floats keep `Excluded` -/
def rangeEndBound (t : RangeTy) (v : Dec) : Option Bound :=
  if t.isFloat then some (.excl v)
  else if v.m - 1 < t.min then none else some (.incl ⟨v.m - 1, 0⟩)

/-- `Range::flatten` -/
def flatten (r : Range) : Range :=
  match r with
  | .multi l => if l.any (fun x => match x with | .fallback => true | _ => false) then .fallback else .multi l
  | r => r

/-- the non-`|` part of `Range::new` (`s` already trimmed, not `_`/`..`) -/
def newSimple (t : RangeTy) (s : Str) : Res Range :=
  match splitOnce "..".toList s with
  | some (start, stop) =>
    let start := trim start
    let stop := trim stop
    let start? : Res (Option Dec) :=
      if start.isEmpty then .ok none else
      match parseNum t start with
      | some v => .ok (some v)
      | none => .err "RangeParse"
    match start? with
    | .err e => .err e
    | .panic p => .panic p
    | .ok start =>
      let stop? : Res Bound :=
        if stop.isEmpty then .ok .unb
        else match stripPrefix ['='] stop with
          | some e =>
            match parseNum t (trimStart e) with
            | some v => .ok (.incl v)
            | none => .err "RangeParse"
          | none =>
            match parseNum t stop with
            | none => .err "RangeParse"
            | some v =>
              match rangeEndBound t v with
              | some b => .ok b
              | none => .err "InvalidBoundEnd"
      match stop? with
      | .err e => .err e
      | .panic p => .panic p
      | .ok stop =>
        let impossible : Bool := match start, stop with
          | some s, .excl e => Dec.le e s
          | some s, .incl e => Dec.lt e s
          | _, _ => false
        if impossible then .err "ImpossibleRange" else .ok (.bounds start stop)
  | none =>
    match parseNum t s with
    | some v => .ok (.exact v)
    | none => .err "RangeParse"

def newPiece (t : RangeTy) (s : Str) : Res Range :=
  let s := trim s
  if s == ['_'] || s == "..".toList then .ok .fallback else newSimple t s

/-- `Range::new`.  A piece of a `|` list cannot contain `|` itself, so one level of splitting is
    the whole recursion of the Rust code. -/
def new (t : RangeTy) (s0 : Str) : Res Range :=
  let s := trim s0
  if s == ['_'] || s == "..".toList then .ok .fallback
  else if contains '|' s then
    let rec go : List Str → List Range → Res Range
      | [], acc => .ok (flatten (.multi acc.reverse))
      | p :: ps, acc =>
        match newPiece t p with
        | .ok r => go ps (r :: acc)
        | .err e => .err e
        | .panic p => .panic p
    go (splitC '|' s) []
  else newSimple t s

/-- `Range::do_match` -/
def doMatch : Range → Dec → Bool
  | .exact v, c => Dec.eq v c
  | .bounds start stop, c =>
    (match start with
      | some s => !(Dec.lt c s)
      | none => true) &&
    (match stop with
      | .incl e => Dec.le c e
      | .excl e => Dec.lt c e
      | .unb => true)
  | .multi l, c => doMatchAny l c
  | .fallback, _ => true
where doMatchAny : List Range → Dec → Bool
  | [], _ => false
  | r :: rs, c => doMatch r c || doMatchAny rs c

def isFallback : Range → Bool
  | .fallback => true
  | _ => false

/-- `check_de_inner`: (invalid_fallback, fallback_count) -/
def checkDe (rs : List Range) : Bool × Nat :=
  let invalid := (rs.reverse.drop 1).any (fun r => match r with
    | .fallback => true
    | .multi l => l.any isFallback
    | _ => false)
  (invalid, (rs.filter isFallback).length)

def tyOfStr (s : Str) : Option RangeTy :=
  let t := trim s
  [RangeTy.i8, .i16, .i32, .i64, .u8, .u16, .u32, .u64, .f32, .f64].find? (fun ty => ty.name.toList == t)

end I18nVerif.Ranges
