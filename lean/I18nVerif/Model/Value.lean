import I18nVerif.Model.Str
/-
Data types of the parser: `ParsedValue`, `Literal`, `ForeignKey`, `Ranges`, `Plurals`, `Locale`,
`Formatter`, key paths; and the outcome type of every model function (`Res`): a value, a
descriptive error (the name of the `Error` variant) or a **panic** (named site) — panics of the
Rust code are explicit outcomes of the model, never hidden by a total default.
-/
namespace I18nVerif

inductive Res (α : Type) where
  | ok (a : α)
  | err (kind : String)
  | panic (site : String)
deriving Repr, Inhabited

namespace Res
@[inline] def bind (x : Res α) (f : α → Res β) : Res β :=
  match x with
  | .ok a => f a
  | .err k => .err k
  | .panic s => .panic s
instance : Monad Res where
  pure := .ok
  bind := Res.bind
def isPanic : Res α → Bool
  | .panic _ => true
  | _ => false
end Res

/-- exact decimal number `m · 10^(-e)`: integers (e = 0) and the finite floats the files can spell -/
structure Dec where
  m : Int
  e : Nat
deriving Repr, Inhabited

namespace Dec
def ofInt (i : Int) : Dec := ⟨i, 0⟩
def le (a b : Dec) : Bool := a.m * (10 : Int) ^ b.e ≤ b.m * (10 : Int) ^ a.e
def lt (a b : Dec) : Bool := a.m * (10 : Int) ^ b.e < b.m * (10 : Int) ^ a.e
def eq (a b : Dec) : Bool := a.m * (10 : Int) ^ b.e == b.m * (10 : Int) ^ a.e
/-- strip trailing zeros of the fraction -/
def norm : Nat → Dec → Dec
  | 0, d => d
  | fuel + 1, d => if d.e > 0 && d.m % 10 == 0 then norm fuel ⟨d.m / 10, d.e - 1⟩ else d
def isInt (d : Dec) : Bool := (norm d.e d).e == 0
def toInt (d : Dec) : Int := (norm d.e d).m
/-- Rust `Display` of a finite float with this exact value (shortest form: no exponent, no trailing zeros) -/
def display (d0 : Dec) : Str :=
  let d := norm d0.e d0
  let digits := Str.natToStr d.m.natAbs
  let sign : Str := if d.m < 0 then ['-'] else []
  if d.e == 0 then sign ++ digits
  else
    let padded := List.replicate (d.e + 1 - digits.length) '0' ++ digits
    sign ++ padded.take (padded.length - d.e) ++ ['.'] ++ padded.drop (padded.length - d.e)
end Dec

/-! ### Formatters (`leptos_i18n_parser/src/utils/formatter.rs`) -/
inductive Grouping | auto | never | always | min2 deriving DecidableEq, Repr, Inhabited
inductive DateLen | full | long | medium | short deriving DecidableEq, Repr, Inhabited
inductive TimeLen | full | long | medium | short deriving DecidableEq, Repr, Inhabited
inductive ListTy | and | or | unit deriving DecidableEq, Repr, Inhabited
inductive ListStyle | wide | short | narrow deriving DecidableEq, Repr, Inhabited
inductive CurWidth | short | narrow deriving DecidableEq, Repr, Inhabited

inductive Fmt where
  | none
  | number (g : Grouping)
  | date (d : DateLen)
  | time (t : TimeLen)
  | dateTime (d : DateLen) (t : TimeLen)
  | list (t : ListTy) (s : ListStyle)
  | currency (w : CurWidth) (code : Str)
deriving DecidableEq, Repr, Inhabited

structure KeyPath where
  ns : Option Str
  path : List Str
deriving DecidableEq, Repr, Inhabited

inductive RangeTy | i8 | i16 | i32 | i64 | u8 | u16 | u32 | u64 | f32 | f64
deriving DecidableEq, Repr, Inhabited

namespace RangeTy
def isFloat : RangeTy → Bool
  | f32 | f64 => true
  | _ => false
def name : RangeTy → String
  | i8 => "i8" | i16 => "i16" | i32 => "i32" | i64 => "i64"
  | u8 => "u8" | u16 => "u16" | u32 => "u32" | u64 => "u64" | f32 => "f32" | f64 => "f64"
def min : RangeTy → Int
  | i8 => -128 | i16 => -32768 | i32 => -2147483648 | i64 => -9223372036854775808
  | _ => 0
def max : RangeTy → Int
  | i8 => 127 | i16 => 32767 | i32 => 2147483647 | i64 => 9223372036854775807
  | u8 => 255 | u16 => 65535 | u32 => 4294967295 | u64 => 18446744073709551615
  | _ => 0
def inRange (t : RangeTy) (v : Int) : Bool := t.min ≤ v && v ≤ t.max
end RangeTy

inductive Bound where
  | incl (v : Dec)
  | excl (v : Dec)
  | unb
deriving Repr, Inhabited

inductive Range where
  | exact (v : Dec)
  | bounds (start : Option Dec) (stop : Bound)
  | multi (l : List Range)
  | fallback
deriving Repr, Inhabited

inductive RuleTy | cardinal | ordinal deriving DecidableEq, Repr, Inhabited
inductive Form | zero | one | two | few | many | other deriving DecidableEq, Repr, Inhabited

namespace Form
def toNat : Form → Nat
  | zero => 0 | one => 1 | two => 2 | few => 3 | many => 4 | other => 5
def name : Form → String
  | zero => "zero" | one => "one" | two => "two" | few => "few" | many => "many" | other => "other"
def ofStr (s : Str) : Option Form :=
  if s == "zero".toList then some zero else if s == "one".toList then some one
  else if s == "two".toList then some two else if s == "few".toList then some few
  else if s == "many".toList then some many else if s == "other".toList then some other else none
end Form

inductive Lit where
  | str (s : Str) (idx : Option Nat)     -- `usize::MAX` = `none`
  | signed (v : Int)
  | unsigned (v : Nat)
  | float (d : Dec)
  | bool (b : Bool)
deriving Repr, Inhabited

inductive LitTy | string | bool | signed | unsigned | float deriving DecidableEq, Repr, Inhabited

namespace Lit
def display : Lit → Str
  | str s _ => s
  | signed v => Str.intToStr v
  | unsigned v => Str.natToStr v
  | float d => d.display
  | bool b => if b then "true".toList else "false".toList
def ty : Lit → LitTy
  | str _ _ => .string | signed _ => .signed | unsigned _ => .unsigned | float _ => .float | bool _ => .bool
/-- `Literal::join` -/
def join (a b : Lit) : Lit :=
  match a with
  | str s i => str (s ++ b.display) i
  | _ => str (a.display ++ b.display) none
def isEmptyStr : Lit → Bool
  | str s _ => s.isEmpty
  | _ => false
end Lit

mutual
inductive PV where
  | dflt
  | fk (f : FK)
  | ranges (countKey : Str) (ty : RangeTy) (branches : List (Range × PV))
  | lit (l : Lit)
  | var (key : Str) (fmt : Fmt)
  | comp (key : Str) (inner : PV)
  | bloc (items : List PV)
  | subkeys (loc : Option Loc)
  | plurals (rule : RuleTy) (countKey : Str) (other : PV) (forms : List (Form × PV))
inductive FK where
  | notSet (path : KeyPath) (args : List (Str × PV))
  | set (inner : PV)
/-- `Locale`: name, top locale name, keys (a `BTreeMap`: sorted association list), string table, count -/
inductive Loc where
  | mk (name top : Str) (keys : List (Str × PV)) (strings : List Str) (count : Nat)
end

instance : Inhabited PV := ⟨.dflt⟩
instance : Inhabited Loc := ⟨.mk [] [] [] [] 0⟩

namespace Loc
def name : Loc → Str | .mk n _ _ _ _ => n
def top : Loc → Str | .mk _ t _ _ _ => t
def keys : Loc → List (Str × PV) | .mk _ _ k _ _ => k
def strings : Loc → List Str | .mk _ _ _ s _ => s
def count : Loc → Nat | .mk _ _ _ _ c => c
def setKeys (l : Loc) (k : List (Str × PV)) : Loc := .mk l.name l.top k l.strings l.count
end Loc

/-- `ParsedValue::default()` -/
def PV.empty : PV := .lit (.str [] none)

/-! ### `BTreeMap<Key, _>` as a sorted association list (keys ordered as Rust orders `str`: by bytes = by code point) -/
namespace AMap
def strLt : Str → Str → Bool
  | [], [] => false
  | [], _ :: _ => true
  | _ :: _, [] => false
  | a :: as, b :: bs => if a.toNat < b.toNat then true else if a.toNat > b.toNat then false else strLt as bs

def get? (k : Str) : List (Str × α) → Option α
  | [] => none
  | (k', v) :: rest => if k' == k then some v else get? k rest

/-- insert or replace, keeping the list sorted; returns the displaced value -/
def insert (k : Str) (v : α) : List (Str × α) → List (Str × α) × Option α
  | [] => ([(k, v)], none)
  | (k', v') :: rest =>
    if k' == k then ((k, v) :: rest, some v')
    else if strLt k k' then ((k, v) :: (k', v') :: rest, none)
    else
      let (r, o) := insert k v rest
      ((k', v') :: r, o)

def insert' (k : Str) (v : α) (m : List (Str × α)) : List (Str × α) := (insert k v m).1
def contains (k : Str) (m : List (Str × α)) : Bool := (get? k m).isSome
def ofList (l : List (Str × α)) : List (Str × α) := l.foldl (fun m (k, v) => insert' k v m) []
end AMap

end I18nVerif
