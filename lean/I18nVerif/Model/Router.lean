/-
Model of the path functions of `leptos_i18n_router/src/routing.rs` (as they are after the F17 repair `decb932`
and the repair `e02576e` of `match_path_segments`).

Mirrors, function by function: `PathBuilder::{new,push,build}`, `split_first_segment`,
`strip_base_path`, `get_locale_from_path`, `match_path_segments`, `construct_path_segments`,
`localize_path`, `get_new_path`.  Strings are `List Char`; the two `unwrap`/index panics
(`segments_iter.next().unwrap()` in `construct_path_segments`, `new_locale_segments[pos]` in
`localize_path`) are explicit outcomes.  The pre-repair `get_locale_from_path`/`get_new_path`
(string prefixes) are kept as `…Old` to state the regression witnesses.

A locale is its index in `L::get_all()`; the default locale is index 0 (`declare_locales!` and
`load_locales!` both put the default first).  `HashSet<usize>` of optionals is a list of indices.
-/
namespace I18nVerif.Router

abbrev Str := List Char

inductive Outcome (α : Type) where
  | ok : α → Outcome α
  | panic : String → Outcome α
deriving Repr, DecidableEq

/-! ### string primitives of `str` used by the code -/

/-- `s.trim_start_matches('/')` -/
def trimStart : Str → Str
  | [] => []
  | c :: cs => if c = '/' then trimStart cs else c :: cs

/-- `s.trim_end_matches('/')` -/
def trimEnd (s : Str) : Str := (trimStart s.reverse).reverse

/-- `s.trim_matches('/')` -/
def trimSlashes (s : Str) : Str := trimEnd (trimStart s)

/-- `s.split('/')` (never empty) -/
def splitSlash : Str → List Str
  | [] => [[]]
  | c :: cs =>
    if c = '/' then [] :: splitSlash cs
    else match splitSlash cs with
      | [] => [[c]]
      | h :: t => (c :: h) :: t

/-- `s.split('/').filter(|s| !s.is_empty())` -/
def segs (s : Str) : List Str := (splitSlash s).filter (fun x => !x.isEmpty)

/-- `[..].join("/")` -/
def join : List Str → Str
  | [] => []
  | [x] => x
  | x :: y :: r => x ++ '/' :: join (y :: r)

/-- `s.strip_prefix(p)` -/
def stripPrefix : Str → Str → Option Str
  | s, [] => some s
  | [], _ :: _ => none
  | c :: cs, p :: ps => if c = p then stripPrefix cs ps else none

/-! ### `PathBuilder` -/

/-- the `Vec<&str>` inside `PathBuilder` -/
abbrev PB := List Str

/-- `PathBuilder::new()`: `vec![""]` -/
def PB.new : PB := [[]]

/-- `PathBuilder::push` -/
def PB.push (b : PB) (s : Str) : PB :=
  let t := trimSlashes s
  if t.isEmpty then b else b ++ [t]

def PB.pushAll (b : PB) : List Str → PB
  | [] => b
  | s :: ss => PB.pushAll (PB.push b s) ss

/-- `PathBuilder::build` -/
def PB.build (b : PB) : Str :=
  let s := join b
  if s.isEmpty then ['/'] else s

/-! ### base path and locale prefix (post-F17) -/

/-- `split_first_segment`: first non-empty segment and what follows it (empty or starting with `/`) -/
def splitFirst (s : Str) : Str × Str :=
  let t := trimStart s
  (t.takeWhile (fun c => c != '/'), t.dropWhile (fun c => c != '/'))

/-- the `try_fold` of `strip_base_path` over the base path's segments -/
def stripBase (path : Str) : List Str → Option Str
  | [] => some path
  | b :: bs => if (splitFirst path).1 = b then stripBase (splitFirst path).2 bs else none

/-- `strip_base_path` -/
def stripBasePath (path base : Str) : Option Str := stripBase path (segs base)

/-- index of the first element equal to `x` (`iter().find(..)` over `L::get_all()`) -/
def indexOf? (x : Str) : List Str → Option Nat
  | [] => none
  | n :: ns => if x = n then some 0 else (indexOf? x ns).map (· + 1)

/-- `get_locale_from_path::<L>(path, base_path)`; `names` = `L::get_all()` as strings -/
def getLocaleFromPath (names : List Str) (path base : Str) : Option Nat :=
  match stripBasePath path base with
  | none => none
  | some rest => indexOf? (splitFirst rest).1 names

/-! ### localized segments -/

/-- `leptos_router::PathSegment` -/
inductive PSeg where
  | unit
  | static (s : Str)
  | param (s : Str)
  | optional (s : Str)
  | splat (s : Str)
deriving DecidableEq, Repr

/-- one generated route -/
abbrev Row := List PSeg
/-- the generated routes of one locale (`Vec<Vec<PathSegment>>`) -/
abbrev Tables := List Row

/-- `match_path_segments(segments, old_segments)` = the inner `match_from(segments, route, index, &mut optionals)`
    (after the repair `e02576e`: recursive, with backtracking over the optional parameters).
    `i` is `index` (position of `route[0]` in the whole route), `opts` the set `optionals` so far; the result is
    `some optionals` when `match_from` returns `true`.  When it returns `false` the Rust code has restored the set
    (`optionals.remove(&index)` after a failed attempt), which is "continue with the old `opts`" here. -/
def matchSegs : Row → List Str → Nat → List Nat → Option (List Nat)
  | [], ss, _, opts => if ss.isEmpty then some opts else none   -- `return segments.is_empty()`
  | p :: ps, ss, i, opts =>
    match p with
    | .unit => matchSegs ps ss (i + 1) opts
    | .static m =>
      if m.isEmpty then matchSegs ps ss (i + 1) opts
      else match ss with
        | seg :: rest => if m = seg then matchSegs ps rest (i + 1) opts else none
        | [] => none
    | .splat _ => some opts                          -- takes whatever is left, even nothing
    | .optional _ =>
      match ss with
      | _ :: rest =>
        -- the param takes the next segment if the rest still matches that way, else it is absent
        match matchSegs ps rest (i + 1) (opts ++ [i]) with
        | some o => some o
        | none => matchSegs ps ss (i + 1) opts
      | [] => matchSegs ps ss (i + 1) opts
    | .param _ =>
      match ss with
      | _ :: rest => matchSegs ps rest (i + 1) opts
      | [] => none

/-- `construct_path_segments(segments, new_segments, path_builder, optionals)` -/
def construct : Row → List Str → Nat → List Nat → PB → Outcome PB
  | _, [], _, _, b => .ok b
  | [], _ :: _, _, _, _ => .panic "construct_path_segments: unwrap on None"
  | p :: ps, seg :: rest, i, opts, b =>
    match p with
    | .unit => construct ps (seg :: rest) (i + 1) opts b
    | .param _ => construct ps rest (i + 1) opts (b.push seg)
    | .optional _ =>
      if opts.contains i then construct ps rest (i + 1) opts (b.push seg)
      else construct ps (seg :: rest) (i + 1) opts b
    | .static m =>
      if m.isEmpty then construct ps (seg :: rest) (i + 1) opts b
      else construct ps rest (i + 1) opts (b.push m)
    | .splat _ => .ok ((b.push seg).pushAll rest)

/-- the `enumerate().find_map(..)` of `localize_path`: first route of the old locale that matches -/
def firstMatch (ss : List Str) : Tables → Nat → Option (Nat × List Nat)
  | [], _ => none
  | t :: ts, pos =>
    match matchSegs t ss 0 [] with
    | some o => some (pos, o)
    | none => firstMatch ss ts (pos + 1)

/-- `localize_path`: `ok none` = returned `None` (builder untouched) -/
def localizePath (path : Str) (oldT newT : Tables) (b : PB) : Outcome (Option PB) :=
  let ss := segs path
  match firstMatch ss oldT 0 with
  | none => .ok none
  | some (pos, opts) =>
    match newT[pos]? with
    | none => .panic "localize_path: index out of bounds"
    | some row =>
      match construct row ss 0 opts b with
      | .panic m => .panic m
      | .ok b' => .ok (some b')

/-! ### `get_new_path` -/

/-- the builder after `path_builder.push(base_path)` and, unless the new locale is the default,
    `path_builder.push(new_locale.as_str())` -/
def baseBuilder (base newName : Str) (newIsDefault : Bool) : PB :=
  if newIsDefault then PB.new.push base else (PB.new.push base).push newName

/-- the `match locale { None => path_rest, Some(l) => .. }` of `get_new_path`: the old locale's segment is
    taken off when it is the first segment -/
def stripLocale (rest : Str) : Option Str → Str
  | none => rest
  | some l => if (splitFirst rest).1 = l then (splitFirst rest).2 else rest

/-- the pathname part of `get_new_path`.
`newName`/`newIsDefault`: `new_locale.as_str()`, `new_locale == L::default()`;
`oldName`: `locale.map(as_str)`; `oldT`/`newT`: `segments.get(&locale.unwrap_or_default())`, `segments.get(&new_locale)` -/
def newPathname (path base newName : Str) (newIsDefault : Bool) (oldName : Option Str)
    (oldT newT : Option Tables) : Outcome Str :=
  let b1 := baseBuilder base newName newIsDefault
  match stripBasePath path base with
  | none => .ok b1.build
  | some rest =>
    let rest1 := stripLocale rest oldName
    match oldT, newT with
    | some o, some n =>
      match localizePath rest1 o n b1 with
      | .panic m => .panic m
      | .ok (some b2) => .ok b2.build
      | .ok none => .ok (b1.push rest1).build
    | _, _ => .ok (b1.push rest1).build

/-- what `get_new_path` appends: `?search` and the hash (which carries its own `#` in the browser) -/
def urlSuffix (search hash : Str) : Str :=
  (if search.isEmpty then [] else '?' :: search)
    ++ (if hash.isEmpty then [] else if hash.head? = some '#' then hash else '#' :: hash)

/-- `L::get_all()` (names, default first) and the `RouteSegments` map -/
structure Cfg where
  names : List Str
  tables : List (Nat × Tables)
deriving Repr

def Cfg.name (c : Cfg) (i : Nat) : Str := c.names.getD i []

/-- `HashMap::get` -/
def Cfg.lookup (c : Cfg) (i : Nat) : Option Tables :=
  match c.tables.find? (fun e => e.1 == i) with
  | some e => some e.2
  | none => none

/-- pathname of `get_new_path(location, base_path, new_locale, locale, segments)` -/
def Cfg.newPathname (c : Cfg) (path base : Str) (new : Nat) (loc : Option Nat) : Outcome Str :=
  Router.newPathname path base (c.name new) (new == 0) (loc.map c.name) (c.lookup (loc.getD 0)) (c.lookup new)

/-- `get_new_path(location, base_path, new_locale, locale, segments)` -/
def Cfg.getNewPath (c : Cfg) (path search hash base : Str) (new : Nat) (loc : Option Nat) : Outcome Str :=
  match c.newPathname path base new loc with
  | .ok p => .ok (p ++ urlSuffix search hash)
  | .panic m => .panic m

/-- a history of locale switches, each one `update_path_effect` navigating to `get_new_path(.., Some(prev))`;
    returns the pathname after every step -/
def Cfg.switchSeq (c : Cfg) (base : Str) : Str → Option Nat → List Nat → Outcome (List Str)
  | _, _, [] => .ok []
  | path, cur, new :: rest =>
    match c.newPathname path base new cur with
    | .panic m => .panic m
    | .ok p =>
      match c.switchSeq base p (some new) rest with
      | .panic m => .panic m
      | .ok ps => .ok (p :: ps)

/-! ### segment-level reading of the localisation step (used to state theorems and hypotheses) -/

/-- the remaining segments after `localize_path` (or the untouched ones when no route matches / no tables) -/
def localizeSegs (oldT newT : Option Tables) (r : List Str) : Outcome (List Str) :=
  match oldT, newT with
  | some o, some n =>
    match firstMatch r o 0 with
    | none => .ok r
    | some (pos, opts) =>
      match n[pos]? with
      | none => .panic "localize_path: index out of bounds"
      | some row =>
        match construct row r 0 opts [] with
        | .panic m => .panic m
        | .ok b => .ok (b.flatMap segs)
  | _, _ => .ok r

/-! ### the code before the F17 repair (regression witnesses only) -/

def startsWith (s p : Str) : Bool := (stripPrefix s p).isSome

def findStartsWith (s : Str) : List Str → Option Nat
  | [] => none
  | n :: ns => if startsWith s n then some 0 else (findStartsWith s ns).map (· + 1)

/-- pre-F17 `get_locale_from_path`: string prefixes -/
def getLocaleFromPathOld (names : List Str) (path base : Str) : Option Nat :=
  match stripPrefix (trimStart path) (trimStart base) with
  | none => none
  | some r => findStartsWith (trimStart r) names

/-- pre-F17 pathname of `get_new_path` with an empty `RouteSegments` map -/
def newPathnameOld (path base newName : Str) (newIsDefault : Bool) (oldName : Option Str) : Str :=
  let b0 := PB.new.push base
  let b1 := if newIsDefault then b0 else b0.push newName
  match stripPrefix path base with
  | none => b1.build
  | some rest =>
    let rest1 := match oldName with
      | none => rest
      | some l => match stripPrefix rest l with
        | some r => r
        | none => rest
    (b1.push rest1).build

/-- pre-F17 suffix: `#` always pushed in front of the hash -/
def urlSuffixOld (search hash : Str) : Str :=
  (if search.isEmpty then [] else '?' :: search) ++ (if hash.isEmpty then [] else '#' :: hash)

end I18nVerif.Router
