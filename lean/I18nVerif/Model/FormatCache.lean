/-
The formatter cache `FORMATTERS` of `leptos_i18n/src/macro_helpers/formatting/mod.rs` as a pure state machine.

Rust: `StaticLock<Formatters>` = `OnceLock<RwLock<Formatters>>`; every `get_*_formatter(locale, options)` runs
`FORMATTERS.with_mut(|formatters| { formatters.<kind>.entry(locale).or_default().entry(options).or_insert_with(||
Box::leak(Box::new(<ICU formatter>::try_new(locale, options)))) })` *entirely under the write lock* and returns the
leaked `&'static` formatter.  One call = one atomic `step`.

Model: the per-kind two-level `HashMap<locale, HashMap<options, &'static F>>` is flattened into one association
list from keys `(kind, locale, options)` to formatter ids; `make key` is the abstract ICU formatter built for that
key (a parameter: ICU4X is the oracle).  Entries are never removed or overwritten (the formatters are leaked).
-/
namespace I18nVerif.FormatCache

/-- which of the maps of `Formatters` is addressed -/
inductive Kind | currency | num | date | time | datetime | list | pluralRule
deriving DecidableEq, Repr, Inhabited

/-- `(kind, locale, options)`; `opts` is the tuple used as the inner map key:
`[grouping]`, `[date_length]`, `[time_length]`, `[date_length, time_length]`, `[list_type, list_length]`,
`[width]` (the currency *code* is not part of the key: it is passed to `format_fixed_decimal`), `[rule_type]` -/
structure Key where
  kind : Kind
  locale : Nat
  opts : List Nat
deriving DecidableEq, Repr, Inhabited

/-- cache state: association list, at most one entry per key (invariant, see `Theorems/C18`) -/
abbrev State (κ ι : Type) := List (κ × ι)

/-- `HashMap::get` -/
def lookup [DecidableEq κ] (k : κ) : State κ ι → Option ι
  | [] => none
  | (k', v) :: rest => if k' = k then some v else lookup k rest

/-- one `get_*_formatter` call under the write lock: `entry(k).or_insert_with(|| make k)` -/
def step [DecidableEq κ] (make : κ → ι) (st : State κ ι) (k : κ) : State κ ι × ι :=
  match lookup k st with
  | some v => (st, v)
  | none => ((k, make k) :: st, make k)

/-- a sequence of calls (any interleaving of the calls of any number of threads is such a sequence, since each
call holds the write lock from lookup to insertion): final state and the formatter returned to each call -/
def run [DecidableEq κ] (make : κ → ι) : State κ ι → List κ → State κ ι × List ι
  | st, [] => (st, [])
  | st, k :: ks =>
    let (st1, v) := step make st k
    let (st2, vs) := run make st1 ks
    (st2, v :: vs)

/-- was the formatter for the i-th request created by that request (miss) or found (hit)? -/
def runHits [DecidableEq κ] (make : κ → ι) : State κ ι → List κ → List Bool
  | _, [] => []
  | st, k :: ks => (lookup k st).isSome :: runHits make (step make st k).1 ks

end I18nVerif.FormatCache
