/-
The formatter cache `FORMATTERS` of `leptos_i18n/src/macro_helpers/formatting/mod.rs` as a pure state machine.

Rust: `StaticLock<Formatters>` = `OnceLock<RwLock<Formatters>>`; every `get_*_formatter(locale, options)` runs
`FORMATTERS.with_mut(|formatters| { formatters.<kind>.entry(locale).or_default().entry(options).or_insert_with(||
Box::leak(Box::new(<ICU formatter>::try_new(locale, options)))) })` *entirely under the write lock* and returns the
leaked `&'static` formatter.  One call = one atomic `step`.

Model: the per-kind two-level `HashMap<locale, HashMap<options, &'static F>>` is flattened into one association
list from keys `(kind, locale, options)` to formatter ids; `make key` is the abstract ICU formatter built for that
key, or `none` when ICU4X refuses the options (a parameter: ICU4X is the oracle).  Entries are never removed or overwritten (the formatters are leaked).
-/
namespace I18nVerif.FormatCache

/-- which of the maps of `Formatters` is addressed -/
inductive Kind | currency | num | date | time | datetime | list | pluralRule
deriving DecidableEq, Repr, Inhabited

/-- `(kind, locale, options)`; `opts` is the tuple used as the inner map key:
`[grouping]`, `[date_length]`, `[time_length]`, `[date_length, time_length]`, `[list_type, list_length]`,
`[width]` (the currency *code* is not part of the key: it is passed to `format_fixed_decimal`), `[rule_type]` -/
structure Key where
  kind : Kind
  locale : Nat
  opts : List Nat
deriving DecidableEq, Repr, Inhabited

/-- cache state: association list, at most one entry per key (invariant, see `Theorems/C18`) -/
abbrev State (κ ι : Type) := List (κ × ι)

/-- `HashMap::get` -/
def lookup [DecidableEq κ] (k : κ) : State κ ι → Option ι
  | [] => none
  | (k', v) :: rest => if k' = k then some v else lookup k rest

/-- one `get_*_formatter` call under the write lock: `entry(k).or_insert_with(|| make(k).expect(..))`.
`make k = none`: ICU4X refuses to build the formatter (e.g. `TimeFormatter` with `length::Time::Full`, which needs a
time zone) and the `expect` **panics** — outcome `none`. The panic unwinds out of `or_insert_with` before anything is
inserted, and `with_mut` takes the lock again even when an earlier holder panicked (`PoisonError::into_inner`), so
the state is unchanged and later calls are unaffected. -/
def step [DecidableEq κ] (make : κ → Option ι) (st : State κ ι) (k : κ) : State κ ι × Option ι :=
  match lookup k st with
  | some v => (st, some v)
  | none =>
    match make k with
    | some v => ((k, v) :: st, some v)
    | none => (st, none)

/-- a sequence of calls (any interleaving of the calls of any number of threads is such a sequence, since each
call holds the write lock from lookup to insertion): final state and the outcome of each call
(`some` formatter / `none` = panic) -/
def run [DecidableEq κ] (make : κ → Option ι) : State κ ι → List κ → State κ ι × List (Option ι)
  | st, [] => (st, [])
  | st, k :: ks =>
    let (st1, v) := step make st k
    let (st2, vs) := run make st1 ks
    (st2, v :: vs)

/-- was the formatter for the i-th request found in the cache (hit) or not (miss)? -/
def runHits [DecidableEq κ] (make : κ → Option ι) : State κ ι → List κ → List Bool
  | _, [] => []
  | st, k :: ks => (lookup k st).isSome :: runHits make (step make st k).1 ks

/-! The behaviour before the repair (`mutex.write().unwrap()`): a panic inside `with_mut` poisons the `RwLock`, and every
later call — for any kind, locale or options — panics on the `PoisonError`. Kept as the witness of the defect. -/
def stepPoisoning [DecidableEq κ] (make : κ → Option ι) (st : State κ ι × Bool) (k : κ) : (State κ ι × Bool) × Option ι :=
  if st.2 then (st, none) else
  match lookup k st.1 with
  | some v => (st, some v)
  | none =>
    match make k with
    | some v => (((k, v) :: st.1, false), some v)
    | none => ((st.1, true), none)

def runPoisoning [DecidableEq κ] (make : κ → Option ι) : State κ ι × Bool → List κ → List (Option ι)
  | _, [] => []
  | st, k :: ks => (stepPoisoning make st k).2 :: runPoisoning make (stepPoisoning make st k).1 ks

end I18nVerif.FormatCache
