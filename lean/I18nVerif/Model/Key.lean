import I18nVerif.Model.Value
/-
`Key::new` with the `quote` feature (the macro's configuration): trim, then the name with `-`
replaced by `_` must parse as a `syn::Ident`.  ASCII identifiers and the keyword table of
`syn` 2 are modelled exactly; non-ASCII (XID) identifiers are outside the model (the generators of
the correspondence never produce them).
-/
namespace I18nVerif.Key
open I18nVerif Str

def keywords : List String :=
  ["_", "abstract", "as", "async", "await", "become", "box", "break", "const", "continue", "crate", "do",
   "dyn", "else", "enum", "extern", "false", "final", "fn", "for", "if", "impl", "in", "let", "loop",
   "macro", "match", "mod", "move", "mut", "override", "priv", "pub", "ref", "return", "Self", "self",
   "static", "struct", "super", "trait", "true", "try", "type", "typeof", "unsafe", "unsized", "use",
   "virtual", "where", "while", "yield"]

def isIdStart (c : Char) : Bool := c.isAlpha || c == '_'
def isIdCont (c : Char) : Bool := c.isAlphanum || c == '_'

def validIdent (s : Str) : Bool :=
  match s with
  | [] => false
  | c :: cs => isIdStart c && cs.all isIdCont && !(keywords.any (fun k => k.toList == s))

/-- `Key::new`: the key's *name* (trimmed, dashes kept), or `none` when it is not an identifier -/
def new (name : Str) : Option Str :=
  let n := trim name
  if validIdent (n.map (fun c => if c == '-' then '_' else c)) then some n else none

end I18nVerif.Key
