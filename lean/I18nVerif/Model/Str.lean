/-
String primitives of Rust's `str` used by the parser, over `List Char`
(a Lean `Char` is a Unicode scalar value, like a Rust `char`).
Offsets are counted in characters; the Rust code counts bytes, and every offset it computes is a
sum of lengths of substrings delimited by ASCII delimiters (see DESIGN.md §4 "Str").
-/
namespace I18nVerif

abbrev Str := List Char

namespace Str

/-- `char::is_whitespace` (Unicode `White_Space`) -/
def isWs (c : Char) : Bool :=
  let n := c.toNat
  (0x9 ≤ n && n ≤ 0xD) || n == 0x20 || n == 0x85 || n == 0xA0 || n == 0x1680 ||
  (0x2000 ≤ n && n ≤ 0x200A) || n == 0x2028 || n == 0x2029 || n == 0x202F || n == 0x205F || n == 0x3000

def trimStart (s : Str) : Str := s.dropWhile isWs
def trimEnd (s : Str) : Str := (s.reverse.dropWhile isWs).reverse
def trim (s : Str) : Str := trimEnd (trimStart s)

/-- `str::split_once(pat)`: split at the first occurrence of the (non-empty) pattern -/
def splitOnce (pat : Str) : Str → Option (Str × Str)
  | [] => none
  | c :: cs =>
    if pat.isPrefixOf (c :: cs) then some ([], (c :: cs).drop pat.length)
    else match splitOnce pat cs with
      | some (a, b) => some (c :: a, b)
      | none => none

/-- `str::split_once(c)` for a single character -/
def splitOnceC (d : Char) : Str → Option (Str × Str)
  | [] => none
  | c :: cs =>
    if c == d then some ([], cs)
    else match splitOnceC d cs with
      | some (a, b) => some (c :: a, b)
      | none => none

/-- `str::rsplit_once(c)`: split at the last occurrence -/
def rsplitOnceC (d : Char) (s : Str) : Option (Str × Str) :=
  match splitOnceC d s.reverse with
  | some (a, b) => some (b.reverse, a.reverse)
  | none => none

/-- split at the first character satisfying `p`: (before, that char, after) — `find` + slicing -/
def splitAtFirst (p : Char → Bool) : Str → Option (Str × Char × Str)
  | [] => none
  | c :: cs =>
    if p c then some ([], c, cs)
    else match splitAtFirst p cs with
      | some (a, d, b) => some (c :: a, d, b)
      | none => none

/-- `str::split(c)`: always at least one piece -/
def splitC (d : Char) : Str → List Str
  | [] => [[]]
  | c :: cs =>
    if c == d then [] :: splitC d cs
    else match splitC d cs with
      | [] => [[c]]           -- unreachable: splitC never returns []
      | p :: ps => (c :: p) :: ps

def stripPrefix (pat : Str) (s : Str) : Option Str :=
  if pat.isPrefixOf s then some (s.drop pat.length) else none

def stripSuffix (pat : Str) (s : Str) : Option Str :=
  if pat.reverse.isPrefixOf s.reverse then some (s.take (s.length - pat.length)) else none

def contains (d : Char) (s : Str) : Bool := s.any (· == d)

/-- decimal rendering of a natural / integer (Rust `Display` for integers) -/
def natToStr (n : Nat) : Str := (toString n).toList
def intToStr (i : Int) : Str := if i < 0 then '-' :: natToStr i.natAbs else natToStr i.toNat

def isDigit (c : Char) : Bool := '0' ≤ c && c ≤ '9'
def digitVal (c : Char) : Nat := c.toNat - '0'.toNat

/-- parse a non-empty all-digit string -/
def parseDigits (s : Str) : Option Nat :=
  if s.isEmpty || !s.all isDigit then none
  else some (s.foldl (fun acc c => acc * 10 + digitVal c) 0)

end Str
end I18nVerif
