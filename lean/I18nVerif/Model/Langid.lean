/-
Model of `leptos_i18n/src/langid.rs` (language negotiation).

Mirrors, function by function: `lang_matches`, `subtag_matches`, `subtags_match`,
`lang_id_matches`, `into_specificity`, `filter_matches` (two `retain` passes per request,
then a stable sort by descending specificity of the matches of *that* request), `find_match`.

Subtags are opaque atoms (`Nat`); ICU4X parsing of the textual form is an oracle of the
correspondence harness (it sends the parsed atoms).
-/
namespace I18nVerif.Langid

structure LangId where
  lang : Option Nat        -- `none` = empty language (`und`)
  script : Option Nat
  region : Option Nat
  variants : List Nat
deriving DecidableEq, Repr, Inhabited

/-- a supported locale: its index in `get_all()` and its language identifier -/
structure Loc where
  id : Nat
  lid : LangId
deriving DecidableEq, Repr, Inhabited

def langMatches (lhs rhs : Option Nat) (selfAsRange otherAsRange : Bool) : Bool :=
  (selfAsRange && lhs.isNone) || (otherAsRange && rhs.isNone) || lhs == rhs

def subtagMatches (s1 s2 : Option Nat) (r1 r2 : Bool) : Bool :=
  (r1 && s1.isNone) || (r2 && s2.isNone) || s1 == s2

def subtagsMatch (s1 s2 : List Nat) (r1 r2 : Bool) : Bool :=
  (r1 && s1.isEmpty) || (r2 && s2.isEmpty) || s1 == s2

def langIdMatches (lhs rhs : LangId) (selfAsRange otherAsRange : Bool) : Bool :=
  langMatches lhs.lang rhs.lang selfAsRange otherAsRange
    && subtagMatches lhs.script rhs.script selfAsRange otherAsRange
    && subtagMatches lhs.region rhs.region selfAsRange otherAsRange
    && subtagsMatch lhs.variants rhs.variants selfAsRange otherAsRange

def specificity (l : LangId) : Nat :=
  (if l.script.isSome then 1 else 0) + (if l.region.isSome then 1 else 0) + l.variants.length

/-- stable insertion of `x` (which preceded all of the list in the input) into a list sorted by
    descending specificity: `x` goes before the first element that is not more specific -/
def insertDesc (x : Loc) : List Loc → List Loc
  | [] => [x]
  | y :: ys => if specificity y.lid ≤ specificity x.lid then x :: y :: ys else y :: insertDesc x ys

/-- stable sort by descending specificity (`sort_by(|x,y| spec(x).cmp(spec(y)).reverse())`) -/
def sortDesc : List Loc → List Loc
  | [] => []
  | x :: xs => insertDesc x (sortDesc xs)

/-- one `retain` pass: matched locales (in order) and the remaining available ones -/
def pass (req : LangId) (selfAsRange : Bool) (avail : List Loc) : List Loc × List Loc :=
  (avail.filter (fun l => langIdMatches l.lid req selfAsRange false),
   avail.filter (fun l => !langIdMatches l.lid req selfAsRange false))

/-- the body of the `for req` loop: both strategies; returns this request's matches
    (already ordered) and what is still available -/
def step (req : LangId) (avail : List Loc) : List Loc × List Loc :=
  let (m1, a1) := pass req false avail
  let (m2, a2) := pass req true a1
  (sortDesc (m1 ++ m2), a2)

def filterLoop : List LangId → List Loc → List Loc
  | [], _ => []
  | req :: reqs, avail =>
    let (m, a) := step req avail
    m ++ filterLoop reqs a

def filterMatches (reqs : List LangId) (avail : List Loc) : List Loc :=
  filterLoop reqs avail

/-- `find_match`: first match or `L::default()` (the first locale of `get_all`) -/
def findMatch (reqs : List LangId) (avail : List Loc) (dflt : Loc) : Loc :=
  match filterMatches reqs avail with
  | [] => dflt
  | l :: _ => l

/-- the pre-fix behaviour (global sort after all requests), kept to state the regression witness -/
def filterMatchesGlobalSort (reqs : List LangId) (avail : List Loc) : List Loc :=
  let rec go : List LangId → List Loc → List Loc
    | [], _ => []
    | req :: reqs, avail =>
      let (m1, a1) := pass req false avail
      let (m2, a2) := pass req true a1
      m1 ++ m2 ++ go reqs a2
  sortDesc (go reqs avail)

end I18nVerif.Langid
