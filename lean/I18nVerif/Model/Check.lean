import I18nVerif.Model.World
import I18nVerif.Model.Reduce
import I18nVerif.Model.Plurals
/-
`check_locales`: the default locale defines the builder keys; every other locale is merged into
them (`mod.rs:129-225`, `locale.rs:287-351, 639-705`, `parsed_value.rs:582-670, 759-875`).
-/
namespace I18nVerif.Check
open I18nVerif Str

inductive CountTy where
  | plural
  | range (t : RangeTy)
deriving DecidableEq, Repr

structure VarInfo where
  fmts : List Fmt := []          -- a set (`BTreeSet<Formatter>`), kept duplicate-free
  count : Option CountTy := none
deriving Repr

structure IKeys where
  comps : List Str := []         -- a set
  vars : List (Str × VarInfo) := []  -- a map
deriving Repr

inductive IOL where
  | interpol (k : IKeys)
  | lit (t : LitTy)
deriving Repr

structure Defaults where
  dflt : Str
  mapping : List (Str × Str)
deriving Repr

inductive LV where
  | value (v : IOL) (d : Defaults)
  | subkeys (locales : List Loc) (keys : List (Str × LV))

abbrev BKI := List (Str × LV)

/-- `StringIndexer::push_str` -/
def pushStr (s : Str) (acc : List Str) : Nat × List Str :=
  match acc.idxOf? s with
  | some i => (i, acc)
  | none => (acc.length, acc ++ [s])

/-- `ParsedValue::index_strings` -/
def indexStrings : Nat → PV → List Str → PV × List Str
  | 0, pv, acc => (pv, acc)
  | fuel + 1, pv, acc =>
    match pv with
    | .lit (.str s _) => let (i, acc') := pushStr s acc; (.lit (.str s (some i)), acc')
    | .comp k inner => let (i, acc') := indexStrings fuel inner acc; (.comp k i, acc')
    | .bloc items =>
      let (l, acc') := items.foldl (fun (l, a) x => let (x', a') := indexStrings fuel x a; (l ++ [x'], a')) ([], acc)
      (.bloc l, acc')
    | .ranges ck t bs =>
      let (l, acc') := bs.foldl (fun (l, a) (r, x) => let (x', a') := indexStrings fuel x a; (l ++ [(r, x')], a')) ([], acc)
      (.ranges ck t l, acc')
    | .plurals r ck other forms =>
      let (l, acc') := forms.foldl (fun (l, a) (f, x) => let (x', a') := indexStrings fuel x a; (l ++ [(f, x')], a')) ([], acc)
      let (o, acc'') := indexStrings fuel other acc'
      (.plurals r ck o l, acc'')
    | other => (other, acc)

def IOL.keysMut : IOL → IKeys
  | .interpol k => k
  | .lit _ => {}

def pushVar (k : IKeys) (key : Str) (f : Fmt) : IKeys :=
  let info := (AMap.get? key k.vars).getD {}
  let info' := { info with fmts := if info.fmts.contains f then info.fmts else info.fmts ++ [f] }
  { k with vars := AMap.insert' key info' k.vars }

def pushComp (k : IKeys) (key : Str) : IKeys :=
  if k.comps.contains key then k else { k with comps := k.comps ++ [key] }

/-- `InterpolationKeys::push_count` -/
def pushCount (k : IKeys) (ty : CountTy) (countKey : Str) : Res IKeys :=
  let info := (AMap.get? countKey k.vars).getD {}
  let k' := { k with vars := AMap.insert' countKey { info with count := some ty } k.vars }
  match info.count, ty with
  | none, _ => .ok k'
  | some .plural, .plural => .ok k'
  | some (.range o), .range n => if o == n then .ok k' else .err "RangeTypeMissmatch"
  | some .plural, .range _ => .err "RangeAndPluralsMix"
  | some (.range _), .plural => .err "RangeAndPluralsMix"

/-- `get_keys_inner` -/
def getKeysInner : Nat → PV → IOL → Bool → Res IOL
  | 0, _, _, _ => .panic "fuel"
  | fuel + 1, pv, keys, isTop =>
    match pv with
    | .lit l => if isTop then .ok (.lit l.ty) else .ok keys
    | .subkeys _ => .ok keys
    | .dflt => .ok keys
    | .var key f => .ok (.interpol (pushVar keys.keysMut key f))
    | .comp key inner => getKeysInner fuel inner (.interpol (pushComp keys.keysMut key)) false
    | .bloc items => goL fuel items keys
    | .ranges ck t bs =>
      match goL fuel (bs.map (·.2)) keys with
      | .err e => .err e
      | .panic p => .panic p
      | .ok keys' =>
        match pushCount keys'.keysMut (.range t) ck with
        | .ok k => .ok (.interpol k)
        | .err e => .err e
        | .panic p => .panic p
    | .fk (.set inner) => getKeysInner fuel inner keys false
    | .fk (.notSet _ _) => .panic "get_keys_inner: unresolved foreign key"
    | .plurals _ ck other forms =>
      match pushCount keys.keysMut .plural ck with
      | .err e => .err e
      | .panic p => .panic p
      | .ok k =>
        match goL fuel (forms.map (·.2)) (.interpol k) with
        | .err e => .err e
        | .panic p => .panic p
        | .ok keys' => getKeysInner fuel other keys' false
where goL : Nat → List PV → IOL → Res IOL
  | _, [], keys => .ok keys
  | fuel, x :: xs, keys =>
    match getKeysInner fuel x keys false with
    | .ok k => goL fuel xs k
    | .err e => .err e
    | .panic p => .panic p

structure St where
  strings : List Str := []
  warnings : List Warning := []

def pushKey := Plurals.pushKey

abbrev MakeRec := KeyPath → Loc → List Str → Res (Loc × BKI × List Str)

/-- the loop of `Locale::make_builder_keys` with `make_locale_value` inlined; `recMake` is the same
    function one subkey level down -/
def makeKeys (recMake : MakeRec) (dflt : Str) (path : KeyPath) :
    List (Str × PV) → List (Str × PV) → BKI → List Str → Res (List (Str × PV) × BKI × List Str)
  | [], accK, accB, strs => .ok (accK, accB, strs)
  | (k, v) :: rest, accK, accB, strs =>
    match Reduce.reduce v with
    | .err e => .err e
    | .panic p => .panic p
    | .ok v =>
      match shapeOf' v with
      | .inl (some sub) =>
        match recMake (pushKey path k) sub strs with
        | .err e => .err e
        | .panic p => .panic p
        | .ok (sub', bki, strs') =>
          makeKeys recMake dflt path rest (accK ++ [(k, .subkeys none)]) (accB ++ [(k, .subkeys [sub'] bki)]) strs'
      | .inl none => .panic "make_locale_value called twice"
      | .inr true => .err "ExplicitDefaultInDefault"
      | .inr false =>
        let (v', strs') := indexStrings 1000000 v strs
        match getKeysInner 1000000 v' (.lit .string) true with
        | .err e => .err e
        | .panic p => .panic p
        | .ok iol => makeKeys recMake dflt path rest (accK ++ [(k, v')]) (accB ++ [(k, .value iol ⟨dflt, []⟩)]) strs'
where shapeOf' : PV → Sum (Option Loc) Bool
  | .subkeys l => .inl l
  | .dflt => .inr true
  | _ => .inr false

/-- `Locale::make_builder_keys` for the default locale -/
def makeBuilderKeys (dflt : Str) : Nat → KeyPath → Loc → List Str → Res (Loc × BKI × List Str)
  | 0, _, _, _ => .panic "fuel"
  | fuel + 1, path, loc, strings =>
    match makeKeys (makeBuilderKeys dflt fuel) dflt path loc.keys [] [] strings with
    | .ok (keys', bki, strs) => .ok (.mk loc.name loc.top keys' loc.strings loc.count, bki, strs)
    | .err e => .err e
    | .panic p => .panic p

inductive DefaultTo where
  | explicit (k : Str)
  | implicit (k : Str)

def DefaultTo.key : DefaultTo → Str
  | .explicit k => k
  | .implicit k => k

/-- coarse shape of a (reduced) value, as `ParsedValue::merge` distinguishes them -/
inductive Shape where
  | dflt
  | subSome (l : Loc)
  | subNone
  | lit (l : Lit)
  | other (v : PV)

def shapeOf : PV → Shape
  | .dflt => .dflt
  | .subkeys (some l) => .subSome l
  | .subkeys none => .subNone
  | .lit l => .lit l
  | v => .other v

abbrev MergeRec := KeyPath → Loc → BKI → St → Res (Loc × BKI × St)

/-- `ParsedValue::merge` (after `reduce`); `recMerge` is `Locale::merge` one level down -/
def mergeValue (recMerge : MergeRec) (top : Str) (dto : DefaultTo) (kp : KeyPath) (cur : PV) (lv : LV) (st : St) :
    Res (PV × LV × St) :=
  match lv with
  | .subkeys locales bkeys =>
    match shapeOf cur with
    | .dflt =>
      match locales.head? with
      | none => .panic "merge_1"
      | some dl =>
        let dummy : Loc := .mk dl.name top (dl.keys.map (fun (k', _) => (k', .dflt))) [] 0
        match recMerge kp dummy bkeys st with
        | .err e => .err e
        | .panic p => .panic p
        | .ok (dummy', bkeys', st') => .ok (.subkeys none, .subkeys (locales ++ [dummy']) bkeys', st')
    | .subSome loc =>
      match recMerge kp loc bkeys st with
      | .err e => .err e
      | .panic p => .panic p
      | .ok (loc', bkeys', st') => .ok (.subkeys none, .subkeys (locales ++ [loc']) bkeys', st')
    | .subNone => .panic "merge called twice on Subkeys"
    | _ => .err "SubKeyMissmatch"
  | .value iol d =>
    match shapeOf cur with
    | .dflt => .ok (.dflt, .value iol { d with mapping := AMap.insert' top dto.key d.mapping }, st)
    | .lit l =>
      let (v', strs) := indexStrings 1 (.lit l) st.strings
      let st' := { st with strings := strs }
      match iol with
      | .interpol _ => .ok (v', .value iol d, st')
      | .lit ty => if l.ty == ty then .ok (v', .value iol d, st') else .ok (v', .value (.interpol {}) d, st')
    | .other v =>
      let (v', strs) := indexStrings 1000000 v st.strings
      match getKeysInner 1000000 v' iol false with
      | .err e => .err e
      | .panic p => .panic p
      | .ok iol' => .ok (v', .value iol' d, { st with strings := strs })
    | _ => .err "SubKeyMissmatch"

/-- the first loop of `Locale::merge`: every builder key, in key order -/
def mergeKeys (recMerge : MergeRec) (top : Str) (dto : DefaultTo) (path : KeyPath) :
    BKI → List (Str × PV) → BKI → St → Res (List (Str × PV) × BKI × St)
  | [], ks, accB, st => .ok (ks, accB, st)
  | (k, lv) :: rest, ks, accB, st =>
    let kp := pushKey path k
    let (cur, st) : PV × St := match AMap.get? k ks with
      | some v => (v, st)
      | none =>
        (.dflt, match dto with
          | .implicit _ => { st with warnings := st.warnings ++ [.missing top kp] }
          | .explicit _ => st)
    match Reduce.reduce cur with
    | .err e => .err e
    | .panic p => .panic p
    | .ok cur =>
      match mergeValue recMerge top dto kp cur lv st with
      | .err e => .err e
      | .panic p => .panic p
      | .ok (v', lv', st') => mergeKeys recMerge top dto path rest (AMap.insert' k v' ks) (accB ++ [(k, lv')]) st'

/-- `Locale::merge` of a non-default locale into the builder keys (fuel bounds the subkey depth) -/
def mergeLocale (suppress : Bool) (top : Str) (dto : DefaultTo) :
    Nat → KeyPath → Loc → BKI → St → Res (Loc × BKI × St)
  | 0, _, _, _, _ => .panic "fuel"
  | fuel + 1, path, loc, bki, st =>
    match mergeKeys (mergeLocale suppress top dto fuel) top dto path bki loc.keys [] st with
    | .err e => .err e
    | .panic p => .panic p
    | .ok (keys', bki', st') =>
      let surplus : List Warning :=
        if suppress then [] else
        (keys'.filter (fun (k, _) => !AMap.contains k bki)).map (fun (k, _) => .surplus top (pushKey path k))
      .ok (.mk loc.name loc.top keys' loc.strings loc.count, bki', { st' with warnings := st'.warnings ++ surplus })

/-- `propagate_string_count` -/
def propagate : Nat → List Nat → BKI → BKI
  | 0, _, b => b
  | fuel + 1, counts, b =>
    b.map (fun (k, lv) => match lv with
      | .subkeys locales keys =>
        let locales' := (locales.zip counts).map (fun (l, c) => Loc.mk l.name l.top l.keys l.strings c)
          ++ locales.drop counts.length
        (k, .subkeys locales' (propagate fuel counts keys))
      | v => (k, v))

/-- `check_locales_inner` -/
def checkLocalesInner (suppress : Bool) (fuel : Nat) (inherits : List (Str × Str)) (ns : Option Str) :
    List Loc → List Warning → Res (List Loc × BKI × List Warning)
  | [], _ => .panic "check_locales_inner_1"
  | dl :: others, ws =>
    let path : KeyPath := ⟨ns, []⟩
    match makeBuilderKeys dl.top fuel path dl [] with
    | .err e => .err e
    | .panic p => .panic p
    | .ok (dl', bki, strs) =>
      let dl'' := Loc.mk dl'.name dl'.top dl'.keys strs strs.length
      let rec go : List Loc → List Loc → BKI → List Warning → Res (List Loc × BKI × List Warning)
        | [], acc, bki, ws => .ok (acc, bki, ws)
        | l :: rest, acc, bki, ws =>
          let top := l.name
          let dto : DefaultTo := match AMap.get? top inherits with
            | some d => .explicit d
            | none => if suppress then .explicit dl.top else .implicit dl.top
          match mergeLocale suppress top dto fuel path l bki { strings := [], warnings := ws } with
          | .err e => .err e
          | .panic p => .panic p
          | .ok (l', bki', st) =>
            go rest (acc ++ [Loc.mk l'.name l'.top l'.keys st.strings st.strings.length]) bki' st.warnings
      match go others [dl''] bki ws with
      | .err e => .err e
      | .panic p => .panic p
      | .ok (locales, bki', ws') =>
        .ok (locales, propagate fuel (locales.map Loc.count) bki', ws')

/-- `DefaultedLocales::default_of_inner` with its visited set -/
def defaultOf (d : Defaults) : Nat → Str → List Str → Str
  | 0, cur, _ => cur
  | fuel + 1, cur, visited =>
    match AMap.get? cur d.mapping with
    | none => cur
    | some nxt =>
      let visited' := cur :: visited
      if visited'.contains nxt then d.dflt else defaultOf d fuel nxt visited'

/-- `DefaultedLocales::compute`: effective locale ↦ the locales that default to it -/
def compute (d : Defaults) : List (Str × List Str) :=
  d.mapping.foldl (fun acc (k, _) =>
    let tgt := defaultOf d (d.mapping.length + 1) k []
    let cur := (AMap.get? tgt acc).getD []
    AMap.insert' tgt (cur ++ [k]) acc) []

end I18nVerif.Check
