import I18nVerif.Model.Langid
/-!
Model of the initial-locale resolution (C15):

* `leptos_i18n/src/fetch_locale.rs`: `fetch_locale`, `fetch_locale_ssr/csr/hydrate`, `get_accepted_locale`,
  `resolve_locale`, `signal_once_then`, `signal_maybe_once_then`;
* `leptos_i18n/src/context.rs`: `init_i18n_context_with_options`, `init_context_inner` (the `RwSignal` is
  created from the *first* run of the initial-locale memo), `init_subcontext_with_options` (the memo, first run
  and re-runs);
* `leptos_i18n/src/locale.rs`: `resolve_locale_with_options`;
* the generated `impl FromStr for Locale` (`match s.trim() { "en" => .., _ => Err(()) }`), used by
  `FromToStringCodec` to decode the cookie value;
* `leptos_i18n/src/langid.rs`: `convert_vec_str_to_langids_lossy` (entries are `trim_ascii`-ed, then parsed,
  unparseable entries dropped) feeding `Langid.findMatch`.

Not leptos_i18n code, modelled only to be compared with what the harness observes (oracles of the
correspondence): `leptos_use::use_locales` on the server (`useLocalesSsr`: split at `,`, cut at the first `;`)
and "the value of the cookie named `cookie_name` in the request's jar" (an input here, `jarValue`).
ICU4X parsing of a language tag is the parameter `parse`.

A `Memo` is modelled by the value of one run; `firstRun = true` is the run with `prev == None`.
-/
namespace I18nVerif.Resolve
open I18nVerif.Langid

abbrev Str := List Char

/-- Rust `char::is_whitespace` (Unicode `White_Space`) -/
def isWs (c : Char) : Bool :=
  let n := c.toNat
  (0x09 ≤ n && n ≤ 0x0D) || n == 0x20 || n == 0x85 || n == 0xA0 || n == 0x1680 ||
  (0x2000 ≤ n && n ≤ 0x200A) || n == 0x2028 || n == 0x2029 || n == 0x202F || n == 0x205F || n == 0x3000

/-- Rust `u8::is_ascii_whitespace`: space, `\t`, `\n`, form feed, `\r` -/
def isAsciiWs (c : Char) : Bool :=
  c == ' ' || c == '\t' || c == '\n' || c == '\x0c' || c == '\r'

def trimBy (p : Char → Bool) (s : Str) : Str := ((s.dropWhile p).reverse.dropWhile p).reverse

/-- `str::trim` -/
def trim (s : Str) : Str := trimBy isWs s
/-- `<[u8]>::trim_ascii` -/
def trimAscii (s : Str) : Str := trimBy isAsciiWs s

/-- the configured locales: `names[i]` is the name of `avail[i]` (`get_all()` order); `dflt = L::default()` -/
structure Cfg where
  names : List Str
  avail : List Loc
  dflt : Loc

/-- generated `FromStr`: the first arm whose literal equals `s.trim()` -/
def fromStr (cfg : Cfg) (s : Str) : Option Loc := (cfg.names.zip cfg.avail).lookup (trim s)

/-- `use_cookie_with_options::<L, FromToStringCodec>` on the server: the jar's value for the cookie name,
    decoded with `from_str`; a decoding error is reported to `on_error` and yields `None` -/
def useCookie (cfg : Cfg) (jarValue : Option Str) : Option Loc := jarValue.bind (fromStr cfg)

/-- `if ENABLE_COOKIE && enable_cookie { use_cookie(..) } else { signal(None) }`, then `.get_untracked()` -/
def langCookie (cfg : Cfg) (featureCookie enableCookie : Bool) (jarValue : Option Str) : Option Loc :=
  if featureCookie && enableCookie then useCookie cfg jarValue else none

/-- the sub-context variant: `match cookie_name { Some(name) if ENABLE_COOKIE => use_cookie(..), _ => signal(None) }` -/
def subLangCookie (cfg : Cfg) (featureCookie hasCookieName : Bool) (jarValue : Option Str) : Option Loc :=
  if hasCookieName && featureCookie then useCookie cfg jarValue else none

/-! ### leptos-use `use_locales` (ssr) -/

/-- `str::split(',')` (always at least one piece) -/
def splitComma : Str → List Str
  | [] => [[]]
  | c :: cs =>
    if c == ',' then [] :: splitComma cs
    else match splitComma cs with
      | [] => [[c]]
      | p :: ps => (c :: p) :: ps

/-- `locale.split_once(';').map(|x| x.0).unwrap_or(locale)` -/
def cutSemi (s : Str) : Str := s.takeWhile (· != ';')

/-- `ssr_lang_header_getter().unwrap_or_default().split(',').map(cut at ';')` -/
def useLocalesSsr (header : Option Str) : List Str := (splitComma (header.getD [])).map cutSemi

/-! ### negotiation -/

/-- `convert_vec_str_to_langids_lossy` -/
def lossyLangids (parse : Str → Option LangId) (accepted : List Str) : List LangId :=
  accepted.filterMap (fun s => parse (trimAscii s))

/-- `L::find_locale(accepted)` -/
def findLocale (cfg : Cfg) (parse : Str → Option LangId) (accepted : List Str) : Loc :=
  findMatch (lossyLangids parse accepted) cfg.avail cfg.dflt

/-- the behaviour before the repair (entries parsed without trimming), kept for the regression witness -/
def findLocaleNoTrim (cfg : Cfg) (parse : Str → Option LangId) (accepted : List Str) : Loc :=
  findMatch (accepted.filterMap parse) cfg.avail cfg.dflt

/-! ### `fetch_locale.rs` -/

def signalOnceThen (start : α) (thenV : α) (firstRun : Bool) : α := if firstRun then start else thenV

def signalMaybeOnceThen (start : Option α) (thenV : α) (firstRun : Bool) : α :=
  match start with
  | some s => signalOnceThen s thenV firstRun
  | none => thenV

inductive Target where
  | ssr | hydrate | csr
deriving DecidableEq, Repr

/-- one run of the memo returned by `fetch_locale`; `htmlLang` = `get_locale_from_html()` (only read with `hydrate`) -/
def fetchLocale (target : Target) (htmlLang currentCookie : Option Loc) (accepted : Loc) (firstRun : Bool) : Loc :=
  match target with
  | .ssr => signalMaybeOnceThen currentCookie accepted firstRun
  | .hydrate => signalMaybeOnceThen (htmlLang.or currentCookie) accepted firstRun
  | .csr => signalMaybeOnceThen currentCookie accepted firstRun

/-- `resolve_locale`: `cfg!(hydrate).then(get_locale_from_html).flatten().or(cookie).unwrap_or_else(accepted)` -/
def resolveLocale (target : Target) (htmlLang currentCookie : Option Loc) (accepted : Loc) : Loc :=
  ((if target = .hydrate then htmlLang else none).or currentCookie).getD accepted

/-! ### `context.rs` -/

/-- what one request looks like to a context that is being created -/
structure Request where
  jarValue : Option Str        -- value of the cookie with the configured name, if the request carries one
  accepted : List Str          -- `use_locales()`: header entries on the server, `navigator.languages` on the client
  htmlLang : Option Loc := none

/-- `init_i18n_context_with_options(..).get_locale_untracked()` right after creation -/
def initRoot (cfg : Cfg) (parse : Str → Option LangId) (target : Target) (featureCookie enableCookie : Bool)
    (req : Request) : Loc :=
  fetchLocale target req.htmlLang (langCookie cfg featureCookie enableCookie req.jarValue)
    (findLocale cfg parse req.accepted) true

/-- `resolve_locale_with_options` -/
def resolveWithOptions (cfg : Cfg) (parse : Str → Option LangId) (target : Target) (featureCookie enableCookie : Bool)
    (req : Request) : Loc :=
  resolveLocale target req.htmlLang (langCookie cfg featureCookie enableCookie req.jarValue)
    (findLocale cfg parse req.accepted)

/-- one run of `initial_locale_listener` -/
def subMemo {α : Type} (firstRun : Bool) (initial cookie : Option α) (parent : α) : α :=
  if firstRun then (cookie.or initial).getD parent else (initial.or cookie).getD parent

/-- `init_subcontext_with_options(..).get_locale_untracked()` right after creation; `parentLocale` =
    `use_context::<I18nContext<L>>().map(get_locale_untracked)` -/
def initSub (cfg : Cfg) (parse : Str → Option LangId) (target : Target) (featureCookie hasCookieName : Bool)
    (req : Request) (initial parentLocale : Option Loc) : Loc :=
  let cookie := subLangCookie cfg featureCookie hasCookieName req.jarValue
  let fetched := fetchLocale target req.htmlLang none (findLocale cfg parse req.accepted) true
  let parent := signalMaybeOnceThen parentLocale fetched true
  subMemo true initial cookie parent

/-- a later run of the sub-context memo (the wired `initial_locale` signal changed). The two inner memos
    (`fetch_locale`, `parent_locale`) only re-run when the accepted languages change (client side
    `languagechange`); `innerFirstRun = true` is the situation on the server: they still hold their first value -/
def subRerun (cfg : Cfg) (parse : Str → Option LangId) (target : Target) (featureCookie hasCookieName : Bool)
    (req : Request) (initial parentLocale : Option Loc) (innerFirstRun : Bool) : Loc :=
  let cookie := subLangCookie cfg featureCookie hasCookieName req.jarValue
  let fetched := fetchLocale target req.htmlLang none (findLocale cfg parse req.accepted) innerFirstRun
  let parent := signalMaybeOnceThen parentLocale fetched innerFirstRun
  subMemo false initial cookie parent

/-- server side: the `Set-Cookie` attempts after creation (`Effect::new_isomorphic` writes the signal's locale
    into the cookie once): one per context when its cookie is in use, none otherwise -/
def setCookieAfterInit (cookieInUse : Bool) (l : Loc) : List Loc := if cookieInUse then [l] else []

end I18nVerif.Resolve
