import I18nVerif.Model.Value
/-
`parse_formatter_args`, `Formatter::from_name_and_args`, `from_args_helper` and the per-option
`from_args` tables (`leptos_i18n_parser/src/utils/formatter.rs`, `parsed_value.rs:148-184`).
All formatter features are assumed enabled (the harness builds with them), so `DisabledFormatter`
is never produced.
-/
namespace I18nVerif.Formatter
open I18nVerif Str

abbrev Args := Option (List (Str × Str))

/-- `parse_formatter_args` -/
def parseArgs (s : Str) : Str × Args :=
  match splitOnceC '(' s with
  | none => (trim s, none)
  | some (name, rest) =>
    match rsplitOnceC ')' rest with
    | none => (trim s, none)
    | some (args, _) =>
      let pairs := (splitC ';' args).filterMap (fun p => splitOnceC ':' p)
      (trim name, some (pairs.map (fun (a, b) => (trim a, trim b))))

/-- `from_args_helper`: first argument named `name` whose value is recognised, else the default -/
def fromArgs (args : Args) (name : String) (f : Str → Option α) (dflt : α) : α :=
  match args with
  | none => dflt
  | some l =>
    match l.findSome? (fun (a, v) => if a == name.toList then f v else none) with
    | some v => v
    | none => dflt

def table (t : List (String × α)) (v : Str) : Option α :=
  (t.find? (fun (n, _) => n.toList == v)).map (·.2)

def grouping (a : Args) : Grouping :=
  fromArgs a "grouping_strategy" (table [("auto", .auto), ("never", .never), ("always", .always), ("min2", .min2)]) .auto
def dateLen (a : Args) : DateLen :=
  fromArgs a "date_length" (table [("full", .full), ("long", .long), ("medium", .medium), ("short", .short)]) .medium
def timeLen (a : Args) : TimeLen :=
  fromArgs a "time_length" (table [("full", .full), ("long", .long), ("medium", .medium), ("short", .short)]) .short
def listTy (a : Args) : ListTy :=
  fromArgs a "list_type" (table [("and", .and), ("or", .or), ("unit", .unit)]) .unit
def listStyle (a : Args) : ListStyle :=
  fromArgs a "list_style" (table [("wide", .wide), ("short", .short), ("narrow", .narrow)]) .wide
def curWidth (a : Args) : CurWidth :=
  fromArgs a "width" (table [("short", .short), ("narrow", .narrow)]) .short
/-- `TinyAsciiStr::<3>::from_str`: at most 3 ASCII, non-NUL characters -/
def tiny3 (v : Str) : Option Str :=
  if v.length ≤ 3 && v.all (fun c => c.toNat < 0x80 && c.toNat != 0) then some v else none
def curCode (a : Args) : Str := fromArgs a "currency_code" tiny3 "USD".toList

/-- `Formatter::from_name_and_args` (all features on): `none` = unknown formatter name -/
def fromNameAndArgs (name : Str) (a : Args) : Option Fmt :=
  if name == "currency".toList then some (.currency (curWidth a) (curCode a))
  else if name == "number".toList then some (.number (grouping a))
  else if name == "datetime".toList then some (.dateTime (dateLen a) (timeLen a))
  else if name == "date".toList then some (.date (dateLen a))
  else if name == "time".toList then some (.time (timeLen a))
  else if name == "list".toList then some (.list (listTy a) (listStyle a))
  else none

/-- `ParsedValue::parse_formatter` -/
def parseFormatter (s : Str) : Res Fmt :=
  let (name, args) := parseArgs s
  match fromNameAndArgs name args with
  | some f => .ok f
  | none => .err "UnknownFormatter"

end I18nVerif.Formatter
