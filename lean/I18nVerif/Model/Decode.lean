import I18nVerif.Model.Parse
import I18nVerif.Model.Ranges
/-
From a decoded file tree (`J`, what serde hands to the visitors, objects in document order) to a
`Locale`: `LocaleSeed::visit_map`, `ParsedValueSeed::visit_*`, `Ranges::from_serde_seq`,
`TypeOrRangeSeed`, `RangeStructSeed`, `RangeSeed` (`locale.rs:721-775`, `parsed_value.rs:927-1042`,
`ranges.rs:260-283, 797-1078`).
-/
namespace I18nVerif

inductive J where
  | null
  | bool (b : Bool)
  | unsigned (n : Nat)
  | signed (i : Int)
  | float (d : Dec)
  | str (s : Str)
  | arr (l : List J)
  | obj (l : List (Str × J))
deriving Repr, Inhabited

namespace Decode
open Str Ranges

/-- `RangeSeed` visitors: a count specification for type `t` -/
def rangeSpec (t : RangeTy) : J → Res Range
  | .str s => Ranges.new t s
  | .unsigned n =>
    if t.isFloat then (if isFinite t (Dec.ofInt n) then .ok (.exact (Dec.ofInt n)) else .err "RangeNumberType")
    else if t.inRange n then .ok (.exact (Dec.ofInt n)) else .err "RangeNumberType"
  | .signed i =>
    if t.isFloat then (if isFinite t (Dec.ofInt i) then .ok (.exact (Dec.ofInt i)) else .err "RangeNumberType")
    else if t.inRange i then .ok (.exact (Dec.ofInt i)) else .err "RangeNumberType"
  | .float d =>
    if t.isFloat then (if isFinite t d then .ok (.exact d) else .err "RangeNumberType") else .err "RangeNumberType"
  | .arr l => rangeSeq t l
  | _ => .err "Serde"
where
  /-- `RangeSeed::visit_seq`: empty ⇒ fallback, one ⇒ itself, more ⇒ `Multiple(rest ++ [first])` -/
  rangeSeq (t : RangeTy) : List J → Res Range
    | [] => .ok .fallback
    | first :: rest =>
      match rangeSpec t first with
      | .err e => .err e
      | .panic p => .panic p
      | .ok f =>
        match rangeList t rest with
        | .err e => .err e
        | .panic p => .panic p
        | .ok [] => .ok f
        | .ok rs => .ok (.multi (rs ++ [f]))
  rangeList (t : RangeTy) : List J → Res (List Range)
    | [] => .ok []
    | x :: xs =>
      match rangeSpec t x with
      | .err e => .err e
      | .panic p => .panic p
      | .ok r =>
        match rangeList t xs with
        | .err e => .err e
        | .panic p => .panic p
        | .ok rs => .ok (r :: rs)

/-- fields of a `{count, value}` object, in document order; duplicate ⇒ error -/
def structFields : List (Str × J) → Option J → Option J → Res (Option J × Option J)
  | [], c, v => .ok (c, v)
  | (k, x) :: rest, c, v =>
    if k == "count".toList then (if c.isSome then .err "Serde" else structFields rest (some x) v)
    else if k == "value".toList then (if v.isSome then .err "Serde" else structFields rest c (some x))
    else .err "Serde"

mutual
def J.size : J → Nat
  | .arr l => 1 + J.sizeL l
  | .obj l => 1 + J.sizeO l
  | _ => 1
def J.sizeL : List J → Nat
  | [] => 0
  | x :: xs => J.size x + J.sizeL xs
def J.sizeO : List (Str × J) → Nat
  | [] => 0
  | (_, x) :: xs => J.size x + J.sizeO xs
end

/-- `ParsedValueSeed` (deserialize_any): `inRange` forbids subkeys / nested ranges / null.
    `fuel` bounds the nesting depth (`J.size` is always enough). -/
def value : Nat → Str → Bool → Str → J → Res PV
  | 0, _, _, _, _ => .panic "fuel"
  | fuel + 1, top, inRange, key, j =>
    -- `RangeStructSeed`: one `(range, value)` pair in either syntax
    let pair (t : RangeTy) (x : J) : Res (Range × PV) :=
      match x with
      | .obj fields =>
        match structFields fields none none with
        | .err e => .err e
        | .panic p => .panic p
        | .ok (c, v) =>
          match v with
          | none =>
            match c with
            | some cj => match rangeSpec t cj with
              | .err e => .err e
              | .panic p => .panic p
              | .ok _ => .err "Serde"
            | none => .err "Serde"
          | some vj =>
            match c with
            | none =>
              match value fuel top true [] vj with
              | .ok pv => .ok (.fallback, pv)
              | .err e => .err e
              | .panic p => .panic p
            | some cj =>
              match rangeSpec t cj, value fuel top true [] vj with
              | .ok r, .ok pv => .ok (r, pv)
              | .panic p, _ => .panic p
              | _, .panic p => .panic p
              | .err e, .ok _ => .err e
              | .ok _, .err e => .err e
              | .err e, .err _ => .err e
      | .arr (vj :: counts) =>
        match value fuel top true [] vj with
        | .err e => .err e
        | .panic p => .panic p
        | .ok pv =>
          match rangeSpec.rangeSeq t counts with
          | .ok r => .ok (r, pv)
          | .err e => .err e
          | .panic p => .panic p
      | _ => .err "Serde"
    let rec pairs (t : RangeTy) : List J → Res (List (Range × PV))
      | [] => .ok []
      | x :: xs =>
        match pair t x with
        | .err e => .err e
        | .panic p => .panic p
        | .ok p =>
          match pairs t xs with
          | .err e => .err e
          | .panic q => .panic q
          | .ok ps => .ok (p :: ps)
    -- `LocaleSeed::visit_map`: keys in document order into a `BTreeMap` (an equal key is rejected)
    let rec localeKeys : List (Str × J) → List (Str × PV) → Res (List (Str × PV))
      | [], acc => .ok acc
      | (k, x) :: rest, acc =>
        match Key.new k with
        | none => .err "InvalidKey"
        | some key' =>
          match value fuel top false key' x with
          | .err e => .err e
          | .panic p => .panic p
          | .ok pv =>
            -- keys are trimmed: `"a"` and `"a "` are the same key; a second occurrence is rejected
            if AMap.contains key' acc then .err "DuplicateKey" else localeKeys rest (AMap.insert' key' pv acc)
    match j with
    | .str s => Parse.new s
    | .bool b => .ok (.lit (.bool b))
    | .signed i => .ok (.lit (.signed i))
    | .unsigned n => .ok (.lit (.unsigned n))
    | .float d => .ok (.lit (.float d))
    | .null => if inRange then .err "RangeNull" else .ok .dflt
    | .obj l =>
      if inRange then .err "RangeSubkeys"
      else match localeKeys l [] with
        | .ok keys => .ok (.subkeys (some (.mk key top keys [] 0)))
        | .err e => .err e
        | .panic p => .panic p
    | .arr l =>
      if inRange then .err "NestedRanges"
      else match l with
        | [] => .err "EmptyRange"
        | first :: rest =>
          -- `TypeOrRangeSeed`
          let start : Res (RangeTy × List (Range × PV)) := match first with
            | .str s => match Ranges.tyOfStr s with
              | some t => match pairs t rest with
                | .ok bs => .ok (t, bs)
                | .err e => .err e
                | .panic p => .panic p
              | none => .err "InvalidRangeType"
            | .obj _ | .arr _ => match pairs .i32 (first :: rest) with
                | .ok bs => .ok (.i32, bs)
                | .err e => .err e
                | .panic p => .panic p
            | _ => .err "Serde"
          match start with
          | .err e => .err e
          | .panic p => .panic p
          | .ok (t, bs) =>
            if bs.isEmpty then .err "EmptyRange" else
            let (invalid, count) := Ranges.checkDe (bs.map (·.1))
            if invalid then .err "InvalidFallback"
            else if count > 1 then .err "MultipleFallbacks"
            else if count == 0 && t.isFloat then .err "MissingFallback"
            else .ok (.ranges "var_count".toList t bs)

/-- a locale file: the top-level object is a `Locale` named after the locale -/
def locale (name : Str) (j : J) : Res Loc :=
  match j with
  | .obj _ =>
    match value (J.size j + 1) name false name j with
    | .ok (.subkeys (some l)) => .ok l
    | .ok _ => .panic "decode"
    | .err e => .err e
    | .panic p => .panic p
  | _ => .err "Serde"

end Decode
end I18nVerif
