import I18nVerif.Model.ManifestConfig
import I18nVerif.Theorems.C19SectionRest
/-!
# C19 — from the text of Cargo.toml to the configuration, with the TOML parser as a parameter

`configOfManifest toml` = split, blank, decode (`toml`, an oracle), `Config.new`.  The only thing assumed of the oracle is
stated where it is used: a blank first line does not change what it decodes (`hnl`) — the blanking exists for the line
numbers of its diagnostics, which the model's error kinds do not carry.
-/
namespace I18nVerif.Manifest
open I18nVerif I18nVerif.Config

theorem toml_blank_lines (toml : List Char → Res (List (Str × TV))) (hnl : ∀ w, toml ('\n' :: w) = toml w)
    (k : Nat) (w : List Char) : toml (List.replicate k '\n' ++ w) = toml w := by
  induction k with
  | zero => rfl
  | succ k ih => rw [List.replicate_succ, List.cons_append, hnl, ih]

/-- the rest of Cargo.toml before the section is ignored: whole lines that do not start with the header — other tables,
comments and strings mentioning it — put before a manifest change neither the configuration nor the error -/
theorem C19_manifest_before_ignored (toml : List Char → Res (List (Str × TV))) (hnl : ∀ w, toml ('\n' :: w) = toml w)
    (p m : List Char) (hp : p = [] ∨ ∃ q, p = q ++ ['\n']) (hno : ∀ l ∈ lines p, startsSection l = false) :
    configOfManifest toml (p ++ m) = configOfManifest toml m := by
  unfold configOfManifest whitespaced
  rw [C19_text_before_ignored p m hp hno]
  cases h : splitAtSection m with
  | none => rfl
  | some br =>
    obtain ⟨b, r⟩ := br
    simp only [Option.map_some, List.filter_append, List.append_assoc]
    have e : p.filter (· == '\n') = List.replicate (countNl p) '\n' := by
      rw [List.eq_replicate_iff]
      exact ⟨filter_nl_length p, fun c hc => by simpa using (List.mem_filter.1 hc).2⟩
    rw [e, toml_blank_lines toml hnl]

/-- no section, no configuration — whatever the parser would have said -/
theorem C19_manifest_absent (toml : List Char → Res (List (Str × TV))) (m : List Char)
    (h : ∀ l ∈ lines m, startsSection l = false) : configOfManifest toml m = .err "ConfigNotPresent" := by
  have : whitespaced m = none := (C19_whitespaced_none_iff m).2 ((C19_section_absent_iff m).2 h)
  simp [configOfManifest, this]

/-- the configuration is `Config.new` of what the parser decodes from the section text preceded by one line end per line
of the text before it — so every theorem of `Theorems/C19.lean` about `Config.new` speaks about `ConfigFile::new` -/
theorem C19_manifest_config (toml : List Char → Res (List (Str × TV))) (m b r : List Char) (table : List (Str × TV))
    (hs : splitAtSection m = some (b, r)) (ht : toml (List.replicate (countNl b) '\n' ++ r) = .ok table) :
    configOfManifest toml m = Config.new table := by
  have hw : whitespaced m = some (List.replicate (countNl b) '\n' ++ r) := by
    obtain ⟨w, hw⟩ : ∃ w, whitespaced m = some w := by simp [whitespaced, hs]
    obtain ⟨b', r', hs', _, e⟩ := C19_whitespaced_shape m w hw
    rw [hs] at hs'
    simp only [Option.some.injEq, Prod.mk.injEq] at hs'
    rw [hw, e, hs'.1, hs'.2]
  simp [configOfManifest, hw, ht]

/-- the assumption on the oracle is satisfiable by a parser that looks at the text: one that skips leading line ends -/
example : ∀ w, (fun (t : List Char) => if t.dropWhile (· == '\n') = [] then (Res.err "ConfigFileDeser" : Res (List (Str × TV))) else .ok [])
    ('\n' :: w) = (fun (t : List Char) => if t.dropWhile (· == '\n') = [] then (Res.err "ConfigFileDeser" : Res (List (Str × TV))) else .ok []) w := by
  intro w; simp

end I18nVerif.Manifest
