import I18nVerif.Proofs.DatakeyAll
import I18nVerif.Proofs.TablesAll
/-!
# C20 (full) — the ICU options requested are exactly those the translations use

Completes `Theorems/C20.lean` through `make_builder_keys`, `Locale::merge`, `check_locales_inner`
(one namespace) and `Pipeline.checkAll` / `Pipeline.run` (all namespaces).

Vocabulary
* `valueAt ks p` (`Spec/BkiPath.lean`): the value of a locale with key map `ks` at key path `p`, as
  the code sees it — after `reduce`, descending through groups only; `leafValAt ks p`: it exists
  and is not a group.  For the **default** locale these are the accessible keys (the leaves of the
  builder keys): `C20_leaf_paths`.
* `ValueUses v o` (`Spec/Datakey.lean`) and its structural, executable reading `usesB v o`,
  `hasPlurals v`, `hasFmt o v` (`Spec/Uses.lean`): `v` contains a `Plurals` node / a variable with a
  formatter of the family of `o`, at any depth (components, bloc items, range branches, plural
  forms, inner value of a resolved foreign key).
* `NsUses ns o` (`Spec/Uses.lean`): some locale of the namespace uses `o` at an accessible key.

Hypothesis: the keys of every default locale are distinct at every level (`NDLoc` /
`DistinctLoc`, decidable) — locales are `BTreeMap`s; discharged on the pipeline in
`Theorems/C20Pipeline.lean` (`C20_pipeline`).  No freshness hypothesis is needed here.

About `C20_full_statement` of `Theorems/C20.lean`: as written (`∃ v ∈ leafValuesK l.keys` over *all*
keys of *all* locales) its right-to-left direction is **false**: a key that only a non-default
locale has (a surplus key: warned about, not accessible) may use plurals without any builder key
asking for them — see the `example` at the end.  The statement proved here restricts the right
side to accessible keys (`C20_pipeline_uses_iff`), which is what the property text says
("the translations use", i.e. what generated accessors can render).
-/
namespace I18nVerif.Datakey
open I18nVerif I18nVerif.Check I18nVerif.Occ I18nVerif.Datakey.Spec
open Spec.Fallback Spec.Diagnostics

/-! ## `reduce` keeps what a value uses -/

/-- **`reduce` keeps the occurrences** — variables with their formatter, components, count
    variables with their kind — even as lists, in order: joining literals, dropping empty strings,
    flattening blocs and unwrapping resolved foreign keys touch none of them. -/
theorem C20_reduce_keeps_occurrences (v v' : PV) (h : Reduce.reduce v = .ok v') :
    occVars v' = occVars v ∧ occComps v' = occComps v ∧ occCounts v' = occCounts v :=
  reduce_occ v v' h

/-- hence a value uses an option iff its reduced form does -/
theorem C20_reduce_keeps_uses (v v' : PV) (h : Reduce.reduce v = .ok v') (o : Opt) :
    ValueUses v' o ↔ ValueUses v o :=
  reduce_uses v v' h o

/-! ## the structural reading of "uses" -/

/-- a value has a plural count occurrence iff it contains a `Plurals` node, at any depth -/
theorem C20_plural_node_iff (v : PV) : (∃ n, (n, CountTy.plural) ∈ occCounts v) ↔ hasPlurals v = true :=
  hasPlurals_iff v

/-- a value has a variable occurrence with a formatter of family `o` iff the structural search
    finds one, at any depth -/
theorem C20_formatter_node_iff (o : Opt) (v : PV) :
    (∃ n f, (n, f) ∈ occVars v ∧ fmtOpt f = some o) ↔ hasFmt o v = true :=
  hasFmt_iff o v

/-- `ValueUses` is decided by `usesB` -/
theorem C20_uses_structural (v : PV) (o : Opt) : ValueUses v o ↔ usesB v o = true :=
  usesB_iff v o

/-! ## one namespace: `check_locales_inner` -/

/-- **Accessible keys.**  The leaf key paths of the final builder keys are exactly the key paths at
    which the default locale has a plain (non-group) value — any subkey depth, any fuel. -/
theorem C20_leaf_paths {suppress : Bool} {fuel : Nat} {inherits : List (Str × Str)} {ns : Option Str}
    {dl : Loc} {others : List Loc} {ws : List Warning} {locales : List Loc} {bki : BKI} {ws' : List Warning}
    (h : checkLocalesInner suppress fuel inherits ns (dl :: others) ws = .ok (locales, bki, ws')) (p : List Str) :
    (leafAt bki p).isSome = leafValAt dl.keys p :=
  checkLocalesInner_leaf_paths h p

/-- **The signature of every key, at any depth, is the union over all locales.**  For every leaf
    `p` of the final builder keys: a formatter `f` is recorded for variable `n` iff some locale's
    (reduced) value at `p` has the occurrence `{{ n, f }}`; `n` is recorded with count kind `ty` iff
    some locale's value at `p` has that count occurrence; and the variables form a sorted map. -/
theorem C20_leaf_signature {suppress : Bool} {fuel : Nat} {inherits : List (Str × Str)} {ns : Option Str}
    {dl : Loc} {others : List Loc} {ws : List Warning} {locales : List Loc} {bki : BKI} {ws' : List Warning}
    (h : checkLocalesInner suppress fuel inherits ns (dl :: others) ws = .ok (locales, bki, ws'))
    {p : List Str} {iol : IOL} {d : Defaults} (hleaf : leafAt bki p = some (iol, d)) :
    (∀ n f, f ∈ fmtsOf iol.keysMut n ↔ ∃ l ∈ dl :: others, ∃ v, valueAt l.keys p = some v ∧ (n, f) ∈ occVars v) ∧
    (∀ n ty, countOf iol.keysMut n = some ty ↔
      ∃ l ∈ dl :: others, ∃ v, valueAt l.keys p = some v ∧ (n, ty) ∈ occCounts v) ∧
    Keys.Sorted iol.keysMut.vars := by
  obtain ⟨s1, s2⟩ := checkLocalesInner_sig h p iol d hleaf
  obtain ⟨a3, a4⟩ := s1.exact
  refine ⟨?_, ?_, s2⟩
  · intro n f
    rw [a3]
    constructor
    · rintro ⟨v, hv, hm⟩
      obtain ⟨l, hl, rfl⟩ := List.mem_map.mp hv
      cases hva : valueAt l.keys p with
      | none => rw [hva] at hm; simp [valD, occVars] at hm
      | some v => rw [hva] at hm; exact ⟨l, hl, v, hva, hm⟩
    · rintro ⟨l, hl, v, hva, hm⟩
      exact ⟨v, List.mem_map.mpr ⟨l, hl, by rw [hva]; rfl⟩, hm⟩
  · intro n ty
    rw [a4]
    constructor
    · rintro ⟨v, hv, hm⟩
      obtain ⟨l, hl, rfl⟩ := List.mem_map.mp hv
      cases hva : valueAt l.keys p with
      | none => rw [hva] at hm; simp [valD, occCounts] at hm
      | some v => rw [hva] at hm; exact ⟨l, hl, v, hva, hm⟩
    · rintro ⟨l, hl, v, hva, hm⟩
      exact ⟨v, List.mem_map.mpr ⟨l, hl, by rw [hva]; rfl⟩, hm⟩

/-- **One namespace.**  An option is derived from the builder keys of a successful
    `check_locales_inner` iff at some accessible key path `p` (a plain value of the default locale,
    any subkey depth) the (reduced) value of *some locale* uses it. -/
theorem C20_check_uses_iff {suppress : Bool} {fuel : Nat} {inherits : List (Str × Str)} {ns : Option Str}
    {dl : Loc} {others : List Loc} {ws : List Warning} {locales : List Loc} {bki : BKI} {ws' : List Warning}
    (h : checkLocalesInner suppress fuel inherits ns (dl :: others) ws = .ok (locales, bki, ws'))
    (hnd : NDLoc fuel dl) (o : Opt) :
    o ∈ usedOptions bki ↔
      ∃ p, leafValAt dl.keys p = true ∧ ∃ l ∈ dl :: others, ∃ v, valueAt l.keys p = some v ∧ ValueUses v o := by
  rw [checkLocalesInner_uses h hnd o]
  constructor
  · rintro ⟨p, hp, r⟩
    exact ⟨p, by rw [← checkLocalesInner_leaf_paths h p]; exact hp, r⟩
  · rintro ⟨p, hp, r⟩
    exact ⟨p, by rw [checkLocalesInner_leaf_paths h p]; exact hp, r⟩

/-- **Plural data iff some locale's value at an accessible key contains a `Plurals` node** — at any
    depth of the value (components, range branches, plural forms, resolved foreign keys) and any
    subkey depth of the key. -/
theorem C20_check_plurals_iff {suppress : Bool} {fuel : Nat} {inherits : List (Str × Str)} {ns : Option Str}
    {dl : Loc} {others : List Loc} {ws : List Warning} {locales : List Loc} {bki : BKI} {ws' : List Warning}
    (h : checkLocalesInner suppress fuel inherits ns (dl :: others) ws = .ok (locales, bki, ws'))
    (hnd : NDLoc fuel dl) :
    Opt.plurals ∈ usedOptions bki ↔
      ∃ p, leafValAt dl.keys p = true ∧ ∃ l ∈ dl :: others, ∃ v, valueAt l.keys p = some v ∧ hasPlurals v = true := by
  rw [C20_check_uses_iff h hnd]
  have key : ∀ v, ValueUses v .plurals ↔ hasPlurals v = true := by
    intro v
    rw [← hasPlurals_iff]
    unfold ValueUses
    constructor
    · rintro (⟨_, h⟩ | ⟨n, f, _, hf⟩)
      · exact h
      · cases f <;> simp [fmtOpt] at hf
    · intro h; exact Or.inl ⟨rfl, h⟩
  simp only [key]

/-- **Each formatter family's data iff some locale's value at an accessible key contains a variable
    with a formatter of that family.** -/
theorem C20_check_formatter_iff {suppress : Bool} {fuel : Nat} {inherits : List (Str × Str)} {ns : Option Str}
    {dl : Loc} {others : List Loc} {ws : List Warning} {locales : List Loc} {bki : BKI} {ws' : List Warning}
    (h : checkLocalesInner suppress fuel inherits ns (dl :: others) ws = .ok (locales, bki, ws'))
    (hnd : NDLoc fuel dl) (o : Opt) (ho : o ≠ .plurals) :
    o ∈ usedOptions bki ↔
      ∃ p, leafValAt dl.keys p = true ∧ ∃ l ∈ dl :: others, ∃ v, valueAt l.keys p = some v ∧ hasFmt o v = true := by
  rw [C20_check_uses_iff h hnd]
  have key : ∀ v, ValueUses v o ↔ hasFmt o v = true := by
    intro v
    rw [← hasFmt_iff]
    unfold ValueUses FmtIn
    constructor
    · rintro (⟨h, _⟩ | h)
      · exact absurd h ho
      · exact h
    · intro h; exact Or.inr h
  simp only [key]

/-! ## all namespaces: `Pipeline.checkAll`, `Pipeline.run` -/

/-- **`check_locales` over all namespaces** (the model's fuel): some namespace's builder keys use
    `o` iff in some namespace some locale uses `o` at an accessible key. -/
theorem C20_checkAll_uses_iff (inp : Pipeline.Input) (nss : List NS) (ws : List Warning)
    (outs : List Pipeline.NsOut) (ws' : List Warning)
    (h : Pipeline.checkAll inp nss ws = .ok (outs, ws'))
    (hnd : ∀ ns ∈ nss, ∀ dl, ns.locales.head? = some dl → DistinctLoc dl = true) (o : Opt) :
    (∃ out ∈ outs, KeysUse out.keys o) ↔ ∃ ns ∈ nss, NsUses ns o :=
  checkAll_uses inp nss ws outs ws' h
    (fun ns hns dl hdl => NDLoc_of_distinct 1000000 dl (hnd ns hns dl hdl)) o

/-- **C20 on the whole pipeline.**  `w` is the world after parsing, `merge_plurals` and foreign-key
    resolution (`Pipeline.resolved`), `out` the result of `parse_locales`.  The build helper requests
    option `o` (`get_icu_keys`) iff in some namespace some locale's (reduced) value at an accessible
    key — any subkey depth — uses `o`: contains a `Plurals` node (for `Plurals`) or a variable with a
    formatter of the family of `o`, at any depth of the value. -/
theorem C20_pipeline_uses_iff (inp : Pipeline.Input) (w : World) (ws : List Warning) (out : Pipeline.Output)
    (hr : Pipeline.resolved inp = .ok (w, ws)) (h : Pipeline.run inp = .ok out)
    (hnd : ∀ ns ∈ w.nss, ∀ dl, ns.locales.head? = some dl → DistinctLoc dl = true) (o : Opt) :
    o ∈ icuOptions out ↔ ∃ ns ∈ w.nss, NsUses ns o := by
  obtain ⟨w', ws1, ws', hr', hc⟩ := run_parts inp out h
  rw [hr] at hr'
  simp only [Res.ok.injEq, Prod.mk.injEq] at hr'
  obtain ⟨rfl, rfl⟩ := hr'
  rw [C20_icu_options_iff]
  exact C20_checkAll_uses_iff inp w.nss ws out.nss ws' hc hnd o

/-- the same with the structural check: `usesB` (`hasPlurals` / `hasFmt`) -/
theorem C20_pipeline_uses_structural (inp : Pipeline.Input) (w : World) (ws : List Warning) (out : Pipeline.Output)
    (hr : Pipeline.resolved inp = .ok (w, ws)) (h : Pipeline.run inp = .ok out)
    (hnd : ∀ ns ∈ w.nss, ∀ dl, ns.locales.head? = some dl → DistinctLoc dl = true) (o : Opt) :
    o ∈ icuOptions out ↔
      ∃ ns ∈ w.nss, ∃ dl, ns.locales.head? = some dl ∧ ∃ p, leafValAt dl.keys p = true ∧
        ∃ l ∈ ns.locales, ∃ v, valueAt l.keys p = some v ∧ usesB v o = true := by
  rw [C20_pipeline_uses_iff inp w ws out hr h hnd o]
  unfold NsUses
  simp only [usesB_iff]

/-! ## the locales reported -/

/-- every stage keeps the locales' names and order: in every namespace of the resolved world the
    locale names are the configured ones -/
theorem C20_resolved_locale_names (inp : Pipeline.Input) (w : World) (ws : List Warning)
    (h : Pipeline.resolved inp = .ok (w, ws)) : ∀ ns ∈ w.nss, ns.locales.map Loc.name = inp.cfg.locales :=
  resolved_names inp w ws h

/-- … and so has every namespace of the output of `parse_locales` -/
theorem C20_output_locale_names (inp : Pipeline.Input) (out : Pipeline.Output) (h : Pipeline.run inp = .ok out) :
    ∀ o ∈ out.nss, o.locales.map Loc.name = inp.cfg.locales := by
  obtain ⟨w, ws, ws', hr, hc⟩ := run_parts inp out h
  exact checkAll_names inp _ _ _ _ _ hc (resolved_names inp w ws hr)

/-- **`get_locales` reports exactly the configured locales, in order** — the full statement of
    `Theorems/C20.lean`, proved. -/
theorem C20_locales : C20_locales_full_statement := by
  intro inp out h hne
  have := C20_output_locale_names inp out h
  unfold getLocales
  cases hn : out.nss with
  | nil => exact absurd hn hne
  | cons ns rest => exact this ns (by rw [hn]; simp)

/-- one stage at a time -/
theorem C20_decode_keeps_name (name : Str) (j : J) (loc : Loc) (h : Decode.locale name j = .ok loc) :
    loc.name = name :=
  Decode_locale_name name j loc h

theorem C20_merge_plurals_keeps_name (orc : Oracle) (locale : Str) (fuel : Nat) (path : KeyPath) (l l' : Loc)
    (w : List Warning) (h : Plurals.mergePlurals orc locale fuel path l = .ok (l', w)) : l'.name = l.name :=
  mergePlurals_name orc locale fuel path l l' w h

theorem C20_resolve_keeps_names (L : List Str) (orc : Oracle) (dflt : Foreign.Fallbacks) (fuel : Nat)
    (paths : List (Str × KeyPath)) (w w' : World) (h : Foreign.resolveAll orc dflt fuel paths w = .ok w')
    (hok : ∀ ns ∈ w.nss, ns.locales.map Loc.name = L) : ∀ ns ∈ w'.nss, ns.locales.map Loc.name = L :=
  resolveAll_names L orc dflt fuel paths w w' h hok

/-! ## Examples -/

private def s (x : String) : Str := x.toList
private def plur : PV := .plurals .cardinal (s "var_count") (.lit (.str (s "many") none)) [(.one, .lit (.str (s "one") none))]

example : hasPlurals (.bloc [.lit (.str (s "a") none), .comp (s "b") (.fk (.set plur))]) = true := by decide
example : hasPlurals (.ranges (s "n") .i32 [(.fallback, .bloc [.var (s "x") .none, plur])]) = true := by decide
example : hasFmt .formatCurrency (.plurals .cardinal (s "n") (.var (s "x") (.currency .short (s "USD"))) []) = true := by
  decide
example : usesB (.var (s "x") (.date .long)) .formatDateTime = true ∧ usesB (.var (s "x") (.date .long)) .plurals = false := by
  decide

/-- a two-level locale: `{a: "x", g: {h: <plural>}}` — the plural is at the accessible key path `g.h` -/
private def grp : PV := .subkeys (some (.mk (s "g") (s "en") [(s "h", plur)] [] 0))
private def en : Loc := .mk (s "en") (s "en") [(s "a", .lit (.str (s "x") none)), (s "g", grp)] [] 0

example : valueAt en.keys [s "g", s "h"] = some plur := by
  simp [valueAt, en, grp, plur, s, Loc.keys, AMap.get?, Reduce.reduce, Reduce.reduceKeys, Reduce.reduceForms]
example : leafValAt en.keys [s "g"] = false := by
  simp [leafValAt, leafOpt, isLeafVal, valueAt, en, grp, plur, s, Loc.keys, AMap.get?, Reduce.reduce, Reduce.reduceKeys,
    Reduce.reduceForms]
example : DistinctLoc en = true := by decide

/-! ### why the unrestricted `C20_full_statement` is too strong: a surplus key

`en = {a: "x"}` (default), `fr = {a: "y", b: <plural>}`: `b` is a surplus key of `fr` (warned about,
no accessor is generated).  The check succeeds, no builder key asks for plural data, although a
value of `fr` contains a `Plurals` node. -/
private def en1 : Loc := .mk (s "en") (s "en") [(s "a", .lit (.str (s "x") none))] [] 0
private def fr1 : Loc := .mk (s "fr") (s "fr") [(s "a", .lit (.str (s "y") none)), (s "b", plur)] [] 0

/-- the hypothesis `NDLoc`/`DistinctLoc` of `C20_check_uses_iff` holds for this default locale, and the run
    below succeeds: the hypotheses of the theorems are jointly satisfiable -/
example : DistinctLoc en1 = true ∧ NDLoc 5 en1 := ⟨by decide, NDLoc_of_distinct 5 en1 (by decide)⟩

private theorem gkLit (l : Lit) (k : IOL) : getKeysInner 1000000 (.lit l) k true = .ok (.lit l.ty) := by
  rw [show (1000000 : Nat) = 999999 + 1 from rfl, getKeysInner]; simp
private theorem isLitM (t : Str) (i : Option Nat) (acc : List Str) :
    indexStrings 1000000 (.lit (.str t i)) acc = (.lit (.str t (some (pushStr t acc).1)), (pushStr t acc).2) := rfl
private theorem isLit1 (t : Str) (i : Option Nat) (acc : List Str) :
    indexStrings 1 (.lit (.str t i)) acc = (.lit (.str t (some (pushStr t acc).1)), (pushStr t acc).2) := rfl

example : ∃ ls bki ws, checkLocalesInner false 5 [] none [en1, fr1] [] = .ok (ls, bki, ws) ∧
    usedOptions bki = [] ∧ (∃ v ∈ leafValuesK fr1.keys, ValueUses v .plurals) ∧
    ws = [.surplus (s "fr") ⟨none, [s "b"]⟩] := by
  simp [en1, fr1, s, plur, checkLocalesInner, checkLocalesInner.go, makeBuilderKeys, makeKeys, makeKeys.shapeOf',
    Reduce.reduce, gkLit, isLitM, isLit1, pushStr, pushKey, Plurals.pushKey,
    mergeLocale, mergeKeys, mergeValue, shapeOf, AMap.get?, AMap.insert', AMap.insert, AMap.contains,
    Lit.ty, List.idxOf?, List.findIdx?, List.findIdx?.go, propagate, Loc.keys, Loc.name, Loc.top, Loc.strings,
    Loc.count, usedOptions, leafValuesK, leafValues, ValueUses, occCounts, occCountsF]
  exact ⟨_, _, ⟨rfl, rfl⟩, rfl⟩

end I18nVerif.Datakey
