import I18nVerif.Theorems.C16
/-!
# C16 — ticks are invisible (as long as no wire is due)

`Op.tick` = one turn of the event loop: the executor runs until idle, i.e. every pending `Effect` / `RenderEffect` /
isomorphic effect is polled (in the browser — `csr` / `hydrate` — this happens between any two event handlers; under
plain `ssr` only the isomorphic effects exist).  Property C16 speaks of "the most recently set locale" and of
sub-contexts that "never change each other's locale": neither mentions the event loop, so **where the ticks fall in an
operation sequence must not matter** — with the property's stated exception: a caller-wired initial-locale signal that
was written (`Op.wireSet`) reaches its sub-context at the next tick (`Theorems/C16Wired.lean`).  So the statements below are
about states / histories in which no wire is due (`Quiet`) and sequences that write no wire (`noWireSet`): sub-contexts,
wired ones included, may be created anywhere.  This file states that for the specification and for the model:

* `eraseTicks ops` — the sequence without its ticks; `dropTickObs ops obs` — the observations of the non-tick steps;
* `C16_tick_observes_nothing` — with no wire due, a tick observes nothing and changes nothing (one step, model and spec);
* `C16_ticks_invisible_model` — from **any** quiet state: running `ops` and running `eraseTicks ops` end in the same state
  (hence the same final read-back and the same future) and the non-tick steps observe the same;
* `C16_ticks_invisible_spec_hist` — the specification, from **any** history without wire writes, even one that itself contains
  ticks: every function of the history (`current`, `views`, `visible`, `memoStale`, `memoCache`, `wires`, …) ignores them;
* `C16_ticks_invisible` — for sequences (without wire writes) run from scratch: two sequences that differ only by ticks (inserted anywhere, any
  number) have the same model state, the same model observations and the same specified observations at the non-tick
  steps, and every tick itself observes `Obs.none`.

What this does **not** prove: that leptos' effects really leave the cells alone — that is the modelling claim in
`Model/Context.lean` (`Op.tick`), tied to the code by the correspondence check, which runs every sequence on a build of
the harness where effects do run (`ctx_h --features effects`) and on the plain `ssr` build.
-/
namespace I18nVerif.Context
open Spec

/-- the operation sequence without its ticks -/
def eraseTicks (ops : List Op) : List Op := ops.filter (fun op => op != .tick)

/-- the observations made at the non-tick steps of `ops` (`obs` = one observation per step) -/
def dropTickObs : List Op → List Obs → List Obs
  | op :: ops, o :: os => if op = .tick then dropTickObs ops os else o :: dropTickObs ops os
  | _, _ => []

/-- the observations made at the tick steps of `ops` -/
def tickObs : List Op → List Obs → List Obs
  | op :: ops, o :: os => if op = .tick then o :: tickObs ops os else tickObs ops os
  | _, _ => []

@[simp] theorem eraseTicks_nil : eraseTicks [] = [] := rfl
@[simp] theorem eraseTicks_tick (ops : List Op) : eraseTicks (.tick :: ops) = eraseTicks ops := by
  simp [eraseTicks]
theorem eraseTicks_cons {op : Op} (h : op ≠ .tick) (ops : List Op) : eraseTicks (op :: ops) = op :: eraseTicks ops := by
  simp [eraseTicks, h]

theorem eraseTicks_idem (ops : List Op) : eraseTicks (eraseTicks ops) = eraseTicks ops := by
  simp [eraseTicks]

theorem eraseTicks_append (a b : List Op) : eraseTicks (a ++ b) = eraseTicks a ++ eraseTicks b := by
  simp [eraseTicks]

/-! ### no wire due -/

/-- no wire is due: every caller-owned signal holds what the listener memo of its sub-context last evaluated to -/
def Quiet (ws : List Wire) : Prop := ∀ w ∈ ws, w.val = w.seen

instance (ws : List Wire) : Decidable (Quiet ws) := by unfold Quiet; infer_instance

/-- the sequence never writes a wire (`W.set(..)` on a caller-owned initial-locale signal) -/
def noWireSet (ops : List Op) : Bool := ops.all (fun op => match op with | .wireSet _ _ => false | _ => true)

@[simp] theorem noWireSet_nil : noWireSet [] = true := rfl
theorem noWireSet_cons (op : Op) (ops : List Op) :
    noWireSet (op :: ops) = ((match op with | .wireSet _ _ => false | _ => true) && noWireSet ops) := by
  simp [noWireSet]
theorem noWireSet_tick (ops : List Op) : noWireSet (.tick :: ops) = noWireSet ops := by simp [noWireSet]
theorem noWireSet_tail {op : Op} {ops : List Op} (h : noWireSet (op :: ops) = true) : noWireSet ops = true := by
  rw [noWireSet_cons] at h; simp at h; exact h.2
theorem noWireSet_head {op : Op} {ops : List Op} (h : noWireSet (op :: ops) = true) : ∀ i l, op ≠ .wireSet i l := by
  intro i l e; subst e; simp [noWireSet] at h

theorem noWireSet_erase (ops : List Op) : noWireSet (eraseTicks ops) = noWireSet ops := by
  induction ops with
  | nil => rfl
  | cons op ops ih =>
    by_cases ht : op = .tick
    · subst ht; rw [eraseTicks_tick, noWireSet_tick, ih]
    · rw [eraseTicks_cons ht, noWireSet_cons, noWireSet_cons, ih]

theorem pending_quiet {ws : List Wire} (hq : Quiet ws) (c : Nat) : pending ws c = none := by
  unfold pending
  rw [List.findSome?_eq_none_iff]
  intro w hw
  simp [hq w hw]

theorem quiet_map_seen (ws : List Wire) : Quiet (ws.map (fun w => { w with seen := w.val })) := by
  intro w hw
  simp only [List.mem_map] at hw
  obtain ⟨w0, _, rfl⟩ := hw
  rfl

theorem map_seen_quiet {ws : List Wire} (hq : Quiet ws) : ws.map (fun w => { w with seen := w.val }) = ws := by
  have : ∀ w ∈ ws, ({ w with seen := w.val } : Wire) = w := by
    intro w hw
    have := hq w hw
    cases w; simp_all
  rw [List.map_congr_left this, List.map_id']

/-- with no wire due, the executor's turn leaves the machine alone -/
theorem deliver_quiet {s : State} (hq : Quiet s.wires) : s.deliver = s := by
  have h1 : s.cells.mapIdx (fun c l => (pending s.wires c).getD l) = s.cells := by
    apply List.ext_getElem?
    intro i
    simp [List.getElem?_mapIdx, pending_quiet hq]
  have h2 : s.memos.map (fun m =>
      if ((s.views[m.view]?).bind (pending s.wires)).isSome then { m with dirty := true } else m) = s.memos := by
    have : ∀ m ∈ s.memos, (if ((s.views[m.view]?).bind (pending s.wires)).isSome then { m with dirty := true } else m) = m := by
      intro m _
      have : (s.views[m.view]?).bind (pending s.wires) = none := by
        cases s.views[m.view]? <;> simp [pending_quiet hq]
      simp [this]
    rw [List.map_congr_left this, List.map_id']
  unfold State.deliver
  rw [h1, h2, map_seen_quiet hq]

/-- an operation other than a wire write keeps the machine quiet -/
theorem quiet_step {s : State} (hq : Quiet s.wires) (op : Op) (hn : ∀ i l, op ≠ .wireSet i l) :
    Quiet (step s op).1.wires := by
  have happ : ∀ x : Locale, ∀ c, Quiet (s.wires ++ [{ ctx := c, val := x, seen := x }]) := by
    intro x c w hw
    simp only [List.mem_append, List.mem_singleton] at hw
    rcases hw with hw | rfl
    · exact hq w hw
    · rfl
  cases op with
  | newRoot init => exact hq
  | sub parent initial fallback =>
    cases parent with
    | none => exact hq
    | some pv => cases hr : s.read pv <;> simpa [step, hr] using hq
  | scope v => cases hv : s.views[v]? <;> simpa [step, hv] using hq
  | set v l =>
    simp only [step, State.write]
    cases s.views[v]? with
    | none => exact hq
    | some c => by_cases hlt : c < s.cells.length <;> simpa [hlt] using hq
  | setUntracked v l =>
    simp only [step, State.write]
    cases s.views[v]? with
    | none => exact hq
    | some c => by_cases hlt : c < s.cells.length <;> simpa [hlt] using hq
  | get v => cases hr : s.read v <;> simpa [step, hr] using hq
  | getUntracked v => cases hr : s.read v <;> simpa [step, hr] using hq
  | makeClosure v => by_cases h : v < s.views.length <;> simpa [step, h] using hq
  | callClosure i =>
    cases hi : s.closures[i]? with
    | none => simpa [step, hi] using hq
    | some v => cases hr : s.read v <;> simpa [step, hi, hr] using hq
  | makeMemo v => by_cases h : v < s.views.length <;> simpa [step, h] using hq
  | readMemo i =>
    cases hi : s.memos[i]? with
    | none => simpa [step, hi] using hq
    | some m =>
      cases hd : m.dirty with
      | true => cases hr : s.read m.view <;> simpa [step, hi, hd, hr] using hq
      | false => cases hcache : m.cache <;> simpa [step, hi, hd, hcache] using hq
  | provideRoot init => exact hq
  | childOwner o => by_cases h : o < s.owners.length <;> simpa [step, h] using hq
  | provider o initial fallback => by_cases h : o < s.owners.length <;> simpa [step, h] using hq
  | useCtx o =>
    by_cases h : o < s.owners.length
    · cases hl : s.lookup o <;> simpa [step, h, hl] using hq
    · simpa [step, h] using hq
  | tick => simp only [step, deliver_quiet hq]; exact hq
  | subWired parent w =>
    cases parent with
    | none => simpa [step] using happ w _
    | some pv =>
      cases hr : s.read pv with
      | none => simpa [step, hr] using hq
      | some x => simpa [step, hr] using happ w _
  | wireSet i l => exact absurd rfl (hn i l)

/-- a history without wire writes leaves every wire quiet -/
theorem wires_quiet (h : Hist) (hn : noWireSet h = true) : Quiet (Spec.wires h) := by
  induction h with
  | nil => intro w hw; simp [Spec.wires] at hw
  | cons op h ih =>
    have ih := ih (noWireSet_tail hn)
    cases op with
    | tick => exact quiet_map_seen _
    | subWired parent x =>
      intro w hw
      simp only [Spec.wires, List.mem_append, List.mem_singleton] at hw
      rcases hw with hw | rfl
      · exact ih w hw
      · rfl
    | wireSet i l => exact absurd rfl (noWireSet_head hn i l)
    | _ => simpa [Spec.wires] using ih

/-- **A tick observes nothing and changes nothing while no wire is due** — in the machine (any quiet state) and in the
    specification (any history in which no wire is due: accepted, observation `none`, and no function of the history
    sees it). -/
theorem C16_tick_observes_nothing (s : State) (h : Hist) (hs : Quiet s.wires) (hh : Quiet (Spec.wires h)) :
    step s .tick = (s, .none) ∧ obsAt h .tick = .none ∧
    (∀ c, current (.tick :: h) c = current h c) ∧ Spec.views (.tick :: h) = Spec.views h ∧
    (∀ o, visible (.tick :: h) o = visible h o) ∧
    (∀ i, memoStale (.tick :: h) i = memoStale h i) ∧ (∀ i, memoCache (.tick :: h) i = memoCache h i) ∧
    (∀ i, memoRead (.tick :: h) i = memoRead h i) ∧ Spec.wires (.tick :: h) = Spec.wires h ∧
    (∀ op, obsAt (.tick :: h) op = obsAt h op) := by
  have hdue : ∀ c, due h c = none := fun c => pending_quiet hh c
  have hv : Spec.views (.tick :: h) = Spec.views h := rfl
  have hc : Spec.closures (.tick :: h) = Spec.closures h := rfl
  have hm : memoViews (.tick :: h) = memoViews h := rfl
  have hcur : ∀ c, current (.tick :: h) c = current h c := fun c => by simp [current, hdue]
  have hvl : ∀ v, viewLocale (.tick :: h) v = viewLocale h v := fun v => by simp [viewLocale, hv, hcur]
  have hst : ∀ i, memoStale (.tick :: h) i = memoStale h i := fun i => by
    have : (memoCtx h i).bind (due h) = none := by cases memoCtx h i <;> simp [hdue]
    simp [memoStale, this]
  have hca : ∀ i, memoCache (.tick :: h) i = memoCache h i := fun _ => rfl
  have hmr : ∀ i, memoRead (.tick :: h) i = memoRead h i := fun i => by simp [memoRead, hm, hst, hca, hvl]
  have hno : nOwners (.tick :: h) = nOwners h := rfl
  have hnc : nCtx (.tick :: h) = nCtx h := rfl
  have hvis : ∀ o, visible (.tick :: h) o = visible h o := fun _ => rfl
  have hw : Spec.wires (.tick :: h) = Spec.wires h := map_seen_quiet hh
  refine ⟨by simp [step, deliver_quiet hs], rfl, hcur, hv, hvis, hst, hca, hmr, hw, ?_⟩
  intro op
  cases op with
  | sub parent initial fallback => cases parent <;> simp [obsAt, hv, hvl]
  | subWired parent x => cases parent <;> simp [obsAt, hv, hvl, hw]
  | _ => simp [obsAt, hv, hc, hm, hvl, hmr, hno, hnc, hvis, hw]

/-! ### the machine -/

/-- **Ticks are invisible to the machine**, from any state in which no wire is due, for every sequence that writes no
    wire: dropping the ticks of the sequence changes neither the final state (cells, views, closures, memo caches and
    dirty flags, owner tree, wires) nor what the other steps observe. -/
theorem C16_ticks_invisible_model (s : State) (ops : List Op) (hq : Quiet s.wires) (hn : noWireSet ops = true) :
    (run s (eraseTicks ops)).1 = (run s ops).1 ∧
    (run s (eraseTicks ops)).2 = dropTickObs ops (run s ops).2 := by
  induction ops generalizing s with
  | nil => exact ⟨rfl, rfl⟩
  | cons op ops ih =>
    by_cases ht : op = .tick
    · subst ht
      have := ih s hq (noWireSet_tail hn)
      simp only [eraseTicks_tick, run, step, deliver_quiet hq, dropTickObs, if_true]
      exact this
    · have := ih (step s op).1 (quiet_step hq op (noWireSet_head hn)) (noWireSet_tail hn)
      simp only [eraseTicks_cons ht, run, dropTickObs, ht, if_false]
      exact ⟨this.1, by rw [this.2]⟩

/-- every tick of a sequence observes `Obs.none` (whether it delivers a wire or not) -/
theorem tickObs_run (s : State) (ops : List Op) : ∀ o ∈ tickObs ops (run s ops).2, o = Obs.none := by
  induction ops generalizing s with
  | nil => intro o ho; simp [tickObs] at ho
  | cons op ops ih =>
    intro o ho
    by_cases ht : op = .tick
    · subst ht
      simp only [run, step, tickObs, if_true, List.mem_cons] at ho
      rcases ho with rfl | ho
      · rfl
      · exact ih _ o ho
    · simp only [run, tickObs, ht, if_false] at ho
      exact ih _ o ho

/-! ### the specification, directly (not through the refinement): histories with ticks erased -/

theorem nCtx_erase (h : Hist) : nCtx (eraseTicks h) = nCtx h := by
  induction h with
  | nil => rfl
  | cons op h ih => cases op <;> simp_all [eraseTicks, nCtx]

theorem nOwners_erase (h : Hist) : nOwners (eraseTicks h) = nOwners h := by
  induction h with
  | nil => rfl
  | cons op h ih => cases op <;> simp_all [eraseTicks, nOwners]

theorem visible_erase (h : Hist) (o : Nat) : visible (eraseTicks h) o = visible h o := by
  induction h generalizing o with
  | nil => rfl
  | cons op h ih =>
    have h1 := nCtx_erase h
    have h2 := nOwners_erase h
    cases op <;> simp_all [eraseTicks, visible]

theorem views_erase (h : Hist) : Spec.views (eraseTicks h) = Spec.views h := by
  induction h with
  | nil => rfl
  | cons op h ih =>
    have h1 := nCtx_erase h
    have h2 := fun o => visible_erase h o
    cases op <;> simp_all [eraseTicks, Spec.views]

theorem closures_erase (h : Hist) : Spec.closures (eraseTicks h) = Spec.closures h := by
  induction h with
  | nil => rfl
  | cons op h ih => cases op <;> simp_all [eraseTicks, Spec.closures]

theorem memoViews_erase (h : Hist) : memoViews (eraseTicks h) = memoViews h := by
  induction h with
  | nil => rfl
  | cons op h ih => cases op <;> simp_all [eraseTicks, memoViews]

/-- without wire writes, the wires do not see the ticks of the history (each stays at its creation value) -/
theorem wires_erase (h : Hist) (hn : noWireSet h = true) : Spec.wires (eraseTicks h) = Spec.wires h := by
  induction h with
  | nil => rfl
  | cons op h ih =>
    have ih := ih (noWireSet_tail hn)
    have hq := wires_quiet h (noWireSet_tail hn)
    have h1 := nCtx_erase h
    cases op with
    | tick => rw [eraseTicks_tick, ih]; exact (map_seen_quiet hq).symm
    | wireSet i l => exact absurd rfl (noWireSet_head hn i l)
    | _ => simp_all [eraseTicks, Spec.wires]

theorem due_none (h : Hist) (hn : noWireSet h = true) (c : Nat) : due h c = none :=
  pending_quiet (wires_quiet h hn) c

theorem current_erase (h : Hist) (hn : noWireSet h = true) (c : Nat) : current (eraseTicks h) c = current h c := by
  induction h generalizing c with
  | nil => rfl
  | cons op h ih =>
    have ih := ih (noWireSet_tail hn)
    have h1 := nCtx_erase h
    have h2 := fun o => visible_erase h o
    have h3 := views_erase h
    have h4 := due_none h (noWireSet_tail hn)
    cases op <;> simp_all [eraseTicks, current]

theorem viewLocale_erase (h : Hist) (hn : noWireSet h = true) (v : Nat) : viewLocale (eraseTicks h) v = viewLocale h v := by
  simp [viewLocale, views_erase, current_erase h hn]

theorem memoCtx_erase (h : Hist) (i : Nat) : memoCtx (eraseTicks h) i = memoCtx h i := by
  simp [memoCtx, views_erase, memoViews_erase]

theorem memoStale_erase (h : Hist) (hn : noWireSet h = true) (i : Nat) : memoStale (eraseTicks h) i = memoStale h i := by
  induction h generalizing i with
  | nil => rfl
  | cons op h ih =>
    have ih := ih (noWireSet_tail hn)
    have h1 := memoViews_erase h
    have h2 := fun i => memoCtx_erase h i
    have h3 := views_erase h
    have h4 : ∀ i, (memoCtx h i).bind (due h) = none := fun i => by
      cases memoCtx h i <;> simp [due_none h (noWireSet_tail hn)]
    cases op with
    | tick => rw [eraseTicks_tick, ih]; simp [memoStale, h4 i]
    | _ => simp_all [eraseTicks, memoStale]

theorem memoCache_erase (h : Hist) (hn : noWireSet h = true) (i : Nat) : memoCache (eraseTicks h) i = memoCache h i := by
  induction h generalizing i with
  | nil => rfl
  | cons op h ih =>
    have ih := ih (noWireSet_tail hn)
    have h1 := memoViews_erase h
    have h2 := fun i => memoCtx_erase h i
    have h3 := fun i => memoStale_erase h (noWireSet_tail hn) i
    have h4 := fun c => current_erase h (noWireSet_tail hn) c
    cases op <;> simp_all [eraseTicks, memoCache]

theorem memoRead_erase (h : Hist) (hn : noWireSet h = true) (i : Nat) : memoRead (eraseTicks h) i = memoRead h i := by
  simp [memoRead, memoViews_erase, memoStale_erase h hn, memoCache_erase h hn, viewLocale_erase h hn]

/-- what an operation must observe does not depend on the ticks of the history -/
theorem obsAt_erase (h : Hist) (hn : noWireSet h = true) (op : Op) : obsAt (eraseTicks h) op = obsAt h op := by
  cases op with
  | sub parent initial fallback => cases parent <;> simp [obsAt, views_erase, viewLocale_erase h hn]
  | subWired parent w => cases parent <;> simp [obsAt, views_erase, viewLocale_erase h hn, wires_erase h hn]
  | _ => simp [obsAt, views_erase, closures_erase, memoViews_erase, viewLocale_erase h hn, memoRead_erase h hn, nOwners_erase,
      nCtx_erase, visible_erase, wires_erase h hn]

/-- **Ticks are invisible to the specification**, from any history `h` without wire writes (which may itself contain
    ticks), for every sequence that writes no wire: the expected observations of the non-tick steps of `ops` are those of
    `eraseTicks ops` after `eraseTicks h`. -/
theorem C16_ticks_invisible_spec_hist (h : Hist) (ops : List Op) (hh : noWireSet h = true) (hn : noWireSet ops = true) :
    observe (eraseTicks h) (eraseTicks ops) = dropTickObs ops (observe h ops) := by
  induction ops generalizing h with
  | nil => rfl
  | cons op ops ih =>
    by_cases ht : op = .tick
    · subst ht
      have hobs : obsAt h .tick = .none := rfl
      simp only [eraseTicks_tick, observe, dropTickObs, if_true, hobs, reduceCtorEq, if_false]
      rw [← ih (.tick :: h) (by rw [noWireSet_tick]; exact hh) (noWireSet_tail hn), eraseTicks_tick]
    · simp only [eraseTicks_cons ht, observe, dropTickObs, ht, if_false, obsAt_erase h hh]
      congr 1
      by_cases hb : obsAt h op = .bad
      · simp only [hb, if_true]; exact ih h hh (noWireSet_tail hn)
      · simp only [hb, if_false]
        have hh' : noWireSet (op :: h) = true := by
          rw [noWireSet_cons] at hn ⊢
          simp only [Bool.and_eq_true] at hn ⊢
          exact ⟨hn.1, hh⟩
        rw [← ih (op :: h) hh' (noWireSet_tail hn), eraseTicks_cons ht]

/-- the specification, from scratch -/
theorem C16_ticks_invisible_spec (ops : List Op) (hn : noWireSet ops = true) :
    observations (eraseTicks ops) = dropTickObs ops (observations ops) :=
  C16_ticks_invisible_spec_hist [] ops rfl hn

/-! ### the property -/

/-- **Ticks are invisible** (C16 under a running event loop).  Take two operation sequences that write no wire and differ
    only by ticks — `tick`s inserted or removed at arbitrary positions, in arbitrary number
    (`eraseTicks ops = eraseTicks ops'`; in particular `ops' = eraseTicks ops`).  Run from scratch:
    1. the machine ends in the same state (so every view reads back the same and every continuation behaves the same);
    2. the machine observes the same at the non-tick steps;
    3. the specification expects the same at the non-tick steps;
    4. every tick observes nothing, in the machine and in the specification.
    Hence "the context shows the last locale set" and "sub-contexts are isolated", proved for tick-free sequences in
    `Theorems/C16.lean`, hold verbatim with ticks anywhere.  (With wire writes a tick is the moment the written value
    arrives: `Theorems/C16Wired.lean`.) -/
theorem C16_ticks_invisible (ops ops' : List Op) (he : eraseTicks ops = eraseTicks ops') (hn : noWireSet ops = true) :
    (run State.empty ops).1 = (run State.empty ops').1 ∧
    dropTickObs ops (run State.empty ops).2 = dropTickObs ops' (run State.empty ops').2 ∧
    dropTickObs ops (observations ops) = dropTickObs ops' (observations ops') ∧
    (∀ o ∈ tickObs ops (run State.empty ops).2, o = Obs.none) ∧
    (∀ o ∈ tickObs ops (observations ops), o = Obs.none) := by
  have hn' : noWireSet ops' = true := by rw [← noWireSet_erase, ← he, noWireSet_erase]; exact hn
  have hq : Quiet State.empty.wires := fun w hw => by simp [State.empty] at hw
  have m := C16_ticks_invisible_model State.empty ops hq hn
  have m' := C16_ticks_invisible_model State.empty ops' hq hn'
  refine ⟨?_, ?_, ?_, tickObs_run _ ops, ?_⟩
  · rw [← m.1, ← m'.1, he]
  · rw [← m.2, ← m'.2, he]
  · rw [← C16_ticks_invisible_spec ops hn, ← C16_ticks_invisible_spec ops' hn', he]
  · rw [← C16_refinement ops]; exact tickObs_run _ ops

/-- the form used by the correspondence check: with ticks erased, same final state and same observations -/
theorem C16_ticks_invisible_erase (ops : List Op) (hn : noWireSet ops = true) :
    (run State.empty (eraseTicks ops)).1 = (run State.empty ops).1 ∧
    (run State.empty (eraseTicks ops)).2 = dropTickObs ops (run State.empty ops).2 ∧
    observations (eraseTicks ops) = dropTickObs ops (observations ops) :=
  have hq : Quiet State.empty.wires := fun w hw => by simp [State.empty] at hw
  ⟨(C16_ticks_invisible_model _ ops hq hn).1, (C16_ticks_invisible_model _ ops hq hn).2, C16_ticks_invisible_spec ops hn⟩

/-- the two regressions this guards against, as sequences: `create; set; tick; get` must read the locale set, and
    `create sub; set parent; tick; get sub` must read the sub-context's own locale — with and without the ticks; a wired
    sub-context whose signal is never written is created on the way -/
private def demoTicks : List Op :=
  [.newRoot 0, .tick, .set 0 2, .tick, .tick, .get 0, .sub (some 0) none 0, .set 0 1, .tick, .get 1, .get 0,
   .makeMemo 1, .readMemo 0, .tick, .set 1 3, .tick, .readMemo 0, .get 0, .subWired (some 1) 4, .tick, .set 1 0, .tick, .get 2]

example : (run State.empty demoTicks).2 =
    [.view 0, .none, .none, .none, .none, .locale 2, .view 1, .none, .none, .locale 2, .locale 1,
     .memo 0, .locale 2, .none, .none, .none, .locale 3, .locale 1, .wired 2 0, .none, .none, .none, .locale 4] := by decide
example : eraseTicks demoTicks =
    [.newRoot 0, .set 0 2, .get 0, .sub (some 0) none 0, .set 0 1, .get 1, .get 0,
     .makeMemo 1, .readMemo 0, .set 1 3, .readMemo 0, .get 0, .subWired (some 1) 4, .set 1 0, .get 2] := by decide
example : noWireSet demoTicks = true := by decide
example : dropTickObs demoTicks (observations demoTicks) = observations (eraseTicks demoTicks) := by decide
example : observations demoTicks = (run State.empty demoTicks).2 := by decide

/-- the hypothesis is needed: with a wire write, the tick is what makes the written value arrive -/
example : (run State.empty [.subWired none 0, .wireSet 0 2, .tick, .get 0]).2 = [.wired 0 0, .none, .none, .locale 2] ∧
    (run State.empty [.subWired none 0, .wireSet 0 2, .get 0]).2 = [.wired 0 0, .none, .locale 0] := by decide

end I18nVerif.Context
