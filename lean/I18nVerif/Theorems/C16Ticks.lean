import I18nVerif.Theorems.C16
/-!
# C16 — ticks are invisible

`Op.tick` = one turn of the event loop: the executor runs until idle, i.e. every pending `Effect` / `RenderEffect` /
isomorphic effect is polled (in the browser — `csr` / `hydrate` — this happens between any two event handlers; under
plain `ssr` only the isomorphic effects exist).  Property C16 speaks of "the most recently set locale" and of
sub-contexts that "never change each other's locale": neither mentions the event loop, so **where the ticks fall in an
operation sequence must not matter**.  This file states that for the specification and for the model:

* `eraseTicks ops` — the sequence without its ticks; `dropTickObs ops obs` — the observations of the non-tick steps;
* `C16_tick_observes_nothing` — a tick observes nothing and changes nothing (one step, model and spec);
* `C16_ticks_invisible_model` — from **any** state: running `ops` and running `eraseTicks ops` end in the same state
  (hence the same final read-back and the same future) and the non-tick steps observe the same;
* `C16_ticks_invisible_spec_hist` — the specification, from **any** history, even one that itself contains ticks: every
  function of the history (`current`, `views`, `visible`, `memoStale`, `memoCache`, …) ignores them;
* `C16_ticks_invisible` — for sequences run from scratch: two sequences that differ only by ticks (inserted anywhere, any
  number) have the same model state, the same model observations and the same specified observations at the non-tick
  steps, and every tick itself observes `Obs.none`.

What this does **not** prove: that leptos' effects really leave the cells alone — that is the modelling claim in
`Model/Context.lean` (`Op.tick`), tied to the code by the correspondence check, which runs every sequence on a build of
the harness where effects do run (`ctx_h --features effects`) and on the plain `ssr` build.
-/
namespace I18nVerif.Context
open Spec

/-- the operation sequence without its ticks -/
def eraseTicks (ops : List Op) : List Op := ops.filter (fun op => op != .tick)

/-- the observations made at the non-tick steps of `ops` (`obs` = one observation per step) -/
def dropTickObs : List Op → List Obs → List Obs
  | op :: ops, o :: os => if op = .tick then dropTickObs ops os else o :: dropTickObs ops os
  | _, _ => []

/-- the observations made at the tick steps of `ops` -/
def tickObs : List Op → List Obs → List Obs
  | op :: ops, o :: os => if op = .tick then o :: tickObs ops os else tickObs ops os
  | _, _ => []

@[simp] theorem eraseTicks_nil : eraseTicks [] = [] := rfl
@[simp] theorem eraseTicks_tick (ops : List Op) : eraseTicks (.tick :: ops) = eraseTicks ops := by
  simp [eraseTicks]
theorem eraseTicks_cons {op : Op} (h : op ≠ .tick) (ops : List Op) : eraseTicks (op :: ops) = op :: eraseTicks ops := by
  simp [eraseTicks, h]

theorem eraseTicks_idem (ops : List Op) : eraseTicks (eraseTicks ops) = eraseTicks ops := by
  simp [eraseTicks]

theorem eraseTicks_append (a b : List Op) : eraseTicks (a ++ b) = eraseTicks a ++ eraseTicks b := by
  simp [eraseTicks]

/-- **A tick observes nothing and changes nothing** — in the machine (any state) and in the specification (any history:
    accepted, observation `none`, and no function of the history sees it). -/
theorem C16_tick_observes_nothing (s : State) (h : Hist) :
    step s .tick = (s, .none) ∧ obsAt h .tick = .none ∧
    (∀ c, current (.tick :: h) c = current h c) ∧ Spec.views (.tick :: h) = Spec.views h ∧
    (∀ o, visible (.tick :: h) o = visible h o) ∧
    (∀ i, memoStale (.tick :: h) i = memoStale h i) ∧ (∀ i, memoCache (.tick :: h) i = memoCache h i) ∧
    (∀ i, memoRead (.tick :: h) i = memoRead h i) ∧ (∀ op, obsAt (.tick :: h) op = obsAt h op) := by
  have hv : Spec.views (.tick :: h) = Spec.views h := rfl
  have hc : Spec.closures (.tick :: h) = Spec.closures h := rfl
  have hm : memoViews (.tick :: h) = memoViews h := rfl
  have hcur : ∀ c, current (.tick :: h) c = current h c := fun _ => rfl
  have hvl : ∀ v, viewLocale (.tick :: h) v = viewLocale h v := fun v => by simp [viewLocale, hv, hcur]
  have hst : ∀ i, memoStale (.tick :: h) i = memoStale h i := fun _ => rfl
  have hca : ∀ i, memoCache (.tick :: h) i = memoCache h i := fun _ => rfl
  have hmr : ∀ i, memoRead (.tick :: h) i = memoRead h i := fun i => by simp [memoRead, hm, hst, hca, hvl]
  have hno : nOwners (.tick :: h) = nOwners h := rfl
  have hnc : nCtx (.tick :: h) = nCtx h := rfl
  have hvis : ∀ o, visible (.tick :: h) o = visible h o := fun _ => rfl
  refine ⟨rfl, rfl, hcur, hv, hvis, hst, hca, hmr, ?_⟩
  intro op
  cases op with
  | sub parent initial fallback => cases parent <;> simp [obsAt, hv, hvl]
  | _ => simp [obsAt, hv, hc, hm, hvl, hmr, hno, hnc, hvis]

/-! ### the machine -/

/-- **Ticks are invisible to the machine**, from any state: dropping the ticks of a sequence changes neither the final
    state (cells, views, closures, memo caches and dirty flags, owner tree) nor what the other steps observe. -/
theorem C16_ticks_invisible_model (s : State) (ops : List Op) :
    (run s (eraseTicks ops)).1 = (run s ops).1 ∧
    (run s (eraseTicks ops)).2 = dropTickObs ops (run s ops).2 := by
  induction ops generalizing s with
  | nil => exact ⟨rfl, rfl⟩
  | cons op ops ih =>
    by_cases ht : op = .tick
    · subst ht
      have := ih s
      simp only [eraseTicks_tick, run, step, dropTickObs, if_true]
      exact this
    · have := ih (step s op).1
      simp only [eraseTicks_cons ht, run, dropTickObs, ht, if_false]
      exact ⟨this.1, by rw [this.2]⟩

/-- every tick of a sequence observes `Obs.none` -/
theorem tickObs_run (s : State) (ops : List Op) : ∀ o ∈ tickObs ops (run s ops).2, o = Obs.none := by
  induction ops generalizing s with
  | nil => intro o ho; simp [tickObs] at ho
  | cons op ops ih =>
    intro o ho
    by_cases ht : op = .tick
    · subst ht
      simp only [run, step, tickObs, if_true, List.mem_cons] at ho
      rcases ho with rfl | ho
      · rfl
      · exact ih s o ho
    · simp only [run, tickObs, ht, if_false] at ho
      exact ih _ o ho

/-! ### the specification, directly (not through the refinement): histories with ticks erased -/

theorem nCtx_erase (h : Hist) : nCtx (eraseTicks h) = nCtx h := by
  induction h with
  | nil => rfl
  | cons op h ih => cases op <;> simp_all [eraseTicks, nCtx]

theorem nOwners_erase (h : Hist) : nOwners (eraseTicks h) = nOwners h := by
  induction h with
  | nil => rfl
  | cons op h ih => cases op <;> simp_all [eraseTicks, nOwners]

theorem visible_erase (h : Hist) (o : Nat) : visible (eraseTicks h) o = visible h o := by
  induction h generalizing o with
  | nil => rfl
  | cons op h ih =>
    have h1 := nCtx_erase h
    have h2 := nOwners_erase h
    cases op <;> simp_all [eraseTicks, visible]

theorem views_erase (h : Hist) : Spec.views (eraseTicks h) = Spec.views h := by
  induction h with
  | nil => rfl
  | cons op h ih =>
    have h1 := nCtx_erase h
    have h2 := fun o => visible_erase h o
    cases op <;> simp_all [eraseTicks, Spec.views]

theorem closures_erase (h : Hist) : Spec.closures (eraseTicks h) = Spec.closures h := by
  induction h with
  | nil => rfl
  | cons op h ih => cases op <;> simp_all [eraseTicks, Spec.closures]

theorem memoViews_erase (h : Hist) : memoViews (eraseTicks h) = memoViews h := by
  induction h with
  | nil => rfl
  | cons op h ih => cases op <;> simp_all [eraseTicks, memoViews]

theorem current_erase (h : Hist) (c : Nat) : current (eraseTicks h) c = current h c := by
  induction h generalizing c with
  | nil => rfl
  | cons op h ih =>
    have h1 := nCtx_erase h
    have h2 := fun o => visible_erase h o
    have h3 := views_erase h
    cases op <;> simp_all [eraseTicks, current]

theorem viewLocale_erase (h : Hist) (v : Nat) : viewLocale (eraseTicks h) v = viewLocale h v := by
  simp [viewLocale, views_erase, current_erase]

theorem memoCtx_erase (h : Hist) (i : Nat) : memoCtx (eraseTicks h) i = memoCtx h i := by
  simp [memoCtx, views_erase, memoViews_erase]

theorem memoStale_erase (h : Hist) (i : Nat) : memoStale (eraseTicks h) i = memoStale h i := by
  induction h generalizing i with
  | nil => rfl
  | cons op h ih =>
    have h1 := memoViews_erase h
    have h2 := fun i => memoCtx_erase h i
    have h3 := views_erase h
    cases op <;> simp_all [eraseTicks, memoStale]

theorem memoCache_erase (h : Hist) (i : Nat) : memoCache (eraseTicks h) i = memoCache h i := by
  induction h generalizing i with
  | nil => rfl
  | cons op h ih =>
    have h1 := memoViews_erase h
    have h2 := fun i => memoCtx_erase h i
    have h3 := fun i => memoStale_erase h i
    have h4 := fun c => current_erase h c
    cases op <;> simp_all [eraseTicks, memoCache]

theorem memoRead_erase (h : Hist) (i : Nat) : memoRead (eraseTicks h) i = memoRead h i := by
  simp [memoRead, memoViews_erase, memoStale_erase, memoCache_erase, viewLocale_erase]

/-- what an operation must observe does not depend on the ticks of the history -/
theorem obsAt_erase (h : Hist) (op : Op) : obsAt (eraseTicks h) op = obsAt h op := by
  cases op with
  | sub parent initial fallback => cases parent <;> simp [obsAt, views_erase, viewLocale_erase]
  | _ => simp [obsAt, views_erase, closures_erase, memoViews_erase, viewLocale_erase, memoRead_erase, nOwners_erase,
      nCtx_erase, visible_erase]

/-- **Ticks are invisible to the specification**, from any history `h` (which may itself contain ticks): the
    expected observations of the non-tick steps of `ops` are those of `eraseTicks ops` after `eraseTicks h`. -/
theorem C16_ticks_invisible_spec_hist (h : Hist) (ops : List Op) :
    observe (eraseTicks h) (eraseTicks ops) = dropTickObs ops (observe h ops) := by
  induction ops generalizing h with
  | nil => rfl
  | cons op ops ih =>
    by_cases ht : op = .tick
    · subst ht
      have hobs : obsAt h .tick = .none := rfl
      simp only [eraseTicks_tick, observe, dropTickObs, if_true, hobs, reduceCtorEq, if_false]
      rw [← ih (.tick :: h), eraseTicks_tick]
    · simp only [eraseTicks_cons ht, observe, dropTickObs, ht, if_false, obsAt_erase]
      congr 1
      by_cases hb : obsAt h op = .bad
      · simp only [hb, if_true]; exact ih h
      · simp only [hb, if_false]
        rw [← ih (op :: h), eraseTicks_cons ht]

/-- the specification, from scratch -/
theorem C16_ticks_invisible_spec (ops : List Op) :
    observations (eraseTicks ops) = dropTickObs ops (observations ops) :=
  C16_ticks_invisible_spec_hist [] ops

/-! ### the property -/

/-- **Ticks are invisible** (C16 under a running event loop).  Take two operation sequences that differ only by ticks —
    `tick`s inserted or removed at arbitrary positions, in arbitrary number (`eraseTicks ops = eraseTicks ops'`; in
    particular `ops' = eraseTicks ops`).  Run from scratch:
    1. the machine ends in the same state (so every view reads back the same and every continuation behaves the same);
    2. the machine observes the same at the non-tick steps;
    3. the specification expects the same at the non-tick steps;
    4. every tick observes nothing, in the machine and in the specification.
    Hence "the context shows the last locale set" and "sub-contexts are isolated", proved for tick-free sequences in
    `Theorems/C16.lean`, hold verbatim with ticks anywhere. -/
theorem C16_ticks_invisible (ops ops' : List Op) (he : eraseTicks ops = eraseTicks ops') :
    (run State.empty ops).1 = (run State.empty ops').1 ∧
    dropTickObs ops (run State.empty ops).2 = dropTickObs ops' (run State.empty ops').2 ∧
    dropTickObs ops (observations ops) = dropTickObs ops' (observations ops') ∧
    (∀ o ∈ tickObs ops (run State.empty ops).2, o = Obs.none) ∧
    (∀ o ∈ tickObs ops (observations ops), o = Obs.none) := by
  have m := C16_ticks_invisible_model State.empty ops
  have m' := C16_ticks_invisible_model State.empty ops'
  refine ⟨?_, ?_, ?_, tickObs_run _ ops, ?_⟩
  · rw [← m.1, ← m'.1, he]
  · rw [← m.2, ← m'.2, he]
  · rw [← C16_ticks_invisible_spec ops, ← C16_ticks_invisible_spec ops', he]
  · rw [← C16_refinement ops]; exact tickObs_run _ ops

/-- the form used by the correspondence check: with ticks erased, same final state and same observations -/
theorem C16_ticks_invisible_erase (ops : List Op) :
    (run State.empty (eraseTicks ops)).1 = (run State.empty ops).1 ∧
    (run State.empty (eraseTicks ops)).2 = dropTickObs ops (run State.empty ops).2 ∧
    observations (eraseTicks ops) = dropTickObs ops (observations ops) :=
  ⟨(C16_ticks_invisible_model _ ops).1, (C16_ticks_invisible_model _ ops).2, C16_ticks_invisible_spec ops⟩

/-- the two regressions this guards against, as sequences: `create; set; tick; get` must read the locale set, and
    `create sub; set parent; tick; get sub` must read the sub-context's own locale — with and without the ticks -/
private def demoTicks : List Op :=
  [.newRoot 0, .tick, .set 0 2, .tick, .tick, .get 0, .sub (some 0) none 0, .set 0 1, .tick, .get 1, .get 0,
   .makeMemo 1, .readMemo 0, .tick, .set 1 3, .tick, .readMemo 0, .get 0]

example : (run State.empty demoTicks).2 =
    [.view 0, .none, .none, .none, .none, .locale 2, .view 1, .none, .none, .locale 2, .locale 1,
     .memo 0, .locale 2, .none, .none, .none, .locale 3, .locale 1] := by decide
example : eraseTicks demoTicks =
    [.newRoot 0, .set 0 2, .get 0, .sub (some 0) none 0, .set 0 1, .get 1, .get 0,
     .makeMemo 1, .readMemo 0, .set 1 3, .readMemo 0, .get 0] := by decide
example : dropTickObs demoTicks (observations demoTicks) = observations (eraseTicks demoTicks) := by decide
example : observations demoTicks = (run State.empty demoTicks).2 := by decide

end I18nVerif.Context
