import I18nVerif.Model.Resolve
/-!
C15, the cargo feature `cookie` and the per-context switches: when cookies are not in use — the library was built without
its `cookie` feature, the root context was created with `enable_cookie = false`, a sub-context was given no cookie name — the
locale a context starts with does not depend on anything the request's cookie jar holds, for every kind of context, every
target and every request; and nothing is written back.  (The build without the feature is exercised by the correspondence in
its own harness build; these statements are what the specification side of that run relies on.)
-/
namespace I18nVerif.Theorems.C15Feature
open I18nVerif.Langid I18nVerif.Resolve

/-- without the `cookie` feature no cookie is read, whatever `enable_cookie` says and whatever the jar holds -/
theorem C15_feature_off_no_cookie (cfg : Cfg) (enable : Bool) (jar : Option Str) :
    langCookie cfg false enable jar = none ∧ subLangCookie cfg false enable jar = none := by
  simp [langCookie, subLangCookie]

/-- main context, built without the feature: the jar's content is irrelevant -/
theorem C15_feature_off_root (cfg : Cfg) (parse : Str → Option LangId) (target : Target) (enable : Bool)
    (jar jar' : Option Str) (accepted : List Str) (html : Option Loc) :
    initRoot cfg parse target false enable { jarValue := jar, accepted := accepted, htmlLang := html }
      = initRoot cfg parse target false enable { jarValue := jar', accepted := accepted, htmlLang := html } := by
  simp [initRoot, langCookie]

/-- `resolve_locale_with_options`, built without the feature -/
theorem C15_feature_off_resolve (cfg : Cfg) (parse : Str → Option LangId) (target : Target) (enable : Bool)
    (jar jar' : Option Str) (accepted : List Str) (html : Option Loc) :
    resolveWithOptions cfg parse target false enable { jarValue := jar, accepted := accepted, htmlLang := html }
      = resolveWithOptions cfg parse target false enable { jarValue := jar', accepted := accepted, htmlLang := html } := by
  simp [resolveWithOptions, langCookie]

/-- sub-context, built without the feature: a configured cookie name changes nothing, the jar is irrelevant — at creation and at
    every later run of its memo -/
theorem C15_feature_off_sub (cfg : Cfg) (parse : Str → Option LangId) (target : Target) (hasName hasName' : Bool)
    (jar jar' : Option Str) (accepted : List Str) (html : Option Loc) (initial parent : Option Loc) (inner : Bool) :
    initSub cfg parse target false hasName { jarValue := jar, accepted := accepted, htmlLang := html } initial parent
      = initSub cfg parse target false hasName' { jarValue := jar', accepted := accepted, htmlLang := html } initial parent
    ∧ subRerun cfg parse target false hasName { jarValue := jar, accepted := accepted, htmlLang := html } initial parent inner
      = subRerun cfg parse target false hasName' { jarValue := jar', accepted := accepted, htmlLang := html } initial parent inner := by
  simp [initSub, subRerun, subLangCookie]

/-- the per-context switches do the same with the feature on: `enable_cookie = false` (main context, `resolve_locale_with_options`)
    and a sub-context without cookie name never look at the jar -/
theorem C15_switched_off (cfg : Cfg) (parse : Str → Option LangId) (target : Target) (feature : Bool)
    (jar jar' : Option Str) (accepted : List Str) (html : Option Loc) (initial parent : Option Loc) :
    initRoot cfg parse target feature false { jarValue := jar, accepted := accepted, htmlLang := html }
      = initRoot cfg parse target feature false { jarValue := jar', accepted := accepted, htmlLang := html }
    ∧ resolveWithOptions cfg parse target feature false { jarValue := jar, accepted := accepted, htmlLang := html }
      = resolveWithOptions cfg parse target feature false { jarValue := jar', accepted := accepted, htmlLang := html }
    ∧ initSub cfg parse target feature false { jarValue := jar, accepted := accepted, htmlLang := html } initial parent
      = initSub cfg parse target feature false { jarValue := jar', accepted := accepted, htmlLang := html } initial parent := by
  simp [initRoot, resolveWithOptions, initSub, langCookie, subLangCookie]

/-- a sub-context that consults no cookie starts with the explicit initial locale, else the parent's, else what a main
    context without cookie would resolve (the documented order with its first entry removed) -/
theorem C15_feature_off_sub_order (cfg : Cfg) (parse : Str → Option LangId) (target : Target) (hasName : Bool)
    (req : Request) (initial parent : Option Loc) :
    initSub cfg parse target false hasName req initial parent =
      match initial, parent with
      | some i, _ => i
      | none, some p => p
      | none, none => fetchLocale target req.htmlLang none (findLocale cfg parse req.accepted) true := by
  cases initial <;> cases parent <;>
    simp [initSub, subLangCookie, subMemo, signalMaybeOnceThen, signalOnceThen]

/-- nothing is written back when the cookie is not in use -/
theorem C15_feature_off_nothing_written (l : Loc) : setCookieAfterInit false l = [] := by
  simp [setCookieAfterInit]

end I18nVerif.Theorems.C15Feature

namespace I18nVerif.Theorems.C15Feature
open I18nVerif.Langid I18nVerif.Resolve
-- the statements are not vacuous: a concrete request whose jar names a configured locale is read with the feature on, ignored with it off
private def lEn : Loc := ⟨0, ⟨some 1, none, none, []⟩⟩
private def lFr : Loc := ⟨1, ⟨some 2, none, none, []⟩⟩
private def cfgE : Cfg := { names := [['e','n'], ['f','r']], avail := [lEn, lFr], dflt := lEn }
example : initSub cfgE (fun _ => none) .ssr true true { jarValue := some ['f','r'], accepted := [] } none (some lEn) = lFr := by decide
example : initSub cfgE (fun _ => none) .ssr false true { jarValue := some ['f','r'], accepted := [] } none (some lEn) = lEn := by decide
end I18nVerif.Theorems.C15Feature
