import I18nVerif.Proofs.RenderGlue
import I18nVerif.Proofs.Config
/-!
# C01, end to end — the generated accessor renders the translation of the effective locale

Ties together what is proved separately about the Lean model of `leptos_i18n`'s loading pipeline
(`Model/Pipeline.lean`: parse → `merge_plurals` → `resolve_foreign_keys` → `check_locales`) and of
the code generator (`Model/Codegen.lean`):

* **C03** `compute` / `default_of` = the specified fallback walk over `inherits`
  (`C03_mapping_of_merge`, `C03_default_of_eq_walk_inherits`, `C03_compute_*`);
* **C02** the `match locale` arms partition the locales (`C02_dispatch_partition`), both back-ends
  render `Eval.eval` of a renderable, indexed value (`C02_flavours_agree`);
* **C11** every index stored in a locale's values — top level and nested `Subkeys` nodes — reads
  its own text from the locale's top-level table (`C11_pipeline`);
* **C09 / C01 (reduce)** the resolved world is clean and sorted, `reduce` keeps the denotation and
  yields the normal form (`C09_resolved_world_clean`, `C01_reduce_*`);

plus two facts proved for this theorem:

* **storage** (`Proofs/Render.lean`, `checkLocalesInner_store`): where `check_locales` puts the value
  a locale holds for an accessible key (top level: the locale's own key map; below a group: the key
  map of the locale recorded *at the same position* in the nested `Subkeys` node), that it is the
  reduced source value with **every** string literal indexed (`get_keys_inner` succeeding means
  `index_strings` did not run out of fuel);
* **`Solid`** (`Spec/Solid.lean`, `Proofs/SolidDecode.lean`, `Proofs/SolidResolve.lean`): no value
  that reaches `check_locales` has, at any depth, a `Default`, a group of subkeys or a `Ranges`
  without branches — so the generator's `unreachable!`s are unreachable (`renderable`).

Definitions: `Spec/Render.lean` (`renderKeyNs`, `renderKey`, `renderKeyString`, `storedAt`,
`sourceValue`, `definedIn`, `effectiveLocale`, `CfgOK`).
-/
namespace I18nVerif.Render
open I18nVerif Check Codegen PipeInv Spec.Fallback

/-! ## The configuration hypothesis -/

/-- every configuration accepted by `ConfigFile::new` satisfies `CfgOK`: locale and namespace names
    distinct, the default locale listed first, every `inherits` target a listed locale -/
theorem C01_cfgOK_of_config_new (table : List (Str × Config.TV)) (cfg : Config.Config)
    (h : Config.new table = .ok cfg) : CfgOK cfg := by
  refine ⟨C09_cfgWF_of_config_new table cfg h, ?_, ?_⟩
  · obtain ⟨r, d, listed, _, _, _, _, _, _, _, hc⟩ := Config.new_ok h
    subst hc
    exact Config.defaultFirst_head d listed
  · obtain ⟨r, d, listed, _, _, _, hknown, _, _, _, hc⟩ := Config.new_ok h
    subst hc
    intro kv hkv
    simp only at hkv ⊢
    rw [List.any_eq_false] at hknown
    have := hknown kv hkv
    obtain ⟨k, v⟩ := kv
    simp only [Bool.or_eq_true, Bool.not_eq_true', Bool.or_eq_false_iff, not_or] at this
    rw [Config.mem_defaultFirst]
    by_cases hc : listed.contains v = true
    · exact Or.inl (by simpa using hc)
    · right
      have hcf : listed.contains v = false := by simpa using hc
      have hvd : ¬ (v == d) = false := fun e => this.2 ⟨hcf, e⟩
      simpa using hvd

/-! ## The theorem -/

/--
**C01, end to end (all back-ends, per namespace of the output).**  Well-formed configuration, any
files.  If loading succeeds (`Pipeline.run inp = .ok out`) then the resolved world `w` exists and,
for every namespace `o` of the output — it stems from the namespace `ns` of `w` with the same key —,
every accessible key path `p` (leaf of the builder keys, any subkey depth), every configured
locale `l`, every environment `ρ` (arguments: variables, components, counts) and every back-end
`ot` (view / `String` / `Display`):

the generated accessor (the `match locale` built from `DefaultedLocales::compute`, then the code
generated from the selected locale's stored value, reading the string table of that locale) renders
exactly `Eval.eval ρ v`, where `v` is the value **the translation files give** for `p` (after
`reduce`) in the locale `effectiveLocale … l` = the first locale on `l, inherits l, …` that defines
`p` (`null` / absent = not defined), else the default locale.
-/
theorem C01_end_to_end_ns (inp : Pipeline.Input) (hcfg : CfgOK inp.cfg) (out : Pipeline.Output)
    (h : Pipeline.run inp = .ok out) :
    ∃ w ws, Pipeline.resolved inp = .ok (w, ws) ∧
      ∀ o ∈ out.nss, ∃ ns ∈ w.nss, ns.key = o.key ∧
        ∀ p, (leafAt o.keys p).isSome = true → ∀ l ∈ inp.cfg.locales, ∀ (ρ : Eval.Env) (ot : OutputType),
          ∃ v, sourceValue ns.locales p (effectiveLocale inp.cfg ns.locales p l) = some v ∧
            renderKeyNs out.locales o p l ρ ot = some (Eval.eval ρ v) :=
  run_end_to_end inp hcfg out h

/-- the namespace `findNs` finds is a namespace of the output -/
theorem findNs_mem {out : Pipeline.Output} {nsk : Option Str} {o : Pipeline.NsOut} (h : findNs out nsk = some o) :
    o ∈ out.nss ∧ o.key = nsk := by
  unfold findNs at h
  exact ⟨List.mem_of_find?_eq_some h, by simpa using List.find?_some h⟩

/--
**C01, end to end — the view back-end (`t!`).**  For a well-formed configuration and a successful
load: for the namespace `nsk` (`none` = no namespaces), every accessible key path `p`, every
configured locale `l` and every environment `ρ`, `renderKey out nsk p l ρ` — the text the generated
accessor shows — is `some (Eval.eval ρ v)` with `v` the source value at `p` of the effective locale
of `l` (in the namespace of the resolved world with that key).
-/
theorem C01_end_to_end (inp : Pipeline.Input) (hcfg : CfgOK inp.cfg) (out : Pipeline.Output)
    (h : Pipeline.run inp = .ok out) (nsk : Option Str) (o : Pipeline.NsOut) (ho : findNs out nsk = some o)
    (p : List Str) (hleaf : (leafAt o.keys p).isSome = true) (l : Str) (hl : l ∈ inp.cfg.locales) (ρ : Eval.Env) :
    ∃ w ws ns v, Pipeline.resolved inp = .ok (w, ws) ∧ ns ∈ w.nss ∧ ns.key = nsk ∧
      sourceValue ns.locales p (effectiveLocale inp.cfg ns.locales p l) = some v ∧
      renderKey out nsk p l ρ = some (Eval.eval ρ v) := by
  obtain ⟨w, ws, hr, hall⟩ := C01_end_to_end_ns inp hcfg out h
  obtain ⟨hom, hok⟩ := findNs_mem ho
  obtain ⟨ns, hns, hk, hp⟩ := hall o hom
  obtain ⟨v, hv, hrend⟩ := hp p hleaf l hl ρ .view
  exact ⟨w, ws, ns, v, hr, hns, hk.trans hok, hv, by simp only [renderKey, ho]; exact hrend⟩

/-- **… the `String` / `Display` back-end (`t_string!`, `t_display!`).** -/
theorem C01_end_to_end_string (inp : Pipeline.Input) (hcfg : CfgOK inp.cfg) (out : Pipeline.Output)
    (h : Pipeline.run inp = .ok out) (nsk : Option Str) (o : Pipeline.NsOut) (ho : findNs out nsk = some o)
    (p : List Str) (hleaf : (leafAt o.keys p).isSome = true) (l : Str) (hl : l ∈ inp.cfg.locales) (ρ : Eval.Env) :
    ∃ w ws ns v, Pipeline.resolved inp = .ok (w, ws) ∧ ns ∈ w.nss ∧ ns.key = nsk ∧
      sourceValue ns.locales p (effectiveLocale inp.cfg ns.locales p l) = some v ∧
      renderKeyString out nsk p l ρ = some (Eval.eval ρ v) := by
  obtain ⟨w, ws, hr, hall⟩ := C01_end_to_end_ns inp hcfg out h
  obtain ⟨hom, hok⟩ := findNs_mem ho
  obtain ⟨ns, hns, hk, hp⟩ := hall o hom
  obtain ⟨v, hv, hrend⟩ := hp p hleaf l hl ρ .string
  exact ⟨w, ws, ns, v, hr, hns, hk.trans hok, hv, by simp only [renderKeyString, ho]; exact hrend⟩

/-- **All flavours agree.**  The view, the `String` and the `Display` output of every accessible
    key at every configured locale are the same text, and it is defined (no missing `match` arm, no
    generator panic). -/
theorem C01_end_to_end_flavours (inp : Pipeline.Input) (hcfg : CfgOK inp.cfg) (out : Pipeline.Output)
    (h : Pipeline.run inp = .ok out) (nsk : Option Str) (o : Pipeline.NsOut) (ho : findNs out nsk = some o)
    (p : List Str) (hleaf : (leafAt o.keys p).isSome = true) (l : Str) (hl : l ∈ inp.cfg.locales) (ρ : Eval.Env) :
    ∃ t, renderKey out nsk p l ρ = some t ∧ renderKeyString out nsk p l ρ = some t ∧
      ∀ ot, renderKeyNs out.locales o p l ρ ot = some t := by
  obtain ⟨w, ws, hr, hall⟩ := C01_end_to_end_ns inp hcfg out h
  obtain ⟨hom, _⟩ := findNs_mem ho
  obtain ⟨ns, hns, hk, hp⟩ := hall o hom
  obtain ⟨v, hv, _⟩ := hp p hleaf l hl ρ .view
  have hot : ∀ ot, renderKeyNs out.locales o p l ρ ot = some (Eval.eval ρ v) := by
    intro ot
    obtain ⟨v', hv', hrend⟩ := hp p hleaf l hl ρ ot
    rw [hv] at hv'
    simp only [Option.some.injEq] at hv'
    rw [hv']; exact hrend
  exact ⟨_, by simp only [renderKey, ho]; exact hot .view, by simp only [renderKeyString, ho]; exact hot .string, hot⟩

/-- the same for a configuration produced by `ConfigFile::new` -/
theorem C01_end_to_end_of_config (table : List (Str × Config.TV)) (inp : Pipeline.Input)
    (hc : Config.new table = .ok inp.cfg) (out : Pipeline.Output)
    (h : Pipeline.run inp = .ok out) (nsk : Option Str) (o : Pipeline.NsOut) (ho : findNs out nsk = some o)
    (p : List Str) (hleaf : (leafAt o.keys p).isSome = true) (l : Str) (hl : l ∈ inp.cfg.locales) (ρ : Eval.Env) :
    ∃ w ws ns v, Pipeline.resolved inp = .ok (w, ws) ∧ ns ∈ w.nss ∧ ns.key = nsk ∧
      sourceValue ns.locales p (effectiveLocale inp.cfg ns.locales p l) = some v ∧
      renderKey out nsk p l ρ = some (Eval.eval ρ v) :=
  C01_end_to_end inp (C01_cfgOK_of_config_new table inp.cfg hc) out h nsk o ho p hleaf l hl ρ

/-! ## Nothing comes from elsewhere -/

/--
**The rendered text depends only on the effective locale's value at the key.**  Two projects
(any configurations, any files, possibly different namespaces, key paths and locales): if the
source value of the effective locale at the key is the same value in both, the accessors render
the same text under the same arguments — whatever else differs (other keys, other subkey groups,
other namespaces, other locales' values, the string tables and the indices into them).  The
right-hand side of `C01_end_to_end` mentions nothing else.
-/
theorem C01_nothing_from_elsewhere
    (inp1 inp2 : Pipeline.Input) (hcfg1 : CfgOK inp1.cfg) (hcfg2 : CfgOK inp2.cfg)
    (out1 out2 : Pipeline.Output) (h1 : Pipeline.run inp1 = .ok out1) (h2 : Pipeline.run inp2 = .ok out2)
    (w1 w2 : World) (ws1 ws2 : List Warning)
    (hr1 : Pipeline.resolved inp1 = .ok (w1, ws1)) (hr2 : Pipeline.resolved inp2 = .ok (w2, ws2))
    (o1 o2 : Pipeline.NsOut) (ho1 : o1 ∈ out1.nss) (ho2 : o2 ∈ out2.nss)
    (ns1 ns2 : NS) (hn1 : ns1 ∈ w1.nss) (hn2 : ns2 ∈ w2.nss) (hk1 : ns1.key = o1.key) (hk2 : ns2.key = o2.key)
    (p1 p2 : List Str) (hleaf1 : (leafAt o1.keys p1).isSome = true) (hleaf2 : (leafAt o2.keys p2).isSome = true)
    (l1 l2 : Str) (hl1 : l1 ∈ inp1.cfg.locales) (hl2 : l2 ∈ inp2.cfg.locales)
    (hsame : sourceValue ns1.locales p1 (effectiveLocale inp1.cfg ns1.locales p1 l1)
      = sourceValue ns2.locales p2 (effectiveLocale inp2.cfg ns2.locales p2 l2))
    (ρ : Eval.Env) (ot1 ot2 : OutputType) :
    renderKeyNs out1.locales o1 p1 l1 ρ ot1 = renderKeyNs out2.locales o2 p2 l2 ρ ot2 := by
  have hnd1 : (w1.nss.map NS.key).Nodup := (resolved_ok inp1 hcfg1.wf w1 ws1 hr1).wf.nsDistinct
  have hnd2 : (w2.nss.map NS.key).Nodup := (resolved_ok inp2 hcfg2.wf w2 ws2 hr2).wf.nsDistinct
  obtain ⟨w1', ws1', hr1', hall1⟩ := C01_end_to_end_ns inp1 hcfg1 out1 h1
  obtain ⟨w2', ws2', hr2', hall2⟩ := C01_end_to_end_ns inp2 hcfg2 out2 h2
  rw [hr1] at hr1'; rw [hr2] at hr2'
  simp only [Res.ok.injEq, Prod.mk.injEq] at hr1' hr2'
  obtain ⟨rfl, rfl⟩ := hr1'
  obtain ⟨rfl, rfl⟩ := hr2'
  obtain ⟨n1, hn1', hk1', hp1⟩ := hall1 o1 ho1
  obtain ⟨n2, hn2', hk2', hp2⟩ := hall2 o2 ho2
  -- namespaces are identified by their key
  have key_inj : ∀ (nss : List NS), (nss.map NS.key).Nodup → ∀ a ∈ nss, ∀ b ∈ nss, a.key = b.key → a = b := by
    intro nss
    induction nss with
    | nil => intro _ a ha; simp at ha
    | cons x xs ih =>
      intro hnd a ha b hb hab
      simp only [List.map_cons, List.nodup_cons] at hnd
      rcases List.mem_cons.mp ha with ha' | ha'
      · rcases List.mem_cons.mp hb with hb' | hb'
        · rw [ha', hb']
        · subst ha'
          exact absurd (by rw [hab]; exact List.mem_map_of_mem (f := NS.key) hb') hnd.1
      · rcases List.mem_cons.mp hb with hb' | hb'
        · subst hb'
          exact absurd (by rw [← hab]; exact List.mem_map_of_mem (f := NS.key) ha') hnd.1
        · exact ih hnd.2 a ha' b hb' hab
  have e1 : n1 = ns1 := key_inj _ hnd1 n1 hn1' ns1 hn1 (hk1'.trans hk1.symm)
  have e2 : n2 = ns2 := key_inj _ hnd2 n2 hn2' ns2 hn2 (hk2'.trans hk2.symm)
  subst e1 e2
  obtain ⟨v1, hv1, r1⟩ := hp1 p1 hleaf1 l1 hl1 ρ ot1
  obtain ⟨v2, hv2, r2⟩ := hp2 p2 hleaf2 l2 hl2 ρ ot2
  rw [hv1, hv2] at hsame
  simp only [Option.some.injEq] at hsame
  rw [r1, r2, hsame]

/-! ## The ingredients, as theorems of their own -/

/--
**Where the values are.**  After a successful `check_locales_inner` on `dl :: others`, for every
accessible key path `p` and the `i`-th input locale `l` — the default locale (`i = 0`) or a locale that
defines `p` —: the source value `valueAt l.keys p` is a plain value other than `Default`, and the
`i`-th output locale stores at `p` (`storedAt`: top level in its own key map, nested in the `i`-th
locale of the nested `Subkeys` node) a copy of it in which **every** string literal carries an
index; the copy denotes the same text.
-/
theorem C01_stored_value {suppress : Bool} {fuel : Nat} {inherits : List (Str × Str)} {ns : Option Str}
    {dl : Loc} {others : List Loc} {ws : List Warning} {locales : List Loc} {bkiF : BKI} {ws' : List Warning}
    (h : checkLocalesInner suppress fuel inherits ns (dl :: others) ws = .ok (locales, bkiF, ws'))
    (hnd : Spec.Diagnostics.NDLoc fuel dl) (i : Nat) (l : Loc) (hi : (dl :: others)[i]? = some l) (p : List Str)
    (hleaf : (leafAt bkiF p).isSome = true) (hdef : i = 0 ∨ undefinedAtPath l.keys p = false) :
    ∃ L v s, locales[i]? = some L ∧ valueAt l.keys p = some v ∧ isLeafVal v = true ∧ v ≠ .dflt ∧
      storedAt i p L.keys bkiF = some s ∧ (∀ ρ, Eval.eval ρ s = Eval.eval ρ v) ∧
      (∀ t oi, (t, oi) ∈ strLits s → oi.isSome = true) := by
  obtain ⟨L, hL, v, s, hv, hlf, hne, hs, ⟨F, acc, rfl⟩, hall⟩ := checkLocalesInner_store h hnd i l hi p hleaf hdef
  exact ⟨L, v, _, hL, hv, hlf, hne, hs, fun ρ => indexStrings_eval ρ F v acc, hall⟩

/-- **Every value that reaches `check_locales` is `Solid`**: after parsing, `merge_plurals` and
    foreign-key resolution, no stored value has — at any depth — a `Default`, a group of subkeys or a
    `Ranges` without branches (a stored value itself may be `Default` or a group of such values). -/
theorem C01_resolved_values_solid (inp : Pipeline.Input) (w : World) (ws : List Warning)
    (h : Pipeline.resolved inp = .ok (w, ws)) : ∀ ns ∈ w.nss, ∀ l ∈ ns.locales, SolidKeys l.keys = true :=
  resolved_solid inp w ws h

/-- **The generator accepts every defined source value**: a plain, defined value of a solid locale
    (as `reduce` returns it) is `renderable` and has no foreign-key node left, so neither back-end
    hits an `unreachable!` (`C02_codegen_total`). -/
theorem C01_source_renderable {ks : List (Str × PV)} {p : List Str} {v : PV} (hs : SolidKeys ks = true)
    (hv : valueAt ks p = some v) (hleaf : isLeafVal v = true) (hnd : v ≠ .dflt) :
    renderable v = true ∧ (∃ e, toTokenStream v = .ok e) ∧ (∃ d, asStringImpl v = .ok d) := by
  obtain ⟨hr, _⟩ := source_renderable hs hv hleaf hnd
  exact ⟨hr, C02_codegen_total v hr⟩

/-- **`get_keys_inner` succeeding means `index_strings` was exhaustive**: with the same fuel, if
    `get_keys_inner` answers `ok` on the indexed value then every string literal of it got an index
    (any fuel, any value, any table). -/
theorem C01_indexing_exhaustive (fuel : Nat) (v : PV) (acc : List Str) (k : IOL) (b : Bool) (r : IOL)
    (h : getKeysInner fuel (indexStrings fuel v acc).1 k b = .ok r) :
    ∀ s oi, (s, oi) ∈ strLits (indexStrings fuel v acc).1 → oi.isSome = true :=
  gki_allIdx fuel v acc k b r h

/-- **One namespace** (the statement the pipeline theorem is an instance of). -/
theorem C01_end_to_end_one_namespace {suppress : Bool} {fuel : Nat} {inherits : List (Str × Str)} {nsKey : Option Str}
    {dl : Loc} {others : List Loc} {ws : List Warning} {locales : List Loc} {bkiF : BKI} {ws' : List Warning}
    (h : checkLocalesInner suppress fuel inherits nsKey (dl :: others) ws = .ok (locales, bkiF, ws'))
    (hnd : Spec.Diagnostics.NDLoc fuel dl)
    (hnames : ((dl :: others).map Loc.name).Nodup)
    (htop : dl.top = dl.name)
    (hinh : ∀ kv ∈ inherits, kv.2 ∈ (dl :: others).map Loc.name)
    (hsolid : ∀ l ∈ dl :: others, SolidKeys l.keys = true)
    (htab : ∀ i L, locales[i]? = some L → KeysValid L.strings L.keys ∧ TreeValid i L.strings bkiF)
    (p : List Str) (hleaf : (leafAt bkiF p).isSome = true)
    (l : Str) (hl : l ∈ (dl :: others).map Loc.name) (ρ : Eval.Env) (ot : OutputType) :
    ∃ v, sourceValue (dl :: others) p (effective inherits dl.top (definedIn (dl :: others) p) l) = some v ∧
      renderKeyNs ((dl :: others).map Loc.name) ⟨nsKey, locales, bkiF⟩ p l ρ ot = some (Eval.eval ρ v) :=
  ns_end_to_end h hnd hnames htop hinh hsolid htab p hleaf l hl ρ ot

/-! ## Examples: a three-locale project with `inherits`

`locales = ["en", "fr", "fr-CA"]`, `default = "en"`, `inherits = { "fr-CA" = "fr" }`;

* `en.json    = {"hello": "Hello {{ name }}", "bye": "Bye", "g": {"t": "x"}}`
* `fr.json    = {"hello": "Bonjour {{ name }}", "bye": null}`
* `fr-CA.json = {"g": {"t": "<b>y</b>"}}`

`Pipeline.run` on it (evaluated with `#eval` while developing: the kernel cannot unfold the
well-founded `locGet` / `get_keys_inner`) returns exactly `exOut` below, and `renderKey` gives
`hello@fr-CA = "Bonjour Ann"` (fr-CA → fr), `bye@fr-CA = "Bye"` (fr-CA → fr: `null` → no `inherits`
entry → default `en`), `g.t@fr = "x"` (absent group → default), `g.t@fr-CA = "<comp_b>y</comp_b>"`. -/

private def en : Str := ['e','n']
private def fr : Str := ['f','r']
private def ca : Str := ['f','r','-','C','A']
private def kHello : Str := ['h','e','l','l','o']
private def kBye : Str := ['b','y','e']
private def kG : Str := ['g']
private def kT : Str := ['t']
private def vName : Str := ['v','a','r','_','n','a','m','e']
private def cB : Str := ['c','o','m','p','_','b']
private def tHello : Str := ['H','e','l','l','o',' ']
private def tBonjour : Str := ['B','o','n','j','o','u','r',' ']
private def tBye : Str := ['B','y','e']

/-- arguments: `name = "Ann"`, component `b` wraps its children in `<comp_b>…</comp_b>` -/
private def ρx : Eval.Env where
  var := fun k _ => if k == vName then ['A','n','n'] else []
  comp := fun k c => ['<'] ++ k ++ ['>'] ++ c ++ ['<','/'] ++ k ++ ['>']
  count := fun _ => ⟨2, 0⟩
  cat := fun _ _ => .other

private def exCfg : Config.Config :=
  { default := en, locales := [en, fr, ca], namespaces := none, localesDir := [], inherits := [(ca, fr)] }

/-- `CfgOK` is satisfiable by this configuration -/
private theorem exCfgOK : CfgOK exCfg :=
  ⟨⟨by simp [exCfg], by decide, by intro l hl; simp [exCfg] at hl⟩, rfl, by decide⟩

/-- the locales of the resolved world (values as the parser leaves them; no foreign keys) -/
private def hello (t : Str) : PV := .bloc [.lit (.str t none), .var vName .none, .lit (.str [] none)]
private def enG : Loc := .mk kG en [(kT, .lit (.str ['x'] none))] [] 0
private def caG : Loc :=
  .mk kG ca [(kT, .bloc [.lit (.str [] none), .comp cB (.lit (.str ['y'] none)), .lit (.str [] none)])] [] 0
private def enL : Loc :=
  .mk en en [(kBye, .lit (.str tBye none)), (kG, .subkeys (some enG)), (kHello, hello tHello)] [] 0
private def frL : Loc := .mk fr fr [(kBye, .dflt), (kHello, hello tBonjour)] [] 0
private def caL : Loc := .mk ca ca [(kG, .subkeys (some caG))] [] 0
private def exSrc : List Loc := [enL, frL, caL]

/-- the spec side of the theorem on the project: which locale is effective, what it says -/
example : effectiveLocale exCfg exSrc [kHello] ca = fr := by decide
example : effectiveLocale exCfg exSrc [kBye] ca = en := by decide
example : effectiveLocale exCfg exSrc [kBye] fr = en := by decide
example : effectiveLocale exCfg exSrc [kG, kT] fr = en := by decide
example : effectiveLocale exCfg exSrc [kG, kT] ca = ca := by decide
example : sourceValue exSrc [kHello] fr = some (.bloc [.lit (.str tBonjour none), .var vName .none]) := by rfl
example : sourceValue exSrc [kG, kT] ca = some (.comp cB (.lit (.str ['y'] none))) := by rfl
example : Eval.eval ρx (.bloc [.lit (.str tBonjour none), .var vName .none])
    = ['B','o','n','j','o','u','r',' ','A','n','n'] := by decide
example : ∀ l ∈ exSrc, SolidKeys l.keys = true := by decide

/-- what `check_locales` returns for the project (the only namespace of `Pipeline.run`'s output) -/
private def exOut : Pipeline.NsOut where
  key := none
  locales :=
    [.mk en en [(kBye, .lit (.str tBye (some 0))), (kG, .subkeys none),
        (kHello, .bloc [.lit (.str tHello (some 2)), .var vName .none])] [tBye, ['x'], tHello] 3,
     .mk fr fr [(kBye, .dflt), (kG, .subkeys none),
        (kHello, .bloc [.lit (.str tBonjour (some 0)), .var vName .none])] [tBonjour] 1,
     .mk ca ca [(kBye, .dflt), (kG, .subkeys none), (kHello, .dflt)] [['y']] 1]
  keys :=
    [(kBye, .value (.lit .string) ⟨en, [(fr, en), (ca, fr)]⟩),
     (kG, .subkeys
        [.mk kG en [(kT, .lit (.str ['x'] (some 1)))] [] 3,
         .mk kG fr [(kT, .dflt)] [] 1,
         .mk kG ca [(kT, .comp cB (.lit (.str ['y'] (some 0))))] [] 1]
        [(kT, .value (.interpol { comps := [cB], vars := [] }) ⟨en, [(fr, en)]⟩)]),
     (kHello, .value (.interpol { comps := [], vars := [(vName, { fmts := [.none], count := none })] })
        ⟨en, [(ca, fr)]⟩)]

/-- the generated accessors on it, both back-ends (kernel-evaluated) -/
example : renderKeyNs exCfg.locales exOut [kHello] ca ρx .view
    = some ['B','o','n','j','o','u','r',' ','A','n','n'] := by decide +kernel
example : renderKeyNs exCfg.locales exOut [kHello] ca ρx .string
    = some ['B','o','n','j','o','u','r',' ','A','n','n'] := by decide +kernel
example : renderKeyNs exCfg.locales exOut [kHello] en ρx .view = some ['H','e','l','l','o',' ','A','n','n'] := by
  decide +kernel
example : renderKeyNs exCfg.locales exOut [kBye] ca ρx .view = some tBye := by decide +kernel
example : renderKeyNs exCfg.locales exOut [kBye] fr ρx .display = some tBye := by decide +kernel
example : renderKeyNs exCfg.locales exOut [kG, kT] fr ρx .view = some ['x'] := by decide +kernel
example : renderKeyNs exCfg.locales exOut [kG, kT] ca ρx .string
    = some ['<','c','o','m','p','_','b','>','y','<','/','c','o','m','p','_','b','>'] := by decide +kernel
/-- a group is not an accessible key; an unknown locale has no `match` arm -/
example : renderKeyNs exCfg.locales exOut [kG] ca ρx .view = none := by decide +kernel
example : renderKeyNs exCfg.locales exOut [kBye] ['d','e'] ρx .view = none := by decide +kernel
/-- where the values are: the nested key `g.t` of `fr-CA` (position 2) lives in the nested node and is
    read against the **top-level** table `["y"]` of `fr-CA` -/
example : storedIn exOut 2 [kG, kT] = some (.comp cB (.lit (.str ['y'] (some 0)))) ∧ tableOf exOut 2 = [['y']] :=
  ⟨rfl, rfl⟩
example : (leafAt exOut.keys [kG, kT]).isSome = true ∧ (leafAt exOut.keys [kG]).isSome = false := by decide

/-- the theorem instantiated on the project (files as decoded trees); every hypothesis but the
    outcome of the run is discharged -/
private def exFiles : List ((Option Str × Str) × J) :=
  [((none, en), .obj [(kHello, .str ['H','e','l','l','o',' ','{','{',' ','n','a','m','e',' ','}','}']),
      (kBye, .str tBye), (kG, .obj [(kT, .str ['x'])])]),
   ((none, fr), .obj [(kHello, .str ['B','o','n','j','o','u','r',' ','{','{',' ','n','a','m','e',' ','}','}']),
      (kBye, .null)]),
   ((none, ca), .obj [(kG, .obj [(kT, .str ['<','b','>','y','<','/','b','>'])])])]
private def exInp : Pipeline.Input :=
  { cfg := exCfg, files := exFiles,
    oracle := { cats := fun _ _ => some [.one, .other], cat := fun _ _ _ => some .other } }

example (out : Pipeline.Output) (h : Pipeline.run exInp = .ok out) (o : Pipeline.NsOut)
    (ho : findNs out none = some o) (hleaf : (leafAt o.keys [kG, kT]).isSome = true) (ρ : Eval.Env) :
    ∃ t, renderKey out none [kG, kT] ca ρ = some t ∧ renderKeyString out none [kG, kT] ca ρ = some t ∧
      ∀ ot, renderKeyNs out.locales o [kG, kT] ca ρ ot = some t :=
  C01_end_to_end_flavours exInp exCfgOK out h none o ho [kG, kT] hleaf ca (by decide) ρ

end I18nVerif.Render
