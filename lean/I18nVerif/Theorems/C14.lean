import I18nVerif.Proofs.Router
import I18nVerif.Spec.Router
/-!
# C14 — URL locale prefixes are matched by whole segment and rewritten reversibly

Model: `I18nVerif.Model.Router` (`leptos_i18n_router/src/routing.rs` after the F17 repair).
All theorems quantify over *every* path, base path, query, hash, list of locale names and route
tables (no bound on lengths); a locale is its index in `L::get_all()`, the default is index 0.
-/
namespace I18nVerif.Router

/-- **A locale is read from a URL only when the first segment after the base path equals its name exactly**
    (and then it is read): for all paths, base paths and lists of distinct, non-empty locale names. -/
theorem C14_locale_from_path_iff (names : List Str) (hd : names.Nodup) (hne : ∀ n ∈ names, n ≠ [])
    (path base : Str) (l : Nat) :
    getLocaleFromPath names path base = some l ↔ Spec.readsAs names path base l = true := by
  simp only [getLocaleFromPath, Spec.readsAs, afterBase_eq]
  cases hs : stripBasePath path base with
  | none => simp
  | some rest =>
    simp only [Option.map_some]
    rw [segs_splitFirst rest]
    by_cases hf : (splitFirst rest).1 = []
    · rw [hf]
      constructor
      · intro h
        have := indexOf?_some h
        exact absurd rfl (hne [] (List.mem_of_getElem? this))
      · intro h; simp at h
    · rw [indexOf?_iff hd]; simp [hf]

/-- the same as one executable judgement: the answer of `get_locale_from_path` is always the right one -/
theorem C14_locale_from_path_spec (names : List Str) (hd : names.Nodup) (hne : ∀ n ∈ names, n ≠ [])
    (path base : Str) :
    Spec.localeOk names path base (getLocaleFromPath names path base) = true := by
  cases h : getLocaleFromPath names path base with
  | some l => exact (C14_locale_from_path_iff names hd hne path base l).mp h
  | none =>
    simp only [Spec.localeOk, List.all_eq_true, Bool.not_eq_true']
    intro l _
    cases hr : Spec.readsAs names path base l with
    | false => rfl
    | true =>
      have := (C14_locale_from_path_iff names hd hne path base l).mpr hr
      rw [h] at this; simp at this

/-! ### switching the locale -/

/-- names of locales: non-empty, without `/` (they are identifiers like `en`, `en-US`) -/
def GoodNames (names : List Str) : Prop := ∀ n ∈ names, Spec.goodSeg n = true

theorem restOf_eq (names : List Str) (xs : List Str) (loc : Option Nat)
    (hloc : ∀ l, loc = some l → l < names.length) :
    Spec.restOf names xs loc = restSegs (loc.map (fun l => names.getD l [])) xs := by
  cases loc with
  | none => cases xs <;> simp [Spec.restOf, restSegs]
  | some l =>
    have hl := hloc l rfl
    cases xs with
    | nil => simp [Spec.restOf, restSegs]
    | cons s tl =>
      simp only [Spec.restOf, restSegs, Option.map_some]
      have : names[l]? = some (names.getD l []) := by simp [List.getD, hl]
      rw [this]
      simp

/-- **Switching rewrites only the locale prefix and the localized segments.**
For every path, query, hash, base path, set of well-formed locale names and route tables of the shape the router
generates (`compatOpt`, decidable): `get_new_path` does not panic, and when the path is under the base path its
result is `pathname ++ ?query#fragment` (query and fragment untouched) where the pathname's segments are the base
path's, then the new locale's name (nothing for the default locale), then the segments that followed the old
locale's prefix, each one kept or — if it is a static segment of a route of the old locale — replaced by its
counterpart in the new locale's route. -/
theorem C14_switch_preserves (c : Cfg) (path search hash base : Str) (new : Nat) (loc : Option Nat)
    (hn : GoodNames c.names) (hnew : new < c.names.length) (hloc : ∀ l, loc = some l → l < c.names.length)
    (hc : Spec.compatOpt (c.lookup (loc.getD 0)) (c.lookup new) = true)
    (rest : List Str) (hunder : Spec.afterBase path base = some rest) :
    ∃ p r', c.getNewPath path search hash base new loc = .ok (p ++ Spec.queryAndFragment search hash) ∧
      Spec.segments p = Spec.segments base ++ Spec.localePrefix c.names new ++ r' ∧
      Spec.onlyLocalizedChanged (c.lookup (loc.getD 0)) (c.lookup new) (Spec.restOf c.names rest loc) r' = true := by
  rw [afterBase_eq] at hunder
  cases hs : stripBasePath path base with
  | none => rw [hs] at hunder; simp at hunder
  | some rest0 =>
    rw [hs] at hunder
    simp only [Option.map_some, Option.some.injEq] at hunder
    subst hunder
    have hgn : Spec.goodSeg (c.name new) = true := by
      apply hn; simp [Cfg.name, List.getD, hnew]
    have hold : ∀ l, loc.map c.name = some l → l ≠ [] := by
      intro l hl
      cases loc with
      | none => simp at hl
      | some k =>
        simp at hl; subst hl
        have : Spec.goodSeg (c.name k) = true := by
          apply hn; simp [Cfg.name, List.getD, hloc k rfl]
        exact (goodSeg_iff.mp this).1
    obtain ⟨p, r', h1, h2, _, h4⟩ :=
      newPathname_spec path base (c.name new) (new == 0) (loc.map c.name) _ _ hgn hold hc rest0 hs
    refine ⟨p, r', ?_, ?_, ?_⟩
    · simp only [Cfg.getNewPath, Cfg.newPathname, h1, urlSuffix_eq]
    · simp only [segments_eq, h2, Spec.localePrefix, Cfg.name]
    · rw [restOf_eq c.names _ loc hloc]; exact h4

/-- the same, as the executable judgement the check applies to the implementation's answers -/
theorem C14_switch_meets_spec (c : Cfg) (path search hash base : Str) (new : Nat) (loc : Option Nat)
    (hn : GoodNames c.names) (hnew : new < c.names.length) (hloc : ∀ l, loc = some l → l < c.names.length)
    (hc : Spec.compatOpt (c.lookup (loc.getD 0)) (c.lookup new) = true) :
    ∃ out, c.getNewPath path search hash base new loc = .ok out ∧
      Spec.switchOk c.names (c.lookup (loc.getD 0)) (c.lookup new) path search hash base new loc out = true := by
  cases hu : Spec.afterBase path base with
  | none =>
    -- not under the base path: the model still does not panic
    have hs : stripBasePath path base = none := by
      rw [afterBase_eq] at hu
      cases h : stripBasePath path base with
      | none => rfl
      | some r => rw [h] at hu; simp at hu
    exact ⟨(baseBuilder base (c.name new) (new == 0)).build ++ urlSuffix search hash,
      by simp only [Cfg.getNewPath, Cfg.newPathname, newPathname, hs], by simp [Spec.switchOk, hu]⟩
  | some rest =>
    obtain ⟨p, r', h1, h2, h3⟩ := C14_switch_preserves c path search hash base new loc hn hnew hloc hc rest hu
    refine ⟨_, h1, ?_⟩
    simp only [Spec.switchOk, hu, dropSuffix_append, h2, dropPrefix_append, h3]

/-! ### the localized segments *are* rewritten -/

/-- **`match_path_segments` succeeds exactly when the route serves the segments** (declarative `Spec.servesRow`:
    static = the next segment, empty static and unit take nothing, param = one segment, optional param = zero or
    one, splat = the rest, nothing left at the end) — for every route and list of segments -/
theorem C14_match_iff_serves (row : Row) (ss : List Str) :
    (∃ o, matchSegs row ss 0 [] = some o) ↔ Spec.servesRow row ss = true := by
  rw [← matchSegs_isSome row ss 0 []]
  cases matchSegs row ss 0 [] <;> simp

/-- what the Boolean judgement `Spec.sameRouteServes` says: if some route of the old locale's table serves `r`,
    then there is an index `i` such that route `i` of the old table serves `r` and route `i` of the new table
    serves `r'` -/
theorem C14_sameRouteServes_iff (tA tB : Tables) (r r' : List Str) :
    Spec.sameRouteServes tA tB r r' = true ↔
      ((∃ row ∈ tA, Spec.servesRow row r = true) →
        ∃ (i : Nat) (rowA rowB : Row), tA[i]? = some rowA ∧ tB[i]? = some rowB ∧
          Spec.servesRow rowA r = true ∧ Spec.servesRow rowB r' = true) := by
  have hp : ∀ (tA tB : Tables), Spec.pairServes tA tB r r' = true ↔
      ∃ (i : Nat) (rowA rowB : Row), tA[i]? = some rowA ∧ tB[i]? = some rowB ∧
        Spec.servesRow rowA r = true ∧ Spec.servesRow rowB r' = true := by
    intro tA
    induction tA with
    | nil => intro tB; simp [Spec.pairServes]
    | cons a as ih =>
      intro tB
      cases tB with
      | nil => simp [Spec.pairServes]
      | cons b bs =>
        simp only [Spec.pairServes, Bool.or_eq_true, Bool.and_eq_true, ih bs]
        constructor
        · rintro (⟨h1, h2⟩ | ⟨i, ra, rb, hA, hB, h1, h2⟩)
          · exact ⟨0, a, b, by simp, by simp, h1, h2⟩
          · exact ⟨i + 1, ra, rb, by simpa using hA, by simpa using hB, h1, h2⟩
        · rintro ⟨i, ra, rb, hA, hB, h1, h2⟩
          cases i with
          | zero => simp at hA hB; subst hA; subst hB; exact Or.inl ⟨h1, h2⟩
          | succ i => exact Or.inr ⟨i, ra, rb, by simpa using hA, by simpa using hB, h1, h2⟩
  simp only [Spec.sameRouteServes, Bool.or_eq_true, Bool.not_eq_true', hp]
  constructor
  · rintro (h | h) hex
    · obtain ⟨row, hrow, hs⟩ := hex
      rw [List.any_eq_false] at h
      exact absurd hs (h row hrow)
    · exact h
  · intro h
    cases hany : tA.any (fun row => Spec.servesRow row r) with
    | false => exact Or.inl rfl
    | true =>
      rw [List.any_eq_true] at hany
      exact Or.inr (h hany)

/-- the strong judgement contains the plain one -/
theorem C14_switchOkStrong_switchOk (names : List Str) (tA tB : Option Tables) (path search hash base : Str)
    (new : Nat) (loc : Option Nat) (out : Str)
    (h : Spec.switchOkStrong names tA tB path search hash base new loc out = true) :
    Spec.switchOk names tA tB path search hash base new loc out = true := by
  simp only [Spec.switchOkStrong] at h
  simp only [Spec.switchOk]
  cases h1 : Spec.afterBase path base with
  | none => rfl
  | some rest =>
    simp only [h1] at h ⊢
    cases h2 : Spec.dropSuffix out (Spec.queryAndFragment search hash) with
    | none => simp [h2] at h
    | some p =>
      simp only [h2] at h ⊢
      cases h3 : Spec.dropPrefix (Spec.segments base ++ Spec.localePrefix names new) (Spec.segments p) with
      | none => simp [h3] at h
      | some r' =>
        simp only [h3, Bool.and_eq_true] at h ⊢
        exact h.1

/-- **Switching rewrites the localized segments** (it does not merely keep them).
Under the hypotheses of `C14_switch_meets_spec` (well-formed locale names, route tables of the shape the router
generates — `compatOpt`, which includes that non-empty static segments contain no `/`): `get_new_path` does not
panic and its result satisfies `Spec.switchOkStrong`: it satisfies `Spec.switchOk`, and when both locales have a
route table and some route of the old locale serves the old remaining segments (`Spec.servesRow`, the way
`leptos_router` serves them), the new remaining segments are served by the route with the same index in the new
locale's table (`C14_sameRouteServes_iff`).  As the two tables differ only in localized static segments, a localized
segment of the served route is necessarily replaced by its counterpart.  When several routes serve the old URL the
code takes the first one; the judgement is existential over the routes, so no hypothesis about ambiguity is needed. -/
theorem C14_switch_rewrites_localized (c : Cfg) (path search hash base : Str) (new : Nat) (loc : Option Nat)
    (hn : GoodNames c.names) (hnew : new < c.names.length) (hloc : ∀ l, loc = some l → l < c.names.length)
    (hc : Spec.compatOpt (c.lookup (loc.getD 0)) (c.lookup new) = true) :
    ∃ out, c.getNewPath path search hash base new loc = .ok out ∧
      Spec.switchOkStrong c.names (c.lookup (loc.getD 0)) (c.lookup new) path search hash base new loc out = true := by
  cases hu : Spec.afterBase path base with
  | none =>
    have hs : stripBasePath path base = none := by
      rw [afterBase_eq] at hu
      cases h : stripBasePath path base with
      | none => rfl
      | some r => rw [h] at hu; simp at hu
    exact ⟨(baseBuilder base (c.name new) (new == 0)).build ++ urlSuffix search hash,
      by simp only [Cfg.getNewPath, Cfg.newPathname, newPathname, hs],
      by simp [Spec.switchOkStrong, hu]⟩
  | some rest =>
    have hu' := hu
    rw [afterBase_eq] at hu'
    cases hs : stripBasePath path base with
    | none => rw [hs] at hu'; simp at hu'
    | some rest0 =>
      rw [hs] at hu'
      simp only [Option.map_some, Option.some.injEq] at hu'
      subst hu'
      have hgn : Spec.goodSeg (c.name new) = true := by
        apply hn; simp [Cfg.name, List.getD, hnew]
      have hold : ∀ l, loc.map c.name = some l → l ≠ [] := by
        intro l hl
        cases loc with
        | none => simp at hl
        | some k =>
          simp at hl; subst hl
          have : Spec.goodSeg (c.name k) = true := by
            apply hn; simp [Cfg.name, List.getD, hloc k rfl]
          exact (goodSeg_iff.mp this).1
      obtain ⟨p, r', h1, h2, h3, h4⟩ :=
        newPathname_spec_strong path base (c.name new) (new == 0) (loc.map c.name) _ _ hgn hold hc rest0 hs
      refine ⟨p ++ Spec.queryAndFragment search hash, ?_, ?_⟩
      · simp only [Cfg.getNewPath, Cfg.newPathname, h1, urlSuffix_eq]
      · have hseg : Spec.segments p = Spec.segments base ++ Spec.localePrefix c.names new ++ r' := by
          simp only [segments_eq, h2, Spec.localePrefix, Cfg.name]
        have h3' : Spec.onlyLocalizedChanged (c.lookup (loc.getD 0)) (c.lookup new)
            (Spec.restOf c.names (segs rest0) loc) r' = true := by
          rw [restOf_eq c.names _ loc hloc]; exact h3
        have h4' : Spec.sameRouteServesOpt (c.lookup (loc.getD 0)) (c.lookup new)
            (Spec.restOf c.names (segs rest0) loc) r' = true := by
          rw [restOf_eq c.names _ loc hloc]; exact h4
        simp only [Spec.switchOkStrong, hu, dropSuffix_append, hseg, dropPrefix_append, h3', h4',
          Bool.and_self]

/-- the ideal statement — premise "some route of the old locale serves the old remaining segments the way
    `leptos_router` does" — which `get_new_path` did not meet before the repair `e02576e` of `match_path_segments`
    (it was kept as an unproved `def … : Prop`, refuted on the model of the old code); now a theorem.
    `Spec.switchOkFull` is `Spec.switchOkStrong`. -/
theorem C14_switch_rewrites_localized_full_statement :
    ∀ (c : Cfg) (path search hash base : Str) (new : Nat) (loc : Option Nat),
      GoodNames c.names → new < c.names.length → (∀ l, loc = some l → l < c.names.length) →
      Spec.compatOpt (c.lookup (loc.getD 0)) (c.lookup new) = true →
      ∃ out, c.getNewPath path search hash base new loc = .ok out ∧
        Spec.switchOkFull c.names (c.lookup (loc.getD 0)) (c.lookup new) path search hash base new loc out = true :=
  fun c path search hash base new loc hn hnew hloc hc =>
    C14_switch_rewrites_localized c path search hash base new loc hn hnew hloc hc

/-- no table at all (the state before `generate_routes` ran, and the one the harness' plain cases use):
    the remaining segments are kept as they are -/
theorem C14_switch_no_tables (names : List Str) (path search hash base : Str) (new : Nat) (loc : Option Nat)
    (hn : GoodNames names) (hnew : new < names.length) (hloc : ∀ l, loc = some l → l < names.length)
    (rest : List Str) (hunder : Spec.afterBase path base = some rest) :
    ∃ p, (Cfg.mk names []).getNewPath path search hash base new loc = .ok (p ++ Spec.queryAndFragment search hash) ∧
      Spec.segments p = Spec.segments base ++ Spec.localePrefix names new ++ Spec.restOf names rest loc := by
  obtain ⟨p, r', h1, h2, h3⟩ := C14_switch_preserves (Cfg.mk names []) path search hash base new loc hn hnew hloc
    (by simp [Cfg.lookup, Spec.compatOpt]) rest hunder
  refine ⟨p, h1, ?_⟩
  have : ∀ {xs ys : List Str}, Spec.pointwise (Spec.segOk none none) xs ys = true → xs = ys := by
    intro xs
    induction xs with
    | nil => intro ys h; cases ys <;> simp [Spec.pointwise] at h ⊢
    | cons x xs ih =>
      intro ys h
      cases ys with
      | nil => simp [Spec.pointwise] at h
      | cons y ys =>
        simp only [Spec.pointwise, Bool.and_eq_true, Spec.segOk, Bool.or_false, beq_iff_eq] at h
        rw [h.1, ih h.2]
  simp only [Cfg.lookup, List.find?_nil] at h3
  rw [h2, this h3]

/-! ### switching back -/

/-- **`A → B → A` is the identity on normalised URLs.**
For every base path (normalised: no empty segment inside, which covers the four documented spellings), every set
of well-formed locale names, every pair of locales and route tables, every list `r` of remaining segments, query and
hash, under the explicit decidable hypotheses `Spec.roundtripHyp` (tables of the shape the router generates; the
remaining segments are not themselves read as the default locale's prefix; the localized segments translate back,
i.e. the switched URL is matched by the same route in the other locale's table):
switching the normalised URL of locale `A` to `B` gives the normalised URL of `B` with the localized segments, and
switching that one back to `A` gives the original URL, query and fragment included. -/
theorem C14_switch_roundtrip (c : Cfg) (base search hash : Str) (A B : Nat) (r : List Str)
    (hA : A < c.names.length) (hB : B < c.names.length)
    (hyp : Spec.roundtripHyp c.names (c.lookup A) (c.lookup B) base A B r = true) :
    ∃ r', localizeSegs (c.lookup A) (c.lookup B) r = .ok r' ∧
      c.getNewPath (Spec.normalPath base (Spec.localePrefix c.names A) r) search hash base B (some A)
        = .ok (Spec.normalPath base (Spec.localePrefix c.names B) r' ++ Spec.queryAndFragment search hash) ∧
      c.getNewPath (Spec.normalPath base (Spec.localePrefix c.names B) r') search hash base A (some B)
        = .ok (Spec.normalPath base (Spec.localePrefix c.names A) r ++ Spec.queryAndFragment search hash) := by
  simp only [Spec.roundtripHyp, Bool.and_eq_true, List.all_eq_true] at hyp
  obtain ⟨⟨⟨⟨⟨⟨hn, hr⟩, hbase⟩, hcAB⟩, hcBA⟩, hheadA⟩, hloc⟩ := hyp
  have hclean : Clean base := by unfold Clean; simpa [Spec.normalBase] using hbase
  cases h1 : localizeSegs (c.lookup A) (c.lookup B) r with
  | panic m => rw [h1] at hloc; simp at hloc
  | ok r' =>
    rw [h1] at hloc
    simp only [Bool.and_eq_true] at hloc
    obtain ⟨hheadB, hback⟩ := hloc
    have hback' : localizeSegs (c.lookup B) (c.lookup A) r' = .ok r := by simpa using hback
    have hr' := localizeSegs_good hcAB hr h1
    have hhA : A = 0 → r.head? ≠ c.names[0]? := by
      intro h0; subst h0; simpa using hheadA
    have hhB : B = 0 → r'.head? ≠ c.names[0]? := by
      intro h0; subst h0; simpa using hheadB
    have s1 := switch_normal c base A B r r' hn hA hB hclean hcAB hr hhA h1
    have s2 := switch_normal c base B A r' r hn hB hA hclean hcBA hr' hhB hback'
    exact ⟨r', rfl, by simp only [Cfg.getNewPath, s1, urlSuffix_eq], by simp only [Cfg.getNewPath, s2, urlSuffix_eq]⟩

/-- the same for a history of two switches as `update_path_effect` performs them -/
theorem C14_switch_roundtrip_seq (c : Cfg) (base : Str) (A B : Nat) (r : List Str)
    (hA : A < c.names.length) (hB : B < c.names.length)
    (hyp : Spec.roundtripHyp c.names (c.lookup A) (c.lookup B) base A B r = true) :
    ∃ u1, c.switchSeq base (Spec.normalPath base (Spec.localePrefix c.names A) r) (some A) [B, A]
      = .ok [u1, Spec.normalPath base (Spec.localePrefix c.names A) r] := by
  obtain ⟨r', _, h1, h2⟩ := C14_switch_roundtrip c base [] [] A B r hA hB hyp
  simp only [Cfg.getNewPath] at h1 h2
  cases e1 : c.newPathname (Spec.normalPath base (Spec.localePrefix c.names A) r) base B (some A) with
  | panic m => rw [e1] at h1; simp at h1
  | ok u1 =>
    rw [e1] at h1
    simp [Spec.queryAndFragment, urlSuffix] at h1
    subst h1
    cases e2 : c.newPathname (Spec.normalPath base (Spec.localePrefix c.names B) r') base A (some B) with
    | panic m => rw [e2] at h2; simp at h2
    | ok u2 =>
      rw [e2] at h2
      simp [Spec.queryAndFragment, urlSuffix] at h2
      subst h2
      exact ⟨Spec.normalPath base (Spec.localePrefix c.names B) r', by simp [Cfg.switchSeq, e1, e2]⟩

/-- after a switch to a non-default locale the URL reads as that locale (the two functions agree) -/
theorem C14_switch_then_read (c : Cfg) (path base : Str) (new : Nat) (loc : Option Nat)
    (hn : GoodNames c.names) (hd : c.names.Nodup) (hnew : new < c.names.length) (h0 : new ≠ 0)
    (hloc : ∀ l, loc = some l → l < c.names.length)
    (hc : Spec.compatOpt (c.lookup (loc.getD 0)) (c.lookup new) = true)
    (rest : List Str) (hunder : Spec.afterBase path base = some rest) :
    ∃ p, c.newPathname path base new loc = .ok p ∧ getLocaleFromPath c.names p base = some new := by
  obtain ⟨p, r', h1, h2, _⟩ := C14_switch_preserves c path [] [] base new loc hn hnew hloc hc rest hunder
  simp only [Cfg.getNewPath] at h1
  cases e : c.newPathname path base new loc with
  | panic m => rw [e] at h1; simp at h1
  | ok q =>
    rw [e] at h1
    simp [Spec.queryAndFragment, urlSuffix] at h1
    subst h1
    refine ⟨q, rfl, ?_⟩
    have hne : ∀ n ∈ c.names, n ≠ [] := fun n hn' => (goodSeg_iff.mp (hn n hn')).1
    rw [C14_locale_from_path_iff c.names hd hne]
    have hb : (new == 0) = false := by simp [h0]
    simp only [Spec.readsAs, Spec.afterBase, h2, Spec.localePrefix, hb, List.append_assoc, dropPrefix_append]
    simp [List.getD, hnew]

/-! ### the helpers: `PathBuilder`, `match_path_segments` / `construct_path_segments`, `localize_path` -/

theorem flatMap_segs_pushAll (b : PB) (ss : List Str) :
    (PB.pushAll b ss).flatMap segs = b.flatMap segs ++ ss.flatMap segs := by
  induction ss generalizing b with
  | nil => simp [PB.pushAll]
  | cons x xs ih => simp [PB.pushAll, ih, flatMap_segs_push]

/-- `PathBuilder` normalises: whatever is pushed (any slashes, empty strings), the built path has exactly the
    segments of the pushed strings, in order -/
theorem C14_path_builder_segments (pushes : List Str) :
    Spec.segments (PB.build (PB.new.pushAll pushes)) = pushes.flatMap Spec.segments := by
  rw [segments_eq, segs_build, flatMap_segs_pushAll, flatMap_segs_new]
  simp only [List.nil_append]
  congr 1
  funext s
  exact (segments_eq s).symm

/-- built from well-formed segments, the path is the normalised one: `/` or every segment preceded by one `/` -/
theorem C14_path_builder_norm (xs : List Str) (hx : ∀ x ∈ xs, Spec.goodSeg x = true) :
    PB.build (PB.new.pushAll xs) = Spec.normalPath [] [] xs := by
  rw [normalPath_eq, PB.new, pushAll_good _ hx]
  simp [segs_nil]

/-- along a route of the old locale that matches the path (optional, splat, unit and empty static segments
    included), the same route of the new locale rebuilds it without panicking, keeping every segment except the
    static ones, which are replaced by their counterpart -/
theorem C14_match_construct (rowA rowB : Row) (ss : List Str) (o : List Nat)
    (hc : Spec.compatRow rowA rowB = true) (hs : ∀ s ∈ ss, Spec.goodSeg s = true)
    (hm : matchSegs rowA ss 0 [] = some o) :
    ∃ out, construct rowB ss 0 o PB.new = .ok (PB.new ++ out) ∧
      Spec.pointwise (fun x y => x == y || Spec.rowHas rowA rowB x y) ss out = true := by
  obtain ⟨out, h1, _, h3⟩ := construct_of_match PB.new hc hs (by simp) hm
  exact ⟨out, h1, h3⟩

/-- with route tables of the shape the router generates, neither panic site of `localize_path`
    (`new_locale_segments[pos]`, `segments_iter.next().unwrap()`) is reachable -/
theorem C14_localize_no_panic (tA tB : Tables) (hc : Spec.compatTables tA tB = true) (path : Str) (b : PB) :
    ∃ r, localizePath path tA tB b = .ok r := by
  rcases localizePath_compat hc path b with h | ⟨out, h, _⟩
  · exact ⟨_, h⟩
  · exact ⟨_, h⟩

/-! ### Non-vacuity and the regression witnesses (F17) -/

private def names4 : List Str := ["en".toList, "en-US".toList, "fr".toList, "fr-CA".toList]
private def tEn : Tables := [[.static [], .static "about".toList, .param "id".toList]]
private def tFr : Tables := [[.static [], .static "a-propos".toList, .param "id".toList]]
private def cfg4 : Cfg := ⟨names4, [(0, tEn), (2, tFr)]⟩

/-- the hypotheses of the theorems are met by non-trivial instances: distinct good names with prefix-related
    members, compatible localized tables, and the round-trip hypotheses for `/foo/about/5` (en → fr → en) -/
example : names4.Nodup ∧ (∀ n ∈ names4, Spec.goodSeg n = true) := by decide
example : Spec.compatOpt (cfg4.lookup 0) (cfg4.lookup 2) = true := by decide
example : Spec.roundtripHyp names4 (cfg4.lookup 0) (cfg4.lookup 2) "foo".toList 0 2 ["about".toList, "5".toList] = true := by
  decide
example : cfg4.switchSeq "foo".toList "/foo/about/5".toList (some 0) [2, 0]
    = .ok ["/foo/fr/a-propos/5".toList, "/foo/about/5".toList] := by decide
/-- the four documented spellings of the base path, `""` and `/` are normalised -/
example : ["foo", "/foo", "foo/", "/foo/", "", "/", "/a/b/"].all (fun b => Spec.normalBase b.toList) = true := by decide

/-- F17 (fixed): the former `starts_with` read `en` from `/english/page`, `en` from `/en-US/x`, `fr` from `/fra`;
    each violates the specification; the repaired function reads none / `en-US` / none -/
example : getLocaleFromPathOld names4 "/english/page".toList "/".toList = some 0 ∧
    Spec.localeOk names4 "/english/page".toList "/".toList (some 0) = false ∧
    getLocaleFromPath names4 "/english/page".toList "/".toList = none := by decide
example : getLocaleFromPathOld names4 "/en-US/x".toList "/".toList = some 0 ∧
    Spec.localeOk names4 "/en-US/x".toList "/".toList (some 0) = false ∧
    getLocaleFromPath names4 "/en-US/x".toList "/".toList = some 1 := by decide
example : getLocaleFromPathOld names4 "/fra".toList "/".toList = some 2 ∧
    getLocaleFromPath names4 "/fra".toList "/".toList = none := by decide

/-- F17 (fixed): the former string-prefix stripping turned `/english-page` (en → fr) into `/fr/glish-page` and
    `/franchise` (fr → en) into `/anchise`; with base path `foo` the rest of `/foo/fr/bar` was dropped, with `/foo`
    the old prefix was kept; the hash `#top` came out as `##top` -/
example : newPathnameOld "/english-page".toList "/".toList "fr".toList false (some "en".toList) = "/fr/glish-page".toList ∧
    Spec.switchOk names4 none none "/english-page".toList [] [] "/".toList 2 (some 0) "/fr/glish-page".toList = false ∧
    (Cfg.mk names4 []).getNewPath "/english-page".toList [] [] "/".toList 2 (some 0) = .ok "/fr/english-page".toList := by
  decide
example : newPathnameOld "/franchise".toList "/".toList "en".toList true (some "fr".toList) = "/anchise".toList ∧
    (Cfg.mk names4 []).getNewPath "/franchise".toList "a=1".toList "#top".toList "/".toList 0 (some 2)
      = .ok "/franchise?a=1#top".toList := by decide
example : newPathnameOld "/foo/fr/bar".toList "foo".toList "en-US".toList false (some "fr".toList) = "/foo/en-US".toList ∧
    newPathnameOld "/foo/fr/bar".toList "/foo".toList "en-US".toList false (some "fr".toList) = "/foo/en-US/fr/bar".toList ∧
    ["foo", "/foo", "foo/", "/foo/"].all (fun b =>
      (Cfg.mk names4 []).getNewPath "/foo/fr/bar".toList [] [] b.toList 1 (some 2) == .ok "/foo/en-US/bar".toList) = true := by
  decide
example : urlSuffixOld "a=1".toList "#top".toList = "?a=1##top".toList ∧
    urlSuffix "a=1".toList "#top".toList = "?a=1#top".toList := by decide

/-- the "translates back" hypothesis of `C14_switch_roundtrip` is needed: with routes `/about` and `/:id`
    (fr: `/a-propos`, `/:id`), the en URL `/a-propos` (a parameter) becomes `/fr/a-propos`, which *is* the fr about
    page, and comes back as `/about`.  The hypothesis is false there; this is an ambiguity of the route tables, not
    of the path functions. -/
example :
    let c : Cfg := ⟨names4, [(0, [[.static "about".toList], [.param "id".toList]]),
                             (2, [[.static "a-propos".toList], [.param "id".toList]])]⟩
    Spec.roundtripHyp c.names (c.lookup 0) (c.lookup 2) [] 0 2 ["a-propos".toList] = false ∧
    c.switchSeq [] "/a-propos".toList (some 0) [2, 0] = .ok ["/fr/a-propos".toList, "/about".toList] := by decide

/-! ### the strong judgement: non-vacuity, what it rejects, and what `get_new_path` does not do -/

/-- a localized segment below a nested route with an empty path (`<ParentRoute path="">` under `<I18nRoute>`) -/
private def tEnNested : Tables := [[.static [], .static [], .static "about".toList], [.static [], .param "id".toList, .static "x".toList]]
private def tFrNested : Tables := [[.static [], .static [], .static "a-propos".toList], [.static [], .param "id".toList, .static "x".toList]]
private def cfgNested : Cfg := ⟨names4, [(0, tEnNested), (2, tFrNested)]⟩

private theorem names4_good : GoodNames names4 := by unfold GoodNames; decide

/-- the hypotheses of `C14_switch_rewrites_localized` hold on that table; `/about` (en → fr) is rewritten to
    `/fr/a-propos`, which the strong judgement accepts; the un-rewritten `/fr/about` (what the code returns when the
    nested empty segment is not skipped) is accepted by `switchOk` but rejected by `switchOkStrong` -/
example : GoodNames cfgNested.names ∧ Spec.compatOpt (cfgNested.lookup 0) (cfgNested.lookup 2) = true :=
  ⟨names4_good, by decide⟩
example : cfgNested.getNewPath "/about".toList "a=1".toList "#top".toList [] 2 (some 0) = .ok "/fr/a-propos?a=1#top".toList ∧
    Spec.switchOkStrong names4 (cfgNested.lookup 0) (cfgNested.lookup 2) "/about".toList "a=1".toList "#top".toList [] 2
      (some 0) "/fr/a-propos?a=1#top".toList = true := by decide
example : Spec.switchOk names4 (cfgNested.lookup 0) (cfgNested.lookup 2) "/about".toList [] [] [] 2 (some 0)
      "/fr/about".toList = true ∧
    Spec.switchOkStrong names4 (cfgNested.lookup 0) (cfgNested.lookup 2) "/about".toList [] [] [] 2 (some 0)
      "/fr/about".toList = false := by decide
/-- the premise is not idle: the en route serves `/about`, the fr route does not -/
example : Spec.servesRow [.static [], .static [], .static "about".toList] ["about".toList] = true ∧
    Spec.servesRow [.static [], .static [], .static "a-propos".toList] ["about".toList] = false := by decide

/-- a route that ends in an index route (`<ParentRoute path="about"><Route path=""/></ParentRoute>`) -/
private def cfgTrailing : Cfg :=
  ⟨names4, [(0, [[.static [], .static "about".toList, .static []]]), (2, [[.static [], .static "a-propos".toList, .static []]])]⟩
/-- a route with an optional parameter, `about/:id?` -/
private def cfgOptional : Cfg :=
  ⟨names4, [(0, [[.static [], .static "about".toList, .optional "id".toList]]),
            (2, [[.static [], .static "a-propos".toList, .optional "id".toList]])]⟩
/-- a route with a splat, `users/*rest` -/
private def cfgSplat : Cfg :=
  ⟨names4, [(0, [[.static [], .static "users".toList, .splat "rest".toList]]),
            (2, [[.static [], .static "utilisateurs".toList, .splat "rest".toList]])]⟩

/-- Regression witnesses of the repair `e02576e`: the three shapes on which the former `match_path_segments` did
    not recognise the route (elements left after the last path segment; an optional parameter recognised only when
    the segment was the parameter's *name*), so that the localized segment was copied (`/fr/about`, `/fr/about/5`,
    `/fr/users`).  Now every one is rewritten and accepted; the former answers are rejected. -/
example : cfgTrailing.getNewPath "/about".toList [] [] [] 2 (some 0) = .ok "/fr/a-propos".toList ∧
    Spec.switchOkFull names4 (cfgTrailing.lookup 0) (cfgTrailing.lookup 2) "/about".toList [] [] [] 2 (some 0) "/fr/a-propos".toList = true ∧
    Spec.switchOkFull names4 (cfgTrailing.lookup 0) (cfgTrailing.lookup 2) "/about".toList [] [] [] 2 (some 0) "/fr/about".toList = false := by
  decide
example : cfgOptional.getNewPath "/about".toList [] [] [] 2 (some 0) = .ok "/fr/a-propos".toList ∧
    cfgOptional.getNewPath "/about/5".toList [] [] [] 2 (some 0) = .ok "/fr/a-propos/5".toList ∧
    cfgOptional.getNewPath "/about/id".toList [] [] [] 2 (some 0) = .ok "/fr/a-propos/id".toList ∧
    Spec.switchOkFull names4 (cfgOptional.lookup 0) (cfgOptional.lookup 2) "/about/5".toList [] [] [] 2 (some 0) "/fr/a-propos/5".toList = true ∧
    Spec.switchOkFull names4 (cfgOptional.lookup 0) (cfgOptional.lookup 2) "/about/5".toList [] [] [] 2 (some 0) "/fr/about/5".toList = false := by
  decide
example : cfgSplat.getNewPath "/users".toList [] [] [] 2 (some 0) = .ok "/fr/utilisateurs".toList ∧
    cfgSplat.getNewPath "/users/a/b".toList [] [] [] 2 (some 0) = .ok "/fr/utilisateurs/a/b".toList ∧
    Spec.switchOkFull names4 (cfgSplat.lookup 0) (cfgSplat.lookup 2) "/users".toList [] [] [] 2 (some 0) "/fr/utilisateurs".toList = true ∧
    Spec.switchOkFull names4 (cfgSplat.lookup 0) (cfgSplat.lookup 2) "/users".toList [] [] [] 2 (some 0) "/fr/users".toList = false := by
  decide
/-- backtracking: the optional parameter takes a segment only if the rest of the route still matches
    (`:id?/about` on `/about`: absent; on `/7/about`: present) -/
example : matchSegs [.optional "id".toList, .static "about".toList] ["about".toList] 0 [] = some [] ∧
    matchSegs [.optional "id".toList, .static "about".toList] ["7".toList, "about".toList] 0 [] = some [0] ∧
    matchSegs [.optional "id".toList, .optional "x".toList, .param "p".toList] ["a".toList, "b".toList] 0 [] = some [0] := by
  decide

end I18nVerif.Router
