import I18nVerif.Proofs.ManifestLines
import I18nVerif.Theorems.C19Section
/-!
# C19 (continued) — "the rest of Cargo.toml is ignored", at the text level

Whole lines put before the manifest that do not themselves start with the header only shift the split; whatever
follows the header does not move it.  Both hold for every text (any length, any characters, any line endings).
-/
namespace I18nVerif.Manifest

/-- whole lines put before the manifest that do not themselves start with the header (comments, strings, other
tables mentioning it) only shift the split: the text before the section grows by exactly these lines, the text
after it is unchanged, and the section is absent from both or present in both -/
theorem C19_text_before_ignored (p m : List Char) (hp : p = [] ∨ ∃ q, p = q ++ ['\n'])
    (hno : ∀ l ∈ lines p, startsSection l = false) :
    splitAtSection (p ++ m) = (splitAtSection m).map (fun br => (p ++ br.1, br.2)) := by
  rcases hp with rfl | ⟨q, rfl⟩
  · cases h : splitAtSection m <;> simp [h]
  · unfold splitAtSection
    have e : q ++ ['\n'] ++ m = q ++ '\n' :: m := by simp
    rw [e, lines_append_nl, findSection_append _ _ _ hno, lines_flatten, List.nil_append]
    exact findSection_pre _ _

/-- whatever follows the header (the section's own fields, other sections, later mentions of the header) does not
move the split: replacing the text after the header by any other text leaves the text before the section as it
was and gives back the new text as the section body -/
theorem C19_text_after_ignored (m b r r' : List Char) (h : splitAtSection m = some (b, r)) :
    splitAtSection (b ++ header ++ r') = some (b, r') := by
  obtain ⟨ls₁, l, ls₂, e, h1, h2, hb, _⟩ := findSection_some _ _ _ _ h
  obtain ⟨t, ht⟩ := (startsSection_iff l).1 h2
  obtain ⟨tl, htl⟩ := header_cons
  have hws : ∀ c ∈ l.takeWhile isWs, isWs c = true := takeWhile_all isWs l
  have hl : l.takeWhile isWs ++ header ++ t = l := by
    have := takeWhile_append_trimStart l
    rw [ht] at this
    simpa [List.append_assoc] using this
  -- the blanks before the header contain no line terminator
  have hnl : '\n' ∉ l.takeWhile isWs ++ header := by
    intro hmem
    rcases List.mem_append.1 hmem with hmem | hmem
    · obtain ⟨a, b', hab⟩ := List.append_of_mem hmem
      have hl' : l = a ++ '\n' :: (b' ++ header ++ t) := by
        rw [← hl, hab]; simp [List.append_assoc]
      have := lines_nl_last m l (by rw [e]; simp) a _ hl'
      have hh : header = [] := by
        have := congrArg List.length this
        simp at this
        exact this.2.1
      exact header_ne_nil hh
    · exact header_nl_not_mem hmem
  have hne : l.takeWhile isWs ++ header ≠ [] := by
    intro hh
    exact header_ne_nil (List.append_eq_nil_iff.1 hh).2
  obtain ⟨x, rest, hx, hr'⟩ := lines_first _ r' hne hnl
  have hstart : trimStart (l.takeWhile isWs ++ header ++ x) = header ++ x := by
    unfold trimStart
    rw [htl]
    simpa [List.append_assoc] using dropWhile_ws_append (l.takeWhile isWs) (tl ++ x) '[' hws isWs_bracket
  have htake : (l.takeWhile isWs ++ header ++ x).takeWhile isWs = l.takeWhile isWs := by
    rw [htl]
    simpa [List.append_assoc] using takeWhile_ws_append (l.takeWhile isWs) (tl ++ x) '[' hws isWs_bracket
  have hs : startsSection (l.takeWhile isWs ++ header ++ x) = true :=
    (startsSection_iff _).2 ⟨x, hstart⟩
  have hb' : b = ls₁.flatten ++ l.takeWhile isWs := by simpa using hb
  unfold splitAtSection
  have e2 : b ++ header ++ r' = ls₁.flatten ++ (l.takeWhile isWs ++ header ++ r') := by
    rw [hb']; simp [List.append_assoc]
  rw [e2, lines_prefix_append m ls₁ l ls₂ e, findSection_append _ _ _ h1, hx]
  unfold findSection
  rw [if_pos hs, htake, hstart, hb']
  simp [hr']

end I18nVerif.Manifest

namespace I18nVerif.Manifest
/-- `C19_text_before_ignored`: its hypotheses are met by two lines mentioning the header (a comment, a string) put
before a manifest that has the section — and by the same lines put before one that has not -/
example : (fun p : List Char => (p = [] ∨ ∃ q, p = q ++ ['\n']) ∧ ∀ l ∈ lines p, startsSection l = false)
    "# [package.metadata.leptos-i18n]\nx = \"[package.metadata.leptos-i18n]\"\n".toList :=
  ⟨.inr ⟨"# [package.metadata.leptos-i18n]\nx = \"[package.metadata.leptos-i18n]\"".toList, by decide⟩, by decide⟩
example : splitAtSection ("# [package.metadata.leptos-i18n]\n" ++ "a\n [package.metadata.leptos-i18n]\nd = 1").toList =
    some ("# [package.metadata.leptos-i18n]\na\n ".toList, "\nd = 1".toList) := by decide
example : splitAtSection "a\n [package.metadata.leptos-i18n]\nd = 1".toList = some ("a\n ".toList, "\nd = 1".toList) := by
  decide
/-- the condition "whole lines" cannot be dropped: a prefix that ends inside a line can hide the section -/
example : splitAtSection ("x" ++ "[package.metadata.leptos-i18n]\n").toList = none ∧
    splitAtSection "[package.metadata.leptos-i18n]\n".toList = some ([], ['\n']) ∧
    ∀ l ∈ lines "x".toList, startsSection l = false := by decide
/-- `C19_text_after_ignored`: its hypothesis is met by a manifest with an indented header; a replacement text that
itself mentions the header again does not move the split -/
example : splitAtSection "a\n [package.metadata.leptos-i18n] \nd = 1".toList = some ("a\n ".toList, " \nd = 1".toList) := by
  decide
example : splitAtSection ("a\n " ++ "[package.metadata.leptos-i18n]" ++ "\n[package.metadata.leptos-i18n]\n").toList =
    some ("a\n ".toList, "\n[package.metadata.leptos-i18n]\n".toList) := by decide
end I18nVerif.Manifest
