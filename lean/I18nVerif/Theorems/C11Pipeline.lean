import I18nVerif.Theorems.C11Full
import I18nVerif.Theorems.C09Pipeline
/-!
# C11 on the whole pipeline, no hypothesis left but a well-formed configuration

`Theorems/C11Full.lean` needs two facts about the locales that reach `check_locales`:
freshness (`C11_resolved_fresh`, proved there from the stages) and distinct keys at every level
(`DistinctLoc`).  The second follows from the invariant of the loading pipeline proved for C09
(`C09_resolved_world_clean`: every key map sorted at every depth, no group inside a leaf).
-/
namespace I18nVerif.Check
open I18nVerif PipeInv

theorem nodup_of_sorted {α : Type} : ∀ (m : List (Str × α)), PipeInv.Sorted m → (m.map Prod.fst).Nodup
  | [], _ => List.nodup_nil
  | (k, v) :: rest, h => by
    unfold PipeInv.Sorted at h
    rw [List.pairwise_cons] at h
    simp only [List.map_cons, List.nodup_cons]
    refine ⟨?_, nodup_of_sorted rest h.2⟩
    intro hm
    obtain ⟨⟨k', v'⟩, hm', rfl⟩ := List.mem_map.mp hm
    have := h.1 _ hm'
    simp only [Keys.strLt_irrefl] at this
    cases this

/-- a value without a group inside is trivially "distinct" -/
theorem distinct_of_flat : ∀ v : PV, Flat v = true → DistinctPV v = true
  | .subkeys _, h => by simp [Flat] at h
  | .fk (.set i), h => by
    simp only [Flat] at h
    simp only [DistinctPV]
    exact distinct_of_flat i h
  | .fk (.notSet _ _), _ => rfl
  | .comp _ _, _ => rfl
  | .bloc _, _ => rfl
  | .ranges _ _ _, _ => rfl
  | .plurals _ _ _ _, _ => rfl
  | .dflt, _ => rfl
  | .lit _, _ => rfl
  | .var _ _, _ => rfl

mutual
theorem distinctV_of_inv (P : List Str → PV → Prop) (hP : ∀ q x, P q x → Flat x = true) :
    ∀ (v : PV) (here : List Str), SortedV v → TreeV P here v → DistinctPV v = true
  | .subkeys (some (.mk _ _ keys _ _)), here, hs, ht => by
    simp only [SortedV] at hs
    simp only [TreeV] at ht
    simp only [DistinctPV, Bool.and_eq_true, decide_eq_true_eq]
    exact ⟨nodup_of_sorted keys hs.1, distinctK_of_inv P hP keys here hs.2 ht⟩
  | .subkeys none, _, _, ht => by simp [TreeV] at ht
  | .fk f, here, _, ht => by simp only [TreeV] at ht; exact distinct_of_flat _ (hP _ _ ht)
  | .dflt, _, _, _ => rfl
  | .ranges _ _ _, _, _, _ => rfl
  | .lit _, _, _, _ => rfl
  | .var _ _, _, _, _ => rfl
  | .comp _ _, _, _, _ => rfl
  | .bloc _, _, _, _ => rfl
  | .plurals _ _ _ _, _, _, _ => rfl
theorem distinctK_of_inv (P : List Str → PV → Prop) (hP : ∀ q x, P q x → Flat x = true) :
    ∀ (keys : List (Str × PV)) (pre : List Str), SortedK keys → TreeK P pre keys → DistinctK keys = true
  | [], _, _, _ => rfl
  | (k, v) :: rest, pre, hs, ht => by
    simp only [SortedK] at hs
    simp only [TreeK] at ht
    simp only [DistinctK, Bool.and_eq_true]
    exact ⟨distinctV_of_inv P hP v _ hs.1 ht.1, distinctK_of_inv P hP rest pre hs.2 ht.2⟩
end

/-- the pipeline invariant of C09 gives `DistinctLoc` -/
theorem distinctLoc_of_inv (l : Loc) (P : List Str → PV → Prop) (hP : ∀ q x, P q x → Flat x = true) (pre : List Str)
    (hs : SortedTree l.keys) (ht : TreeK P pre l.keys) : DistinctLoc l = true := by
  simp only [DistinctLoc, Bool.and_eq_true, decide_eq_true_eq]
  exact ⟨nodup_of_sorted _ hs.1, distinctK_of_inv P hP _ pre hs.2 ht⟩

/-- **every locale that reaches `check_locales` has distinct keys at every level** (well-formed
    configuration: what `ConfigFile::new` accepts, `C09_cfgWF_of_config_new`) -/
theorem C11_resolved_distinct (inp : Pipeline.Input) (hcfg : CfgWF inp.cfg) (w : World) (ws : List Warning)
    (h : Pipeline.resolved inp = .ok (w, ws)) : ∀ ns ∈ w.nss, ∀ l ∈ ns.locales, DistinctLoc l = true := by
  intro ns hns l hl
  obtain ⟨_, hall⟩ := C09_resolved_world_clean inp hcfg w ws h ns hns
  obtain ⟨_, hs, ht⟩ := hall l hl
  exact distinctLoc_of_inv l _ (fun q x hx => hx.1) [] hs ht

/-- **C11 for `parse_locales`, end to end.**  For every well-formed configuration and any files:
    if loading succeeds, then in every namespace every locale's string table is duplicate-free and
    every index stored in the locale's values — top level and inside every nested `Subkeys` node of
    the builder keys, any depth — reads the value's own text from that table. -/
theorem C11_pipeline (inp : Pipeline.Input) (hcfg : CfgWF inp.cfg) (out : Pipeline.Output)
    (h : Pipeline.run inp = .ok out) :
    ∀ o ∈ out.nss, ∀ i L, o.locales[i]? = some L →
      L.strings.Nodup ∧ KeysValid L.strings L.keys ∧ TreeValid i L.strings o.keys := by
  have h' := h
  unfold Pipeline.run at h'
  split at h'
  · simp at h'
  · simp at h'
  · rename_i w ws hr
    exact C11_run_tables_distinct inp w ws out hr h (C11_resolved_distinct inp hcfg w ws hr)

/-- the same for a configuration produced by `ConfigFile::new` -/
theorem C11_pipeline_of_config (table : List (Str × Config.TV)) (inp : Pipeline.Input)
    (hc : Config.new table = .ok inp.cfg) (out : Pipeline.Output) (h : Pipeline.run inp = .ok out) :
    ∀ o ∈ out.nss, ∀ i L, o.locales[i]? = some L →
      L.strings.Nodup ∧ KeysValid L.strings L.keys ∧ TreeValid i L.strings o.keys :=
  C11_pipeline inp (C09_cfgWF_of_config_new table inp.cfg hc) out h

end I18nVerif.Check
