import I18nVerif.Proofs.ForeignOrder
import I18nVerif.Theorems.C06
/-!
# C06 (order) — the result of `resolve_foreign_keys` does not depend on the order of the registered paths

`Foreign.resolveAll` walks the registered `(locale, path)` pairs in `BTreeSet` order, resolves the
value at each path (and at the plural base key it may have been merged into) in the *current* world and
stores the result.  The theorems below say that the stored results are a function of the *original*
world only.

Hypothesis `WorldWF w` (`Spec/PipelineInv.lean`): namespace names and locale names are pairwise
distinct, the world is namespaced iff its namespaces are named — what `parse_locales_raw` builds
(`C09_parseRaw_invariant`).  Nothing is assumed about the key trees (no sortedness, any nesting), about
the registered paths (they may be missing, point at groups, contain duplicates) or about acyclicity:
only *successful* runs are compared (which error is reported first does depend on the order).
-/
namespace I18nVerif.Foreign
open I18nVerif I18nVerif.Subst I18nVerif.PipeInv

/--
**What `resolveAll` computes.**  After a successful run from `w`, the world `w'` is `w` with the leaf
at every processed key (registered path or its plural base key) replaced by its *reference
resolution* in the original world `w` (`ncPV`: no cycle guard, no memoisation, any sufficient fuel),
all other leaves unchanged, and groups of subkeys still groups.
-/
theorem C06_resolveAll_memo (orc : Oracle) (dflt : Fallbacks) (fuel : Nat) (ps : List (Str × KeyPath))
    (w w' : World) (hwf : WorldWF w) (h : resolveAll orc dflt fuel ps w = .ok w') :
    Memo orc w dflt (Proc ps) w' :=
  Memo.congr orc w dflt (memo_all orc w dflt ps (fun _ => False) w w' hwf (Memo.init orc w dflt) h)
    (fun _ => ⟨fun h => h.elim False.elim id, .inr⟩)

/--
**Order independence.**  Two successful runs of `resolveAll` from the same world over lists with the
same elements (any order, any multiplicity) give worlds in which *every* lookup returns the same
thing — or, at paths that do not hold a leaf, something that is not a leaf in both (a group of
subkeys, nothing, or the same error).  Leaves are equal syntactically, not only in what they render.
-/
theorem C06_order_independent (orc : Oracle) (dflt : Fallbacks) (fuel₁ fuel₂ : Nat)
    (ps₁ ps₂ : List (Str × KeyPath)) (w w₁ w₂ : World) (hwf : WorldWF w)
    (hsame : ∀ x, x ∈ ps₁ ↔ x ∈ ps₂)
    (h₁ : resolveAll orc dflt fuel₁ ps₁ w = .ok w₁) (h₂ : resolveAll orc dflt fuel₂ ps₂ w = .ok w₂)
    (top : Str) (T : KeyPath) :
    w₁.getValueAt top T = w₂.getValueAt top T ∨
    ((∀ x, w₁.getValueAt top T = .ok (some x) → isGroup x = true) ∧
     (∀ x, w₂.getValueAt top T = .ok (some x) → isGroup x = true)) := by
  have hM1 := C06_resolveAll_memo orc dflt fuel₁ ps₁ w w₁ hwf h₁
  have hM2 := C06_resolveAll_memo orc dflt fuel₂ ps₂ w w₂ hwf h₂
  have hP : ∀ K, Proc ps₁ K ↔ Proc ps₂ K := fun K =>
    ⟨fun ⟨x, hx, hK⟩ => ⟨x, (hsame x).mp hx, hK⟩, fun ⟨x, hx, hK⟩ => ⟨x, (hsame x).mpr hx, hK⟩⟩
  rcases hM1 top T with ⟨_, hu, hu1⟩ | ⟨v₀, y₁, ha, hb1, hl0, hl1, hc1⟩
  · rcases hM2 top T with ⟨_, _, hu2⟩ | ⟨v₀, y₂, ha, _, hl0, _, _⟩
    · exact .inr ⟨hu1, hu2⟩
    · have := hu v₀ ha; rw [hl0] at this; cases this
  · rcases hM2 top T with ⟨_, hu, _⟩ | ⟨v₀', y₂, ha', hb2, _, _, hc2⟩
    · have := hu v₀ ha; rw [hl0] at this; cases this
    · rw [ha] at ha'
      simp only [Res.ok.injEq, Option.some.injEq] at ha'
      subst ha'
      left
      rw [hb1, hb2]
      rcases hc1 with ⟨hn1, e1⟩ | ⟨hs1, e1⟩ <;> rcases hc2 with ⟨hn2, e2⟩ | ⟨hs2, e2⟩
      · rw [e1, e2]
      · exact absurd ((hP _).mpr hs2) hn1
      · exact absurd ((hP _).mp hs1) hn2
      · rw [Ev.det e1 e2]

/-- for two permutations of the registered paths -/
theorem C06_order_independent_perm (orc : Oracle) (dflt : Fallbacks) (fuel : Nat)
    (ps₁ ps₂ : List (Str × KeyPath)) (w w₁ w₂ : World) (hwf : WorldWF w) (hperm : ps₁.Perm ps₂)
    (h₁ : resolveAll orc dflt fuel ps₁ w = .ok w₁) (h₂ : resolveAll orc dflt fuel ps₂ w = .ok w₂)
    (top : Str) (T : KeyPath) :
    w₁.getValueAt top T = w₂.getValueAt top T ∨
    ((∀ x, w₁.getValueAt top T = .ok (some x) → isGroup x = true) ∧
     (∀ x, w₂.getValueAt top T = .ok (some x) → isGroup x = true)) :=
  C06_order_independent orc dflt fuel fuel ps₁ ps₂ w w₁ w₂ hwf (fun _ => hperm.mem_iff) h₁ h₂ top T

/-- a leaf stored by one order is the leaf stored by the other -/
theorem C06_order_independent_leaf (orc : Oracle) (dflt : Fallbacks) (fuel₁ fuel₂ : Nat)
    (ps₁ ps₂ : List (Str × KeyPath)) (w w₁ w₂ : World) (hwf : WorldWF w)
    (hsame : ∀ x, x ∈ ps₁ ↔ x ∈ ps₂)
    (h₁ : resolveAll orc dflt fuel₁ ps₁ w = .ok w₁) (h₂ : resolveAll orc dflt fuel₂ ps₂ w = .ok w₂)
    (top : Str) (T : KeyPath) (v : PV) (hv : w₁.getValueAt top T = .ok (some v)) (hl : isGroup v = false) :
    w₂.getValueAt top T = .ok (some v) := by
  rcases C06_order_independent orc dflt fuel₁ fuel₂ ps₁ ps₂ w w₁ w₂ hwf hsame h₁ h₂ top T with he | ⟨hu, _⟩
  · rw [← he, hv]
  · have := hu v hv; rw [hl] at this; cases this

/-- **The statement left open in `Theorems/C06.lean`, for well-formed worlds**: both worlds render the
    same at every path, in every environment (a group of subkeys renders as nothing). -/
theorem C06_order_independent_eval (orc : Oracle) (dflt : Fallbacks) (fuel : Nat) (w w₁ w₂ : World)
    (paths paths' : List (Str × KeyPath)) (hwf : WorldWF w) (hperm : paths.Perm paths')
    (h₁ : resolveAll orc dflt fuel paths w = .ok w₁) (h₂ : resolveAll orc dflt fuel paths' w = .ok w₂)
    (top : Str) (p : KeyPath) (v₁ v₂ : PV)
    (hv₁ : w₁.getValueAt top p = .ok (some v₁)) (hv₂ : w₂.getValueAt top p = .ok (some v₂)) :
    ∀ ρ, Eval.eval ρ v₁ = Eval.eval ρ v₂ := by
  intro ρ
  rcases C06_order_independent_perm orc dflt fuel paths paths' w w₁ w₂ hwf hperm h₁ h₂ top p with he | ⟨hu1, hu2⟩
  · rw [hv₁, hv₂] at he
    simp only [Res.ok.injEq, Option.some.injEq] at he
    rw [he]
  · obtain ⟨o1, rfl⟩ := isGroup_true' (hu1 v₁ hv₁)
    obtain ⟨o2, rfl⟩ := isGroup_true' (hu2 v₂ hv₂)
    simp [Eval.eval]

/-- `C06_order_independent_full_statement` of `Theorems/C06.lean` with the hypothesis `WorldWF w` added -/
theorem C06_order_independent_full_of_wf :
    ∀ (orc : Oracle) (dflt : Fallbacks) (fuel : Nat) (w w₁ w₂ : World) (paths paths' : List (Str × KeyPath)),
      WorldWF w → paths.Perm paths' →
      resolveAll orc dflt fuel paths w = .ok w₁ → resolveAll orc dflt fuel paths' w = .ok w₂ →
      ∀ (top : Str) (p : KeyPath) (v₁ v₂ : PV),
        w₁.getValueAt top p = .ok (some v₁) → w₂.getValueAt top p = .ok (some v₂) →
        ∀ ρ, Eval.eval ρ v₁ = Eval.eval ρ v₂ :=
  fun orc dflt fuel w w₁ w₂ paths paths' hwf hperm h₁ h₂ top p v₁ v₂ hv₁ hv₂ =>
    C06_order_independent_eval orc dflt fuel w w₁ w₂ paths paths' hwf hperm h₁ h₂ top p v₁ v₂ hv₁ hv₂

/-- processing registered paths more than once changes no leaf (a consequence: the lists only need the
    same *elements*) -/
theorem C06_resolveAll_repeat (orc : Oracle) (dflt : Fallbacks) (fuel : Nat) (ps : List (Str × KeyPath))
    (w w₁ w₂ : World) (hwf : WorldWF w)
    (h₁ : resolveAll orc dflt fuel ps w = .ok w₁) (h₂ : resolveAll orc dflt fuel (ps ++ ps) w = .ok w₂)
    (top : Str) (T : KeyPath) (v : PV) (hv : w₁.getValueAt top T = .ok (some v)) (hl : isGroup v = false) :
    w₂.getValueAt top T = .ok (some v) :=
  C06_order_independent_leaf orc dflt fuel fuel ps (ps ++ ps) w w₁ w₂ hwf (fun x => by simp) h₁ h₂ top T v hv hl

/-! ## Example: both orders on a concrete world -/

namespace Ex

theorem mkWorld_wf (keys : List (Str × PV)) : WorldWF (mkWorld keys) := by
  refine ⟨by simp [mkWorld], fun _ => ⟨_, rfl⟩, by simp [mkWorld], ?_, ?_⟩
  · intro ns hns; simp [mkWorld] at hns; subst hns; simp
  · intro ns hns; simp [mkWorld] at hns; subst hns; simp

theorem mkWorld_set (keys : List (Str × PV)) (k : String) (x : PV) :
    (mkWorld keys).setValueAt en (kp k) x =
      mkWorld (keys.map (fun kv => if kv.1 == k.toList then (kv.1, x) else (kv.1, kv.2))) := by
  simp [mkWorld, World.setValueAt, kp, World.locSet, Loc.setKeys, Loc.name, Loc.keys, Loc.top, Loc.strings, Loc.count]

theorem resolveAt_ok_eq {orc : Oracle} {dflt : Fallbacks} {fuel : Nat} {loc : Str} {p : KeyPath} {m : World} {v x : PV}
    (hget : m.getValueAt loc p = .ok (some v))
    (hr : resolvePV orc m dflt fuel [] (loc, p) loc v = .ok x) :
    resolveAt orc dflt fuel loc p m = .ok (m.setValueAt loc p x, true) := by
  simp [resolveAt, hget, hr]


/-! the chain world of `Theorems/C06.lean` (`a: "$t(b, {"x": "Bob"})"`, `b: "<i>$t(c, {"y": "{{ x }}"})</i>"`,
    `c: "Hi {{ y }}"`), registered paths `a` and `b`, in both orders -/
def va' : PV := .fk (.set (.comp "i".toList (.bloc [s "Hi ", s "Bob"])))
def vb' : PV := .comp "i".toList (.fk (.set (.bloc [s "Hi ", .var "x".toList .none])))
def keysA : List (Str × PV) := [("a".toList, va'), ("b".toList, vb), ("c".toList, vc)]
def keysB : List (Str × PV) := [("a".toList, va), ("b".toList, vb'), ("c".toList, vc)]
def keysAB : List (Str × PV) := [("a".toList, va'), ("b".toList, vb'), ("c".toList, vc)]

/-- `b` resolves to `vb'` wherever `c` is stored unresolved (in any of these worlds), on its own or below `a` -/
theorem resolve_b (keys : List (Str × PV)) (hc : AMap.get? "c".toList keys = some vc) (V : List KeyId)
    (hV : V = [] ∨ V = [(en, kp "a")]) :
    resolvePV orc (mkWorld keys) fbEn 8 V (en, kp "b") en vb = .ok vb' := by
  have hn : resolveNode orc (mkWorld keys) fbEn 6 V (en, kp "b") en (kp "c")
      [("y".toList, .var "x".toList .none)] = .ok (.fk (.set (.bloc [s "Hi ", .var "x".toList .none]))) :=
    resolveNode_ok_eq (value := vc) (value' := vc) (args' := [("y".toList, .var "x".toList .none)])
      orc _ fbEn 5 _ _ en (kp "c") _
      ((mkWorld_get keys "c").trans (by rw [hc])) (by simp [vc])
      (by rcases hV with rfl | rfl <;> decide)
      (resolvePV_id _ _ _ _ _ _ _ _ (by decide) (by decide))
      (resolveArgs_id _ _ _ _ _ _ _ _ (by decide) (by decide)) rfl
  rw [vb, resolvePV_comp, resolvePV_notSet, hn]; rfl

/-- `a` resolves to `va'` whether `b` is stored unresolved … -/
theorem resolve_a_fresh (keys : List (Str × PV)) (hb : AMap.get? "b".toList keys = some vb)
    (hc : AMap.get? "c".toList keys = some vc) :
    resolvePV orc (mkWorld keys) fbEn 10 [] (en, kp "a") en va = .ok va' := by
  rw [va, resolvePV_notSet]
  exact resolveNode_ok_eq (value := vb) (args' := [("x".toList, s "Bob")])
      orc _ fbEn 8 _ _ en (kp "b") _
      ((mkWorld_get keys "b").trans (by rw [hb])) (by simp [vb]) (by decide)
      (resolve_b keys hc _ (.inr rfl))
      (resolveArgs_id _ _ _ _ _ _ _ _ (by decide) (by decide)) rfl

/-- … or already resolved (memoised) -/
theorem resolve_a_memo : resolvePV orc (mkWorld keysB) fbEn 10 [] (en, kp "a") en va = .ok va' := by
  rw [va, resolvePV_notSet]
  exact resolveNode_ok_eq (value := vb') (value' := vb') (args' := [("x".toList, s "Bob")])
      orc _ fbEn 8 _ _ en (kp "b") _
      ((mkWorld_get keysB "b").trans rfl) (by simp [vb']) (by decide)
      (resolvePV_id _ _ _ _ _ _ _ _ (by decide) (by decide))
      (resolveArgs_id _ _ _ _ _ _ _ _ (by decide) (by decide)) rfl

theorem run_ab : resolveAll orc fbEn 10 [(en, kp "a"), (en, kp "b")] w3 = .ok (mkWorld keysAB) := by
  have m1 : mergedPath (kp "a") = none := by decide
  have m2 : mergedPath (kp "b") = none := by decide
  have s1 : resolveAt orc fbEn 10 en (kp "a") w3 = .ok (mkWorld keysA, true) := by
    rw [w3, resolveAt_ok_eq ((mkWorld_get keys3 "a").trans rfl) (resolve_a_fresh keys3 rfl rfl), mkWorld_set]; rfl
  have s2 : resolveAt orc fbEn 10 en (kp "b") (mkWorld keysA) = .ok (mkWorld keysAB, true) := by
    rw [resolveAt_ok_eq ((mkWorld_get keysA "b").trans rfl)
      (C06_resolve_fuel_monotone_ok orc _ fbEn [] _ en vb vb' 8 10 (by decide) (resolve_b keysA rfl _ (.inl rfl))),
      mkWorld_set]; rfl
  simp only [resolveAll, s1, s2, m1, m2, Bool.or_false, if_true]

theorem run_ba : resolveAll orc fbEn 10 [(en, kp "b"), (en, kp "a")] w3 = .ok (mkWorld keysAB) := by
  have m1 : mergedPath (kp "a") = none := by decide
  have m2 : mergedPath (kp "b") = none := by decide
  have s1 : resolveAt orc fbEn 10 en (kp "b") w3 = .ok (mkWorld keysB, true) := by
    rw [w3, resolveAt_ok_eq ((mkWorld_get keys3 "b").trans rfl)
      (C06_resolve_fuel_monotone_ok orc _ fbEn [] _ en vb vb' 8 10 (by decide) (resolve_b keys3 rfl _ (.inl rfl))),
      mkWorld_set]; rfl
  have s2 : resolveAt orc fbEn 10 en (kp "a") (mkWorld keysB) = .ok (mkWorld keysAB, true) := by
    rw [resolveAt_ok_eq ((mkWorld_get keysB "a").trans rfl) resolve_a_memo, mkWorld_set]; rfl
  simp only [resolveAll, s1, s2, m1, m2, Bool.or_false, if_true]

/-- the hypotheses of `C06_order_independent_perm` hold here, with both runs successful -/
example : WorldWF w3 ∧ [(en, kp "a"), (en, kp "b")].Perm [(en, kp "b"), (en, kp "a")] ∧
    resolveAll orc fbEn 10 [(en, kp "a"), (en, kp "b")] w3 = .ok (mkWorld keysAB) ∧
    resolveAll orc fbEn 10 [(en, kp "b"), (en, kp "a")] w3 = .ok (mkWorld keysAB) :=
  ⟨mkWorld_wf _, List.Perm.swap _ _ _, run_ab, run_ba⟩
end Ex

end I18nVerif.Foreign
