import I18nVerif.Proofs.Reduce
/-!
# C01 (flattening part) — `reduce` drops, duplicates and reorders nothing

Model: `I18nVerif.Model.Reduce` (`ParsedValue::reduce` / `reduce_into`, `parsed_value.rs:672-757`).
Denotation: `I18nVerif.Spec.Eval` (`eval ρ v` = the text an accessor shows for `v` under the
environment `ρ`: variables, components, counts, plural category — all arbitrary).
Predicates `Clean`, `Reduced`: `I18nVerif.Spec.Reduce`.

All theorems hold for **every** value (any depth, any width, any literal types, any accumulator).
-/
namespace I18nVerif.Reduce
open I18nVerif Eval

/-! ## 1. Soundness: the reduced value denotes the same text -/

/-- `reduce` does not change the text a value renders to, under any environment. -/
theorem C01_reduce_sound {v v' : PV} (h : reduce v = .ok v') : ∀ ρ, eval ρ v' = eval ρ v :=
  fun ρ => reduce_sound ρ v v' h

/-- `reduce_into v bloc` appends exactly the text of `v` to the text of `bloc` (for any `bloc`). -/
theorem C01_reduceInto_sound {v : PV} {acc acc' : List PV} (h : reduceInto v acc = .ok acc') :
    ∀ ρ, evalL ρ acc' = evalL ρ acc ++ eval ρ v :=
  fun ρ => reduceInto_sound ρ v acc acc' h

/-- the loop `for value in values { value.reduce_into(bloc) }` appends the texts in order. -/
theorem C01_reduceIntoL_sound {xs acc acc' : List PV} (h : reduceIntoL xs acc = .ok acc') :
    ∀ ρ, evalL ρ acc' = evalL ρ acc ++ evalL ρ xs :=
  fun ρ => reduceIntoL_sound ρ xs acc acc' h

/-- reducing the branches of a range keeps what every count selects. -/
theorem C01_reduceBranches_sound {bs bs' : List (Range × PV)} (h : reduceBranches bs = .ok bs') :
    ∀ ρ c, evalBranches ρ c bs' = evalBranches ρ c bs :=
  fun ρ c => reduceBranches_sound ρ bs bs' h c

/-- reducing the forms of a plural keeps what every plural category selects. -/
theorem C01_reduceForms_sound {fs fs' : List (Form × PV)} (h : reduceForms fs = .ok fs') :
    ∀ ρ f, evalForm ρ f fs' = evalForm ρ f fs :=
  fun ρ f => reduceForms_sound ρ fs fs' h f

/-- joining two literals concatenates their texts (the `Literal::join` used by `reduce_into`). -/
theorem C01_join_display (a b : Lit) : (a.join b).display = a.display ++ b.display :=
  Lit.join_display a b

/-- the empty bloc becomes `ParsedValue::default()`, which renders to nothing. -/
theorem C01_wrapBloc_sound (l : List PV) : ∀ ρ, eval ρ (wrapBloc l) = evalL ρ l :=
  fun ρ => eval_wrapBloc ρ l

/-! ## 2. Outcomes: never an error; a panic needs an unresolved foreign key or emptied subkeys -/

/-- `reduce` never returns an `Err` (it is infallible in the Rust code). -/
theorem C01_reduce_never_errs (v : PV) (e : String) : reduce v ≠ .err e :=
  reduce_noErr v e

/-- `reduce_into` never returns an `Err`. -/
theorem C01_reduceInto_never_errs (v : PV) (acc : List PV) (e : String) : reduceInto v acc ≠ .err e :=
  reduceInto_noErr v acc e

/-- on a value without unresolved foreign key and without emptied subkeys `reduce` succeeds. -/
theorem C01_reduce_ok_of_clean {v : PV} (h : Clean v = true) : ∃ v', reduce v = .ok v' :=
  reduce_ok_of_clean v h

/-- same for `reduce_into`, whatever the bloc being filled. -/
theorem C01_reduceInto_ok_of_clean {v : PV} (h : Clean v = true) (acc : List PV) :
    ∃ acc', reduceInto v acc = .ok acc' :=
  reduceInto_ok_of_clean v h acc

/-- `reduce` panics only on a value containing an unresolved foreign key or emptied subkeys. -/
theorem C01_reduce_panic_only_if_unclean {v : PV} {p : String} (h : reduce v = .panic p) :
    Clean v = false := by
  cases hc : Clean v with
  | false => rfl
  | true =>
    obtain ⟨v', hv⟩ := reduce_ok_of_clean v hc
    rw [hv] at h; cases h

/-! ## 3. Shape of the result -/

/-- The result of `reduce` is in normal form: no foreign-key node, no emptied subkeys; every bloc
    has at least two items, none of which is a bloc, a `Default`, a `Subkeys`, a foreign key or an
    empty string literal, and no two adjacent items are literals (recursively, also below
    components, branches, plural forms and subkeys). -/
theorem C01_reduce_shape {v v' : PV} (h : reduce v = .ok v') : Reduced v' = true :=
  reduce_reduced v v' h

/-- the accumulator invariant behind `C01_reduce_shape`, for an arbitrary well-shaped bloc in progress -/
theorem C01_reduceInto_shape {v : PV} {acc acc' : List PV} (h : reduceInto v acc = .ok acc')
    (g : Good acc) : Good acc' :=
  reduceInto_good v acc acc' h g

/-- Summary: on clean input `reduce` returns a value in normal form with the same text. -/
theorem C01_reduce_total {v : PV} (h : Clean v = true) :
    ∃ v', reduce v = .ok v' ∧ Reduced v' = true ∧ ∀ ρ, eval ρ v' = eval ρ v := by
  obtain ⟨v', hv⟩ := reduce_ok_of_clean v h
  exact ⟨v', hv, reduce_reduced v v' hv, fun ρ => reduce_sound ρ v v' hv⟩

/-! ## Examples -/


/-- `["a", "", {{x}}, ["b", "c"], $t(..)="d"]` -/
private def ex1 : PV :=
  .bloc [.lit (.str ['a'] none), .lit (.str [] none), .var ['x'] .none,
    .bloc [.lit (.str ['b'] none), .lit (.str ['c'] none)], .fk (.set (.lit (.str ['d'] none)))]

example : Clean ex1 = true := by decide
example : Reduced ex1 = false := by decide
example : reduce ex1 = .ok (.bloc [.lit (.str ['a'] none), .var ['x'] .none, .lit (.str ['b', 'c', 'd'] none)]) := by
  rfl
example : Reduced (.bloc [.lit (.str ['a'] none), .var ['x'] .none, .lit (.str ['b', 'c', 'd'] none)]) = true := by
  decide
/-- a bloc that reduces to a single item is unwrapped; an all-empty bloc becomes the empty string -/
example : reduce (.bloc [.lit (.str [] none), .bloc [.var ['x'] .none]]) = .ok (.var ['x'] .none) := by rfl
example : reduce (.bloc [.lit (.str [] none), .bloc []]) = .ok PV.empty := by rfl
/-- literals of different types are joined into one string -/
example : reduce (.bloc [.lit (.bool true), .lit (.str ['!'] none), .var ['x'] .none])
    = .ok (.bloc [.lit (.str ['t', 'r', 'u', 'e', '!'] none), .var ['x'] .none]) := by rfl
/-- the two panic sites -/
example : reduce (.bloc [.fk (.notSet ⟨none, []⟩ [])]) = .panic "reduce_into: unresolved foreign key" := by rfl
example : Clean (.comp ['b'] (.subkeys none)) = false := by decide
example : reduce (.comp ['b'] (.subkeys none)) = .panic "reduce: empty subkeys" := by rfl
/-- emptied subkeys inside a bloc are skipped, not a panic: `Clean` is sufficient, not necessary -/
example : reduce (.bloc [.subkeys none, .var ['x'] .none]) = .ok (.var ['x'] .none) := by rfl
/-- ranges / plurals are reduced branch-wise -/
example : reduce (.ranges ['n'] .i32 [(.exact ⟨0, 0⟩, .bloc [.lit (.str ['z'] none)]), (.fallback, .bloc [])])
    = .ok (.ranges ['n'] .i32 [(.exact ⟨0, 0⟩, .lit (.str ['z'] none)), (.fallback, PV.empty)]) := by rfl

end I18nVerif.Reduce
