import I18nVerif.Proofs.PipeDiag
/-!
# C08 on the whole pipeline — a key's required arguments are the union over all locales

`Theorems/C08.lean` proves C08 for `get_keys_inner` / `ParsedValue::merge` on **one key**
(`mergeAll`: the per-key view).  Here it is stated for `Pipeline.run`, for **every accessible key
path at every depth** of every namespace, with the specification side computed from the resolved
world (`Pipeline.resolved inp`: the files as decoded, plurals merged, foreign keys resolved):
`valueAt l.keys p` is the value locale `l` holds at key path `p` (after `reduce`, descending through
groups), `Occ.occVars / occComps / occCounts` what a value uses.  No hypothesis on the configuration
is needed for the main statement.

Spec: `Spec/PipeDiag.lean` (`SigIsUnion`, `LitOrNull`, `CountConflictAt`, `NsCountConflict`).
-/
namespace I18nVerif.PipeDiag
open I18nVerif Check Reduce Spec.Diagnostics Spec.Fallback Datakey Occ Keys PipeInv

/-! ## The recorded interpolation keys of every accessible key -/

/--
**C08 for `parse_locales`, end to end.**  Any configuration, any files.  If loading succeeds then,
with `w` the resolved world: every namespace `o` of the output stems from the namespace `ns` of `w`
with the same key, whose first locale `dl` is the default locale, and

* the accessible keys (leaves of the builder keys, any depth) are exactly the key paths at which
  the default locale holds a plain value;
* for every accessible key `p` with recorded signature `iol`:
  `SigIsUnion iol.keysMut ns.locales p` — the components, the variable names, the formatters of each
  variable and the count kind of each variable are **exactly** the union, over the configured locales
  that hold a value at `p`, of `occComps` / `occVars` / `occCounts` of that value (a locale without
  value at `p`, or with `null`, contributes nothing; locales may mix value kinds freely);
* the variables form a sorted map (every entry is visible to a lookup);
* the key is a literal accessor of type `t` (`iol = .lit t`) iff every locale that holds a value
  at `p` holds a literal of type `t` or `null`; otherwise it is a builder.
-/
theorem C08_pipeline (inp : Pipeline.Input) (out : Pipeline.Output) (h : Pipeline.run inp = .ok out) :
    ∃ w ws, Pipeline.resolved inp = .ok (w, ws) ∧
      ∀ o ∈ out.nss, ∃ ns ∈ w.nss, ns.key = o.key ∧ ∃ dl others, ns.locales = dl :: others ∧
        (∀ p, (leafAt o.keys p).isSome = leafValAt dl.keys p) ∧
        ∀ p iol d, leafAt o.keys p = some (iol, d) →
          SigIsUnion iol.keysMut ns.locales p ∧ Keys.Sorted iol.keysMut.vars ∧
          (∀ t, iol = .lit t ↔ ∀ l ∈ ns.locales, ∀ v, valueAt l.keys p = some v → LitOrNull t v) := by
  obtain ⟨w, ws, hr, hc⟩ := run_ok_parts inp out h
  refine ⟨w, ws, hr, ?_⟩
  intro o ho
  obtain ⟨ns, hns, ws1, ws2, hcl, hkey⟩ := Render.checkAll_mem inp w.nss ws out.nss _ hc o ho
  cases hloc : ns.locales with
  | nil => rw [hloc] at hcl; simp [checkLocalesInner] at hcl
  | cons dl others =>
    rw [hloc] at hcl
    refine ⟨ns, hns, hkey.symm, dl, others, hloc, fun p => checkLocalesInner_leaf_paths hcl p, ?_⟩
    intro p iol d hleaf
    obtain ⟨s1, s2⟩ := checkLocalesInner_sig hcl p iol d hleaf
    rw [hloc]
    exact ⟨sigIsUnion_of_extBy s1, s2, fun t => checkLocalesInner_lit hcl p iol d hleaf t⟩

/-- the literal accessor / builder alternative, spelled out: if some locale holds at `p` anything
    but a literal of the default locale's literal type or `null` (a literal of another type, an
    interpolation, a range, a plural), the key is a builder — with zero fields if only literal types
    differ -/
theorem C08_pipeline_builder_iff (inp : Pipeline.Input) (out : Pipeline.Output) (h : Pipeline.run inp = .ok out) :
    ∃ w ws, Pipeline.resolved inp = .ok (w, ws) ∧
      ∀ o ∈ out.nss, ∃ ns ∈ w.nss, ns.key = o.key ∧
        ∀ p iol d, leafAt o.keys p = some (iol, d) →
          ((∃ K, iol = .interpol K) ↔
            ∀ t, ∃ l ∈ ns.locales, ∃ v, valueAt l.keys p = some v ∧ ¬ LitOrNull t v) := by
  obtain ⟨w, ws, hr, hall⟩ := C08_pipeline inp out h
  refine ⟨w, ws, hr, ?_⟩
  intro o ho
  obtain ⟨ns, hns, hkey, dl, others, hloc, _, hp⟩ := hall o ho
  refine ⟨ns, hns, hkey, ?_⟩
  intro p iol d hleaf
  obtain ⟨_, _, hlit⟩ := hp p iol d hleaf
  constructor
  · rintro ⟨K, rfl⟩ t
    have hn : ¬ (IOL.interpol K = .lit t) := by intro e; cases e
    rw [hlit t] at hn
    exact Classical.byContradiction (fun hne => hn (fun l hl v hv =>
      Classical.byContradiction (fun hnl => hne ⟨l, hl, v, hv, hnl⟩)))
  · intro hall'
    cases iol with
    | interpol K => exact ⟨K, rfl⟩
    | lit t =>
      obtain ⟨l, hl, v, hv, hnot⟩ := hall' t
      exact absurd ((hlit t).mp rfl l hl v hv) hnot

/--
**The stored values carry the same occurrences.**  (Well-formed configuration.)  For the `i`-th
configured locale `l` of the namespace and an accessible key `p` that `l` defines (or `i = 0`, the
default locale): the value `check_locales` stores for it (`Render.storedAt`: top level in the output
locale's own key map, nested in the `i`-th locale of the nested `Subkeys` node — what the code
generator reads) uses exactly what the resolved value `valueAt l.keys p` uses.  So the union of
`C08_pipeline` is also the union over the stored values.
-/
theorem C08_pipeline_stored (inp : Pipeline.Input) (hcfg : CfgWF inp.cfg) (out : Pipeline.Output)
    (h : Pipeline.run inp = .ok out) :
    ∃ w ws, Pipeline.resolved inp = .ok (w, ws) ∧
      ∀ o ∈ out.nss, ∃ ns ∈ w.nss, ns.key = o.key ∧
        ∀ p, (leafAt o.keys p).isSome = true → ∀ i l, ns.locales[i]? = some l →
          (i = 0 ∨ undefinedAtPath l.keys p = false) →
          ∃ L s v, o.locales[i]? = some L ∧ Render.storedAt i p L.keys o.keys = some s ∧
            valueAt l.keys p = some v ∧ isLeafVal v = true ∧ v ≠ .dflt ∧
            occVars s = occVars v ∧ occComps s = occComps v ∧ occCounts s = occCounts v := by
  obtain ⟨w, ws, hr, hc⟩ := run_ok_parts inp out h
  refine ⟨w, ws, hr, ?_⟩
  intro o ho
  obtain ⟨ns, hns, ws1, ws2, hcl, hkey⟩ := Render.checkAll_mem inp w.nss ws out.nss _ hc o ho
  refine ⟨ns, hns, hkey.symm, ?_⟩
  intro p hleaf i l hi hdef
  cases hloc : ns.locales with
  | nil => rw [hloc] at hcl; simp [checkLocalesInner] at hcl
  | cons dl others =>
    rw [hloc] at hcl hi
    have hnd := resolved_nd inp hcfg w ws hr ns hns dl (by simp [hloc])
    obtain ⟨L, hL, v, s, hv, hlf, hne, hs, ⟨F, acc, rfl⟩, _⟩ := Render.checkLocalesInner_store hcl hnd i l hi p hleaf hdef
    obtain ⟨e1, e2, e3⟩ := occ_indexStrings F v acc
    exact ⟨L, _, v, hL, hs, hv, hlf, hne, e1, e2, e3⟩

/-! ## Count conflicts -/

/-- **a successful load has one count kind per variable and key**: at every accessible key, any two
    count occurrences of one variable — in the values of any two locales, or in one value — have the
    same kind (the same range type, or both plural) -/
theorem C08_pipeline_counts_consistent (inp : Pipeline.Input) (w : World) (ws : List Warning)
    (hr : Pipeline.resolved inp = .ok (w, ws)) (out : Pipeline.Output) (h : Pipeline.run inp = .ok out) :
    ∀ ns ∈ w.nss, ∀ dl others, ns.locales = dl :: others → ∀ p, leafValAt dl.keys p = true →
      ∀ l1 ∈ ns.locales, ∀ l2 ∈ ns.locales, ∀ v1 v2 n t1 t2, valueAt l1.keys p = some v1 →
        valueAt l2.keys p = some v2 → (n, t1) ∈ occCounts v1 → (n, t2) ∈ occCounts v2 → t1 = t2 := by
  intro ns hns dl others hloc p hp l1 hl1 l2 hl2 v1 v2 n t1 t2 a1 a2 b1 b2
  apply Classical.byContradiction
  intro hne
  exact (run_ok_clean inp w ws hr out h ns hns).2.2
    ⟨dl, others, hloc, p, hp, n, t1, t2, l1, hl1, l2, hl2, v1, v2, a1, a2, b1, b2, hne⟩

/-- **a count conflict never goes unnoticed**: if at some accessible key two count occurrences of a
    variable have different kinds, loading does not succeed -/
theorem C08_pipeline_count_conflict_complete (inp : Pipeline.Input) (w : World) (ws : List Warning)
    (hr : Pipeline.resolved inp = .ok (w, ws)) (ns : NS) (hns : ns ∈ w.nss) (hc : NsCountConflict ns)
    (out : Pipeline.Output) : Pipeline.run inp ≠ .ok out :=
  fun h => (run_ok_clean inp w ws hr out h ns hns).2.2 hc

/-- **soundness of `RangeTypeMissmatch`.**  (Well-formed configuration, earlier stages succeed.)  If
    loading fails with it, then at some accessible key of some namespace one variable is counted by
    ranges of two different numeric types — in the values of two locales, or twice in one value. -/
theorem C08_pipeline_range_type_mismatch (inp : Pipeline.Input) (hcfg : CfgWF inp.cfg) (w : World) (ws : List Warning)
    (hr : Pipeline.resolved inp = .ok (w, ws)) (h : Pipeline.run inp = .err "RangeTypeMissmatch") :
    ∃ ns ∈ w.nss, ∃ dl others, ns.locales = dl :: others ∧ ∃ p, leafValAt dl.keys p = true ∧
      ∃ n t t', CountConflictAt ns.locales p n (.range t) (.range t') := by
  obtain ⟨ns, hns, he⟩ := run_err_witness inp hcfg w ws hr _ h
  rcases he with ⟨e, _⟩ | ⟨e, _⟩ | ⟨_, hm⟩ | ⟨e, _⟩
  · exact absurd e (by decide)
  · exact absurd e (by decide)
  · exact ⟨ns, hns, hm⟩
  · exact absurd e (by decide)

/-- **soundness of `RangeAndPluralsMix`**: … one variable is counted by a plural and by a range -/
theorem C08_pipeline_range_and_plurals_mix (inp : Pipeline.Input) (hcfg : CfgWF inp.cfg) (w : World) (ws : List Warning)
    (hr : Pipeline.resolved inp = .ok (w, ws)) (h : Pipeline.run inp = .err "RangeAndPluralsMix") :
    ∃ ns ∈ w.nss, ∃ dl others, ns.locales = dl :: others ∧ ∃ p, leafValAt dl.keys p = true ∧
      ∃ n t, CountConflictAt ns.locales p n .plural (.range t) := by
  obtain ⟨ns, hns, he⟩ := run_err_witness inp hcfg w ws hr _ h
  rcases he with ⟨e, _⟩ | ⟨e, _⟩ | ⟨e, _⟩ | ⟨_, hm⟩
  · exact absurd e (by decide)
  · exact absurd e (by decide)
  · exact absurd e (by decide)
  · exact ⟨ns, hns, hm⟩

/-- both in one: a count-conflict error witnesses a count conflict -/
theorem C08_pipeline_count_conflict_sound (inp : Pipeline.Input) (hcfg : CfgWF inp.cfg) (w : World) (ws : List Warning)
    (hr : Pipeline.resolved inp = .ok (w, ws)) (e : String)
    (he : e = "RangeTypeMissmatch" ∨ e = "RangeAndPluralsMix") (h : Pipeline.run inp = .err e) :
    ∃ ns ∈ w.nss, NsCountConflict ns := by
  rcases he with rfl | rfl
  · obtain ⟨ns, hns, dl, others, hloc, p, hp, n, t, t', hc⟩ := C08_pipeline_range_type_mismatch inp hcfg w ws hr h
    exact ⟨ns, hns, dl, others, hloc, p, hp, n, _, _, hc⟩
  · obtain ⟨ns, hns, dl, others, hloc, p, hp, n, t, hc⟩ := C08_pipeline_range_and_plurals_mix inp hcfg w ws hr h
    exact ⟨ns, hns, dl, others, hloc, p, hp, n, _, _, hc⟩

/--
**The count-conflict error, exactly.**  Earlier stages succeed; no other cause of failure of the
check is present (no group/value mismatch, no `null` in a default locale) and the model's recursion
fuel is not exhausted.  Then loading fails with a count-conflict error **iff** at some accessible
key two count occurrences of one variable — in two locales or in one value — differ in kind.
(Which of the two errors is reported when conflicts of both kinds are present depends on which
`push_count` fails first.)
-/
theorem C08_pipeline_count_conflict_iff (inp : Pipeline.Input) (hcfg : CfgWF inp.cfg) (w : World) (ws : List Warning)
    (hr : Pipeline.resolved inp = .ok (w, ws))
    (hq : ∀ ns ∈ w.nss, ¬ NsMismatch ns ∧ ¬ NsDefaultNull ns)
    (hnp : ∀ s, Pipeline.run inp ≠ .panic s) :
    (Pipeline.run inp = .err "RangeTypeMissmatch" ∨ Pipeline.run inp = .err "RangeAndPluralsMix") ↔
      ∃ ns ∈ w.nss, NsCountConflict ns := by
  constructor
  · rintro (h | h)
    · exact C08_pipeline_count_conflict_sound inp hcfg w ws hr _ (Or.inl rfl) h
    · exact C08_pipeline_count_conflict_sound inp hcfg w ws hr _ (Or.inr rfl) h
  · rintro ⟨ns, hns, hm⟩
    cases hrun : Pipeline.run inp with
    | ok out => exact absurd hrun (C08_pipeline_count_conflict_complete inp w ws hr ns hns hm out)
    | panic s => exact absurd hrun (hnp s)
    | err e =>
      obtain ⟨ns', hns', he⟩ := run_err_witness inp hcfg w ws hr e hrun
      rcases he with ⟨_, hd⟩ | ⟨_, hd⟩ | ⟨e, _⟩ | ⟨e, _⟩
      · exact absurd hd (hq ns' hns').1
      · exact absurd hd (hq ns' hns').2
      · left; rw [e]
      · right; rw [e]

/-- NOT proved (kept as a statement): the unconditional form — loading fails with a count-conflict
    error iff a count conflict is the **first** cause of failure in the order the code visits
    (`Pos.before`; see `C07_pipeline_mismatch_full_statement` for what is missing).  Proved instead:
    `C08_pipeline_count_conflict_sound` (+ the two per-error forms), `…_complete` and `…_iff`
    (the equivalence when no other cause is present). -/
def C08_pipeline_count_conflict_full_statement : Prop :=
  ∀ (inp : Pipeline.Input), CfgWF inp.cfg → ∀ (w : World) (ws : List Warning),
    Pipeline.resolved inp = .ok (w, ws) → (∀ s, Pipeline.run inp ≠ .panic s) →
    ((Pipeline.run inp = .err "RangeTypeMissmatch" ∨ Pipeline.run inp = .err "RangeAndPluralsMix") ↔
      ∃ pos, ConflictCause w.nss pos ∧ ∀ pos', pos'.before pos → ¬ CauseAt w.nss pos')

/-! ## Examples: the three-locale project of `C07Pipeline.lean`, and a count conflict

`locales = ["en", "fr", "fr-CA"]`, `default = "en"`, `inherits = { "fr-CA" = "fr" }`;

* `en.json    = {"hello": "Hello {{ name }}", "bye": "Bye", "g": {"t": "x"}}`
* `fr.json    = {"hello": "Bonjour {{ name }}", "bye": null, "g": {"u": "z"}}`
* `fr-CA.json = {"g": {"t": "<b>y</b>"}, "zzz": "w"}`
-/

private def en : Str := ['e','n']
private def fr : Str := ['f','r']
private def ca : Str := ['f','r','-','C','A']
private def kHello : Str := ['h','e','l','l','o']
private def kBye : Str := ['b','y','e']
private def kG : Str := ['g']
private def kT : Str := ['t']
private def kU : Str := ['u']
private def kZ : Str := ['z','z','z']
private def vName : Str := ['v','a','r','_','n','a','m','e']
private def vCount : Str := ['v','a','r','_','c','o','u','n','t']
private def cB : Str := ['c','o','m','p','_','b']
private def tHello : Str := ['H','e','l','l','o',' ']
private def tBonjour : Str := ['B','o','n','j','o','u','r',' ']
private def tBye : Str := ['B','y','e']

private def exCfg : Config.Config :=
  { default := en, locales := [en, fr, ca], namespaces := none, localesDir := [], inherits := [(ca, fr)] }
private theorem exCfgWF : CfgWF exCfg :=
  ⟨by simp [exCfg], by decide, by intro l hl; simp [exCfg] at hl⟩

private def hello (t : Str) : PV := .bloc [.lit (.str t none), .var vName .none, .lit (.str [] none)]
private def enG : Loc := .mk kG en [(kT, .lit (.str ['x'] none))] [] 0
private def frG : Loc := .mk kG fr [(kU, .lit (.str ['z'] none))] [] 0
private def caG : Loc :=
  .mk kG ca [(kT, .bloc [.lit (.str [] none), .comp cB (.lit (.str ['y'] none)), .lit (.str [] none)])] [] 0
private def enL : Loc :=
  .mk en en [(kBye, .lit (.str tBye none)), (kG, .subkeys (some enG)), (kHello, hello tHello)] [] 0
private def frL : Loc := .mk fr fr [(kBye, .dflt), (kG, .subkeys (some frG)), (kHello, hello tBonjour)] [] 0
private def caL : Loc := .mk ca ca [(kG, .subkeys (some caG)), (kZ, .lit (.str ['w'] none))] [] 0
private def exLocs : List Loc := [enL, frL, caL]

/-- the values the three locales hold at `g.t` (`fr` has the group `g` but not `t`) -/
private theorem gt_en : valueAt enL.keys [kG, kT] = some (.lit (.str ['x'] none)) := rfl
private theorem gt_fr : valueAt frL.keys [kG, kT] = none := rfl
private theorem gt_ca : valueAt caL.keys [kG, kT] = some (.comp cB (.lit (.str ['y'] none))) := rfl

/-- `g.t`: a string in `en`, nothing in `fr`, a component in `fr-CA` — the key is a builder whose only
    field is the component `b`: exactly the union -/
example : SigIsUnion { comps := [cB], vars := [] } exLocs [kG, kT] := by
  refine ⟨?_, ?_, ?_, ?_⟩
  · intro c
    simp [exLocs, gt_en, gt_fr, gt_ca, occComps]
  · intro n
    simp [exLocs, gt_en, gt_fr, gt_ca, occVars, occCounts, hasVar, AMap.get?]
  · intro n f
    simp [exLocs, gt_en, gt_fr, gt_ca, occVars, fmtsOf, info, AMap.get?]
  · intro n ty
    simp [exLocs, gt_en, gt_fr, gt_ca, occCounts, countOf, info, AMap.get?]

/-- `bye`: a string in `en`, `null` in `fr`, nothing in `fr-CA`: a literal accessor of type string -/
example : ∀ l ∈ exLocs, ∀ v, valueAt l.keys [kBye] = some v → LitOrNull .string v := by
  have e1 : valueAt enL.keys [kBye] = some (.lit (.str tBye none)) := rfl
  have e2 : valueAt frL.keys [kBye] = some .dflt := rfl
  have e3 : valueAt caL.keys [kBye] = none := rfl
  intro l hl v hv
  simp only [exLocs, List.mem_cons, List.not_mem_nil, or_false] at hl
  rcases hl with rfl | rfl | rfl
  · rw [e1] at hv; cases hv; exact Or.inr ⟨_, rfl, rfl⟩
  · rw [e2] at hv; cases hv; exact Or.inl rfl
  · rw [e3] at hv; cases hv

/-- a count conflict: `en` counts `count` with an `i32` range, `fr` with a plural -/
private def kN : Str := ['n']
private def enC : Loc :=
  .mk en en [(kN, .ranges vCount .i32 [(.exact ⟨0, 0⟩, .lit (.str ['n','o'] none)), (.fallback, .var vCount .none)])] [] 0
private def frC : Loc :=
  .mk fr fr [(kN, .plurals .cardinal vCount (.var vCount .none) [(.one, .lit (.str ['u','n'] none))])] [] 0
private def conflictNs : NS := ⟨none, [enC, frC]⟩

example : CountConflictAt conflictNs.locales [kN] vCount .plural (.range .i32) :=
  ⟨frC, by simp [conflictNs], enC, by simp [conflictNs], _, _, rfl, rfl,
    by simp [occCounts], by simp [occCounts, occCountsB], by intro e; cases e⟩
example : NsCountConflict conflictNs :=
  ⟨enC, [frC], rfl, [kN], rfl, vCount, .plural, .range .i32,
    frC, by simp [conflictNs], enC, by simp [conflictNs], _, _, rfl, rfl,
    by simp [occCounts], by simp [occCounts, occCountsB], by intro e; cases e⟩

/-- the theorems instantiated on the project (files as decoded trees; the kernel cannot unfold the
    decoder, so the outcome of the run stays a hypothesis) -/
private def exFiles : List ((Option Str × Str) × J) :=
  [((none, en), .obj [(kHello, .str ['H','e','l','l','o',' ','{','{',' ','n','a','m','e',' ','}','}']),
      (kBye, .str tBye), (kG, .obj [(kT, .str ['x'])])]),
   ((none, fr), .obj [(kHello, .str ['B','o','n','j','o','u','r',' ','{','{',' ','n','a','m','e',' ','}','}']),
      (kBye, .null), (kG, .obj [(kU, .str ['z'])])]),
   ((none, ca), .obj [(kG, .obj [(kT, .str ['<','b','>','y','<','/','b','>'])]), (kZ, .str ['w'])])]
private def exInp : Pipeline.Input :=
  { cfg := exCfg, files := exFiles,
    oracle := { cats := fun _ _ => some [.one, .other], cat := fun _ _ _ => some .other } }

example (out : Pipeline.Output) (h : Pipeline.run exInp = .ok out) :
    ∃ w ws, Pipeline.resolved exInp = .ok (w, ws) ∧
      ∀ o ∈ out.nss, ∃ ns ∈ w.nss, ns.key = o.key ∧ ∃ dl others, ns.locales = dl :: others ∧
        (∀ p, (leafAt o.keys p).isSome = leafValAt dl.keys p) ∧
        ∀ p iol d, leafAt o.keys p = some (iol, d) →
          SigIsUnion iol.keysMut ns.locales p ∧ Keys.Sorted iol.keysMut.vars ∧
          (∀ t, iol = .lit t ↔ ∀ l ∈ ns.locales, ∀ v, valueAt l.keys p = some v → LitOrNull t v) :=
  C08_pipeline exInp out h

example (w : World) (ws : List Warning) (hr : Pipeline.resolved exInp = .ok (w, ws))
    (h : Pipeline.run exInp = .err "RangeAndPluralsMix") :
    ∃ ns ∈ w.nss, ∃ dl others, ns.locales = dl :: others ∧ ∃ p, leafValAt dl.keys p = true ∧
      ∃ n t, CountConflictAt ns.locales p n .plural (.range t) :=
  C08_pipeline_range_and_plurals_mix exInp exCfgWF w ws hr h

end I18nVerif.PipeDiag
