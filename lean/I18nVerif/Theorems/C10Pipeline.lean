import I18nVerif.Proofs.PermAll
/-!
# C10 — "reordering the keys inside a file changes nothing": whole files, whole pipeline

`Theorems/C10.lean` proves the statement for ONE object level.  Here:

* `JPerm j j'` (`Spec/JPerm.lean`): the transport trees `j`, `j'` differ only by the order of the
  entries of objects, of any object at any depth (subkey groups, `{count, value}` range entries); arrays
  keep their order.  It is an equivalence relation (`C10_jperm_equivalence`) containing every permutation of
  the entries of an object (`C10_jperm_of_perm`), and it is exactly "permute, then relate entry by entry"
  at every object (`C10_jperm_obj_iff`).
* `InputPerm inp inp'`: same configuration, oracle, flags; files `JPerm`-related position by position.
* `C10_decode_perm`, `C10_locale_perm`: the decoder gives the same outcome on `JPerm`-related trees — equal
  results, or two failures (`Res.SameOutcome`).  Which failure is reported may differ only through the
  first-failing-entry rule of the loop over the entries of a *group of subkeys*; everything below an
  array (range entries, the two fields of `{count, value}`) is order-independent with its failure
  (`C10_decode_perm_array`).  The reported failure always belongs to an order-independent set of
  candidates (`C10_decode_failure_is_candidate`, `C10_candidates_perm`); when there is only one
  candidate the outcome is equal, failure included (`C10_decode_perm_unique_failure`).
* `C10_pipeline_perm…`: `Pipeline.run` on two inputs with the same logical content: equal as soon as one side
  succeeds; `.ok` on one side iff on the other; equal, *failure included*, as soon as decoding succeeds
  (all diagnostics of `merge_plurals`, `resolve_foreign_keys`, `check_locales` are order-independent); and if
  the two results differ at all, both are decoding failures of the same file.
* `C10_pipeline_deterministic`: `Pipeline.run` is a function.
-/
namespace I18nVerif
open Str Res

/-! ## 1. The relation -/

/-- `JPerm` is an equivalence relation -/
theorem C10_jperm_equivalence :
    (∀ j, JPerm j j) ∧ (∀ j j', JPerm j j' → JPerm j' j) ∧
    (∀ j j' j'', JPerm j j' → JPerm j' j'' → JPerm j j'') :=
  ⟨JPerm.refl, fun _ _ => JPerm.symm, fun _ _ _ => JPerm.trans⟩

/-- every permutation of the entries of an object (the situation of `C10_locale_keys_perm`) has the same
logical content -/
theorem C10_jperm_of_perm (l l' : List (Str × J)) (h : l.Perm l') : JPerm (.obj l) (.obj l') :=
  JPerm.obj_of_perm h

/-- two objects have the same logical content iff one entry list is a permutation of a list that has the
keys of the other, in the same order, with values of the same logical content -/
theorem C10_jperm_obj_iff (l l' : List (Str × J)) :
    JPerm (.obj l) (.obj l') ↔ ∃ m, l.Perm m ∧ ERel m l' := by
  constructor
  · intro h
    cases h with
    | obj he => exact he.decompose
  · rintro ⟨m, hp, hr⟩
    exact .obj (EPerm.compose hp hr)

/-- arrays keep their order: two arrays with the same logical content have the same length -/
theorem C10_jperm_arr_length (l l' : List J) (h : JPerm (.arr l) (.arr l')) : l.length = l'.length := by
  cases h with
  | arr hl =>
    induction hl with
    | nil => rfl
    | cons _ _ ih => simp only [List.length_cons, ih]

/-- trees with the same logical content have the same size, so `Decode.locale` gives both the same fuel -/
theorem C10_jperm_size (j j' : J) (h : JPerm j j') : Decode.J.size j = Decode.J.size j' :=
  Decode.size_perm h

/-- two inputs whose files are related position by position are related through `findFile`, which is all
the pipeline reads of the file list -/
theorem C10_inputPerm_lookup (a b : Pipeline.Input) (h : InputPerm a b) : InputPermLookup a b :=
  h.lookup

/-! ## 2. The decoder -/

/-- **The decoder does not depend on the order of object entries, at any depth**: for every fuel, context
and pair of trees with the same logical content, `Decode.value` gives equal outcomes or fails on both. -/
theorem C10_decode_perm (fuel : Nat) (top : Str) (inRange : Bool) (key : Str) (j j' : J) (h : JPerm j j') :
    SameOutcome (Decode.value fuel top inRange key j) (Decode.value fuel top inRange key j') :=
  Decode.value_perm fuel top inRange key j j' h

/-- success on one side is success on the other, with the same value (the same `Loc`/`PV`, as sorted maps) -/
theorem C10_decode_perm_ok (fuel : Nat) (top : Str) (inRange : Bool) (key : Str) (j j' : J) (h : JPerm j j')
    (v : PV) : Decode.value fuel top inRange key j = .ok v ↔ Decode.value fuel top inRange key j' = .ok v :=
  (C10_decode_perm fuel top inRange key j j' h).ok_iff v

/-- failure on one side iff failure on the other -/
theorem C10_decode_perm_isOk (fuel : Nat) (top : Str) (inRange : Bool) (key : Str) (j j' : J) (h : JPerm j j') :
    (Decode.value fuel top inRange key j).isOk = (Decode.value fuel top inRange key j').isOk :=
  (C10_decode_perm fuel top inRange key j j' h).isOk_eq

/-- **Arrays (ranges) are order-independent with their failure**: below an array nothing depends on the
order of object entries — in particular not on the order of the two fields of a `{count, value}` range
entry — and the *same* failure is reported. -/
theorem C10_decode_perm_array (fuel : Nat) (top : Str) (inRange : Bool) (key : Str) (l l' : List J)
    (h : JPerm (.arr l) (.arr l')) :
    Decode.value fuel top inRange key (.arr l) = Decode.value fuel top inRange key (.arr l') := by
  cases fuel with
  | zero => rw [Decode.value, Decode.value]
  | succ fuel =>
    cases h with
    | arr hl => exact Decode.value_arr_perm fuel top inRange key hl

/-- one range entry, both syntaxes: the `RangeStructSeed` model (`Decode.pairF`, the `pair` closure of
`Decode.value`) gives the same outcome — failure included — on entries with the same logical content -/
theorem C10_range_entry_perm (fuel : Nat) (top : Str) (t : RangeTy) (x x' : J) (h : JPerm x x') :
    Decode.pairF fuel top t x = Decode.pairF fuel top t x' :=
  Decode.pairF_perm fuel top t h

/-- the fields of a `{count, value}` object: permuting them changes nothing of what `structFields` returns
(`Serde` for a duplicate or unknown field whatever the order) -/
theorem C10_range_entry_fields_perm (l m : List (Str × J)) (h : l.Perm m) (c v : Option J) :
    Decode.structFields l c v = Decode.structFields m c v :=
  Decode.structFields_perm h c v

/-- a count specification ignores objects altogether -/
theorem C10_range_spec_perm (t : RangeTy) (j j' : J) (h : JPerm j j') :
    Decode.rangeSpec t j = Decode.rangeSpec t j' :=
  Decode.rangeSpec_perm h t

/-- **Which failure (1)**: whatever failure the decoder reports is one of the candidates `Decode.Cand` —
an invalid key, a candidate failure of an entry's value, or `DuplicateKey` when two valid keys coincide
after trimming; for anything that is not a group of subkeys: the failure of `Decode.value` itself. -/
theorem C10_decode_failure_is_candidate (fuel : Nat) (top : Str) (inRange : Bool) (key : Str) (j : J) (f : Fail)
    (h : (Decode.value fuel top inRange key j).fail? = some f) : Decode.Cand fuel top inRange key j f :=
  Decode.value_cand fuel top inRange key j f h

/-- **Which failure (2)**: the set of candidates does not depend on the order of object entries -/
theorem C10_candidates_perm (fuel : Nat) (top : Str) (inRange : Bool) (key : Str) (j j' : J) (f : Fail)
    (h : JPerm j j') : Decode.Cand fuel top inRange key j f ↔ Decode.Cand fuel top inRange key j' f :=
  Decode.cand_perm fuel top inRange key j j' f h

/-- **Which failure (3)**: with at most one candidate failure (at most one thing wrong in the tree) the
outcome is the same, failure included -/
theorem C10_decode_perm_unique_failure (fuel : Nat) (top : Str) (inRange : Bool) (key : Str) (j j' : J)
    (h : JPerm j j')
    (hu : ∀ f f', Decode.Cand fuel top inRange key j f → Decode.Cand fuel top inRange key j f' → f = f') :
    Decode.value fuel top inRange key j = Decode.value fuel top inRange key j' :=
  Decode.value_perm_unique fuel top inRange key h hu

/-- in general: the two outcomes are equal, or they are two failures that are both candidates of both trees -/
theorem C10_decode_perm_failures (fuel : Nat) (top : Str) (inRange : Bool) (key : Str) (j j' : J) (h : JPerm j j') :
    Decode.value fuel top inRange key j = Decode.value fuel top inRange key j' ∨
    ∃ f f', (Decode.value fuel top inRange key j).fail? = some f ∧
      (Decode.value fuel top inRange key j').fail? = some f' ∧
      Decode.Cand fuel top inRange key j f ∧ Decode.Cand fuel top inRange key j f' ∧
      Decode.Cand fuel top inRange key j' f ∧ Decode.Cand fuel top inRange key j' f' := by
  rcases C10_decode_perm fuel top inRange key j j' h with e | ⟨h1, h2⟩
  · exact .inl e
  · obtain ⟨f, hf⟩ := fail?_of_isOk_false h1
    obtain ⟨f', hf'⟩ := fail?_of_isOk_false h2
    have c1 := Decode.value_cand _ _ _ _ _ _ hf
    have c2 := Decode.value_cand _ _ _ _ _ _ hf'
    exact .inr ⟨f, f', hf, hf', c1, (Decode.cand_perm _ _ _ _ _ _ _ h).mpr c2,
      (Decode.cand_perm _ _ _ _ _ _ _ h).mp c1, c2⟩

/-- **`SameOutcome` cannot be improved to equality in general** (witness): an invalid key next to a value
that does not decode — the loop over the entries of a group reports the first failing entry in document order,
so the two orders report different failures (both are candidates of both trees) -/
theorem C10_decode_failure_order_dependent :
    JPerm (.obj [("".toList, .bool true), ("a".toList, .arr [])])
      (.obj [("a".toList, .arr []), ("".toList, .bool true)]) ∧
    Decode.value 2 [] false [] (.obj [("".toList, .bool true), ("a".toList, .arr [])]) = .err "InvalidKey" ∧
    Decode.value 2 [] false [] (.obj [("a".toList, .arr []), ("".toList, .bool true)]) = .err "EmptyRange" := by
  have k1 : Key.new "".toList = none := by decide
  have k2 : Key.new "a".toList = some "a".toList := by decide
  refine ⟨.obj (.swap _ _ _), ?_, ?_⟩
  · simp only [Decode.value, Decode.value.localeKeys, k1, Bool.false_eq_true, if_false]
  · simp only [Decode.value, Decode.value.localeKeys, k2, Bool.false_eq_true, if_false]

/-- **A whole file** (`Decode.locale`, the entry point used by the pipeline) -/
theorem C10_locale_perm (name : Str) (j j' : J) (h : JPerm j j') :
    SameOutcome (Decode.locale name j) (Decode.locale name j') :=
  Decode.locale_perm name h

theorem C10_locale_perm_ok (name : Str) (j j' : J) (h : JPerm j j') (loc : Loc) :
    Decode.locale name j = .ok loc ↔ Decode.locale name j' = .ok loc :=
  (C10_locale_perm name j j' h).ok_iff loc

/-- a failure of a whole file is a candidate; the candidates are order-independent; a single candidate makes
the outcome of the file order-independent, failure included -/
theorem C10_locale_perm_unique_failure (name : Str) (j j' : J) (h : JPerm j j') :
    (∀ f, (Decode.locale name j).fail? = some f → Decode.LocaleCand name j f) ∧
    (∀ f, Decode.LocaleCand name j f ↔ Decode.LocaleCand name j' f) ∧
    ((∀ f f', Decode.LocaleCand name j f → Decode.LocaleCand name j f' → f = f') →
      Decode.locale name j = Decode.locale name j') :=
  ⟨fun _ => Decode.locale_cand, fun f => Decode.localeCand_perm f h, Decode.locale_perm_unique name h⟩

/-! ## 3. The pipeline -/

/-- the state after `parse_locales_raw` (decoded world and registered foreign-key paths) -/
theorem C10_parseRaw_perm (inp inp' : Pipeline.Input) (h : InputPerm inp inp') :
    SameOutcome (Pipeline.parseRaw inp) (Pipeline.parseRaw inp') :=
  Pipeline.parseRaw_perm h.lookup

/-- **When decoding succeeds, everything after it is identical — failures of the later stages included**:
if `parse_locales_raw` succeeds on one input it succeeds on the other with the *same* world and the same
registered paths, hence `merge_plurals`, `resolve_foreign_keys` and `check_locales` see the same data and
`Pipeline.resolved` and `Pipeline.run` are equal whatever they are (`.ok`, `.err`, `.panic`). -/
theorem C10_pipeline_perm_after_decoding (inp inp' : Pipeline.Input) (h : InputPerm inp inp')
    (x : World × List (Str × KeyPath)) (hx : Pipeline.parseRaw inp = .ok x) :
    Pipeline.parseRaw inp' = .ok x ∧ Pipeline.resolved inp = Pipeline.resolved inp' ∧
    Pipeline.run inp = Pipeline.run inp' := by
  have hx' := ((C10_parseRaw_perm inp inp' h).ok_iff x).mp hx
  have he : Pipeline.parseRaw inp = Pipeline.parseRaw inp' := by rw [hx, hx']
  exact ⟨hx', Pipeline.resolved_congr h.cfg h.oracle he, Pipeline.run_congr h.cfg h.oracle h.suppress he⟩

/-- **The strongest general statement**: the two runs are equal (keys, builder keys, string tables,
warnings, or the same failure of any stage), or both are *decoding* failures (`parse_locales_raw` fails on
both sides and the run reports exactly that failure). -/
theorem C10_pipeline_perm_full (inp inp' : Pipeline.Input) (h : InputPerm inp inp') :
    Pipeline.run inp = Pipeline.run inp' ∨
    ∃ f f', (Pipeline.parseRaw inp).fail? = some f ∧ (Pipeline.parseRaw inp').fail? = some f' ∧
      (Pipeline.run inp).fail? = some f ∧ (Pipeline.run inp').fail? = some f' := by
  rcases C10_parseRaw_perm inp inp' h with e | ⟨h1, h2⟩
  · exact .inl (Pipeline.run_congr h.cfg h.oracle h.suppress e)
  · obtain ⟨f, hf⟩ := fail?_of_isOk_false h1
    obtain ⟨f', hf'⟩ := fail?_of_isOk_false h2
    exact .inr ⟨f, f', hf, hf', Pipeline.run_of_parse_fail hf, Pipeline.run_of_parse_fail hf'⟩

/-- **The pipeline on two inputs with the same logical content**: equal outcomes, or two failures -/
theorem C10_pipeline_perm (inp inp' : Pipeline.Input) (h : InputPerm inp inp') :
    SameOutcome (Pipeline.run inp) (Pipeline.run inp') := by
  rcases C10_pipeline_perm_full inp inp' h with e | ⟨f, f', _, _, h1, h2⟩
  · exact .inl e
  · exact .inr ⟨isOk_false_of_fail? h1, isOk_false_of_fail? h2⟩

/-- whenever one of the runs is `.ok`, the two results are equal: same locales, same keys and builder keys
per namespace, same string tables, same warnings in the same order -/
theorem C10_pipeline_perm_eq_of_ok (inp inp' : Pipeline.Input) (h : InputPerm inp inp')
    (hok : (Pipeline.run inp).isOk = true ∨ (Pipeline.run inp').isOk = true) :
    Pipeline.run inp = Pipeline.run inp' :=
  (C10_pipeline_perm inp inp' h).eq_of_isOk hok

theorem C10_pipeline_perm_ok (inp inp' : Pipeline.Input) (h : InputPerm inp inp') (out : Pipeline.Output) :
    Pipeline.run inp = .ok out ↔ Pipeline.run inp' = .ok out :=
  (C10_pipeline_perm inp inp' h).ok_iff out

/-- `run inp` is `.ok` iff `run inp'` is -/
theorem C10_pipeline_perm_isOk (inp inp' : Pipeline.Input) (h : InputPerm inp inp') :
    (Pipeline.run inp).isOk = (Pipeline.run inp').isOk :=
  (C10_pipeline_perm inp inp' h).isOk_eq

/-- the same for the intermediate state after `merge_plurals` and `resolve_foreign_keys` -/
theorem C10_resolved_perm (inp inp' : Pipeline.Input) (h : InputPerm inp inp') :
    SameOutcome (Pipeline.resolved inp) (Pipeline.resolved inp') := by
  rcases C10_parseRaw_perm inp inp' h with e | ⟨h1, h2⟩
  · exact .inl (Pipeline.resolved_congr h.cfg h.oracle e)
  · obtain ⟨f, hf⟩ := fail?_of_isOk_false h1
    obtain ⟨f', hf'⟩ := fail?_of_isOk_false h2
    exact .inr ⟨isOk_false_of_fail? (Pipeline.resolved_of_parse_fail hf),
      isOk_false_of_fail? (Pipeline.resolved_of_parse_fail hf')⟩

/-- **Which decoding failure**: if every file that the configuration can name has at most one candidate
failure, the two runs are equal without any proviso — diagnostics of the decoding stage included. -/
theorem C10_pipeline_perm_unique_failure (inp inp' : Pipeline.Input) (h : InputPerm inp inp')
    (hu : ∀ ns l j, Pipeline.findFile inp.files ns l = some j →
      ∀ f f', Decode.LocaleCand l j f → Decode.LocaleCand l j f' → f = f') :
    Pipeline.parseRaw inp = Pipeline.parseRaw inp' ∧ Pipeline.run inp = Pipeline.run inp' := by
  have he : Pipeline.parseRaw inp = Pipeline.parseRaw inp' := by
    refine Pipeline.parseRaw_eq_of h.cfg (fun ns l => ?_)
    rcases h.lookup.files ns l with hn | ⟨j, j', h1, h2, hj⟩
    · exact .inl hn
    · exact .inr ⟨j, j', h1, h2, Decode.locale_perm_unique l hj (hu ns l j h1)⟩
  exact ⟨he, Pipeline.run_congr h.cfg h.oracle h.suppress he⟩

/-- all of the above needs only what `findFile` returns: the *list* of files may be in any order (the order in
which a directory is read) and may hold shadowed duplicates -/
theorem C10_pipeline_perm_lookup (inp inp' : Pipeline.Input) (h : InputPermLookup inp inp') :
    SameOutcome (Pipeline.run inp) (Pipeline.run inp') ∧
    (∀ x, Pipeline.parseRaw inp = .ok x → Pipeline.run inp = Pipeline.run inp') := by
  have hp := Pipeline.parseRaw_perm h
  refine ⟨?_, fun x hx => ?_⟩
  · rcases hp with e | ⟨h1, h2⟩
    · exact .inl (Pipeline.run_congr h.cfg h.oracle h.suppress e)
    · obtain ⟨f, hf⟩ := fail?_of_isOk_false h1
      obtain ⟨f', hf'⟩ := fail?_of_isOk_false h2
      exact .inr ⟨isOk_false_of_fail? (Pipeline.run_of_parse_fail hf),
        isOk_false_of_fail? (Pipeline.run_of_parse_fail hf')⟩
  · have hx' := (hp.ok_iff x).mp hx
    exact Pipeline.run_congr h.cfg h.oracle h.suppress (by rw [hx, hx'])

/-! ## 4. Determinism -/

/-- **`Pipeline.run` is a function**: two runs on equal inputs give equal results (generated keys, string
tables, warnings, or the failure).  Trivial in the model — stated because it is the model-level form of
"repeated runs give identical results". -/
theorem C10_pipeline_deterministic (inp inp' : Pipeline.Input) (h : inp = inp') :
    Pipeline.run inp = Pipeline.run inp' := by
  rw [h]

/-- a little more than `congrArg`: the result depends on the files only through `findFile` — two file lists
with the same first file for every `(namespace, locale)`, in whatever order, give the same result, failure
included -/
theorem C10_pipeline_depends_on_lookup_only (inp inp' : Pipeline.Input) (hc : inp.cfg = inp'.cfg)
    (ho : inp.oracle = inp'.oracle) (hs : inp.suppress = inp'.suppress)
    (hf : ∀ ns l, Pipeline.findFile inp.files ns l = Pipeline.findFile inp'.files ns l) :
    Pipeline.run inp = Pipeline.run inp' := by
  refine Pipeline.run_congr hc ho hs (Pipeline.parseRaw_eq_of hc (fun ns l => ?_))
  cases h1 : Pipeline.findFile inp.files ns l with
  | none => exact .inl ⟨rfl, by rw [← hf, h1]⟩
  | some j => exact .inr ⟨j, j, rfl, by rw [← hf, h1], rfl⟩

/-! ## 5. Examples -/

namespace C10Ex

/-- a plural pair -/
def one : Str × J := ("n_one".toList, .str "one item".toList)
def other : Str × J := ("n_other".toList, .str "{{ count }} items".toList)
/-- a range entry written as an object, in the two field orders -/
def zeroCV : J := .obj [("count".toList, .unsigned 0), ("value".toList, .str "nothing".toList)]
def zeroVC : J := .obj [("value".toList, .str "nothing".toList), ("count".toList, .unsigned 0)]
def rest : J := .obj [("value".toList, .str "some".toList)]
def rangeA : J := .arr [.str "i32".toList, zeroCV, rest]
def rangeB : J := .arr [.str "i32".toList, zeroVC, rest]
def hello : Str × J := ("hello".toList, .str "Hi".toList)

/-- `{"hello": "Hi", "grp": {"n_one": …, "n_other": …, "r": ["i32", {"count": 0, "value": …}, {"value": …}]}}` -/
def fileA : J := .obj [hello, ("grp".toList, .obj [one, other, ("r".toList, rangeA)])]
/-- `{"grp": {"r": ["i32", {"value": …, "count": 0}, {"value": …}], "n_other": …, "n_one": …}, "hello": "Hi"}`:
entries permuted at the three levels -/
def fileB : J := .obj [("grp".toList, .obj [("r".toList, rangeB), other, one]), hello]

theorem zero_perm : JPerm zeroCV zeroVC := .obj (.swap _ _ _)

theorem range_perm : JPerm rangeA rangeB :=
  .arr (.cons (.str _) (.cons zero_perm (.cons (JPerm.refl _) .nil)))

theorem grp_perm : EPerm JPerm [one, other, ("r".toList, rangeA)] [("r".toList, rangeB), other, one] :=
  -- [one, other, r] → [other, one, r] → [other, r, one] → [r, other, one] → [r', other, one]
  .trans (.swap one other _)
    (.trans (.cons other.1 (JPerm.refl other.2) (.swap one _ _))
      (.trans (.swap other _ _)
        (.cons _ range_perm (.cons _ (JPerm.refl _) (.cons _ (JPerm.refl _) .nil)))))

theorem file_perm : JPerm fileA fileB :=
  .obj (.trans (.swap hello _ _) (.cons _ (.obj grp_perm) (.cons _ (JPerm.refl _) .nil)))

def en : Str := "en".toList
def orc : Oracle := { cats := fun _ _ => some [.one, .other], cat := fun _ _ _ => some .other }
def cfg : Config.Config := { default := en, locales := [en], namespaces := none, localesDir := [], inherits := [] }
def inpA : Pipeline.Input := { cfg := cfg, files := [((none, en), fileA)], oracle := orc }
def inpB : Pipeline.Input := { cfg := cfg, files := [((none, en), fileB)], oracle := orc }

theorem inp_perm : InputPerm inpA inpB := ⟨rfl, rfl, rfl, .cons _ file_perm .nil⟩

/-- the decoder on the two files -/
example : SameOutcome (Decode.locale en fileA) (Decode.locale en fileB) := C10_locale_perm en _ _ file_perm
example (loc : Loc) (h : Decode.locale en fileA = .ok loc) : Decode.locale en fileB = .ok loc :=
  (C10_locale_perm_ok en _ _ file_perm loc).mp h

/-- the range, whose only difference is the order of `count`/`value`: equal outcomes, failure included -/
example (fuel : Nat) (top key : Str) :
    Decode.value fuel top false key rangeA = Decode.value fuel top false key rangeB :=
  C10_decode_perm_array fuel top false key _ _ range_perm

/-- the pipeline on the two inputs -/
example : SameOutcome (Pipeline.run inpA) (Pipeline.run inpB) := C10_pipeline_perm _ _ inp_perm
example (out : Pipeline.Output) (h : Pipeline.run inpA = .ok out) : Pipeline.run inpB = .ok out :=
  (C10_pipeline_perm_ok _ _ inp_perm out).mp h
example (x : World × List (Str × KeyPath)) (h : Pipeline.parseRaw inpA = .ok x) :
    Pipeline.run inpA = Pipeline.run inpB :=
  (C10_pipeline_perm_after_decoding _ _ inp_perm x h).2.2

/-- a file in which two things are wrong (an invalid key and a value that does not decode): the candidate
failures are `InvalidKey` and `RangeNull`… — the set is the same for the permuted file -/
def bad : J := .obj [("".toList, .bool true), ("r".toList, .arr [.str "i32".toList, .obj [("value".toList, .null)]])]
def bad' : J := .obj [("r".toList, .arr [.str "i32".toList, .obj [("value".toList, .null)]]), ("".toList, .bool true)]
example : JPerm bad bad' := .obj (.swap _ _ _)
example (f : Fail) : Decode.LocaleCand en bad f ↔ Decode.LocaleCand en bad' f :=
  (C10_locale_perm_unique_failure en _ _ (.obj (.swap _ _ _))).2.1 f


/-- one thing wrong (an empty key) next to a good entry: a single candidate failure -/
def oneBad : J := .obj [("".toList, .bool true), ("a".toList, .bool false)]
def oneBad' : J := .obj [("a".toList, .bool false), ("".toList, .bool true)]

theorem oneBad_unique (f f' : Fail) (h : Decode.Cand 2 [] false [] oneBad f) (h' : Decode.Cand 2 [] false [] oneBad f') :
    f = f' := by
  have k1 : Key.new "".toList = none := by decide
  have k2 : Key.new "a".toList = some "a".toList := by decide
  have key : ∀ g, Decode.Cand 2 [] false [] oneBad g → g = .err "InvalidKey" := by
    intro g hg
    rcases Decode.cand_obj.mp hg with ⟨_, _, _, e⟩ | ⟨p, hp, k', hk, hc⟩ | ⟨hn, _⟩
    · exact e
    · simp only [List.mem_cons, List.not_mem_nil, or_false] at hp
      rcases hp with rfl | rfl
      · rw [k1] at hk; cases hk
      · simp only [Decode.Cand, Decode.value, Res.fail?] at hc
        cases hc
    · exact absurd (by simp only [List.filterMap_cons, List.filterMap_nil, k1, k2]; decide) hn
  rw [key f h, key f' h']

example : Decode.value 2 [] false [] oneBad = Decode.value 2 [] false [] oneBad' :=
  C10_decode_perm_unique_failure 2 [] false [] _ _ (.obj (.swap _ _ _)) oneBad_unique

end C10Ex

end I18nVerif
