import I18nVerif.Proofs.Defaults
import I18nVerif.Proofs.Merge
import I18nVerif.Spec.Fallback
/-!
# C03 — Missing keys fall back along the inheritance chain, then to the default locale

Model: `I18nVerif.Model.Check` (`DefaultedLocales` — `locale.rs:141-188`; `Locale::merge` —
`locale.rs:639-689`; `ParsedValue::merge` — `parsed_value.rs:582-670`; `check_locales_inner` —
`mod.rs:155-200`).  Spec: `Spec.Fallback.effective`.

All theorems quantify over every mapping / `inherits` table (chains, forks, cycles, self-loops,
entries pointing at the default locale or at locales that do not exist) and every locale name.
-/
namespace I18nVerif.Check
open I18nVerif Spec.Fallback

/-! ## `default_of` is the specified walk -/

/-- `DefaultedLocales::default_of` computes the spec walk over `mapping`, where a locale *defines*
    the key iff it has no entry in `mapping` — for every mapping whatsoever and any fuel
    `≥ mapping.length + 1`. -/
theorem C03_default_of_eq_walk (dflt : Str) (m : List (Str × Str)) (fuel : Nat) (l : Str)
    (hf : m.length + 1 ≤ fuel) :
    defaultOf ⟨dflt, m⟩ fuel l [] = effective m dflt (fun x => (AMap.get? x m).isNone) l :=
  defaultOf_eq_effective dflt m fuel l hf

/-- the loop of `default_of_inner` ends within `mapping.length + 1` rounds: more fuel never
    changes the answer (the `visited` set grows by a new element of `dom mapping` each round). -/
theorem C03_default_of_terminates (dflt : Str) (m : List (Str × Str)) (fuel fuel' : Nat) (l : Str)
    (hf : m.length + 1 ≤ fuel) (hf' : m.length + 1 ≤ fuel') :
    defaultOf ⟨dflt, m⟩ fuel l [] = defaultOf ⟨dflt, m⟩ fuel' l [] :=
  defaultOf_fuel_irrel dflt m fuel fuel' l hf hf'

/-- the spec walk itself does not depend on its fuel once it is `≥ inherits.length + 1` (so the
    fuel in `Spec.Fallback.effective` is not a restriction). -/
theorem C03_spec_walk_fuel (inh : List (Str × Str)) (dflt : Str) (defined : Str → Bool) (fuel : Nat)
    (l : Str) (hf : inh.length + 1 ≤ fuel) :
    walk inh dflt defined fuel l [] = effective inh dflt defined l :=
  walk_fuel_irrel inh dflt defined fuel (inh.length + 1) l [] List.nodup_nil (by simp) (by simpa using hf)
    (by simp)

/--
**Fallback along the real `inherits` table.**  Let `U` be the set of locales that do not define the
key (absent or `null`), the default locale not among them, and let `mapping` be what the merge
builds (`MappingOf`: every `x ∈ U` maps to `inherits x`, or to the default locale when `x` has no
`inherits` entry; nothing else is in the mapping — `C03_mapping_of_merge` shows the merge builds exactly this).
Then `default_of l` is: the first locale on `l, inherits l, inherits² l, …` that defines the key;
the default locale when the chain ends at a locale that does not define it, or loops.
-/
theorem C03_default_of_eq_walk_inherits (inh : List (Str × Str)) (dflt : Str) (U : Str → Bool)
    (m : List (Str × Str)) (hm : MappingOf inh dflt U m) (hd : U dflt = false)
    (fuel : Nat) (l : Str) (hf : m.length + 1 ≤ fuel) :
    defaultOf ⟨dflt, m⟩ fuel l [] = effective inh dflt (fun x => !U x) l :=
  defaultOf_eq_effective_inherits inh dflt U m hm hd fuel l hf

/-- a locale that defines the key uses its own value; in particular the default locale (never in
    the mapping) never takes a value from another locale -/
theorem C03_defined_is_own (d : Defaults) (fuel : Nat) (l : Str) (h : AMap.get? l d.mapping = none) :
    defaultOf d fuel l [] = l := by
  cases fuel with
  | zero => rfl
  | succ f => simp [defaultOf, h]

/-! ## `compute`: the arms of the generated `match locale { t | k1 | k2 => … }` -/

/-- the list of locales `compute` files under the effective locale `t` is exactly the keys of
    `mapping` (in order) whose `default_of` is `t` -/
theorem C03_compute_exact (d : Defaults) (t : Str) :
    (AMap.get? t (compute d)).getD []
      = (d.mapping.map Prod.fst).filter (fun k => defaultOf d (d.mapping.length + 1) k [] == t) := by
  rw [compute_eq_fold]
  exact (compute_fold_get (fun k => defaultOf d (d.mapping.length + 1) k []) d.mapping [] t).trans
    (by simp [AMap.get?])

/-- `k` is in the arm of `t` iff `k` is a key of `mapping` and `default_of k = t` -/
theorem C03_compute_partition (d : Defaults) (t k : Str) :
    k ∈ (AMap.get? t (compute d)).getD []
      ↔ k ∈ d.mapping.map Prod.fst ∧ defaultOf d (d.mapping.length + 1) k [] = t := by
  rw [C03_compute_exact]
  simp

/-- every key of `mapping` is in the arm of its `default_of` … -/
theorem C03_compute_covers (d : Defaults) (k : Str) (hk : k ∈ d.mapping.map Prod.fst) :
    k ∈ (AMap.get? (defaultOf d (d.mapping.length + 1) k []) (compute d)).getD [] :=
  (C03_compute_partition d _ k).mpr ⟨hk, rfl⟩

/-- … and in no other arm: arms of different effective locales are disjoint -/
theorem C03_compute_disjoint (d : Defaults) (t t' k : Str)
    (h : k ∈ (AMap.get? t (compute d)).getD []) (h' : k ∈ (AMap.get? t' (compute d)).getD []) : t = t' := by
  rw [C03_compute_partition] at h h'
  rw [← h.2, ← h'.2]

/-- no locale is listed twice inside an arm (the mapping is a map: its keys are distinct) -/
theorem C03_compute_nodup (d : Defaults) (t : Str) (hn : (d.mapping.map Prod.fst).Nodup) :
    ((AMap.get? t (compute d)).getD []).Nodup := by
  rw [C03_compute_exact]
  exact hn.filter _

/-- `compute` has an arm for `t` iff some locale of the mapping defaults to `t` (no empty arms) -/
theorem C03_compute_arm_iff (d : Defaults) (t : Str) :
    (AMap.get? t (compute d)).isSome = true
      ↔ ∃ k ∈ d.mapping.map Prod.fst, defaultOf d (d.mapping.length + 1) k [] = t := by
  rw [compute_eq_fold]
  exact (compute_fold_isSome (fun k => defaultOf d (d.mapping.length + 1) k []) d.mapping [] t).trans
    (by simp [AMap.get?])

/-- a locale with an arm of its own is an effective locale, never a defaulted one: `t` has an arm
    ⇒ `t` is not a key of the mapping, or it is the default locale reached through a cycle -/
theorem C03_compute_arm_target (d : Defaults) (k : Str) :
    let t := defaultOf d (d.mapping.length + 1) k []
    AMap.get? t d.mapping = none ∨ t = d.dflt := by
  intro t
  have h := C03_default_of_eq_walk d.dflt d.mapping (d.mapping.length + 1) k (Nat.le_refl _)
  have ht : t = effective d.mapping d.dflt (fun x => (AMap.get? x d.mapping).isNone) k := h
  rw [ht]
  have := walk_result d.mapping d.dflt (fun x => (AMap.get? x d.mapping).isNone) (d.mapping.length + 1) k []
  simpa [effective] using this

/-! ## What the merge puts into `mapping` -/

/-- "not defined" at one level means: absent, or `null` (a value that `reduce`s to `Default`) -/
theorem C03_undefined_at_iff (keys : List (Str × PV)) (k : Str) :
    undefinedAt keys k = true
      ↔ AMap.get? k keys = none ∨ ∃ v, AMap.get? k keys = some v ∧ Reduce.reduce v = .ok .dflt := by
  unfold undefinedAt
  rw [undefinedAtPath_cons]
  cases hg : AMap.get? k keys with
  | none => simp
  | some v =>
    simp only [Option.some.injEq, false_or, exists_eq_left', reduceCtorEq]
    cases hr : Reduce.reduce v with
    | ok cur =>
      cases cur with
      | dflt => simp [undefPV]
      | subkeys o => cases o <;> simp [undefPV, undefinedAtPath]
      | _ => simp [undefPV]
    | err e => simp
    | panic e => simp

/--
**`mapping` gets `top ↦ default_to` exactly for the undefined keys** — at every depth, for every
value kind.  Merging locale `top` (any fuel, any key path, any well-formed builder-key tree): for
every leaf `p` of the builder keys, the leaf is still there afterwards, its default locale is
unchanged, and its `mapping` is `insert top ↦ dto.key` if the locale does not define `p`
(`undefinedAtPath`: some key on the way is absent or `null`), and is untouched otherwise.
-/
theorem C03_mapping_iff (suppress : Bool) (top : Str) (dto : DefaultTo) (fuel : Nat) (path : KeyPath)
    (loc : Loc) (bki : BKI) (st : St) (loc' : Loc) (bki' : BKI) (st' : St) (hwf : Spec.Diagnostics.BKI.WF bki)
    (h : mergeLocale suppress top dto fuel path loc bki st = .ok (loc', bki', st'))
    (p : List Str) (iol : IOL) (d : Defaults) (hl : leafAt bki p = some (iol, d)) :
    ∃ iol' d', leafAt bki' p = some (iol', d') ∧ d'.dflt = d.dflt
      ∧ d'.mapping = if undefinedAtPath loc.keys p then AMap.insert' top dto.key d.mapping else d.mapping :=
  mergeLocale_leaf suppress top dto fuel path loc bki st loc' bki' st' hwf h p iol d hl

/-- one value key, spelled out: absent or `null` ⇒ inserted; anything else ⇒ untouched -/
theorem C03_mapping_iff_flat (suppress : Bool) (top : Str) (dto : DefaultTo) (fuel : Nat) (path : KeyPath)
    (loc : Loc) (bki : BKI) (st : St) (loc' : Loc) (bki' : BKI) (st' : St) (hwf : Spec.Diagnostics.BKI.WF bki)
    (h : mergeLocale suppress top dto fuel path loc bki st = .ok (loc', bki', st'))
    (k : Str) (iol : IOL) (d : Defaults) (hl : AMap.get? k bki = some (.value iol d)) :
    ∃ iol' d', AMap.get? k bki' = some (.value iol' d') ∧ d'.dflt = d.dflt
      ∧ d'.mapping = if undefinedAt loc.keys k then AMap.insert' top dto.key d.mapping else d.mapping := by
  have hl' : leafAt bki [k] = some (iol, d) := by simp [leafAt, hl]
  obtain ⟨iol', d', h1, h2, h3⟩ := C03_mapping_iff suppress top dto fuel path loc bki st loc' bki' st' hwf h [k] iol d hl'
  refine ⟨iol', d', ?_, h2, h3⟩
  rw [leafAt_cons] at h1
  cases hg : AMap.get? k bki' with
  | none => simp [hg] at h1
  | some lv =>
    simp only [hg] at h1
    cases lv with
    | value i e => simp only [leafLV, Option.some.injEq, Prod.mk.injEq] at h1; rw [h1.1, h1.2]
    | subkeys l ks => simp [leafLV, leafAt] at h1

/-- **Whole groups, uniformly.**  If the locale has no entry for the group key `k`, or `null`, then
    *every* path below `k` counts as undefined … -/
theorem C03_subkeys_uniform_spec (keys : List (Str × PV)) (k : Str) (rest : List Str)
    (h : undefinedAt keys k = true) : undefinedAtPath keys (k :: rest) = true := by
  rw [C03_undefined_at_iff] at h
  rw [undefinedAtPath_cons]
  rcases h with h | ⟨v, hv, hr⟩
  · simp [h]
  · simp [hv, hr, undefPV]

/-- … so every leaf below the group gets the same `top ↦ dto.key` entry it would get had that leaf
    been absent or `null` on its own (the dummy locale of `ParsedValue::merge`) -/
theorem C03_subkeys_uniform (suppress : Bool) (top : Str) (dto : DefaultTo) (fuel : Nat) (path : KeyPath)
    (loc : Loc) (bki : BKI) (st : St) (loc' : Loc) (bki' : BKI) (st' : St) (hwf : Spec.Diagnostics.BKI.WF bki)
    (h : mergeLocale suppress top dto fuel path loc bki st = .ok (loc', bki', st'))
    (k : Str) (rest : List Str) (iol : IOL) (d : Defaults) (hl : leafAt bki (k :: rest) = some (iol, d))
    (hu : undefinedAt loc.keys k = true) :
    ∃ iol' d', leafAt bki' (k :: rest) = some (iol', d') ∧ d'.dflt = d.dflt
      ∧ d'.mapping = AMap.insert' top dto.key d.mapping := by
  obtain ⟨iol', d', h1, h2, h3⟩ :=
    C03_mapping_iff suppress top dto fuel path loc bki st loc' bki' st' hwf h (k :: rest) iol d hl
  rw [C03_subkeys_uniform_spec loc.keys k rest hu] at h3
  exact ⟨iol', d', h1, h2, by simpa using h3⟩

/--
**After `check_locales_inner`.**  `dl` is the default locale, `others` the rest; the default locale's
keys are distinct at every level (`NDLoc`, true of every `BTreeMap`).  For every leaf `p` of the
builder keys made from the default locale, the final builder keys have that leaf, with default
locale `dl.top` and a `mapping` that is exactly (`MappingOf`): locale `x` is a key iff some locale
named `x` among `others` does not define `p`, and then it maps to `inherits x`, or to `dl.top` if
`x` has no `inherits` entry.
-/
theorem C03_mapping_of_merge (suppress : Bool) (fuel : Nat) (inherits : List (Str × Str)) (ns : Option Str)
    (dl : Loc) (others : List Loc) (ws : List Warning) (locales : List Loc) (bkiF : BKI) (ws' : List Warning)
    (hnd : Spec.Diagnostics.NDLoc fuel dl)
    (h : checkLocalesInner suppress fuel inherits ns (dl :: others) ws = .ok (locales, bkiF, ws')) :
    ∃ dl' bki0 strs, makeBuilderKeys dl.top fuel ⟨ns, []⟩ dl [] = .ok (dl', bki0, strs)
      ∧ ∀ p iol d, leafAt bki0 p = some (iol, d) →
          ∃ iol' d', leafAt bkiF p = some (iol', d') ∧ d'.dflt = dl.top
            ∧ MappingOf inherits dl.top (undefIn others p) d'.mapping := by
  obtain ⟨dl', bki0, strs, h1, _, _, _, h4⟩ :=
    checkLocalesInner_spec suppress fuel inherits ns dl others ws locales bkiF ws' hnd h
  exact ⟨dl', bki0, strs, h1, h4⟩

/-- the default locale is never a key of any `mapping` (locale names are distinct: the default's name
    is not among the others), so it never takes a value from another locale -/
theorem C03_default_never_defaults (inherits : List (Str × Str)) (dflt : Str) (others : List Loc)
    (p : List Str) (m : List (Str × Str)) (hm : MappingOf inherits dflt (undefIn others p) m)
    (hd : dflt ∉ others.map Loc.name) (fuel : Nat) :
    AMap.get? dflt m = none ∧ defaultOf ⟨dflt, m⟩ fuel dflt [] = dflt := by
  have hu : undefIn others p dflt = false := by
    simp only [undefIn, List.any_eq_false, Bool.and_eq_true, beq_iff_eq, not_and]
    intro l hl hn
    exact absurd (hn ▸ List.mem_map_of_mem hl) hd
  have hg : AMap.get? dflt m = none := by rw [hm dflt, hu]; simp
  exact ⟨hg, C03_defined_is_own ⟨dflt, m⟩ fuel dflt hg⟩

/--
**C03, end to end.**  After a successful `check_locales_inner` (locale names distinct from the
default's; default locale's keys distinct at every level), for every leaf key path `p` and *every*
locale name `l`: the locale whose value the generated code uses for `l` (`default_of`) is the spec
walk along the real `inherits` table — first locale on `l, inherits l, …` that defines `p`
(absent and `null` both count as not defined, for values and whole groups alike); the default locale
when the chain ends or loops.
-/
theorem C03_fallback_end_to_end (suppress : Bool) (fuel : Nat) (inherits : List (Str × Str)) (ns : Option Str)
    (dl : Loc) (others : List Loc) (ws : List Warning) (locales : List Loc) (bkiF : BKI) (ws' : List Warning)
    (hnd : Spec.Diagnostics.NDLoc fuel dl) (hd : dl.top ∉ others.map Loc.name)
    (h : checkLocalesInner suppress fuel inherits ns (dl :: others) ws = .ok (locales, bkiF, ws')) :
    ∃ dl' bki0 strs, makeBuilderKeys dl.top fuel ⟨ns, []⟩ dl [] = .ok (dl', bki0, strs)
      ∧ ∀ p iol d, leafAt bki0 p = some (iol, d) →
          ∃ iol' d', leafAt bkiF p = some (iol', d') ∧
            ∀ (l : Str) (fuel' : Nat), d'.mapping.length + 1 ≤ fuel' →
              defaultOf d' fuel' l [] = effective inherits dl.top (fun x => !undefIn others p x) l := by
  obtain ⟨dl', bki0, strs, h1, h2⟩ :=
    C03_mapping_of_merge suppress fuel inherits ns dl others ws locales bkiF ws' hnd h
  refine ⟨dl', bki0, strs, h1, ?_⟩
  intro p iol d hl
  obtain ⟨iol', d', hl', hdf, hm⟩ := h2 p iol d hl
  refine ⟨iol', d', hl', ?_⟩
  intro l fuel' hf
  have hu : undefIn others p dl.top = false := by
    simp only [undefIn, List.any_eq_false, Bool.and_eq_true, beq_iff_eq, not_and]
    intro l hl hn
    exact absurd (hn ▸ List.mem_map_of_mem hl) hd
  have := C03_default_of_eq_walk_inherits inherits dl.top (undefIn others p) d'.mapping hm hu fuel' l hf
  have hd' : d' = ⟨dl.top, d'.mapping⟩ := by cases d'; simp only [Defaults.mk.injEq, and_true]; exact hdf
  rw [hd']; exact this

/-! ## Examples (`decide`): a chain `c → b → a`, a fork `c, d → b`, a 2-cycle `e ⇄ f`, a self-loop -/

private def exM : List (Str × Str) :=
  [(['b'], ['a']), (['c'], ['b']), (['d'], ['b']), (['e'], ['f']), (['f'], ['e']), (['g'], ['g'])]

example : defaultOf ⟨['e','n'], exM⟩ 7 ['c'] [] = ['a'] := by decide
example : defaultOf ⟨['e','n'], exM⟩ 7 ['d'] [] = ['a'] := by decide
example : defaultOf ⟨['e','n'], exM⟩ 7 ['a'] [] = ['a'] := by decide
example : defaultOf ⟨['e','n'], exM⟩ 7 ['e'] [] = ['e','n'] := by decide
example : defaultOf ⟨['e','n'], exM⟩ 7 ['f'] [] = ['e','n'] := by decide
example : defaultOf ⟨['e','n'], exM⟩ 7 ['g'] [] = ['e','n'] := by decide
example : effective exM ['e','n'] (fun x => (AMap.get? x exM).isNone) ['c'] = ['a'] := by decide
example : effective exM ['e','n'] (fun x => (AMap.get? x exM).isNone) ['f'] = ['e','n'] := by decide
example : compute ⟨['e','n'], exM⟩
    = [(['a'], [['b'], ['c'], ['d']]), (['e','n'], [['e'], ['f'], ['g']])] := by decide

/-- the hypotheses of `C03_default_of_eq_walk_inherits` are satisfiable: `inherits = {c ↦ b, b ↦ a}`,
    the key is undefined in `b`, `c`, `d`; `d` has no `inherits` entry -/
example : MappingOf [(['b'], ['a']), (['c'], ['b'])] ['e','n']
      (fun x => x == ['b'] || x == ['c'] || x == ['d'])
      [(['b'], ['a']), (['c'], ['b']), (['d'], ['e','n'])] := by
  intro x
  simp only [AMap.get?]
  by_cases hb : x = ['b']
  · subst hb; decide
  · by_cases hc : x = ['c']
    · subst hc; decide
    · by_cases hd : x = ['d']
      · subst hd; decide
      · have e1 : (['b'] == x) = false := by simpa using Ne.symm hb
        have e2 : (['c'] == x) = false := by simpa using Ne.symm hc
        have e3 : (['d'] == x) = false := by simpa using Ne.symm hd
        have f1 : (x == ['b']) = false := by simpa using hb
        have f2 : (x == ['c']) = false := by simpa using hc
        have f3 : (x == ['d']) = false := by simpa using hd
        simp [e1, e2, e3, f1, f2, f3]

/-! ### the merge-level theorems on a concrete project: `en` default = `{a, b, g: {h}}`,
`fr = {a: null, c}`, `ca = {a: null, b}`, `inherits = {ca ↦ fr}` -/

private def enSub : Loc := .mk ['e','n'] ['e','n'] [(['h'], .lit (.str ['z'] none))] [] 0
private def enLoc : Loc := .mk ['e','n'] ['e','n']
  [(['a'], .lit (.str ['x'] none)), (['b'], .lit (.str ['y'] none)), (['g'], .subkeys (some enSub))] [] 0
private def frLoc : Loc := .mk ['f','r'] ['f','r'] [(['a'], .dflt), (['c'], .lit (.str ['w'] none))] [] 0
private def caLoc : Loc := .mk ['c','a'] ['c','a'] [(['a'], .dflt), (['b'], .lit (.str ['v'] none))] [] 0
private def enSub' : Loc := .mk ['e','n'] ['e','n'] [(['h'], .lit (.str ['z'] (some 2)))] [] 0
private def enLoc' : Loc := .mk ['e','n'] ['e','n']
  [(['a'], .lit (.str ['x'] (some 0))), (['b'], .lit (.str ['y'] (some 1))), (['g'], .subkeys none)] [] 0
private def bki0 : BKI :=
  [(['a'], .value (.lit .string) ⟨['e','n'], []⟩), (['b'], .value (.lit .string) ⟨['e','n'], []⟩),
   (['g'], .subkeys [enSub'] [(['h'], .value (.lit .string) ⟨['e','n'], []⟩)])]

private theorem mk0 :
    makeBuilderKeys ['e','n'] 3 ⟨none, []⟩ enLoc [] = .ok (enLoc', bki0, [['x'], ['y'], ['z']]) := by
  simp [makeBuilderKeys, makeKeys, enLoc, enSub, Reduce.reduce, Reduce.reduceKeys, makeKeys.shapeOf',
    indexStrings, pushStr, getKeysInner, Loc.keys, List.idxOf?, enLoc', bki0, enSub',
    Loc.name, Loc.top, Loc.strings, Loc.count]
  decide

example : Spec.Diagnostics.NDLoc 3 enLoc := by
  refine ⟨by decide, ?_⟩
  intro k v sub hm hr
  simp only [enLoc, Loc.keys, List.mem_cons, Prod.mk.injEq, List.not_mem_nil, or_false] at hm
  rcases hm with ⟨rfl, rfl⟩ | ⟨rfl, rfl⟩ | ⟨rfl, rfl⟩
  · simp [Reduce.reduce] at hr
  · simp [Reduce.reduce] at hr
  · simp only [enSub, Reduce.reduce, Reduce.reduceKeys, Res.ok.injEq, PV.subkeys.injEq, Option.some.injEq] at hr
    subst hr
    refine ⟨by decide, ?_⟩
    intro k v sub hm hr
    simp only [Loc.keys, List.mem_cons, Prod.mk.injEq, List.not_mem_nil, or_false] at hm
    obtain ⟨rfl, rfl⟩ := hm
    simp [Reduce.reduce] at hr

/-- the check succeeds; `a`: `ca → fr → en`; the leaf `g.h` below the absent group: the same -/
example : ∃ locales bki ws,
    checkLocalesInner false 3 [(['c','a'], ['f','r'])] none [enLoc, frLoc, caLoc] [] = .ok (locales, bki, ws)
    ∧ (leafAt bki [['a']]).map (fun x => x.2.mapping) = some [(['c','a'], ['f','r']), (['f','r'], ['e','n'])]
    ∧ (leafAt bki [['b']]).map (fun x => x.2.mapping) = some [(['f','r'], ['e','n'])]
    ∧ (leafAt bki [['g'], ['h']]).map (fun x => x.2.mapping)
        = some [(['c','a'], ['f','r']), (['f','r'], ['e','n'])] := by
  have h0 : makeBuilderKeys enLoc.top 3 ⟨none, []⟩ enLoc [] = .ok (enLoc', bki0, [['x'], ['y'], ['z']]) := mk0
  simp only [checkLocalesInner, h0]
  refine ⟨_, _, _, rfl, ?_, ?_, ?_⟩ <;> rfl

example : undefinedAtPath frLoc.keys [['g'], ['h']] = true := rfl
example : undefinedAtPath frLoc.keys [['a']] = true := rfl
example : undefinedAtPath caLoc.keys [['b']] = false := rfl

end I18nVerif.Check
