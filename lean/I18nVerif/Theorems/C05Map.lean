import I18nVerif.Proofs.PluralMap
/-!
# C05 — the whole key map after `merge_plurals`

`Theorems/C05.lean` characterises `Locale::merge_plurals` one candidate group at a time
(`C05_finish_group`) plus the invariant of its first loop (`C05_loop_groups`).  This file closes the
gap: **what the whole resulting key map of a locale is**, at one level and through every nested level.

* Specification: `Spec/PluralMap.lean` — `specLevel` (one level: `firstPass` then `secondPass`),
  `specMergedKeys` (one level, nested locales left alone), `specAll` (all levels).  It is written
  from the property text: the keys are grouped by base (`basesOf`, `candsOf`), a base with at least
  two forms one of which is `other` is merged (`merges`), every other key survives (`survivors`),
  the merged base holds `pluralOf`, the errors are those of `firstPass` / `groupError` in the order
  the code reports them.
* Model: `Plurals.mergePlurals` (`Model/Plurals.lean`, frozen).
* Hypotheses, which decoding establishes (`C05_map_decoded_keys_wf`): the key list is sorted
  (`AMap.Sorted`: it is a `BTreeMap`) and no key name holds white space (`NoWs`: every key went
  through `Key::new`).  Both are needed: see `notes/C05Map.md`.
-/
namespace I18nVerif.PluralMap
open I18nVerif Str PluralSpec Plurals

/-! ## 0. The hypotheses are what decoding establishes -/

/-- `Key::new` never returns a name with white space in it -/
theorem C05_map_key_new_no_ws {raw k : Str} (h : Key.new raw = some k) : NoWs k := keyNew_noWs h

/-- the keys of a decoded locale object (`LocaleSeed::visit_map`) are sorted and are `Key`s: the two
    hypotheses of the theorems below hold for every level that decoding builds -/
theorem C05_map_decoded_keys_wf (fuel : Nat) (top : Str) (l : List (Str × J)) (keys : Keys)
    (h : Decode.value.localeKeys fuel top l [] = .ok keys) :
    AMap.Sorted keys ∧ ∀ kv ∈ keys, NoWs kv.1 := by
  have ⟨h1, h2, h3⟩ := Decode.localeKeys_ok_inv fuel top l [] keys h
  have h4 := Decode.localeKeys_ok fuel top l [] h1 h2 h3
  rw [h4] at h
  simp only [Res.ok.injEq] at h
  have hs := AMap.insAll_spec (l.filterMap (Decode.entry fuel top)) (m := []) (by simp [AMap.Sorted]) h2
  rw [h] at hs
  refine ⟨hs.1, fun kv hkv => ?_⟩
  rcases (hs.2 kv).mp hkv with hm | ⟨hm, _⟩
  · obtain ⟨p, _, hp⟩ := List.mem_filterMap.mp hm
    obtain ⟨pk, px⟩ := p
    obtain ⟨kk, kv2⟩ := kv
    exact keyNew_noWs (Decode.entry_some.mp hp).1
  · cases hm

/-! ## 1. The model is the specification -/

/-- **One level.**  For a locale whose key list is sorted and whose key names hold no white space,
    `merge_plurals` returns exactly what `specLevel` says — the same key map (as a sorted association
    list), the same error or panic, the same warnings in the same order — the nested locales being
    merged by the recursive call (`fuel` levels deep). -/
theorem C05_merge_plurals_map (orc : Oracle) (locale : Str) (fuel : Nat) (path : KeyPath)
    (n t : Str) (keys : Keys) (s : List Str) (c : Nat)
    (hS : AMap.Sorted keys) (hW : ∀ kv ∈ keys, NoWs kv.1) :
    mergePlurals orc locale (fuel + 1) path (.mk n t keys s c)
      = wrap n t s c (specLevel (mergePlurals orc locale fuel) orc locale path keys) :=
  mergePlurals_level orc locale fuel path n t keys s c hS hW

/-- one level without nested locales: the specification `specMergedKeys`, whatever the fuel -/
theorem C05_merge_plurals_map_flat (orc : Oracle) (locale : Str) (fuel : Nat) (path : KeyPath)
    (n t : Str) (keys : Keys) (s : List Str) (c : Nat)
    (hS : AMap.Sorted keys) (hW : ∀ kv ∈ keys, NoWs kv.1)
    (hflat : ∀ kv ∈ keys, ∀ sub, kv.2 ≠ .subkeys (some sub)) :
    mergePlurals orc locale (fuel + 1) path (.mk n t keys s c)
      = wrap n t s c (specMergedKeys orc locale path keys) := by
  rw [mergePlurals_level orc locale fuel path n t keys s c hS hW, specMergedKeys]
  rw [specLevel_congr orc locale path keys (fun k sub hm => absurd rfl (hflat _ hm sub))]

/-- **All levels.**  On a locale that is well formed at every level (`LocWF`: sorted keys without
    white space, hereditarily) `merge_plurals` is `specAll`, for every fuel. -/
theorem C05_merge_plurals_all_levels (orc : Oracle) (locale : Str) (fuel : Nat) (path : KeyPath) (loc : Loc)
    (h : LocWF loc) : mergePlurals orc locale fuel path loc = specAll orc locale fuel path loc :=
  mergePlurals_all orc locale fuel path loc h

/-! ## 2. The specification, in words -/

/-- `null`, ranges and subkeys are never plural forms, whatever the key is called -/
theorem C05_map_never_forms (k : Str) (ck : Str) (ty : RangeTy) (br : List (Range × PV)) (l : Option Loc) :
    reading (k, .dflt) = none ∧ reading (k, .ranges ck ty br) = none ∧ reading (k, .subkeys l) = none :=
  ⟨rfl, rfl, rfl⟩

/-- **First pass, on success**: the key names are unchanged; a value that is not a nested locale is
    unchanged; a nested locale is replaced by its merged version; no two keys share a slot
    `(base, form)`; readings are unchanged. -/
theorem C05_map_first_pass (rec : Rec) (path : KeyPath) (keys K : Keys) (w : List Warning)
    (h : firstPass rec path [] keys = .ok (K, w)) :
    K.map Prod.fst = keys.map Prod.fst ∧
    (∀ kv ∈ keys, (∀ sub, kv.2 ≠ .subkeys (some sub)) → kv ∈ K) ∧
    (∀ k sub, (k, PV.subkeys (some sub)) ∈ keys →
      ∃ sub' w', rec (pushKey path k) sub = .ok (sub', w') ∧ (k, PV.subkeys (some sub')) ∈ K) ∧
    (∀ kv1 ∈ K, ∃ kv ∈ keys, kv.1 = kv1.1 ∧ reading kv = reading kv1) ∧
    NoClash K := by
  obtain ⟨f1, f2, f3, f4⟩ := firstPass_ok_spec h
  refine ⟨f1, ?_, ?_, ?_, by simpa using f4 noClash_nil⟩
  · intro kv hkv hv
    obtain ⟨v', w0, hn, hm⟩ := f2 kv hkv
    rw [nested_plain _ _ _ _ hv] at hn
    simp only [Res.ok.injEq, Prod.mk.injEq] at hn
    rw [← hn.1] at hm; exact hm
  · intro k sub hm
    obtain ⟨v', w0, hn, hm'⟩ := f2 _ hm
    rw [nested_sub] at hn
    cases hr : rec (pushKey path k) sub with
    | ok o =>
      obtain ⟨sub', w'⟩ := o
      rw [hr] at hn
      simp only [Res.ok.injEq, Prod.mk.injEq] at hn
      rw [← hn.1] at hm'
      exact ⟨sub', w', rfl, hm'⟩
    | err e => rw [hr] at hn; cases hn
    | panic p => rw [hr] at hn; cases hn
  · intro kv1 h1
    obtain ⟨kv, hkv, e, w0, hn⟩ := f3 kv1 h1
    refine ⟨kv, hkv, e, ?_⟩
    obtain ⟨k0, v0⟩ := kv
    obtain ⟨k1, v1⟩ := kv1
    simp only at e hn
    subst e
    exact (nested_reading hn).symm

/-- a plural form key whose slot `(base, form)` is already taken by an earlier key makes the first
    pass fail with `ConflictingPluralRuleType` (if the nested locales before it merged) -/
theorem C05_map_slot_clash (rec : Rec) (path : KeyPath) (before rest : Keys) (k : Str) (v : PV)
    (hv : ∀ sub, v ≠ .subkeys (some sub)) (b : Str) (r r' : RuleTy) (f : Form) (kv' : Str × PV)
    (hr : reading (k, v) = some (b, r, f)) (hm : kv' ∈ before) (hr' : reading kv' = some (b, r', f)) :
    firstPass rec path before ((k, v) :: rest) = .err "ConflictingPluralRuleType" :=
  fp_taken rec path before k v v [] rest (nested_plain rec path k v hv)
    ((slotTaken_iff hr).mpr ⟨kv', hm, r', hr'⟩)

/-- **Which bases are merged**: at least two written forms, one of them `other`; the written forms
    of a base are exactly the keys read as `(base, rule, form)` (when no slot is shared), in form
    order, each form at most once. -/
theorem C05_map_merges_iff (K : Keys) (b : Str) :
    (merges K b = true ↔ 2 ≤ (candsOf K b).length ∧ ∃ x ∈ candsOf K b, x.1 = .other) ∧
    FormsSorted (candsOf K b) ∧
    (NoClash K → ∀ x, x ∈ candsOf K b ↔
      (x.2.1, x.2.2.2) ∈ K ∧ reading (x.2.1, x.2.2.2) = some (b, x.2.2.1, x.1)) ∧
    (∀ b', b' ∈ basesOf K ↔ ∃ kv ∈ K, ∃ r f, reading kv = some (b', r, f)) ∧
    (basesOf K).Pairwise (fun a b => AMap.strLt a b = true) :=
  ⟨merges_iff, candsOf_sorted K b, fun hc _ => mem_candsOf_iff hc, (basesOf_spec K).2, (basesOf_spec K).1⟩

/-- **Which keys survive**: the keys that are not plural forms, and the forms of a base that is not
    merged (a single form, or no `other`) -/
theorem C05_map_survivors (K : Keys) (p : Str × PV) :
    p ∈ survivors K ↔
      p ∈ K ∧ (reading p = none ∨ ∃ b r f, reading p = some (b, r, f) ∧ merges K b = false) :=
  mem_survivors

/-- **The error of one merged base, in the order of the checks**: the base is not an identifier ⇒
    `InvalidKey`; else a written form other than `other` has another rule type than `other`
    (cardinal and ordinal forms under one base) ⇒ `ConflictingPluralRuleType`; else CLDR does not
    know the locale ⇒ `InvalidLocale`; else a surviving key is named `base` ⇒ `PluralsAtNormalKey`;
    else no error. -/
theorem C05_map_group_error (orc : Oracle) (locale : Str) (K : Keys) (b : Str) :
    (Key.new b = none → groupError orc locale K b = some "InvalidKey") ∧
    (Key.new b ≠ none →
      ((∃ x ∈ candsOf K b, x.1 ≠ .other ∧ x.2.2.1 ≠ ruleOf K b) →
        groupError orc locale K b = some "ConflictingPluralRuleType") ∧
      ((∀ x ∈ candsOf K b, x.1 ≠ .other → x.2.2.1 = ruleOf K b) →
        (orc.cats locale (ruleOf K b) = none → groupError orc locale K b = some "InvalidLocale") ∧
        (orc.cats locale (ruleOf K b) ≠ none →
          ((∃ v, (b, v) ∈ survivors K) → groupError orc locale K b = some "PluralsAtNormalKey") ∧
          ((¬ ∃ v, (b, v) ∈ survivors K) → groupError orc locale K b = none)))) := by
  constructor
  · intro hk; simp [groupError, hk]
  · intro hk
    have hk' : (Key.new b).isNone = false := by
      cases h : Key.new b with
      | none => exact absurd h hk
      | some _ => rfl
    constructor
    · rintro ⟨x, hx, h1, h2⟩
      have : (candsOf K b).any (fun x => x.1 != .other && x.2.2.1 != ruleOf K b) = true :=
        List.any_eq_true.mpr ⟨x, hx, by simp [h1, h2]⟩
      simp only [groupError, hk', this, Bool.false_eq_true, if_false, if_true]
    · intro hall
      have hn : ¬ (candsOf K b).any (fun x => x.1 != .other && x.2.2.1 != ruleOf K b) = true := by
        intro h
        obtain ⟨x, hx, hp⟩ := List.any_eq_true.mp h
        simp only [Bool.and_eq_true, bne_iff_ne, ne_eq] at hp
        exact hp.2 (hall x hx hp.1)
      constructor
      · intro hc
        simp only [groupError, hk', hn, hc, Option.isNone_none, Bool.false_eq_true, if_false, if_true]
      · intro hc
        have hc' : (orc.cats locale (ruleOf K b)).isNone = false := by
          cases h : orc.cats locale (ruleOf K b) with
          | none => exact absurd h hc
          | some _ => rfl
        constructor
        · rintro ⟨v, hv⟩
          have : (survivors K).any (fun kv => kv.1 == b) = true :=
            List.any_eq_true.mpr ⟨(b, v), hv, by simp⟩
          simp only [groupError, hk', hn, hc', this, Bool.false_eq_true, if_false, if_true]
        · intro hno
          have : ¬ (survivors K).any (fun kv => kv.1 == b) = true := by
            intro h
            obtain ⟨p, hp, e⟩ := List.any_eq_true.mp h
            have e : p.1 = b := by simpa using e
            exact hno ⟨p.2, by rw [← e]; exact hp⟩
          simp only [groupError, hk', hn, hc', this, Bool.false_eq_true, if_false]

/-- **Second pass**: the first error among the merged bases, in base order, is the error; otherwise
    the result is a sorted map that holds exactly the surviving keys with their values and
    `base ↦ pluralOf base` for every merged base, and the warnings are the given ones followed by the
    `UnusedForm` warnings of the merged bases in base order. -/
theorem C05_map_second_pass (orc : Oracle) (locale : Str) (path : KeyPath) (K : Keys) (ws : List Warning)
    (hS : AMap.Sorted K) :
    (∀ e, secondPass orc locale path K ws = .err e ↔
      (mergedBases K).findSome? (groupError orc locale K) = some e) ∧
    (∀ p, secondPass orc locale path K ws ≠ .panic p) ∧
    (∀ keys' ws', secondPass orc locale path K ws = .ok (keys', ws') →
      (∀ b ∈ mergedBases K, groupError orc locale K b = none) ∧ AMap.Sorted keys' ∧
      (∀ p, p ∈ keys' ↔ p ∈ survivors K ∨ ∃ b ∈ mergedBases K, p = (b, pluralOf K b)) ∧
      ws' = ws ++ (mergedBases K).flatMap (groupWarnings orc locale path K)) ∧
    (∀ b, b ∈ mergedBases K ↔ b ∈ basesOf K ∧ merges K b = true) := by
  refine ⟨fun e => ?_, fun p => ?_, fun keys' ws' h => secondPass_ok_spec hS h, fun b => mem_mergedBases⟩
  · unfold secondPass
    cases (mergedBases K).findSome? (groupError orc locale K) with
    | some e' => simp
    | none => simp
  · unfold secondPass
    cases (mergedBases K).findSome? (groupError orc locale K) with
    | some e' => simp
    | none => simp

/-! ## 3. Corollaries about the result of `merge_plurals` -/

/-- **The entries of the merged map, both ways.**  When `merge_plurals` succeeds on a level, the first
    pass succeeded with some `K` (the keys with their nested locales merged) and the new key map is
    sorted and holds exactly: the surviving keys of `K` with their values, and `base ↦ pluralOf K base`
    for every merged base; no merged base has an error; the warnings are those of the nested
    locales (key order) followed by the unused-form warnings (base order). -/
theorem C05_merge_plurals_map_entries (orc : Oracle) (locale : Str) (fuel : Nat) (path : KeyPath)
    (n t : Str) (keys : Keys) (s : List Str) (c : Nat)
    (hS : AMap.Sorted keys) (hW : ∀ kv ∈ keys, NoWs kv.1) (loc' : Loc) (ws' : List Warning)
    (h : mergePlurals orc locale (fuel + 1) path (.mk n t keys s c) = .ok (loc', ws')) :
    ∃ K w, firstPass (mergePlurals orc locale fuel) path [] keys = .ok (K, w) ∧
      loc' = .mk n t loc'.keys s c ∧ AMap.Sorted loc'.keys ∧
      (∀ p, p ∈ loc'.keys ↔ p ∈ survivors K ∨ ∃ b ∈ mergedBases K, p = (b, pluralOf K b)) ∧
      (∀ b ∈ mergedBases K, groupError orc locale K b = none) ∧
      ws' = w ++ (mergedBases K).flatMap (groupWarnings orc locale path K) := by
  obtain ⟨K, w, keys', hfp, hsp, rfl, hSK, _⟩ := level_ok_inv hS hW h
  obtain ⟨s1, s2, s3, s4⟩ := secondPass_ok_spec hSK hsp
  exact ⟨K, w, hfp, rfl, s2, s3, s1, s4⟩

/-- **Keys that are not plural forms are untouched.**  After a successful merge of a level:
    a key whose value is not a nested locale and that is not read as a plural form keeps its value;
    a nested locale is replaced by its own merge; a form key of a base that is not merged (a lone
    `x_other`, forms without `other`) stays an ordinary key with its value. -/
theorem C05_nonplural_keys_untouched (orc : Oracle) (locale : Str) (fuel : Nat) (path : KeyPath)
    (n t : Str) (keys K : Keys) (s : List Str) (c : Nat) (w : List Warning)
    (hS : AMap.Sorted keys) (hW : ∀ kv ∈ keys, NoWs kv.1) (loc' : Loc) (ws' : List Warning)
    (hfp : firstPass (mergePlurals orc locale fuel) path [] keys = .ok (K, w))
    (h : mergePlurals orc locale (fuel + 1) path (.mk n t keys s c) = .ok (loc', ws')) :
    (∀ kv ∈ keys, (∀ sub, kv.2 ≠ .subkeys (some sub)) → reading kv = none →
      AMap.get? kv.1 loc'.keys = some kv.2) ∧
    (∀ k sub, (k, PV.subkeys (some sub)) ∈ keys →
      ∃ sub' w', mergePlurals orc locale fuel (pushKey path k) sub = .ok (sub', w') ∧
        AMap.get? k loc'.keys = some (.subkeys (some sub'))) ∧
    (∀ kv ∈ K, ∀ b r f, reading kv = some (b, r, f) → merges K b = false →
      AMap.get? kv.1 loc'.keys = some kv.2) := by
  obtain ⟨K', w', hfp', _, hsorted, hmem, _, _⟩ :=
    C05_merge_plurals_map_entries orc locale fuel path n t keys s c hS hW loc' ws' h
  rw [hfp] at hfp'
  simp only [Res.ok.injEq, Prod.mk.injEq] at hfp'
  obtain ⟨rfl, rfl⟩ := hfp'
  obtain ⟨_, g2, g3, _, _⟩ := C05_map_first_pass _ path keys K w hfp
  have hnd := sorted_names_nodup hsorted
  refine ⟨?_, ?_, ?_⟩
  · intro kv hkv hv hr
    have : kv ∈ loc'.keys := (hmem kv).mpr (.inl (mem_survivors.mpr ⟨g2 kv hkv hv, .inl hr⟩))
    exact get?_of_mem hnd this
  · intro k sub hm
    obtain ⟨sub', w', hrec, hK⟩ := g3 k sub hm
    have : (k, PV.subkeys (some sub')) ∈ loc'.keys :=
      (hmem _).mpr (.inl (mem_survivors.mpr ⟨hK, .inl (reading_subkeys _ _)⟩))
    exact ⟨sub', w', hrec, get?_of_mem hnd this⟩
  · intro kv hkv b r f hr hm
    have : kv ∈ loc'.keys := (hmem kv).mpr (.inl (mem_survivors.mpr ⟨hkv, .inr ⟨b, r, f, hr, hm⟩⟩))
    exact get?_of_mem hnd this

/-- **Which keys of the result hold a merged plural.**  After a successful merge of a level, for every
    key name `k`:
    * `k` is a base with at least two written forms including `other` **iff** the result holds
      `pluralOf K k` at `k` and `k` is not a surviving key;
    * in that case the form keys of `k` are gone: the name of a form key is still in the map only if
      it is itself a merged base (`x_one` next to `x_one_one`, `x_one_other`), holding that plural;
    * if the level held no `Plurals` value beforehand (decoding never produces one), a key of the
      result holds a `Plurals` value iff it is such a base. -/
theorem C05_merged_key_iff (orc : Oracle) (locale : Str) (fuel : Nat) (path : KeyPath)
    (n t : Str) (keys K : Keys) (s : List Str) (c : Nat) (w : List Warning)
    (hS : AMap.Sorted keys) (hW : ∀ kv ∈ keys, NoWs kv.1) (loc' : Loc) (ws' : List Warning)
    (hfp : firstPass (mergePlurals orc locale fuel) path [] keys = .ok (K, w))
    (h : mergePlurals orc locale (fuel + 1) path (.mk n t keys s c) = .ok (loc', ws')) (k : Str) :
    ((k ∈ basesOf K ∧ merges K k = true) ↔
      (AMap.get? k loc'.keys = some (pluralOf K k) ∧ ¬ ∃ v, (k, v) ∈ survivors K)) ∧
    (merges K k = true → ∀ kv ∈ K, ∀ r f, reading kv = some (k, r, f) →
      ∀ v, AMap.get? kv.1 loc'.keys = some v →
        kv.1 ∈ basesOf K ∧ merges K kv.1 = true ∧ v = pluralOf K kv.1) ∧
    ((∀ kv ∈ K, ∀ r ck o fs, kv.2 ≠ .plurals r ck o fs) →
      ((∃ r ck o fs, AMap.get? k loc'.keys = some (.plurals r ck o fs)) ↔
        (k ∈ basesOf K ∧ merges K k = true))) := by
  obtain ⟨K', w', hfp', _, hsorted, hmem, hnone, _⟩ :=
    C05_merge_plurals_map_entries orc locale fuel path n t keys s c hS hW loc' ws' h
  rw [hfp] at hfp'
  simp only [Res.ok.injEq, Prod.mk.injEq] at hfp'
  obtain ⟨rfl, rfl⟩ := hfp'
  have hSK : AMap.Sorted K := sorted_of_same_names hS (firstPass_ok_spec hfp).1
  have hnd := sorted_names_nodup hsorted
  have hfwd : k ∈ basesOf K → merges K k = true →
      AMap.get? k loc'.keys = some (pluralOf K k) ∧ ¬ ∃ v, (k, v) ∈ survivors K := by
    intro hb hm
    have hmb := mem_mergedBases.mpr ⟨hb, hm⟩
    refine ⟨get?_of_mem hnd ((hmem _).mpr (.inr ⟨k, hmb, rfl⟩)), ?_⟩
    rintro ⟨v, hv⟩
    exact ge_none_no_survivor (hnone k hmb) (List.any_eq_true.mpr ⟨(k, v), hv, by simp⟩)
  have hback : ∀ k' v, AMap.get? k' loc'.keys = some v → (¬ (k', v) ∈ survivors K) →
      k' ∈ basesOf K ∧ merges K k' = true ∧ v = pluralOf K k' := by
    intro k' v hg hno
    rcases (hmem _).mp (get?_mem k' v _ hg) with hsv | ⟨b, hb, e⟩
    · exact absurd hsv hno
    · simp only [Prod.mk.injEq] at e
      obtain ⟨rfl, rfl⟩ := e
      exact ⟨(mem_mergedBases.mp hb).1, (mem_mergedBases.mp hb).2, rfl⟩
  refine ⟨⟨fun ⟨a, b⟩ => hfwd a b, fun ⟨a, b⟩ => ?_⟩, ?_, ?_⟩
  · have := hback k _ a (fun hs => b ⟨_, hs⟩)
    exact ⟨this.1, this.2.1⟩
  · intro hm kv hkv r f hr v hg
    refine hback kv.1 v hg ?_
    intro hsv
    obtain ⟨hK, hsr⟩ := mem_survivors.mp hsv
    have : (kv.1, v) = kv := eq_of_same_name hSK hK hkv rfl
    rw [this, hr] at hsr
    rcases hsr with hsr | ⟨b', r', f', hsr, hm'⟩
    · cases hsr
    · simp only [Option.some.injEq, Prod.mk.injEq] at hsr
      rw [← hsr.1, hm] at hm'; cases hm'
  · intro hnp
    constructor
    · rintro ⟨r, ck, o, fs, hg⟩
      have := hback k _ hg (fun hs => hnp _ (mem_survivors.mp hs).1 r ck o fs rfl)
      exact ⟨this.1, this.2.1⟩
    · rintro ⟨hb, hm⟩
      obtain ⟨_, x, hso⟩ := merges_true_model hm
      obtain ⟨fo, ko, r, o⟩ := x
      refine ⟨r, "var_count".toList, o, formsOf (candsOf K k), ?_⟩
      rw [← pluralOf_eq K k fo ko r o hso]
      exact (hfwd hb hm).1

/-- **The forms of a merged plural are exactly the written forms.**  For a merged base (no slot being
    shared): the `other` form key exists, it gives the rule type and the `other` value; `pluralOf` is
    `Plurals { rule_type, count_key: "var_count", other, forms }` where `forms` holds `(f, v)` iff
    `f ≠ other` and `v` is the value of the key read as form `f` of this base
    (`key = base ++ ("_ordinal")? ++ "_" ++ f`: `C05_suffix_parse`), each form once, in form order. -/
theorem C05_forms_exact (K : Keys) (b : Str) (hc : NoClash K) (hm : merges K b = true) :
    ∃ ko r o, (ko, o) ∈ K ∧ reading (ko, o) = some (b, r, .other) ∧ ruleOf K b = r ∧
      pluralOf K b = .plurals r countKey o (formsOfCands (candsOf K b)) ∧
      (∀ f v, (f, v) ∈ formsOfCands (candsOf K b) ↔
        f ≠ .other ∧ ∃ k r', (k, v) ∈ K ∧ reading (k, v) = some (b, r', f)) ∧
      (formsOfCands (candsOf K b)).Pairwise (fun a b => a.1.toNat < b.1.toNat) ∧
      countKey = "var_count".toList := by
  obtain ⟨_, x, hso⟩ := merges_true_model hm
  obtain ⟨fo, ko, r, o⟩ := x
  obtain ⟨_, h2, h3⟩ := slotEntry_some hso
  refine ⟨ko, r, o, h2, h3, ruleOf_eq K b fo ko r o hso, pluralOf_eq K b fo ko r o hso, ?_,
    formsOf_sorted _ (candsOf_sorted K b), rfl⟩
  intro f v
  have := formsOf_mem (candsOf K b) f v
  rw [show formsOfCands (candsOf K b) = formsOf (candsOf K b) from rfl, this]
  constructor
  · rintro ⟨hne, k, r', hmem⟩
    obtain ⟨a1, a2⟩ := (mem_candsOf_iff hc).mp hmem
    exact ⟨hne, k, r', a1, a2⟩
  · rintro ⟨hne, k, r', a1, a2⟩
    exact ⟨hne, k, r', (mem_candsOf_iff hc).mpr ⟨a1, a2⟩⟩

/-- the warnings of a merged base: one `UnusedForm` per written form (other than `other`) that the
    locale's rules never select, in form order, at the path of the merged key -/
theorem C05_map_group_warnings (orc : Oracle) (locale : Str) (path : KeyPath) (K : Keys) (b : Str)
    (cats : List Form) (hcat : orc.cats locale (ruleOf K b) = some cats) :
    groupWarnings orc locale path K b =
      (unused cats (formsOfCands (candsOf K b))).map
        (fun f => Warning.unusedForm locale (pushKey path b) f (ruleOf K b)) := by
  simp only [groupWarnings, hcat]

/-! ## 4. Examples -/

set_option synthInstance.maxSize 4096

/-- English: cardinal `{one, other}`, ordinal `{one, two, few, other}` -/
def exOrc : Oracle :=
  ⟨fun l r => if l == "en".toList then
      (match r with | .cardinal => some [.one, .other] | .ordinal => some [.one, .two, .few, .other])
    else none,
   fun _ _ k => if k == "u:1".toList then some .one else some .other⟩

def exLit (s : String) : PV := .lit (.str s.toList none)

/-- a nested group -/
def exSub : Loc :=
  .mk "en".toList "en".toList [("item_one".toList, exLit "1 item"), ("item_other".toList, exLit "n items")] [] 0

/-- a cardinal group with three forms, a nested locale, an ordinal group, a normal key, a lone `x_other` -/
def exKeys : Keys :=
  [("days_few".toList, exLit "f"), ("days_one".toList, exLit "o"), ("days_other".toList, exLit "x"),
   ("menu".toList, .subkeys (some exSub)),
   ("nth_ordinal_one".toList, exLit "st"), ("nth_ordinal_other".toList, exLit "th"),
   ("title".toList, exLit "t"), ("x_other".toList, exLit "lone")]

def exLoc : Loc := .mk "en".toList "en".toList exKeys [] 0

/-- the hypotheses of `C05_merge_plurals_all_levels` hold for it -/
theorem exLoc_wf : LocWF exLoc := by
  refine LocWF.mk _ _ _ _ _ (by decide +kernel) (by decide +kernel) ?_
  intro k sub hm
  have : sub = exSub := by
    simp only [exKeys, List.mem_cons, Prod.mk.injEq, List.not_mem_nil, or_false] at hm
    rcases hm with h | h | h | h | h | h | h | h
    all_goals first | (cases h.2; done) | skip
    cases h.2; rfl
  subst this
  refine LocWF.mk _ _ _ _ _ (by decide +kernel) (by decide +kernel) ?_
  intro k sub hm
  simp only [List.mem_cons, Prod.mk.injEq, List.not_mem_nil, or_false] at hm
  rcases hm with h | h <;> cases h.2

/-- hence the model is the specification on it (no evaluation involved) -/
example : mergePlurals exOrc "en".toList 3 ⟨none, []⟩ exLoc = specAll exOrc "en".toList 3 ⟨none, []⟩ exLoc :=
  C05_merge_plurals_all_levels _ _ _ _ _ exLoc_wf

/-- a decidable view of a result: key names with the shape of each plural (and of the keys one level
    down), the unused-form warnings, the error -/
def exShape : PV → Option (RuleTy × Str × List Form)
  | .plurals r ck _ fs => some (r, ck, fs.map (·.1))
  | _ => none

structure ExEntry where
  name : Str
  shape : Option (RuleTy × Str × List Form)
  sub : List (Str × Option (RuleTy × Str × List Form))
deriving DecidableEq

structure ExView where
  keys : List ExEntry
  warns : List (List Str × Form)
  err : String
deriving DecidableEq

def exView : Res (Loc × List Warning) → ExView
  | .ok (l, ws) =>
    ⟨l.keys.map (fun kv => ⟨kv.1, exShape kv.2,
        match kv.2 with
        | .subkeys (some sub) => sub.keys.map (fun q => (q.1, exShape q.2))
        | _ => []⟩),
      ws.filterMap (fun w => match w with | .unusedForm _ p f _ => some (p.path, f) | _ => none), ""⟩
  | .err e => ⟨[], [], e⟩
  | .panic _ => ⟨[], [], "panic"⟩

/-- the merged map of the example: `days ↦ Plurals(cardinal, [one, few])`, `menu ↦ { item ↦ Plurals }`,
    `nth ↦ Plurals(ordinal, [one])`, `title`, and the lone `x_other` left alone; `few` is unused in English -/
example : exView (specAll exOrc "en".toList 3 ⟨none, []⟩ exLoc) =
    ⟨[⟨"days".toList, some (.cardinal, "var_count".toList, [.one, .few]), []⟩,
      ⟨"menu".toList, none, [("item".toList, some (.cardinal, "var_count".toList, [.one]))]⟩,
      ⟨"nth".toList, some (.ordinal, "var_count".toList, [.one]), []⟩,
      ⟨"title".toList, none, []⟩,
      ⟨"x_other".toList, none, []⟩],
     [(["days".toList], .few)], ""⟩ := by
  decide +kernel

/-- the model gives the same (as `C05_merge_plurals_all_levels` says) -/
example : exView (mergePlurals exOrc "en".toList 3 ⟨none, []⟩ exLoc)
    = exView (specAll exOrc "en".toList 3 ⟨none, []⟩ exLoc) := by
  decide +kernel

/-- groups of the example -/
example : basesOf exKeys = ["days".toList, "nth".toList, "x".toList] ∧
    mergedBases exKeys = ["days".toList, "nth".toList] ∧
    (survivors exKeys).map Prod.fst = ["menu".toList, "title".toList, "x_other".toList] ∧
    (candsOf exKeys "days".toList).map (fun x => (x.1, x.2.1)) =
      [(.one, "days_one".toList), (.few, "days_few".toList), (.other, "days_other".toList)] := by
  decide +kernel

/-- the error cases, through the specification: a base that is a keyword, cardinal and ordinal forms
    under one base (with `other`: error; without `other`: ordinary keys), an existing key named like
    the base, two keys on one slot -/
example :
    exView (specAll exOrc "en".toList 1 ⟨none, []⟩
      (.mk [] [] [("for_one".toList, exLit "a"), ("for_other".toList, exLit "b")] [] 0)) = ⟨[], [], "InvalidKey"⟩ ∧
    exView (specAll exOrc "en".toList 1 ⟨none, []⟩
      (.mk [] [] [("n_one".toList, exLit "a"), ("n_ordinal_other".toList, exLit "b")] [] 0))
        = ⟨[], [], "ConflictingPluralRuleType"⟩ ∧
    exView (specAll exOrc "en".toList 1 ⟨none, []⟩
      (.mk [] [] [("n_one".toList, exLit "a"), ("n_ordinal_two".toList, exLit "b")] [] 0))
        = ⟨[⟨"n_one".toList, none, []⟩, ⟨"n_ordinal_two".toList, none, []⟩], [], ""⟩ ∧
    exView (specAll exOrc "en".toList 1 ⟨none, []⟩
      (.mk [] [] [("n".toList, exLit "c"), ("n_one".toList, exLit "a"), ("n_other".toList, exLit "b")] [] 0))
        = ⟨[], [], "PluralsAtNormalKey"⟩ ∧
    exView (specAll exOrc "en".toList 1 ⟨none, []⟩
      (.mk [] [] [("n_one".toList, exLit "a"), ("n_ordinal_one".toList, exLit "b")] [] 0))
        = ⟨[], [], "ConflictingPluralRuleType"⟩ ∧
    exView (specAll exOrc "fr".toList 1 ⟨none, []⟩
      (.mk [] [] [("n_one".toList, exLit "a"), ("n_other".toList, exLit "b")] [] 0))
        = ⟨[], [], "InvalidLocale"⟩ := by
  decide +kernel

/-- a form key that is itself a merged base: `x_one` is a form of `x` and the base of
    `x_one_one`, `x_one_other` -/
example : exView (specAll exOrc "en".toList 1 ⟨none, []⟩
      (.mk [] [] [("x_one".toList, exLit "a"), ("x_one_one".toList, exLit "c"),
        ("x_one_other".toList, exLit "d"), ("x_other".toList, exLit "b")] [] 0))
    = ⟨[⟨"x".toList, some (.cardinal, "var_count".toList, [.one]), []⟩,
        ⟨"x_one".toList, some (.cardinal, "var_count".toList, [.one]), []⟩], [], ""⟩ := by
  decide +kernel

/-- **why `NoWs` is needed** (not reachable from decoding, where every key went through `Key::new`):
    with a key name that starts with white space the *model* lets the put-back of a later group
    overwrite an earlier merged key silently -/
example : exView (mergePlurals exOrc "en".toList 1 ⟨none, []⟩
      (.mk [] [] [(" x_one_one".toList, exLit "c"), (" x_one_other".toList, exLit "d"),
        ("x_one".toList, exLit "a")] [] 0))
    = ⟨[⟨"x_one".toList, none, []⟩], [], ""⟩ := by
  decide +kernel

end I18nVerif.PluralMap
