import I18nVerif.Proofs.Plurals
/-!
# C05 — Plural forms are selected by the locale's CLDR plural rules

Model: `Model/Plurals.lean` (`is_possible_plural`, `merge_plurals`, `check_forms`),
`Model/Foreign.lean` (`Plurals::populate_with_count_arg`), denotation `Spec/Eval.lean`;
specification `Spec/PluralSpec.lean`.  CLDR (ICU4X data) is an oracle: `Oracle.cats/cat` at parse
time, `Env.cat` at run time — *modelled, not verified*.
Every theorem quantifies over all keys / values / candidate lists / oracles / environments.
-/
namespace I18nVerif.Plurals
open I18nVerif Str PluralSpec Foreign Eval

/-! ## 9. Which keys are plural forms -/

/-- `rsplit_once('_')` cuts at the last `_`; `strip_suffix` removes exactly a suffix -/
theorem C05_split_lemmas (d : Char) (s a b pat : Str) :
    (rsplitOnceC d s = some (a, b) ↔ s = a ++ d :: b ∧ d ∉ b) ∧
    (d ∉ s → rsplitOnceC d s = none) ∧
    (stripSuffix pat s = some b ↔ s = b ++ pat) ∧
    (stripSuffix pat s = none ↔ ¬ ∃ b, s = b ++ pat) :=
  ⟨rsplitOnceC_iff, rsplitOnceC_none, stripSuffix_iff, stripSuffix_none_iff⟩

/-- the six form names, and none of them contains `_` (so the last `_` of a plural key is the one
    before the form name) -/
theorem C05_form_names (s : Str) (f : Form) :
    (Form.ofStr s = some f ↔ s = f.name.toList) ∧ '_' ∉ f.name.toList ∧
    f.name ∈ ["zero", "one", "two", "few", "many", "other"] :=
  ⟨ofStr_iff, form_name_no_underscore f, by cases f <;> decide⟩

/-- **Suffix parse.** `is_possible_plural key v = (base, rule, form)` exactly when `v` is a plain
    value (not ranges, subkeys or an explicit default) and `key` is spelled
    `base ++ ("_ordinal")? ++ "_" ++ form`, where for a cardinal reading `base` does not itself end
    in `_ordinal` (the code strips `_ordinal` whenever it is present: longest-suffix reading).
    Both directions. -/
theorem C05_suffix_parse (key : Str) (v : PV) (base : Str) (rule : RuleTy) (form : Form) :
    isPossiblePlural key v = some (base, rule, form) ↔
      plainValue v = true ∧ key = pluralKey base rule form ∧
      (rule = .cardinal → ¬ ∃ b, base = b ++ ordinalMark) := by
  rw [isPossiblePlural_eq]
  cases hp : plainValue v
  · simp
  · simp only [if_true, true_and]
    exact suffixParse_iff key base rule form

/-- what the spelling is, concretely -/
theorem C05_plural_key_spelling (base : Str) (form : Form) :
    pluralKey base .cardinal form = base ++ '_' :: form.name.toList ∧
    pluralKey base .ordinal form = base ++ ordinalMark ++ '_' :: form.name.toList ∧
    ordinalMark = "_ordinal".toList := by
  refine ⟨?_, ?_, rfl⟩ <;> simp [pluralKey, suffix, ruleMark]

/-- a key with no `_`, or whose last `_`-separated piece is not a form name, is not a plural form -/
theorem C05_not_plural (key : Str) (v : PV) :
    ('_' ∉ key → isPossiblePlural key v = none) ∧
    (∀ a b, key = a ++ '_' :: b → '_' ∉ b → (∀ f : Form, b ≠ f.name.toList) → isPossiblePlural key v = none) := by
  constructor
  · intro h
    rw [isPossiblePlural_eq, suffixParse, rsplitOnceC_none h]; simp
  · intro a b hk hb hf
    rw [isPossiblePlural_eq, suffixParse, rsplitOnceC_iff.mpr ⟨hk, hb⟩]
    have : Form.ofStr b = none := by
      cases h : Form.ofStr b with
      | none => rfl
      | some f => exact absurd (ofStr_iff.mp h) (hf f)
    simp [this]

/-- keys "differ only by the suffix": the key is determined by `(base, rule, form)`, so two
    *different* keys that land on the same base and form have different rule types -/
theorem C05_same_slot_means_mixed (k k' : Str) (v v' : PV) (base : Str) (r r' : RuleTy) (f : Form)
    (h : isPossiblePlural k v = some (base, r, f)) (h' : isPossiblePlural k' v' = some (base, r', f))
    (hne : k ≠ k') : r ≠ r' := by
  rintro rfl
  have e1 := ((C05_suffix_parse k v base r f).mp h).2.1
  have e2 := ((C05_suffix_parse k' v' base r f).mp h').2.1
  exact hne (e1.trans e2.symm)

/-! ## 10. Collecting the candidates of a base key -/

/-- `BTreeMap::insert` on the candidates of a base key: the list stays sorted by form (hence
    without duplicates), `displaced` is reported exactly when the form was already present, the
    new entry is in, the others are kept, and without displacement the list grows by one -/
theorem C05_cand_insert (f : Form) (e : Str × RuleTy × PV) (cs : Cands) (hs : FormsSorted cs) :
    FormsSorted (candInsert f e cs).1 ∧
    ((candInsert f e cs).2 = true ↔ ∃ x ∈ cs, x.1 = f) ∧
    (∀ y, y ∈ (candInsert f e cs).1 ↔ y = (f, e) ∨ (y ∈ cs ∧ y.1 ≠ f)) ∧
    ((candInsert f e cs).2 = false → (candInsert f e cs).1.length = cs.length + 1) :=
  candInsert_spec f e cs hs

/-- one step of the first loop of `merge_plurals` on a plural-form key: if the slot
    `(base, form)` is already taken the whole merge fails with `ConflictingPluralRuleType`
    (by `C05_same_slot_means_mixed` the two keys mix cardinal and ordinal), otherwise the key joins
    the candidates of `base` and is removed from the ordinary keys -/
theorem C05_loop_candidate (orc : Oracle) (locale : Str) (fuel : Nat) (path : KeyPath) (k : Str) (v : PV)
    (rest acc : List (Str × PV)) (groups : List (Str × Cands)) (ws : List Warning)
    (base : Str) (rule : RuleTy) (form : Form) (hp : isPossiblePlural k v = some (base, rule, form)) :
    ((∃ x ∈ (AMap.get? base groups).getD [], x.1 = form) → FormsSorted ((AMap.get? base groups).getD []) →
      mergePlurals.loop orc locale fuel path ((k, v) :: rest) acc groups ws = .err "ConflictingPluralRuleType") ∧
    ((¬ ∃ x ∈ (AMap.get? base groups).getD [], x.1 = form) → FormsSorted ((AMap.get? base groups).getD []) →
      mergePlurals.loop orc locale fuel path ((k, v) :: rest) acc groups ws =
        mergePlurals.loop orc locale fuel path rest acc
          (AMap.insert' base (candInsert form (k, rule, v) ((AMap.get? base groups).getD [])).1 groups) ws) := by
  constructor
  · intro hex hs
    rw [loop_candidate _ _ _ _ _ _ _ _ _ _ _ _ _ hp, if_pos ((candInsert_spec _ _ _ hs).2.1.mpr hex)]
  · intro hex hs
    have : (candInsert form (k, rule, v) ((AMap.get? base groups).getD [])).2 = false := by
      cases hd : (candInsert form (k, rule, v) ((AMap.get? base groups).getD [])).2
      · rfl
      · exact absurd ((candInsert_spec _ _ _ hs).2.1.mp hd) hex
    rw [loop_candidate _ _ _ _ _ _ _ _ _ _ _ _ _ hp, this]
    simp

/-- a key that is not a plural form (and not a nested locale) stays an ordinary key; an error of
    the first loop is the error of `merge_plurals` -/
theorem C05_loop_ordinary (orc : Oracle) (locale : Str) (fuel : Nat) (path : KeyPath) (k : Str) (v : PV)
    (rest acc : List (Str × PV)) (groups : List (Str × Cands)) (ws : List Warning)
    (hv : ∀ sub, v ≠ .subkeys (some sub)) (hp : isPossiblePlural k v = none) :
    mergePlurals.loop orc locale fuel path ((k, v) :: rest) acc groups ws =
      mergePlurals.loop orc locale fuel path rest (AMap.insert' k v acc) groups ws :=
  loop_ordinary orc locale fuel path k v rest acc groups ws hv hp

theorem C05_merge_two_phases (orc : Oracle) (locale : Str) (fuel : Nat) (path : KeyPath)
    (n t : Str) (keys : List (Str × PV)) (s : List Str) (c : Nat) :
    mergePlurals orc locale (fuel + 1) path (.mk n t keys s c) =
      match mergePlurals.loop orc locale fuel path keys [] [] [] with
      | .err e => .err e
      | .panic p => .panic p
      | .ok (acc, groups, ws) =>
        match finishGroups orc locale path groups acc ws with
        | .ok (keys', ws') => .ok (.mk n t keys' s c, ws')
        | .err e => .err e
        | .panic p => .panic p :=
  mergePlurals_succ orc locale fuel path n t keys s c

/-- **Invariant of the first loop** (all keys, nested locales included, any fuel): when it
    succeeds, every candidate group `(base, cands)` is sorted by form — so no form occurs twice — and
    consists exactly of entries `(form, key, rule, value)` where `(key, value)` is one of the
    locale's own keys and `key` is spelled `base ++ suffix rule form` (`C05_suffix_parse`): the keys
    that differ only by the plural suffix are the ones grouped together. -/
theorem C05_loop_groups (orc : Oracle) (locale : Str) (fuel : Nat) (path : KeyPath) (keys : List (Str × PV))
    (acc : List (Str × PV)) (groups : List (Str × Cands)) (ws : List Warning)
    (h : mergePlurals.loop orc locale fuel path keys [] [] [] = .ok (acc, groups, ws)) :
    ∀ base cands, (base, cands) ∈ groups →
      FormsSorted cands ∧
      ∀ x ∈ cands, (x.2.1, x.2.2.2) ∈ keys ∧ plainValue x.2.2.2 = true ∧
        x.2.1 = pluralKey base x.2.2.1 x.1 := by
  have hinv := loop_inv orc locale fuel path (fun k v => (k, v) ∈ keys) keys [] [] [] acc groups ws
    (fun kv hkv => hkv) (fun _ _ hm => by simp at hm) h
  intro base cands hm
  obtain ⟨hs, hall⟩ := hinv base cands hm
  refine ⟨hs, fun x hx => ?_⟩
  obtain ⟨h1, h2⟩ := hall x hx
  have := (C05_suffix_parse _ _ _ _ _).mp h1
  exact ⟨h2, this.1, this.2.1⟩

/-- the key map after inserting the merged key: it holds the plural at `key`, every other key is
    untouched -/
theorem C05_key_map_gains (key : Str) (pl : PV) (keys : List (Str × PV)) :
    AMap.get? key (AMap.insert' key pl keys) = some pl ∧
    ∀ k, k ≠ key → AMap.get? k (AMap.insert' key pl keys) = AMap.get? k keys :=
  ⟨get?_insert'_self key pl keys, fun k hk => get?_insert'_other key k pl hk keys⟩

/-! ## 11. Turning one group of candidates into a plural key -/

/-- **One group.**  `(base, cands)` with `cands` sorted by form:
    * a single candidate, or no `other` form ⇒ every candidate is put back under its own key,
      nothing else changes;
    * otherwise, in this order: `base` is not a valid key ⇒ `InvalidKey`; some non-`other`
      candidate has a rule type different from the `other` candidate's ⇒
      `ConflictingPluralRuleType`; the locale is unknown to CLDR ⇒ `InvalidLocale`; `base` already
      is a key ⇒ `PluralsAtNormalKey`;
    * else the key map gains `base ↦ Plurals(rule, "var_count", other, forms)` where `forms` are
      the non-`other` candidates in form order, and the warnings gain exactly `check_forms`' list. -/
theorem C05_finish_group (orc : Oracle) (locale : Str) (path : KeyPath) (base : Str) (cands : Cands)
    (rest : List (Str × Cands)) (keys : List (Str × PV)) (ws : List Warning) :
    ((cands.length = 1 ∨ cands.find? (fun x => x.1 == .other) = none) →
      finishGroups orc locale path ((base, cands) :: rest) keys ws
        = finishGroups orc locale path rest (putBack keys cands) ws) ∧
    (∀ fo ko ruleTy other, cands.length ≠ 1 →
      cands.find? (fun x => x.1 == .other) = some (fo, ko, ruleTy, other) →
      (Key.new base = none →
        finishGroups orc locale path ((base, cands) :: rest) keys ws = .err "InvalidKey") ∧
      (∀ key, Key.new base = some key →
        ((∃ x ∈ cands, x.1 ≠ .other ∧ x.2.2.1 ≠ ruleTy) →
          finishGroups orc locale path ((base, cands) :: rest) keys ws = .err "ConflictingPluralRuleType") ∧
        ((∀ x ∈ cands, x.1 ≠ .other → x.2.2.1 = ruleTy) →
          (orc.cats locale ruleTy = none →
            finishGroups orc locale path ((base, cands) :: rest) keys ws = .err "InvalidLocale") ∧
          (∀ cats, orc.cats locale ruleTy = some cats →
            let pl := PV.plurals ruleTy "var_count".toList other (formsOf cands)
            ((AMap.insert key pl keys).2.isSome = true →
              finishGroups orc locale path ((base, cands) :: rest) keys ws = .err "PluralsAtNormalKey") ∧
            ((AMap.insert key pl keys).2.isSome = false →
              finishGroups orc locale path ((base, cands) :: rest) keys ws =
                finishGroups orc locale path rest (AMap.insert' key pl keys)
                  (ws ++ (unused cats (formsOf cands)).map
                    (fun f => Warning.unusedForm locale (pushKey path key) f ruleTy))))))) := by
  constructor
  · rintro (h | h)
    · exact finish_single orc locale path base cands rest keys ws h
    · exact finish_no_other orc locale path base cands rest keys ws h
  · intro fo ko ruleTy other hl hf
    have hm := finish_merge orc locale path base cands rest keys ws fo ko ruleTy other hl hf
    constructor
    · intro hk; rw [hm, hk]
    · intro key hk
      rw [hk] at hm
      simp only at hm
      constructor
      · rintro ⟨x, hx, h1, h2⟩
        have : (othersOf cands).any (fun x => x.2.2.1 != ruleTy) = true :=
          List.any_eq_true.mpr ⟨x, by simp [othersOf, hx, h1], by simpa using h2⟩
        rw [hm, if_pos this]
      · intro hall
        have : ¬ (othersOf cands).any (fun x => x.2.2.1 != ruleTy) = true := by
          intro h
          obtain ⟨x, hx, h2⟩ := List.any_eq_true.mp h
          simp only [othersOf, List.mem_filter, bne_iff_ne, ne_eq] at hx
          exact absurd (hall x hx.1 hx.2) (by simpa using h2)
        rw [if_neg this] at hm
        constructor
        · intro hc
          rw [hm, checkForms_err _ _ _ _ _ hc]
        · intro cats hc pl
          rw [checkForms_ok _ _ _ _ _ cats hc] at hm
          simp only at hm
          constructor
          · intro hd; rw [hm, if_pos hd]
          · intro hd; rw [hm, hd]; rfl

/-- the forms of the merged key: no `other` among them, sorted by form (so each form at most once),
    and they are exactly the non-`other` candidates' values; in a sorted group the `other`
    candidate is the last one -/
theorem C05_merged_forms (cands : Cands) (hs : FormsSorted cands) :
    (∀ x ∈ formsOf cands, x.1 ≠ .other) ∧
    (formsOf cands).Pairwise (fun a b => a.1.toNat < b.1.toNat) ∧
    (∀ f v, (f, v) ∈ formsOf cands ↔ f ≠ .other ∧ ∃ k r, (f, k, r, v) ∈ cands) ∧
    (∀ x, cands.find? (fun y => y.1 == .other) = some x → x.1 = .other ∧ cands = othersOf cands ++ [x]) :=
  ⟨formsOf_no_other cands, formsOf_sorted cands hs, formsOf_mem cands, sorted_other_last cands hs⟩

/-- "already a key": a displaced value is the value the key map had at `base` -/
theorem C05_displaced_is_existing (k : Str) (v v' : PV) (m : List (Str × PV))
    (h : (AMap.insert k v m).2 = some v') : AMap.get? k m = some v' :=
  insert_displaced_get k v v' m h

/-! ## 12. Unused forms -/

/-- `check_forms`: one `UnusedForm` warning per written form that is not among the locale's
    categories for the rule type, in the order of the forms, none for the others;
    `InvalidLocale` exactly when CLDR has no rules for the locale -/
theorem C05_unused_forms (orc : Oracle) (locale : Str) (path : KeyPath) (rule : RuleTy) (forms : List (Form × PV)) :
    (∀ cats, orc.cats locale rule = some cats →
      checkForms orc locale path rule forms
        = .ok ((unused cats forms).map (fun f => Warning.unusedForm locale path f rule)) ∧
      ∀ f, f ∈ unused cats forms ↔ (∃ v, (f, v) ∈ forms) ∧ f ∉ cats) ∧
    (checkForms orc locale path rule forms = .err "InvalidLocale" ↔ orc.cats locale rule = none) := by
  constructor
  · intro cats hc
    refine ⟨checkForms_ok orc locale path rule forms cats hc, fun f => ?_⟩
    simp only [unused, List.mem_filter, List.mem_map, List.contains_eq_mem, Bool.not_eq_true',
      decide_eq_false_iff_not]
    constructor
    · rintro ⟨⟨⟨f', v⟩, hm, rfl⟩, hn⟩; exact ⟨⟨v, hm⟩, hn⟩
    · rintro ⟨⟨v, hm⟩, hn⟩; exact ⟨⟨(f, v), hm, rfl⟩, hn⟩
  · constructor
    · intro h
      cases hc : orc.cats locale rule with
      | none => rfl
      | some cats => rw [checkForms_ok _ _ _ _ _ cats hc] at h; cases h
    · exact checkForms_err orc locale path rule forms

/-! ## 13. Rendering -/

/-- **Run time.** a plural key renders the form CLDR assigns to the count (`Env.cat`, for the key's
    rule type) if that form was written, otherwise `other` -/
theorem C05_render_plural (ρ : Env) (rule : RuleTy) (ck : Str) (other : PV) (forms : List (Form × PV)) :
    eval ρ (.plurals rule ck other forms) = eval ρ (pick (ρ.cat rule (ρ.count ck)) forms other) :=
  eval_plurals_pick ρ rule ck other forms

/-- `pick`: a written form is chosen (the first entry, the only one when forms are not repeated),
    an unwritten one falls back to `other` -/
theorem C05_pick (f : Form) (forms : List (Form × PV)) (other v : PV) :
    ((∀ x ∈ forms, x.1 ≠ f) → pick f forms other = other) ∧
    ((f, v) ∈ forms → forms.Pairwise (fun a b => a.1.toNat < b.1.toNat) → pick f forms other = v) := by
  refine ⟨pick_other_absent forms other f, ?_⟩
  intro hm hs
  induction forms with
  | nil => simp at hm
  | cons x xs ih =>
    obtain ⟨f', v'⟩ := x
    by_cases hf : f' = f
    · subst hf
      simp only [pick, if_true]
      rcases List.mem_cons.mp hm with h | h
      · simp only [Prod.mk.injEq] at h; exact h.2.symm
      · have := (List.pairwise_cons.mp hs).1 _ h
        simp at this
    · simp only [pick, hf, if_false]
      rcases List.mem_cons.mp hm with h | h
      · simp only [Prod.mk.injEq] at h; exact absurd h.1.symm hf
      · exact ih h (List.pairwise_cons.mp hs).2

/-- **Parse time = run time.**  A numeric literal `count` argument whose CLDR category (the oracle's
    answer for the locale and the key's rule type) is `f`: `populate` yields `populate` of the form
    `pick f forms other` — the very form the run-time accessor renders for any count of category
    `f`.  (`forms` holds no `other` entry: `C05_merged_forms`.) -/
theorem C05_parse_time_eq_run_time (orc : Oracle) (locale : Str) (args : List (Str × PV)) (rule : RuleTy)
    (ck : Str) (other : PV) (forms : List (Form × PV)) (l : Lit) (cs : List Form) (f : Form)
    (harg : AMap.get? countArgName args = some (.lit l)) (hl : numericLit l = true)
    (hcats : orc.cats locale rule = some cs) (hcat : orc.cat locale rule (operandKey l) = some f)
    (hno : ∀ x ∈ forms, x.1 ≠ .other) :
    populate orc locale args (.plurals rule ck other forms) = populate orc locale args (pick f forms other) ∧
    ∀ ρ, ρ.cat rule (ρ.count ck) = f →
      eval ρ (.plurals rule ck other forms) = eval ρ (pick f forms other) := by
  refine ⟨populate_plurals_lit orc locale args rule ck other forms l cs f harg hl hcats hcat hno, ?_⟩
  intro ρ hρ
  rw [C05_render_plural, hρ]

/-- the error side of the parse-time path: a string or boolean count is `InvalidCountArg`, an
    unknown locale `InvalidLocale` -/
theorem C05_populate_count_errors (orc : Oracle) (locale : Str) (args : List (Str × PV)) (rule : RuleTy)
    (ck : Str) (other : PV) (forms : List (Form × PV)) (l : Lit)
    (harg : AMap.get? countArgName args = some (.lit l)) :
    (numericLit l = false → populate orc locale args (.plurals rule ck other forms) = .err "InvalidCountArg") ∧
    (numericLit l = true → orc.cats locale rule = none →
      populate orc locale args (.plurals rule ck other forms) = .err "InvalidLocale") := by
  constructor
  · intro h
    cases l <;> simp [numericLit] at h <;> simp [populate, harg]
  · intro h hc
    cases l <;> simp [numericLit] at h <;> simp [populate, harg, hc]

/-! ## Examples -/

private def orcEn : Oracle :=
  ⟨fun l r => if l == "en".toList then (match r with | .cardinal => some [.one, .other] | .ordinal => some [.one, .two, .few, .other]) else none,
   fun _ _ k => if k == "u:1".toList then some .one else some .other⟩

private def a : PV := .lit (.str ['a'] none)
private def b : PV := .lit (.str ['b'] none)
private def c : PV := .lit (.str ['c'] none)

example : isPossiblePlural "n_one".toList a = some ("n".toList, .cardinal, .one) := by decide
example : isPossiblePlural "n_ordinal_few".toList a = some ("n".toList, .ordinal, .few) := by decide
example : isPossiblePlural "n_ordinal".toList a = none ∧ isPossiblePlural "n_one".toList .dflt = none := by decide

/-- a decidable summary of a merge result: key names with the shape of each merged plural, warnings -/
private def summary : Res (Loc × List Warning) →
    Option (List (Str × Option (RuleTy × Str × List Form)) × List (Option Form)) × String
  | .ok (l, ws) => (some (l.keys.map (fun kv => (kv.1, match kv.2 with
      | .plurals r ck _ fs => some (r, ck, fs.map (·.1))
      | _ => none)), ws.map (fun w => match w with | .unusedForm _ _ f _ => some f | _ => none)), "")
  | .err e => (none, e)
  | .panic _ => (none, "panic")

set_option synthInstance.maxSize 1024

/-- en `{one, other}` merges into one key, no warning -/
example : summary (mergePlurals orcEn "en".toList 1 ⟨none, []⟩
      (.mk "en".toList "en".toList [("n_one".toList, a), ("n_other".toList, b)] [] 0))
    = (some ([("n".toList, some (.cardinal, "var_count".toList, [.one]))], []), "") := by
  decide +kernel

/-- a form English never selects is reported as unused -/
example : summary (mergePlurals orcEn "en".toList 1 ⟨none, []⟩
      (.mk "en".toList "en".toList [("n_few".toList, c), ("n_one".toList, a), ("n_other".toList, b)] [] 0))
    = (some ([("n".toList, some (.cardinal, "var_count".toList, [.one, .few]))], [some .few]), "") := by
  decide +kernel

/-- mixing cardinal and ordinal forms under one key, and colliding with an existing key -/
example : summary (mergePlurals orcEn "en".toList 1 ⟨none, []⟩
      (.mk "en".toList "en".toList [("n_one".toList, a), ("n_ordinal_other".toList, b)] [] 0))
    = (none, "ConflictingPluralRuleType") := by decide +kernel
example : summary (mergePlurals orcEn "en".toList 1 ⟨none, []⟩
      (.mk "en".toList "en".toList [("n".toList, c), ("n_one".toList, a), ("n_other".toList, b)] [] 0))
    = (none, "PluralsAtNormalKey") := by decide +kernel

/-- parse-time selection with the literal count `1` (category `one`) and `2` (category `other`) -/
example : (match populate orcEn "en".toList [("var_count".toList, .lit (.unsigned 1))]
      (.plurals .cardinal "var_count".toList b [(.one, a)]) with
    | .ok (.lit (.str s _)) => some s
    | _ => none) = some ['a'] ∧
    (match populate orcEn "en".toList [("var_count".toList, .lit (.unsigned 2))]
      (.plurals .cardinal "var_count".toList b [(.one, a)]) with
    | .ok (.lit (.str s _)) => some s
    | _ => none) = some ['b'] := by
  decide +kernel

end I18nVerif.Plurals
