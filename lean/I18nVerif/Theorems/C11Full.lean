import I18nVerif.Theorems.C11
import I18nVerif.Proofs.TablesAll
import I18nVerif.Model.Pipeline
import I18nVerif.Proofs.FreshResolve
/-!
# C11 (full) — the string table of **every** locale matches the indices stored in its values

Completes `Theorems/C11.lean`: `C11_locale_tables` proves `C11_locale_tables_full_statement`
(every locale position `i`, not only the default locale), by an invariant through
`mergeValue` / `mergeKeys` / `mergeLocale` (`Proofs/TablesAll.lean`).

Vocabulary: `Valid tbl (strLits v)` — every string literal of `v` that carries an index `i`
has `tbl[i] = its text` (`Spec/Index.lean`); `KeysValid`, `TreeValid i` (`Spec/Tables.lean`);
`lvAt` / `nodeAt` — the builder key / nested `Subkeys` node at a key path (`Spec/BkiPath.lean`);
`NDLoc`, `BKI.WF` — distinct keys at every level (`Spec/Diagnostics.lean`, established by
`makeBuilderKeys`, preserved by merges: `Theorems/C07.lean`).

Hypotheses, and where they come from:
* `FreshK l.keys` (decidable): no literal of the input locale carries an index yet — what
  `ParsedValue::new` produces (`usize::MAX`, `Model/Parse.lean:220`, `litToPV`); `reduce` keeps it
  (`C11_reduce_fresh`).  It is a hypothesis on the input of `check_locales_inner`, and it is
  **established by the stages before**: `C11_parse_fresh`, `C11_decode_fresh`,
  `C11_merge_plurals_fresh`, `C11_resolve_fresh`, `C11_resolved_fresh` (so `C11_run_tables_distinct`
  has no freshness hypothesis).
* `DistinctLoc l` (decidable) / `NDLoc fuel dl`: the keys of the default locale are distinct at
  every level — locales are `BTreeMap`s; `Decode.value.localeKeys` rejects duplicates.  Only needed
  for the **default** locale (`C11_locale_tables_nd`).  Discharged on the pipeline in
  `Theorems/C11Pipeline.lean` (`C11_pipeline`: well-formed configuration only).
-/
namespace I18nVerif.Check
open I18nVerif Spec.Diagnostics

/-! ## the two association-list facts the invariant rests on -/

/-- inserting under key `k` does not change what any other key reads -/
theorem C11_insert_noninterference {α} {k k' : Str} (h : k' ≠ k) (v : α) (m : List (Str × α)) :
    AMap.get? k' (AMap.insert' k v m) = AMap.get? k' m :=
  AMap.get?_insert_ne h v m

/-- an entry of the map after an insertion is the inserted one or was there before -/
theorem C11_insert_mem {α} {k : Str} {v : α} (m : List (Str × α)) (x : Str × α)
    (h : x ∈ AMap.insert' k v m) : x = (k, v) ∨ x ∈ m :=
  AMap.mem_of_mem_insert' m x h

/-- the executable, structural distinctness check implies `NDLoc n` for every depth `n`
    (`reduce` keeps the key names of a group and its distinctness) -/
theorem C11_distinct_imp_nd (n : Nat) (l : Loc) (h : DistinctLoc l = true) : NDLoc n l :=
  NDLoc_of_distinct n l h

/-! ## one merge -/

/-- **One `Locale::merge`, any depth, any fuel.**  Merging a freshly parsed locale into well-formed
    builder keys whose nested `Subkeys` nodes all hold `n` locales: the table only grows at the end
    and stays duplicate-free; every index stored in the returned locale's key map reads its own
    text from the final table; and so does every value of the locale this merge appended — at
    position `n` — to every nested `Subkeys` node, at any depth. -/
theorem C11_mergeLocale_tables {suppress : Bool} {top : Str} {dto : DefaultTo} {fuel : Nat} {path : KeyPath}
    {loc : Loc} {bki : BKI} {st : St} {loc' : Loc} {bki' : BKI} {st' : St} {n : Nat}
    (h : mergeLocale suppress top dto fuel path loc bki st = .ok (loc', bki', st'))
    (hf : FreshK loc.keys = true) (hwf : BKI.WF bki) (hl : lensBKI n bki = true) :
    st.strings <+: st'.strings ∧ (st.strings.Nodup → st'.strings.Nodup)
      ∧ KeysValid st'.strings loc'.keys ∧ TreeValid n st'.strings bki' :=
  mergeLocale_tab suppress top dto fuel path loc bki st loc' bki' st' n h hf hwf hl

/-- a merge leaves the positions `j < n` of every nested node alone (from `Proofs/TablesGlue.lean`) -/
theorem C11_mergeLocale_keeps_earlier {suppress : Bool} {top : Str} {dto : DefaultTo} {fuel : Nat} {path : KeyPath}
    {loc : Loc} {bki : BKI} {st : St} {loc' : Loc} {bki' : BKI} {st' : St}
    (h : mergeLocale suppress top dto fuel path loc bki st = .ok (loc', bki', st'))
    {n : Nat} (hl : lensBKI n bki = true) {j : Nat} (hj : j < n) {T : List Str} (ht : TreeValid j T bki) :
    TreeValid j T bki' :=
  mergeLocale_keep suppress top dto fuel path loc bki st loc' bki' st' h n hl j hj T ht

/-! ## every locale, end to end -/

/-- **Every locale** (sharp hypotheses): the default locale's keys are distinct at every level
    down to the fuel, and no input literal carries an index.  Then for every position `i` of the
    result of `check_locales_inner`: the table of locale `i` is duplicate-free, every index stored
    in its values reads the value's own text, and so does every value of the `i`-th locale of
    every nested `Subkeys` node of the builder keys, at any depth. -/
theorem C11_locale_tables_nd {suppress : Bool} {fuel : Nat} {inherits : List (Str × Str)} {ns : Option Str}
    {dl : Loc} {others : List Loc} {ws : List Warning} {locales : List Loc} {bki : BKI} {ws' : List Warning}
    (h : checkLocalesInner suppress fuel inherits ns (dl :: others) ws = .ok (locales, bki, ws'))
    (hnd : NDLoc fuel dl) (hf : ∀ l ∈ dl :: others, FreshK l.keys = true) :
    ∀ i L, locales[i]? = some L →
      L.strings.Nodup ∧ KeysValid L.strings L.keys ∧ TreeValid i L.strings bki :=
  checkLocalesInner_tables suppress fuel inherits ns dl others ws locales bki ws' h hnd hf

/-- **The full statement of `Theorems/C11.lean`, proved.** -/
theorem C11_locale_tables : C11_locale_tables_full_statement := by
  intro suppress fuel inherits ns locs ws locales bki ws' h hyp i L hi
  cases locs with
  | nil => simp [checkLocalesInner] at h
  | cons dl others =>
    exact checkLocalesInner_tables suppress fuel inherits ns dl others ws locales bki ws' h
      (NDLoc_of_distinct fuel dl (hyp dl (by simp)).2) (fun l hl => (hyp l hl).1) i L hi

/-- **What the generated accessors read.**  For every top-level locale `L` (position `i`) of a
    successful `check_locales_inner`:
    * its table is duplicate-free and `L.count` is its length;
    * every value of its own key map has only indices that read the value's own text from `L.strings`;
    * at every key path `p` leading to a nested `Subkeys` node of the builder keys (any depth), the
      node holds a locale `l` at the same position `i`, `l.count = L.strings.length`, and every value
      of `l` has only indices that read the value's own text from `L.strings` (the **top-level**
      table — nested locales keep `strings = []`). -/
theorem C11_accessors_read_their_text {suppress : Bool} {fuel : Nat} {inherits : List (Str × Str)} {ns : Option Str}
    {locs : List Loc} {ws : List Warning} {locales : List Loc} {bki : BKI} {ws' : List Warning}
    (h : checkLocalesInner suppress fuel inherits ns locs ws = .ok (locales, bki, ws'))
    (hyp : ∀ l ∈ locs, FreshK l.keys = true ∧ DistinctLoc l = true)
    {i : Nat} {L : Loc} (hi : locales[i]? = some L) :
    L.strings.Nodup ∧ L.count = L.strings.length ∧
    (∀ k v, AMap.get? k L.keys = some v → Valid L.strings (strLits v)) ∧
    (∀ p ls ks, nodeAt bki p = some (ls, ks) →
      ∃ l, ls[i]? = some l ∧ l.count = L.strings.length ∧
        ∀ k v, AMap.get? k l.keys = some v → Valid L.strings (strLits v)) := by
  obtain ⟨t1, t2, t3⟩ := C11_locale_tables suppress fuel inherits ns locs ws locales bki ws' h hyp i L hi
  obtain ⟨c1, c2, c3, c4, _⟩ := C11_table_length h
  have hmem : L ∈ locales := List.mem_of_getElem? hi
  have hcnt := c2 L hmem
  refine ⟨t1, hcnt, fun k v hg => t2.get hg, ?_⟩
  intro p ls ks hn
  unfold nodeAt at hn
  cases hlv : lvAt bki p with
  | none => simp [hlv] at hn
  | some lv =>
    cases lv with
    | value iol d => simp [hlv] at hn
    | subkeys ls0 ks0 =>
      simp only [hlv, Option.some.injEq, Prod.mk.injEq] at hn
      obtain ⟨rfl, rfl⟩ := hn
      obtain ⟨o1, o2, o3⟩ := lvAt_ok p bki _ hlv t3 c3 c4
      simp only [TreeValidLV] at o1
      simp only [lensLV, Bool.and_eq_true, beq_iff_eq] at o2
      simp only [countsEqLV, Bool.and_eq_true, beq_iff_eq] at o3
      have hilt : i < locales.length := (List.getElem?_eq_some_iff.mp hi).1
      have hl : i < ls0.length := by omega
      refine ⟨ls0[i], List.getElem?_eq_getElem hl, ?_, fun k v hg => (o1.1 _ (List.getElem?_eq_getElem hl)).get hg⟩
      have e1 : (ls0.map Loc.count)[i]? = (locales.map Loc.count)[i]? := by rw [o3.1]
      simp only [List.getElem?_map, List.getElem?_eq_getElem hl, hi, Option.map_some, Option.some.injEq] at e1
      rw [e1, hcnt]

/-! ## all namespaces -/

/-- **The whole `check_locales` stage of the pipeline** (`Pipeline.checkAll`, the model's fuel):
    in every namespace of the output, every locale's table is duplicate-free and agrees with every
    index stored in that locale's values, top level and inside every nested `Subkeys` node. -/
theorem C11_pipeline_tables (inp : Pipeline.Input) :
    ∀ (nss : List NS) (ws : List Warning) (outs : List Pipeline.NsOut) (ws' : List Warning),
      Pipeline.checkAll inp nss ws = .ok (outs, ws') →
      (∀ ns ∈ nss, ∀ l ∈ ns.locales, FreshK l.keys = true ∧ DistinctLoc l = true) →
      ∀ o ∈ outs, ∀ i L, o.locales[i]? = some L →
        L.strings.Nodup ∧ KeysValid L.strings L.keys ∧ TreeValid i L.strings o.keys
  | [], ws, outs, ws', h, _, o, ho => by
    simp only [Pipeline.checkAll, Res.ok.injEq, Prod.mk.injEq] at h
    obtain ⟨rfl, _⟩ := h
    simp at ho
  | ns :: rest, ws, outs, ws', h, hyp, o, ho => by
    simp only [Pipeline.checkAll] at h
    split at h <;> try (simp at h; done)
    rename_i locs bki ws1 hc
    split at h <;> try (simp at h; done)
    rename_i outs1 ws2 hr
    simp only [Res.ok.injEq, Prod.mk.injEq] at h
    obtain ⟨rfl, _⟩ := h
    rcases List.mem_cons.mp ho with rfl | ho
    · exact C11_locale_tables _ _ _ _ _ _ _ _ _ hc (hyp ns (by simp))
    · exact C11_pipeline_tables inp rest ws1 outs1 ws2 hr (fun n hn => hyp n (by simp [hn])) o ho

/-- **The whole pipeline.**  `w` is the world after parsing, `merge_plurals` and foreign-key
    resolution; if its locales are fresh and have distinct keys, then in the output of
    `parse_locales` every locale of every namespace has a duplicate-free table that agrees with every
    index stored in its values (top level and nested `Subkeys` nodes). -/
theorem C11_run_tables (inp : Pipeline.Input) (w : World) (ws : List Warning) (out : Pipeline.Output)
    (hr : Pipeline.resolved inp = .ok (w, ws)) (h : Pipeline.run inp = .ok out)
    (hyp : ∀ ns ∈ w.nss, ∀ l ∈ ns.locales, FreshK l.keys = true ∧ DistinctLoc l = true) :
    ∀ o ∈ out.nss, ∀ i L, o.locales[i]? = some L →
      L.strings.Nodup ∧ KeysValid L.strings L.keys ∧ TreeValid i L.strings o.keys := by
  unfold Pipeline.run at h
  rw [hr] at h
  simp only at h
  split at h
  · simp at h
  · simp at h
  · rename_i outs ws' hc
    simp only [Res.ok.injEq] at h
    rw [← h]
    exact C11_pipeline_tables inp w.nss ws outs ws' hc hyp

/-! ## freshness is established by the stages before `check_locales` -/

/-- `ParsedValue::new` (any input string): no literal of the result carries an index — not even
    inside the arguments of a foreign key (`FreshS`, which implies `Fresh`) -/
theorem C11_parse_fresh (s : Str) (v : PV) (h : Parse.new s = .ok v) : FreshS v = true ∧ Fresh v = true :=
  ⟨new_fresh s v h, FreshS_fresh v (new_fresh s v h)⟩

/-- `Decode.locale` (a whole file): every value of the decoded locale is fresh, at any depth -/
theorem C11_decode_fresh (name : Str) (j : J) (loc : Loc) (h : Decode.locale name j = .ok loc) :
    FreshSK loc.keys = true ∧ FreshK loc.keys = true :=
  ⟨locale_fresh name j loc h, FreshSK_fresh _ (locale_fresh name j loc h)⟩

/-- `Locale::merge_plurals` only regroups values: freshness is kept (any fuel, any depth) -/
theorem C11_merge_plurals_fresh (orc : Oracle) (locale : Str) (fuel : Nat) (path : KeyPath) (l l' : Loc)
    (w : List Warning) (h : Plurals.mergePlurals orc locale fuel path l = .ok (l', w))
    (hf : FreshSK l.keys = true) : FreshSK l'.keys = true :=
  mergePlurals_fresh orc locale fuel path l l' w h hf

/-- `ParsedValue::populate` only substitutes fresh argument values / selects branches -/
theorem C11_populate_fresh (orc : Oracle) (locale : Str) (args : List (Str × PV)) (v v' : PV)
    (ha : FreshSK args = true) (h : Foreign.populate orc locale args v = .ok v') (hv : FreshS v = true) :
    FreshS v' = true :=
  populate_fresh orc locale args ha v v' h hv

/-- `resolve_foreign_keys` keeps a fresh world fresh (any fuel) -/
theorem C11_resolve_fresh (orc : Oracle) (dflt : Foreign.Fallbacks) (fuel : Nat) (paths : List (Str × KeyPath)) (w w' : World)
    (h : Foreign.resolveAll orc dflt fuel paths w = .ok w')
    (hw : ∀ ns ∈ w.nss, ∀ l ∈ ns.locales, FreshSK l.keys = true) :
    ∀ ns ∈ w'.nss, ∀ l ∈ ns.locales, FreshSK l.keys = true :=
  resolveAll_fresh orc dflt fuel paths w w' h hw

/-- **the input of `check_locales` is always fresh**: after parsing, `merge_plurals` and foreign-key
    resolution, no literal of any locale of any namespace carries an index -/
theorem C11_resolved_fresh (inp : Pipeline.Input) (w : World) (ws : List Warning)
    (h : Pipeline.resolved inp = .ok (w, ws)) : ∀ ns ∈ w.nss, ∀ l ∈ ns.locales, FreshK l.keys = true :=
  fun ns hn l hl => FreshSK_fresh _ (resolved_fresh inp w ws h ns hn l hl)

/-- **The whole pipeline, freshness discharged.**  The only remaining hypothesis is that the keys
    of the locales that reach `check_locales` are distinct at every level (`BTreeMap`s). -/
theorem C11_run_tables_distinct (inp : Pipeline.Input) (w : World) (ws : List Warning) (out : Pipeline.Output)
    (hr : Pipeline.resolved inp = .ok (w, ws)) (h : Pipeline.run inp = .ok out)
    (hd : ∀ ns ∈ w.nss, ∀ l ∈ ns.locales, DistinctLoc l = true) :
    ∀ o ∈ out.nss, ∀ i L, o.locales[i]? = some L →
      L.strings.Nodup ∧ KeysValid L.strings L.keys ∧ TreeValid i L.strings o.keys :=
  C11_run_tables inp w ws out hr h
    (fun ns hn l hl => ⟨C11_resolved_fresh inp w ws hr ns hn l hl, hd ns hn l hl⟩)

/-! ## Examples: the hypotheses are satisfiable by a non-trivial project, and the conclusion is
    what one sees on it -/

private def sub (x : Str) : PV := .subkeys (some (.mk ['s'] ['e', 'n'] [(['t'], .lit (.str x none))] [] 0))
/-- `{k: "hi", s: {t: "a"}}` -/
private def en : Loc := .mk ['e', 'n'] ['e', 'n'] [(['k'], .lit (.str ['h', 'i'] none)), (['s'], sub ['a'])] [] 0
/-- `{k: "yo", s: {t: "yo"}}` -/
private def fr : Loc := .mk ['f', 'r'] ['f', 'r'] [(['k'], .lit (.str ['y', 'o'] none)), (['s'], sub ['y', 'o'])] [] 0

example : ∀ l ∈ [en, fr], FreshK l.keys = true ∧ DistinctLoc l = true := by decide

/-- a value that already carries an index is not fresh; a locale with a repeated key is not distinct -/
example : Fresh (.lit (.str ['a'] (some 0))) = false := rfl
example : DistinctLoc (.mk [] [] [(['k'], .dflt), (['k'], .dflt)] [] 0) = false := by decide

private theorem gkLit (l : Lit) (k : IOL) : getKeysInner 1000000 (.lit l) k true = .ok (.lit l.ty) := by
  rw [show (1000000 : Nat) = 999999 + 1 from rfl, getKeysInner]; simp
private theorem isLitM (s : Str) (i : Option Nat) (acc : List Str) :
    indexStrings 1000000 (.lit (.str s i)) acc = (.lit (.str s (some (pushStr s acc).1)), (pushStr s acc).2) := rfl
private theorem isLit1 (s : Str) (i : Option Nat) (acc : List Str) :
    indexStrings 1 (.lit (.str s i)) acc = (.lit (.str s (some (pushStr s acc).1)), (pushStr s acc).2) := rfl

/-- the check succeeds on this project (so the hypotheses of `C11_locale_tables` /
    `C11_accessors_read_their_text` are jointly satisfiable); what the theorems predict is visible:
    `fr`'s table is `["yo"]` (de-duplicated), its top-level value and the value moved into the nested
    node `s` (position 1) both carry index 0, and the nested locales carry the top-level counts -/
example : ∃ bki ws, checkLocalesInner false 5 [] none [en, fr] [] = .ok
      ([.mk ['e', 'n'] ['e', 'n'] [(['k'], .lit (.str ['h', 'i'] (some 0))), (['s'], .subkeys none)] [['h', 'i'], ['a']] 2,
        .mk ['f', 'r'] ['f', 'r'] [(['k'], .lit (.str ['y', 'o'] (some 0))), (['s'], .subkeys none)] [['y', 'o']] 1],
       bki, ws) ∧
    nodeAt bki [['s']] = some
      ([.mk ['s'] ['e', 'n'] [(['t'], .lit (.str ['a'] (some 1)))] [] 2,
        .mk ['s'] ['e', 'n'] [(['t'], .lit (.str ['y', 'o'] (some 0)))] [] 1],
       [(['t'], .value (.lit .string) ⟨['e', 'n'], []⟩)]) := by
  simp [en, fr, sub, checkLocalesInner, checkLocalesInner.go, makeBuilderKeys, makeKeys, makeKeys.shapeOf',
    Reduce.reduce, Reduce.reduceKeys, gkLit, isLitM, isLit1, pushStr, pushKey, Plurals.pushKey, mergeLocale,
    mergeKeys, mergeValue, shapeOf, AMap.get?, AMap.insert', AMap.insert, AMap.contains, AMap.strLt, Lit.ty,
    List.idxOf?, List.findIdx?, List.findIdx?.go, propagate, Loc.keys, Loc.name, Loc.top, Loc.strings, Loc.count]
  simp [nodeAt, lvAt, AMap.get?]

example : lvAt [(['s'], .subkeys [en, fr] [(['t'], .value (.lit .string) ⟨['e', 'n'], []⟩)])] [['s'], ['t']]
    = some (.value (.lit .string) ⟨['e', 'n'], []⟩) := by
  simp [lvAt, AMap.get?]
example : valueAt fr.keys [['s'], ['t']] = some (.lit (.str ['y', 'o'] none)) := by
  simp [valueAt, fr, sub, Loc.keys, AMap.get?, Reduce.reduce, Reduce.reduceKeys]

end I18nVerif.Check
