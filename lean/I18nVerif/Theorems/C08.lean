import I18nVerif.Proofs.Keys
/-!
# C08 — A key's required arguments are the union over all locales

Model: `I18nVerif.Model.Check` (`get_keys_inner`, `push_var`, `push_comp`, `push_count`,
`ParsedValue::merge`).  Specification: `I18nVerif.Spec.Occ` (`occVars`, `occComps`, `occCounts`,
`Extends`, `Consistent`).  All theorems hold for every value (no bound on nesting or width), every
accumulated signature and every amount of fuel.
-/
namespace I18nVerif.Keys
open I18nVerif I18nVerif.Check I18nVerif.Occ

/-! ## one value -/

/-- **Exactness for one value.**  If `get_keys_inner` succeeds on `v` (any fuel), the signature
after it is the signature before it extended by exactly the occurrences of `v`: components = old ∪
occurring; variable names = old ∪ variable occurrences ∪ count keys; formatters of each variable =
old ∪ those it occurs with; the count kind of a variable is the one of its count occurrences if it
has any (they all agree, and agree with the old one), else unchanged. -/
theorem C08_keys_exact (fuel : Nat) (v : PV) (keys keys' : IOL)
    (h : getKeysInner fuel v keys false = .ok keys') :
    Extends keys.keysMut keys'.keysMut (occVars v) (occComps v) (occCounts v) := by
  have hr := gki_run fuel v keys _ h trivial
  have := run_extends _ _ _ hr
  obtain ⟨h1, h2, h3⟩ := occ_evs v
  rw [h1, h2, h3]
  exact this

/-- the same, spelled out without `Extends` -/
theorem C08_keys_exact_unfolded (fuel : Nat) (v : PV) (keys keys' : IOL)
    (h : getKeysInner fuel v keys false = .ok keys') :
    let K := keys.keysMut; let K' := keys'.keysMut
    (∀ c, c ∈ K'.comps ↔ c ∈ K.comps ∨ c ∈ occComps v) ∧
    (∀ n, hasVar K' n = true ↔ hasVar K n = true ∨ n ∈ (occVars v).map (·.1) ∨ n ∈ (occCounts v).map (·.1)) ∧
    (∀ n f, f ∈ fmtsOf K' n ↔ f ∈ fmtsOf K n ∨ (n, f) ∈ occVars v) ∧
    (∀ n ty, (n, ty) ∈ occCounts v → countOf K' n = some ty) ∧
    (∀ n, n ∉ (occCounts v).map (·.1) → countOf K' n = countOf K n) := by
  have := C08_keys_exact fuel v keys keys' h
  exact ⟨this.comps, this.dom, this.fmts, this.countNew, this.countOld⟩

/-- **Kind of the key after one value.**  A value that uses nothing leaves the key as it was — in
particular a literal key stays literal; a value that uses anything makes it an interpolation. -/
theorem C08_keys_kind (fuel : Nat) (v : PV) (keys keys' : IOL)
    (h : getKeysInner fuel v keys false = .ok keys') :
    (noOcc v = true → keys' = keys) ∧ (noOcc v = false → ∃ K, keys' = .interpol K) := by
  have hr := gki_run fuel v keys _ h trivial
  have hk := run_kind _ _ _ hr
  obtain ⟨h1, h2, h3⟩ := occ_evs v
  constructor
  · intro hn
    simp only [noOcc, Bool.and_eq_true, List.isEmpty_iff] at hn
    by_cases he : evs v = []
    · exact hk.1 he
    · exfalso
      rw [h1, h2, h3] at hn
      cases hev : evs v with
      | nil => exact he hev
      | cons e es =>
        rw [hev] at hn
        cases e <;> simp [Ev.var?, Ev.comp?, Ev.count?] at hn
  · intro hn
    apply hk.2
    intro he
    rw [noOcc, h1, h2, h3, he] at hn
    simp at hn

/-- **Enough fuel.**  With more fuel than the nesting depth of a value without unresolved foreign
key, the outcome of `get_keys_inner` does not depend on the fuel (and is never the fuel panic). -/
theorem C08_fuel_independent (fuel fuel' : Nat) (v : PV) (keys : IOL) (isTop : Bool)
    (hf : depth v < fuel) (hf' : depth v < fuel') (hr : resolved v = true) :
    getKeysInner fuel v keys isTop = getKeysInner fuel' v keys isTop := by
  cases isTop with
  | false => rw [gki_eq_run fuel v keys hf hr, gki_eq_run fuel' v keys hf' hr]
  | true =>
    obtain ⟨f, rfl⟩ : ∃ f, fuel = f + 1 := ⟨fuel - 1, by omega⟩
    obtain ⟨f', rfl⟩ : ∃ f, fuel' = f + 1 := ⟨fuel' - 1, by omega⟩
    rw [gki_top, gki_top]
    cases v with
    | lit l => rfl
    | _ => exact (gki_eq_run _ _ keys hf hr).trans (gki_eq_run _ _ keys hf' hr).symm

theorem C08_no_panic (fuel : Nat) (v : PV) (keys : IOL) (isTop : Bool) (p : String)
    (hf : depth v < fuel) (hr : resolved v = true) : getKeysInner fuel v keys isTop ≠ .panic p := by
  cases isTop with
  | false => rw [gki_eq_run fuel v keys hf hr]; exact run_noPanic _ _ _
  | true =>
    obtain ⟨f, rfl⟩ : ∃ f, fuel = f + 1 := ⟨fuel - 1, by omega⟩
    rw [gki_top]
    cases v with
    | lit l => simp
    | _ => simp only; rw [gki_eq_run _ _ keys hf hr]; exact run_noPanic _ _ _

/-! ## count conflicts -/

/-- **`push_count`, exactly**: it records the kind when nothing or the same kind is recorded for
the count key; two different range types give `RangeTypeMissmatch`; a plural against a range
(either way round) gives `RangeAndPluralsMix`. -/
theorem C08_pushCount_exact (K : IKeys) (ty : CountTy) (ck : Str) :
    pushCount K ty ck =
      match countOf K ck with
      | none => .ok { K with vars := AMap.insert' ck { info K ck with count := some ty } K.vars }
      | some old =>
        if old = ty then .ok { K with vars := AMap.insert' ck { info K ck with count := some ty } K.vars }
        else match old, ty with
          | .range _, .range _ => .err "RangeTypeMissmatch"
          | _, _ => .err "RangeAndPluralsMix" :=
  pushCount_spec K ty ck

/-- **No error ⇒ one kind of count per variable**: all count occurrences of one key in the value
agree with each other and with what the signature already recorded. -/
theorem C08_count_conflicts_ok (fuel : Nat) (v : PV) (keys keys' : IOL)
    (h : getKeysInner fuel v keys false = .ok keys') : Consistent keys.keysMut (occCounts v) :=
  consistent_of_extends (C08_keys_exact fuel v keys keys' h)

/-- **Conversely** (enough fuel, no unresolved foreign key): if the count occurrences are
consistent, `get_keys_inner` succeeds.  So it fails exactly on inconsistent counts. -/
theorem C08_count_conflicts_iff (fuel : Nat) (v : PV) (keys : IOL)
    (hf : depth v < fuel) (hr : resolved v = true) :
    (∃ keys', getKeysInner fuel v keys false = .ok keys') ↔ Consistent keys.keysMut (occCounts v) := by
  constructor
  · rintro ⟨k', h⟩; exact C08_count_conflicts_ok fuel v keys k' h
  · intro hc
    rw [gki_eq_run fuel v keys hf hr]
    apply run_ok_of_consistent
    rw [← (occ_evs v).2.2]; exact hc

/-- the only other outcome is an error (never a panic), so: error ⇔ inconsistent counts -/
theorem C08_count_conflicts_err_iff (fuel : Nat) (v : PV) (keys : IOL)
    (hf : depth v < fuel) (hr : resolved v = true) :
    (∃ e, getKeysInner fuel v keys false = .err e) ↔ ¬ Consistent keys.keysMut (occCounts v) := by
  rw [← C08_count_conflicts_iff fuel v keys hf hr]
  constructor
  · rintro ⟨e, he⟩ ⟨k', hk⟩; rw [he] at hk; cases hk
  · intro hn
    cases h : getKeysInner fuel v keys false with
    | ok k' => exact absurd ⟨k', h⟩ hn
    | err e => exact ⟨e, rfl⟩
    | panic p => exact absurd h (C08_no_panic fuel v keys false p hf hr)

/-- **Which error.**  The only errors are the two count conflicts.  `RangeTypeMissmatch` witnesses
two different range types recorded for one count key (one of them by an occurrence in the value,
the other by an occurrence or by the signature so far); `RangeAndPluralsMix` witnesses a plural
and a range sharing a count key. -/
theorem C08_count_conflicts_kind (fuel : Nat) (v : PV) (keys : IOL) (e : String)
    (h : getKeysInner fuel v keys false = .err e) :
    (e = "RangeTypeMissmatch" ∧ ∃ n t t', t ≠ t' ∧
        Recorded keys.keysMut (occCounts v) n (.range t) ∧ (n, .range t') ∈ occCounts v) ∨
    (e = "RangeAndPluralsMix" ∧ ∃ n t,
        Recorded keys.keysMut (occCounts v) n .plural ∧ Recorded keys.keysMut (occCounts v) n (.range t) ∧
        ((n, .plural) ∈ occCounts v ∨ (n, .range t) ∈ occCounts v)) := by
  have hr := gki_run fuel v keys _ h trivial
  rw [(occ_evs v).2.2]
  exact run_err_kind _ _ _ hr

/-- **Count conflicts, in one statement**: success means one kind of count per variable (among the
occurrences and with the signature so far); a failure is one of the two count conflicts, each
witnessed by two conflicting records; and with enough fuel on a resolved value, failure happens
exactly when the counts are inconsistent. -/
theorem C08_count_conflicts (fuel : Nat) (v : PV) (keys : IOL) :
    (∀ keys', getKeysInner fuel v keys false = .ok keys' → Consistent keys.keysMut (occCounts v)) ∧
    (∀ e, getKeysInner fuel v keys false = .err e →
      (e = "RangeTypeMissmatch" ∧ ∃ n t t', t ≠ t' ∧
          Recorded keys.keysMut (occCounts v) n (.range t) ∧ (n, .range t') ∈ occCounts v) ∨
      (e = "RangeAndPluralsMix" ∧ ∃ n t,
          Recorded keys.keysMut (occCounts v) n .plural ∧ Recorded keys.keysMut (occCounts v) n (.range t) ∧
          ((n, .plural) ∈ occCounts v ∨ (n, .range t) ∈ occCounts v))) ∧
    (depth v < fuel → resolved v = true →
      ((∃ e, getKeysInner fuel v keys false = .err e) ↔ ¬ Consistent keys.keysMut (occCounts v))) :=
  ⟨fun k' h => C08_count_conflicts_ok fuel v keys k' h,
   fun e h => C08_count_conflicts_kind fuel v keys e h,
   fun hf hr => C08_count_conflicts_err_iff fuel v keys hf hr⟩

/-! ## several locales, one key -/

/-- what merging one locale's (reduced) value `cur` does to the signature `iol` of a key — the
specification of `ParsedValue::merge` on a value key:
* an explicit default (`null`) leaves it alone;
* a literal leaves it alone, except that a literal of another type than the key's literal type
  turns the key into an interpolation with (so far) no field;
* subkeys do not merge with a value;
* anything else adds its occurrences. -/
def MergeStep (iol : IOL) (cur : PV) (iol' : IOL) : Prop :=
  match cur with
  | .dflt => iol' = iol
  | .lit l =>
    iol' = (match iol with
      | .interpol _ => iol
      | .lit ty => if l.ty = ty then iol else .interpol {})
  | .subkeys _ => False
  | v => run (evs v) iol = .ok iol'

theorem mergeValue_value (recMerge : MergeRec) (top : Str) (dto : DefaultTo) (kp : KeyPath) (cur : PV)
    (iol : IOL) (d : Defaults) (st : St) (v' : PV) (lv' : LV) (st' : St)
    (h : mergeValue recMerge top dto kp cur (.value iol d) st = .ok (v', lv', st')) :
    ∃ iol' d', lv' = .value iol' d' ∧ MergeStep iol cur iol' := by
  have other : ∀ v, shapeOf cur = .other v → v = cur →
      (match cur with
        | .dflt => False | .lit _ => False | .subkeys _ => False | _ => True) →
      ∃ iol' d', lv' = .value iol' d' ∧ run (evs cur) iol = .ok iol' := by
    intro v hs hv _
    subst hv
    simp only [mergeValue, hs] at h
    cases hg : getKeysInner 1000000 (indexStrings 1000000 v st.strings).1 iol false with
    | ok iol' =>
      rw [hg] at h
      simp only [Res.ok.injEq, Prod.mk.injEq] at h
      refine ⟨iol', d, h.2.1.symm, ?_⟩
      have := gki_run _ _ _ _ hg trivial
      rwa [evs_indexStrings] at this
    | err e => rw [hg] at h; cases h
    | panic p => rw [hg] at h; cases h
  cases cur with
  | dflt =>
    simp only [mergeValue, shapeOf, Res.ok.injEq, Prod.mk.injEq] at h
    exact ⟨iol, _, h.2.1.symm, rfl⟩
  | lit l =>
    simp only [mergeValue, shapeOf] at h
    cases iol with
    | interpol K =>
      simp only [Res.ok.injEq, Prod.mk.injEq] at h
      exact ⟨_, _, h.2.1.symm, rfl⟩
    | lit ty =>
      simp only at h
      by_cases hty : l.ty = ty
      · simp only [hty, beq_self_eq_true, if_true, Res.ok.injEq, Prod.mk.injEq] at h
        exact ⟨_, _, h.2.1.symm, by simp [MergeStep, hty]⟩
      · have : (l.ty == ty) = false := by simpa using hty
        simp only [this, Bool.false_eq_true, if_false, Res.ok.injEq, Prod.mk.injEq] at h
        exact ⟨_, _, h.2.1.symm, by simp [MergeStep, hty]⟩
  | subkeys l => cases l <;> simp [mergeValue, shapeOf] at h
  | fk f => exact other _ rfl rfl trivial
  | ranges ck t bs => exact other _ rfl rfl trivial
  | var k f => exact other _ rfl rfl trivial
  | comp k i => exact other _ rfl rfl trivial
  | bloc items => exact other _ rfl rfl trivial
  | plurals r ck o fs => exact other _ rfl rfl trivial

/-- one locale's contribution: its top locale name, the locale it defaults to, its (reduced) value
    for the key, and the state (string table, warnings) at that point -/
structure Contribution where
  top : Str
  dto : DefaultTo
  cur : PV
  st : St

/-- merging the values of one key, locale after locale (the order of `check_locales_inner`),
    into the builder key: what `Locale::merge` does for that key across all non-default locales -/
def mergeAll (recMerge : MergeRec) (kp : KeyPath) : List Contribution → LV → Res LV
  | [], lv => .ok lv
  | c :: rest, lv =>
    match mergeValue recMerge c.top c.dto kp c.cur lv c.st with
    | .ok (_, lv', _) => mergeAll recMerge kp rest lv'
    | .err e => .err e
    | .panic p => .panic p

theorem MergeStep.extends {iol iol' : IOL} {cur : PV} (h : MergeStep iol cur iol') :
    Extends iol.keysMut iol'.keysMut (occVars cur) (occComps cur) (occCounts cur) := by
  have other : run (evs cur) iol = .ok iol' →
      Extends iol.keysMut iol'.keysMut (occVars cur) (occComps cur) (occCounts cur) := by
    intro hr
    obtain ⟨h1, h2, h3⟩ := occ_evs cur
    rw [h1, h2, h3]; exact run_extends _ _ _ hr
  cases cur with
  | dflt => simp only [MergeStep] at h; subst h; simpa [occVars, occComps, occCounts] using Extends.refl _
  | lit l =>
    simp only [MergeStep] at h
    have : iol'.keysMut = iol.keysMut := by
      subst h
      cases iol with
      | interpol K => rfl
      | lit ty => simp only; split <;> rfl
    rw [this]
    simpa [occVars, occComps, occCounts] using Extends.refl _
  | subkeys l => exact absurd h (by simp [MergeStep])
  | fk f => exact other h
  | ranges ck t bs => exact other h
  | var k f => exact other h
  | comp k i => exact other h
  | bloc items => exact other h
  | plurals r ck o fs => exact other h

/-- **Union over locales.**  Merging the values of one key locale after locale accumulates the
union: the final signature is the initial one extended by exactly the occurrences of all the
locales' values (variables with their formatters, components, count variables with their kind). -/
theorem C08_union_over_locales (recMerge : MergeRec) (kp : KeyPath) :
    ∀ (ls : List Contribution) (iol : IOL) (d : Defaults) (lv' : LV),
    mergeAll recMerge kp ls (.value iol d) = .ok lv' →
    ∃ iol' d', lv' = .value iol' d' ∧
      Extends iol.keysMut iol'.keysMut (ls.flatMap (occVars ·.cur)) (ls.flatMap (occComps ·.cur))
        (ls.flatMap (occCounts ·.cur)) := by
  intro ls
  induction ls with
  | nil =>
    intro iol d lv' h
    simp only [mergeAll, Res.ok.injEq] at h
    exact ⟨iol, d, h.symm, by simpa using Extends.refl _⟩
  | cons c rest ih =>
    intro iol d lv' h
    rw [mergeAll] at h
    cases hm : mergeValue recMerge c.top c.dto kp c.cur (.value iol d) c.st with
    | err e => rw [hm] at h; cases h
    | panic p => rw [hm] at h; cases h
    | ok res =>
      obtain ⟨v1, lv1, st1⟩ := res
      rw [hm] at h
      obtain ⟨iol1, d1, rfl, hstep⟩ := mergeValue_value _ _ _ _ _ _ _ _ _ _ _ hm
      obtain ⟨iol', d', rfl, hext⟩ := ih iol1 d1 lv' h
      refine ⟨iol', d', rfl, ?_⟩
      simp only [List.flatMap_cons]
      exact Extends.trans hstep.extends hext

/-! ### `mergeAll` is the per-key view of `Locale::merge` -/

/-- one builder key before (`p`) and after (`q`) a locale has been merged: same name, and the new
    value is `ParsedValue::merge` of the (reduced) value the locale has for that key — an explicit
    default when the locale lacks the key -/
def MergedKey (recMerge : MergeRec) (top : Str) (dto : DefaultTo) (path : KeyPath) (p q : Str × LV) : Prop :=
  p.1 = q.1 ∧ ∃ raw cur st v' st', Reduce.reduce raw = .ok cur ∧
    mergeValue recMerge top dto (pushKey path p.1) cur p.2 st = .ok (v', q.2, st')

/-- pointwise relation between two lists of the same length -/
def Pointwise {α β} (R : α → β → Prop) : List α → List β → Prop
  | [], [] => True
  | a :: as, b :: bs => R a b ∧ Pointwise R as bs
  | _, _ => False

/-- **`Locale::merge` visits every builder key exactly once**, in order, and replaces it by the
result of `ParsedValue::merge` on that key: `mergeAll` is this, seen from one key, across locales -/
theorem C08_mergeKeys_per_key (recMerge : MergeRec) (top : Str) (dto : DefaultTo) (path : KeyPath) :
    ∀ (bki : BKI) (ks : List (Str × PV)) (accB : BKI) (st : St) (ks' : List (Str × PV)) (bki' : BKI) (st' : St),
    mergeKeys recMerge top dto path bki ks accB st = .ok (ks', bki', st') →
    ∃ merged, bki' = accB ++ merged ∧ Pointwise (MergedKey recMerge top dto path) bki merged := by
  intro bki
  induction bki with
  | nil =>
    intro ks accB st ks' bki' st' h
    simp only [mergeKeys, Res.ok.injEq, Prod.mk.injEq] at h
    exact ⟨[], by simp [h.2.1], trivial⟩
  | cons p rest ih =>
    intro ks accB st ks' bki' st' h
    obtain ⟨k, lv⟩ := p
    simp only [mergeKeys] at h
    split at h
    · cases h
    · cases h
    · rename_i cur hred
      split at h
      · cases h
      · cases h
      · rename_i v' lv' st1 hm
        obtain ⟨merged, hb, hf⟩ := ih _ _ _ _ _ _ h
        refine ⟨(k, lv') :: merged, by simp [hb], ⟨⟨rfl, _, cur, _, v', st1, hred, hm⟩, hf⟩⟩

/-- starting from nothing, `Extends` says the signature *is* the set of occurrences -/
theorem Extends.exact_of_empty {K K' : IKeys} {vs cs ns} (h : Extends K K' vs cs ns)
    (hc : K.comps = []) (hv : K.vars = []) :
    (∀ c, c ∈ K'.comps ↔ c ∈ cs) ∧
    (∀ n, hasVar K' n = true ↔ n ∈ vs.map (·.1) ∨ n ∈ ns.map (·.1)) ∧
    (∀ n f, f ∈ fmtsOf K' n ↔ (n, f) ∈ vs) ∧
    (∀ n ty, countOf K' n = some ty ↔ (n, ty) ∈ ns) := by
  have e1 : ∀ n, hasVar K n = false := by intro n; simp [hasVar, hv, AMap.get?]
  have e2 : ∀ n, fmtsOf K n = [] := by intro n; simp [fmtsOf, info, hv, AMap.get?]
  have e3 : ∀ n, countOf K n = none := by intro n; simp [countOf, info, hv, AMap.get?]
  refine ⟨?_, ?_, ?_, ?_⟩
  · intro c; rw [h.comps, hc]; simp
  · intro n; rw [h.dom, e1]; simp
  · intro n f; rw [h.fmts, e2]; simp
  · intro n ty
    constructor
    · intro hc'
      rcases recorded_of_extends h hc' with h' | h'
      · exact h'
      · rw [e3] at h'; cases h'
    · exact h.countNew n ty

/-- **The default locale's value creates the key**: its signature is exactly its occurrences; the
key is a literal accessor iff the value is a literal (of that literal's type) -/
theorem C08_default_locale_keys (fuel f2 : Nat) (strs : List Str) (v : PV) (iol0 : IOL)
    (h : getKeysInner fuel (indexStrings f2 v strs).1 (.lit .string) true = .ok iol0) :
    Extends {} iol0.keysMut (occVars v) (occComps v) (occCounts v) ∧
    ((∃ l, v = .lit l ∧ iol0 = .lit l.ty) ∨
     ((∀ l, v ≠ .lit l) ∧ (noOcc v = true → iol0 = .lit .string) ∧ (noOcc v = false → ∃ K, iol0 = .interpol K))) := by
  cases fuel with
  | zero => rw [getKeysInner] at h; cases h
  | succ fuel =>
    rw [gki_top] at h
    by_cases hl : ∃ l, v = .lit l
    · obtain ⟨l, rfl⟩ := hl
      obtain ⟨l', e, hty⟩ := indexStrings_lit f2 l strs
      rw [e] at h
      simp only [Res.ok.injEq] at h
      subst h
      refine ⟨by simpa [occVars, occComps, occCounts, IOL.keysMut] using Extends.refl {}, Or.inl ⟨l, rfl, by rw [hty]⟩⟩
    · have hl' : ∀ l, v ≠ .lit l := fun l e => hl ⟨l, e⟩
      have hw := indexStrings_not_lit f2 v strs hl'
      have hev := evs_indexStrings f2 v strs
      generalize (indexStrings f2 v strs).1 = w at h hw hev
      have h' : getKeysInner (fuel + 1) w (.lit .string) false = .ok iol0 := by
        cases w with
        | lit l => exact absurd rfl (hw l)
        | _ => exact h
      have hr := gki_run _ _ _ _ h' trivial
      rw [hev] at hr
      obtain ⟨h1, h2, h3⟩ := occ_evs v
      have hx := run_extends _ _ _ hr
      rw [← h1, ← h2, ← h3] at hx
      have hk := run_kind _ _ _ hr
      refine ⟨hx, Or.inr ⟨hl', ?_, ?_⟩⟩
      · intro hn
        apply hk.1
        simp only [noOcc, Bool.and_eq_true, List.isEmpty_iff, h1, h2, h3] at hn
        cases hev' : evs v with
        | nil => rfl
        | cons e es => rw [hev'] at hn; cases e <;> simp [Ev.var?, Ev.comp?, Ev.count?] at hn
      · intro hn
        apply hk.2
        intro he
        rw [noOcc, h1, h2, h3, he] at hn
        simp at hn

theorem mem_union_iff {β} (f : PV → List β) (v0 : PV) (ls : List Contribution) (x : β) :
    x ∈ f v0 ++ ls.flatMap (fun c => f c.cur) ↔ ∃ v ∈ v0 :: ls.map (·.cur), x ∈ f v := by
  simp only [List.mem_append, List.mem_flatMap, List.mem_cons, List.mem_map]
  constructor
  · rintro (h | ⟨c, hc, h⟩)
    · exact ⟨v0, Or.inl rfl, h⟩
    · exact ⟨c.cur, Or.inr ⟨c, hc, rfl⟩, h⟩
  · rintro ⟨v, rfl | ⟨c, hc, rfl⟩, h⟩
    · exact Or.inl h
    · exact Or.inr ⟨c, hc, h⟩

theorem mem_map_union_iff {β γ} (g : β → γ) (f : PV → List β) (v0 : PV) (ls : List Contribution) (y : γ) :
    y ∈ (f v0 ++ ls.flatMap (fun c => f c.cur)).map g ↔ ∃ v ∈ v0 :: ls.map (·.cur), y ∈ (f v).map g := by
  simp only [List.mem_map]
  constructor
  · rintro ⟨x, hx, rfl⟩
    obtain ⟨v, hv, h⟩ := (mem_union_iff f v0 ls x).mp hx
    exact ⟨v, hv, x, h, rfl⟩
  · rintro ⟨v, hv, x, h, rfl⟩
    exact ⟨x, (mem_union_iff f v0 ls x).mpr ⟨v, hv, h⟩, rfl⟩

/-- **C08, the headline.**  The default locale's value `v0` creates the key, every other locale's
value is merged into it.  If that succeeds, the signature of the key is *exactly* the union over all
locales of what their values use: components; variables (by name: those occurring as variable or
as count); for each variable the formatters it occurs with; and its count kind — the range's
numeric type or "plural".  The statement is symmetric in the locales (`∃ v ∈ all`), so the order of
locales does not matter for the result. -/
theorem C08_required_arguments (recMerge : MergeRec) (kp : KeyPath) (fuel f2 : Nat) (strs : List Str)
    (v0 : PV) (iol0 : IOL) (d : Defaults) (ls : List Contribution) (lv' : LV)
    (h0 : getKeysInner fuel (indexStrings f2 v0 strs).1 (.lit .string) true = .ok iol0)
    (h : mergeAll recMerge kp ls (.value iol0 d) = .ok lv') :
    ∃ iol' d', lv' = .value iol' d' ∧
      let K := iol'.keysMut
      let all := v0 :: ls.map (·.cur)
      (∀ c, c ∈ K.comps ↔ ∃ v ∈ all, c ∈ occComps v) ∧
      (∀ n, hasVar K n = true ↔ ∃ v ∈ all, n ∈ (occVars v).map (·.1) ∨ n ∈ (occCounts v).map (·.1)) ∧
      (∀ n f, f ∈ fmtsOf K n ↔ ∃ v ∈ all, (n, f) ∈ occVars v) ∧
      (∀ n ty, countOf K n = some ty ↔ ∃ v ∈ all, (n, ty) ∈ occCounts v) := by
  obtain ⟨hx0, _⟩ := C08_default_locale_keys fuel f2 strs v0 iol0 h0
  obtain ⟨iol', d', rfl, hx⟩ := C08_union_over_locales recMerge kp ls iol0 d lv' h
  refine ⟨iol', d', rfl, ?_⟩
  obtain ⟨e1, e2, e3, e4⟩ := Extends.exact_of_empty (Extends.trans hx0 hx) rfl rfl
  simp only
  refine ⟨?_, ?_, ?_, ?_⟩
  · intro c; rw [e1]; exact mem_union_iff _ _ _ _
  · intro n; rw [e2, mem_map_union_iff, mem_map_union_iff]
    constructor
    · rintro (⟨v, hv, h⟩ | ⟨v, hv, h⟩)
      · exact ⟨v, hv, Or.inl h⟩
      · exact ⟨v, hv, Or.inr h⟩
    · rintro ⟨v, hv, h | h⟩
      · exact Or.inl ⟨v, hv, h⟩
      · exact Or.inr ⟨v, hv, h⟩
  · intro n f; rw [e3]; exact mem_union_iff _ _ _ _
  · intro n ty; rw [e4]; exact mem_union_iff _ _ _ _

/-- **The order of the locales does not matter** (as sets): two orders of the same contributions
that both succeed give the same components, variables, formatters and count kinds.  (The order
only decides which error is reported when the merge fails.) -/
theorem C08_union_order_irrelevant (recMerge : MergeRec) (kp : KeyPath) (fuel f2 : Nat) (strs : List Str)
    (v0 : PV) (iol0 : IOL) (d : Defaults) (ls ls' : List Contribution) (hp : ls.Perm ls')
    (iol1 iol2 : IOL) (d1 d2 : Defaults)
    (h0 : getKeysInner fuel (indexStrings f2 v0 strs).1 (.lit .string) true = .ok iol0)
    (h1 : mergeAll recMerge kp ls (.value iol0 d) = .ok (.value iol1 d1))
    (h2 : mergeAll recMerge kp ls' (.value iol0 d) = .ok (.value iol2 d2)) :
    let K1 := iol1.keysMut; let K2 := iol2.keysMut
    (∀ c, c ∈ K1.comps ↔ c ∈ K2.comps) ∧ (∀ n, hasVar K1 n = hasVar K2 n) ∧
    (∀ n f, f ∈ fmtsOf K1 n ↔ f ∈ fmtsOf K2 n) ∧ (∀ n, countOf K1 n = countOf K2 n) := by
  obtain ⟨i1, e1, he1, a1, a2, a3, a4⟩ := C08_required_arguments recMerge kp fuel f2 strs v0 iol0 d ls _ h0 h1
  obtain ⟨i2, e2, he2, b1, b2, b3, b4⟩ := C08_required_arguments recMerge kp fuel f2 strs v0 iol0 d ls' _ h0 h2
  cases he1; cases he2
  have hmem : ∀ v, v ∈ v0 :: ls.map (·.cur) ↔ v ∈ v0 :: ls'.map (·.cur) := by
    intro v; exact ((hp.map _).cons v0).mem_iff
  have hex : ∀ (P : PV → Prop), (∃ v ∈ v0 :: ls.map (·.cur), P v) ↔ (∃ v ∈ v0 :: ls'.map (·.cur), P v) := by
    intro P
    constructor
    · rintro ⟨v, hv, hP⟩; exact ⟨v, (hmem v).mp hv, hP⟩
    · rintro ⟨v, hv, hP⟩; exact ⟨v, (hmem v).mpr hv, hP⟩
  simp only at a1 a2 a3 a4 b1 b2 b3 b4 ⊢
  refine ⟨?_, ?_, ?_, ?_⟩
  · intro c; rw [a1, b1]; exact hex _
  · intro n
    have := (a2 n).trans ((hex _).trans (b2 n).symm)
    cases h1 : hasVar iol1.keysMut n <;> cases h2 : hasVar iol2.keysMut n <;> simp_all
  · intro n f; rw [a3, b3]; exact hex _
  · intro n
    cases hc : countOf iol1.keysMut n with
    | some ty => exact ((b4 n ty).mpr ((hex _).mp ((a4 n ty).mp hc))).symm
    | none =>
      cases hc2 : countOf iol2.keysMut n with
      | none => rfl
      | some ty => rw [(a4 n ty).mpr ((hex _).mpr ((b4 n ty).mp hc2))] at hc; cases hc

/-! ## the signature stays a sorted map -/

theorem MergeStep.sorted {iol iol' : IOL} {cur : PV} (h : MergeStep iol cur iol')
    (hs : Sorted iol.keysMut.vars) : Sorted iol'.keysMut.vars := by
  cases cur with
  | dflt => simp only [MergeStep] at h; subst h; exact hs
  | lit l =>
    simp only [MergeStep] at h
    subst h
    cases iol with
    | interpol K => exact hs
    | lit ty => simp only; split <;> simp [IOL.keysMut, Sorted]
  | subkeys l => exact absurd h (by simp [MergeStep])
  | fk f => exact run_sorted _ _ _ h hs
  | ranges ck t bs => exact run_sorted _ _ _ h hs
  | var k f => exact run_sorted _ _ _ h hs
  | comp k i => exact run_sorted _ _ _ h hs
  | bloc items => exact run_sorted _ _ _ h hs
  | plurals r ck o fs => exact run_sorted _ _ _ h hs

/-- **The variables of a key form a sorted map** (the `BTreeMap` invariant): keys strictly
increasing, hence no variable twice and every entry visible to a lookup — for the key created by
the default locale and after merging any number of locales. -/
theorem C08_signature_sorted (recMerge : MergeRec) (kp : KeyPath) (fuel f2 : Nat) (strs : List Str)
    (v0 : PV) (iol0 : IOL) (d : Defaults)
    (h0 : getKeysInner fuel (indexStrings f2 v0 strs).1 (.lit .string) true = .ok iol0) :
    ∀ (ls : List Contribution) (iol' : IOL) (d' : Defaults),
    mergeAll recMerge kp ls (.value iol0 d) = .ok (.value iol' d') → Sorted iol'.keysMut.vars := by
  have hs0 : Sorted iol0.keysMut.vars := by
    cases fuel with
    | zero => rw [getKeysInner] at h0; cases h0
    | succ fuel =>
      rw [gki_top] at h0
      generalize (indexStrings f2 v0 strs).1 = w at h0
      have other : getKeysInner (fuel + 1) w (.lit .string) false = .ok iol0 → Sorted iol0.keysMut.vars := by
        intro h
        exact run_sorted _ _ _ (gki_run _ _ _ _ h trivial) (by simp [IOL.keysMut, Sorted])
      cases w with
      | lit l => simp only [Res.ok.injEq] at h0; subst h0; simp [IOL.keysMut, Sorted]
      | _ => exact other h0
  have key : ∀ (ls : List Contribution) (iol iol' : IOL) (d d' : Defaults), Sorted iol.keysMut.vars →
      mergeAll recMerge kp ls (.value iol d) = .ok (.value iol' d') → Sorted iol'.keysMut.vars := by
    intro ls
    induction ls with
    | nil =>
      intro iol iol' d d' hs h
      simp only [mergeAll, Res.ok.injEq, LV.value.injEq] at h
      rw [← h.1]; exact hs
    | cons c rest ih =>
      intro iol iol' d d' hs h
      rw [mergeAll] at h
      cases hm : mergeValue recMerge c.top c.dto kp c.cur (.value iol d) c.st with
      | err e => rw [hm] at h; cases h
      | panic p => rw [hm] at h; cases h
      | ok res =>
        obtain ⟨v1, lv1, st1⟩ := res
        rw [hm] at h
        obtain ⟨iol1, d1, rfl, hstep⟩ := mergeValue_value _ _ _ _ _ _ _ _ _ _ _ hm
        exact ih iol1 iol' d1 d' (hstep.sorted hs) h
  intro ls iol' d' h
  exact key ls iol0 iol' d d' hs0 h

/-! ## literal key or builder -/

/-- the value is a plain literal of type `t`, or an explicit default (`null`) -/
def LitOrDflt (t : LitTy) (cur : PV) : Prop := cur = .dflt ∨ ∃ l, cur = .lit l ∧ l.ty = t

theorem MergeStep.kind_lit {t : LitTy} {cur : PV} {iol' : IOL} (h : MergeStep (.lit t) cur iol')
    (hn : normal cur = true) :
    (LitOrDflt t cur ∧ iol' = .lit t) ∨ (¬ LitOrDflt t cur ∧ ∃ K, iol' = .interpol K) := by
  have other : (∀ l, cur ≠ .lit l) → cur ≠ .dflt → noOcc cur = false → run (evs cur) (.lit t) = .ok iol' →
      (¬ LitOrDflt t cur ∧ ∃ K, iol' = .interpol K) := by
    intro h1 h2 h3 hr
    refine ⟨?_, (run_kind _ _ _ hr).2 ?_⟩
    · rintro (e | ⟨l, e, _⟩)
      · exact h2 e
      · exact h1 l e
    · intro he
      obtain ⟨o1, o2, o3⟩ := occ_evs cur
      rw [noOcc, o1, o2, o3, he] at h3
      simp at h3
  cases cur with
  | dflt => exact Or.inl ⟨Or.inl rfl, h⟩
  | lit l =>
    simp only [MergeStep] at h
    by_cases hty : l.ty = t
    · exact Or.inl ⟨Or.inr ⟨l, rfl, hty⟩, by simpa [hty] using h⟩
    · refine Or.inr ⟨?_, {}, by simpa [hty] using h⟩
      rintro (e | ⟨l', e, hl'⟩)
      · cases e
      · cases e; exact hty hl'
  | subkeys l => exact absurd h (by simp [MergeStep])
  | fk f => exact Or.inr (other (by simp) (by simp) (by simpa [normal] using hn) h)
  | ranges ck t' bs => exact Or.inr (other (by simp) (by simp) (by simpa [normal] using hn) h)
  | var k f => exact Or.inr (other (by simp) (by simp) (by simpa [normal] using hn) h)
  | comp k i => exact Or.inr (other (by simp) (by simp) (by simpa [normal] using hn) h)
  | bloc items => exact Or.inr (other (by simp) (by simp) (by simpa [normal] using hn) h)
  | plurals r ck o fs => exact Or.inr (other (by simp) (by simp) (by simpa [normal] using hn) h)

theorem MergeStep.kind_interpol {K : IKeys} {cur : PV} {iol' : IOL} (h : MergeStep (.interpol K) cur iol') :
    ∃ K', iol' = .interpol K' := by
  have other : run (evs cur) (.interpol K) = .ok iol' → ∃ K', iol' = .interpol K' := by
    intro hr
    have := run_kind _ _ _ hr
    by_cases he : evs cur = []
    · exact ⟨K, this.1 he⟩
    · exact this.2 he
  cases cur with
  | dflt => exact ⟨K, h⟩
  | lit l => exact ⟨K, h⟩
  | subkeys l => exact absurd h (by simp [MergeStep])
  | fk f => exact other h
  | ranges ck t' bs => exact other h
  | var k f => exact other h
  | comp k i => exact other h
  | bloc items => exact other h
  | plurals r ck o fs => exact other h

/-- once a builder, always a builder -/
theorem C08_interpol_stays (recMerge : MergeRec) (kp : KeyPath) :
    ∀ (ls : List Contribution) (K : IKeys) (d : Defaults) (lv' : LV),
    mergeAll recMerge kp ls (.value (.interpol K) d) = .ok lv' → ∃ K' d', lv' = .value (.interpol K') d' := by
  intro ls
  induction ls with
  | nil => intro K d lv' h; simp only [mergeAll, Res.ok.injEq] at h; exact ⟨K, d, h.symm⟩
  | cons c rest ih =>
    intro K d lv' h
    rw [mergeAll] at h
    cases hm : mergeValue recMerge c.top c.dto kp c.cur (.value (.interpol K) d) c.st with
    | err e => rw [hm] at h; cases h
    | panic p => rw [hm] at h; cases h
    | ok res =>
      obtain ⟨v1, lv1, st1⟩ := res
      rw [hm] at h
      obtain ⟨iol1, d1, rfl, hstep⟩ := mergeValue_value _ _ _ _ _ _ _ _ _ _ _ hm
      obtain ⟨K1, rfl⟩ := hstep.kind_interpol
      exact ih K1 d1 lv' h

/-- **Literal accessor or builder.**  Starting from a literal key of type `t` (the default locale
has a literal of type `t`) and merging the other locales one by one (their values in the normal
form `reduce` produces), the key is still the literal `t` iff every locale's value is a literal of
type `t` or an explicit default; otherwise — as soon as one locale has a literal of another type
or any non-literal value — it is a builder (an interpolation, possibly with no field at all). -/
theorem C08_lit_kind (recMerge : MergeRec) (kp : KeyPath) :
    ∀ (ls : List Contribution) (t : LitTy) (d : Defaults) (lv' : LV),
    (∀ c ∈ ls, normal c.cur = true) →
    mergeAll recMerge kp ls (.value (.lit t) d) = .ok lv' →
    ((∀ c ∈ ls, LitOrDflt t c.cur) ∧ ∃ d', lv' = .value (.lit t) d') ∨
    ((∃ c ∈ ls, ¬ LitOrDflt t c.cur) ∧ ∃ K d', lv' = .value (.interpol K) d') := by
  intro ls
  induction ls with
  | nil =>
    intro t d lv' _ h
    simp only [mergeAll, Res.ok.injEq] at h
    exact Or.inl ⟨by simp, d, h.symm⟩
  | cons c rest ih =>
    intro t d lv' hn h
    rw [mergeAll] at h
    cases hm : mergeValue recMerge c.top c.dto kp c.cur (.value (.lit t) d) c.st with
    | err e => rw [hm] at h; cases h
    | panic p => rw [hm] at h; cases h
    | ok res =>
      obtain ⟨v1, lv1, st1⟩ := res
      rw [hm] at h
      obtain ⟨iol1, d1, rfl, hstep⟩ := mergeValue_value _ _ _ _ _ _ _ _ _ _ _ hm
      rcases hstep.kind_lit (hn c (by simp)) with ⟨hl, rfl⟩ | ⟨hl, K, rfl⟩
      · rcases ih t d1 lv' (fun c' hc' => hn c' (by simp [hc'])) h with ⟨ha, hd⟩ | ⟨⟨c', hc', hb⟩, hd⟩
        · left
          refine ⟨?_, hd⟩
          intro c' hc'
          rcases List.mem_cons.mp hc' with rfl | hc'
          · exact hl
          · exact ha c' hc'
        · right; exact ⟨⟨c', by simp [hc'], hb⟩, hd⟩
      · right
        exact ⟨⟨c, by simp, hl⟩, C08_interpol_stays recMerge kp rest K d1 lv' h⟩

/-- every value `reduce` returns is in the normal form `C08_lit_kind` asks for: it is a literal, an
explicit default, subkeys, or it uses at least one variable, component or count (`merge` reduces
each value before merging it) -/
theorem C08_reduce_normal (v v' : PV) (h : Reduce.reduce v = .ok v') : normal v' = true :=
  reduce_normal v v' h

/-! ## examples: the hypotheses are satisfiable, the conflicts are reported -/

private def s (x : String) : Str := x.toList
/-- `"a {{ x }} <b>{{ y, number }}</b>"` with a range on `count: i32` and a plural on `n` -/
private def v1 : PV :=
  .bloc [.lit (.str (s "a ") none), .var (s "x") .none, .comp (s "b") (.var (s "y") (.number .auto)),
    .ranges (s "count") .i32 [(.exact ⟨0, 0⟩, .var (s "x") (.date .long)), (.fallback, .lit (.str (s "many") none))],
    .plurals .cardinal (s "n") (.var (s "n") .none) [(.one, .lit (.str (s "one") none))]]

example : ∃ k', getKeysInner 10 v1 (.lit .string) false = .ok k' := by
  rw [gki_eq_run _ _ _ (by decide) (by decide)]
  exact ⟨_, rfl⟩
example : occVars v1 = [(s "x", .none), (s "y", .number .auto), (s "x", .date .long), (s "n", .none)] := by decide
example : occComps v1 = [s "b"] := by decide
example : occCounts v1 = [(s "count", .range .i32), (s "n", .plural)] := by decide
/-- a range and a plural sharing the count key -/
private def v2 : PV := .bloc [.ranges (s "n") .u8 [], .plurals .cardinal (s "n") (.lit (.str [] none)) []]
example : getKeysInner 10 v2 (.lit .string) false = .err "RangeAndPluralsMix" := by
  rw [gki_eq_run _ _ _ (by decide) (by decide)]; rfl
private def v3 : PV := .bloc [.ranges (s "n") .u8 [], .ranges (s "n") .i32 []]
example : getKeysInner 10 v3 (.lit .string) false = .err "RangeTypeMissmatch" := by
  rw [gki_eq_run _ _ _ (by decide) (by decide)]; rfl

private def noRec : MergeRec := fun _ _ _ _ => .panic "unused"
private def kp0 : KeyPath := ⟨none, [s "k"]⟩
private def d0 : Defaults := ⟨s "en", []⟩
example : mergeAll noRec kp0
    [⟨s "fr", .implicit (s "en"), .lit (.unsigned 5), {}⟩, ⟨s "de", .implicit (s "en"), .dflt, {}⟩]
    (.value (.lit .string) d0) = .ok (.value (.interpol {}) ⟨s "en", [(s "de", s "en")]⟩) := by rfl

private theorem indexStrings_var (fuel : Nat) (k : Str) (f : Fmt) (acc : List Str) :
    indexStrings fuel (.var k f) acc = (.var k f, acc) := by
  cases fuel <;> simp [indexStrings]

example : ∃ K d', mergeAll noRec kp0
    [⟨s "fr", .implicit (s "en"), .lit (.str (s "x") none), {}⟩, ⟨s "de", .implicit (s "en"), .var (s "x") .none, {}⟩]
    (.value (.lit .string) d0) = .ok (.value (.interpol K) d') := by
  have e : ∀ iol, getKeysInner 1000000 (PV.var (s "x") Fmt.none) iol false = run (evs (PV.var (s "x") Fmt.none)) iol :=
    fun iol => gki_eq_run _ _ iol (by decide) (by decide)
  simp only [mergeAll, mergeValue, shapeOf, indexStrings_var, e]
  exact ⟨_, _, rfl⟩

end I18nVerif.Keys
