import I18nVerif.Proofs.Index
import I18nVerif.Proofs.CheckGlue
import I18nVerif.Proofs.TablesGlue
/-!
# C11 — string tables match the indices the generated code reads

Model: `I18nVerif.Model.Check` — `pushStr` (`StringIndexer::push_str`, `mod.rs:203-225`), `indexStrings`
(`ParsedValue::index_strings`, `parsed_value.rs:855-875`), `propagate` (`propagate_string_count`,
`locale.rs:340-351`), `checkLocalesInner` (`mod.rs:155-201`).
Vocabulary (`strLits`, `depth`, `Valid`, `Full`, `countsAgree`, `countsEq`, `lensBKI`, `depthBKI`):
`I18nVerif.Spec.Index`.

Every theorem holds for all values / tables / builder-key trees of any size and depth, and — where
the model function takes fuel — for every amount of fuel, with the amount that suffices stated.
-/
namespace I18nVerif.Check
open I18nVerif Eval

/-! ## 4. `push_str` -/

/-- `push_str s` returns an index at which the (possibly extended) table holds `s`; the old table is
    a prefix of the new one; a duplicate-free table stays duplicate-free. -/
theorem C11_push_str {s : Str} {acc acc' : List Str} {i : Nat} (h : pushStr s acc = (i, acc')) :
    acc'[i]? = some s ∧ (acc.Nodup → acc'.Nodup) ∧ acc <+: acc' ∧ i < acc'.length := by
  have := pushStr_spec s acc
  rw [h] at this
  exact this

/-- indices handed out earlier keep reading the same text after any later `push_str`. -/
theorem C11_push_str_stable {s : Str} {acc acc' : List Str} {i : Nat} (h : pushStr s acc = (i, acc'))
    {j : Nat} {t : Str} (hj : acc[j]? = some t) : acc'[j]? = some t :=
  getElem?_of_prefix (C11_push_str h).2.2.1 hj

/-- de-duplication: a string already present gets its existing (first) index and the table is
    unchanged; a new string goes to the end. -/
theorem C11_push_str_dedup (s : Str) (acc : List Str) :
    (s ∈ acc → (pushStr s acc).2 = acc ∧ ∀ j, j < (pushStr s acc).1 → acc[j]? ≠ some s) ∧
    (s ∉ acc → pushStr s acc = (acc.length, acc ++ [s])) :=
  ⟨pushStr_mem, pushStr_not_mem⟩

/-- in a duplicate-free table the index of a string is unique: equal indices ⇔ equal strings. -/
theorem C11_push_str_index_unique {s : Str} {acc acc' : List Str} {i : Nat}
    (h : pushStr s acc = (i, acc')) (hd : acc.Nodup) {j : Nat} (hj : acc'[j]? = some s) : j = i := by
  obtain ⟨h1, h2, _, h4⟩ := C11_push_str h
  exact ((List.getElem?_inj h4 (h2 hd)).mp (h1.trans hj.symm)).symm

/-! ## 5. `index_strings` -/

/-- For **every** fuel, value and table: the old table is a prefix of the new one, duplicate-freeness
    is kept, the text of the value under any environment is unchanged, the sequence of literal
    texts is unchanged, and if every index already present in the value was right for the old table
    then every index present in the result is right for the new table. -/
theorem C11_index_sound (fuel : Nat) (v : PV) (acc : List Str) {v' : PV} {acc' : List Str}
    (h : indexStrings fuel v acc = (v', acc')) :
    acc <+: acc' ∧ (acc.Nodup → acc'.Nodup) ∧
    (Valid acc (strLits v) → Valid acc' (strLits v')) ∧
    (∀ ρ, eval ρ v' = eval ρ v) ∧
    (strLits v').map Prod.fst = (strLits v).map Prod.fst := by
  have ok := indexStrings_ok fuel v acc
  have ev := fun ρ => indexStrings_eval ρ fuel v acc
  have tx := indexStrings_texts fuel v acc
  rw [h] at ok ev tx
  exact ⟨ok.pre, ok.nodup, ok.valid, ev, tx⟩

/-- With fuel above the nesting depth of the value, **every** string literal at a position
    `index_strings` visits gets an index, and the table holds the literal's text there — whatever
    indices the value carried before. -/
theorem C11_index_full (fuel : Nat) (v : PV) (acc : List Str) {v' : PV} {acc' : List Str}
    (h : indexStrings fuel v acc = (v', acc')) (hf : depth v < fuel) :
    Full acc' (strLits v') := by
  have ok := indexStrings_ok fuel v acc
  rw [h] at ok
  exact ok.full hf

/-- in the model the fuel is 1 000 000: enough for every value nested less deeply than that. -/
theorem C11_index_full_model (v : PV) (acc : List Str) (hd : depth v < 1000000) :
    Full (indexStrings 1000000 v acc).2 (strLits (indexStrings 1000000 v acc).1) :=
  C11_index_full 1000000 v acc rfl hd

/-- literals indexed earlier (in this or any other value of the locale) stay right when the table
    grows by indexing another value. -/
theorem C11_index_stable (fuel : Nat) (v : PV) (acc : List Str) (lits : List (Str × Option Nat))
    (h : Valid acc lits) : Valid (indexStrings fuel v acc).2 lits :=
  h.mono (indexStrings_ok fuel v acc).pre

theorem C11_index_stable_full (fuel : Nat) (v : PV) (acc : List Str) (lits : List (Str × Option Nat))
    (h : Full acc lits) : Full (indexStrings fuel v acc).2 lits :=
  h.mono (indexStrings_ok fuel v acc).pre

/-- the executable checks used by the correspondence test decide `Valid` / `Full`. -/
theorem C11_validB_iff (t : List Str) (l : List (Str × Option Nat)) : validB t l = true ↔ Valid t l :=
  validB_iff t l
theorem C11_fullB_iff (t : List Str) (l : List (Str × Option Nat)) : fullB t l = true ↔ Full t l :=
  fullB_iff t l

/-! ## 6. table length and `propagate_string_count` -/

/-- After `propagate fuel counts`, in every nested `Subkeys` node — at any depth of the builder-keys
    tree not exceeding the fuel — the `i`-th locale carries `counts[i]`, as far as both lists go. -/
theorem C11_propagate_counts (fuel : Nat) (counts : List Nat) (b : BKI) (h : depthBKI b ≤ fuel) :
    countsAgree counts (propagate fuel counts b) = true :=
  propagate_agree counts fuel b h

/-- If moreover every nested node has as many locales as there are counts, the counts of its
    locales are exactly `counts`. -/
theorem C11_propagate_counts_eq (fuel : Nat) (counts : List Nat) (b : BKI) (h : depthBKI b ≤ fuel)
    (hl : lensBKI counts.length b = true) : countsEq counts (propagate fuel counts b) = true :=
  propagate_eq counts fuel b h hl

/-- `propagate` does not add or remove locales anywhere (any fuel). -/
theorem C11_propagate_lens (fuel : Nat) (counts : List Nat) (n : Nat) (b : BKI) :
    lensBKI n (propagate fuel counts b) = lensBKI n b :=
  propagate_lens counts n fuel b

/-- the builder keys made from the default locale nest less deeply than the fuel given, and every
    nested `Subkeys` node starts with exactly one locale (the default one). -/
theorem C11_makeBuilderKeys_shape {dflt : Str} {fuel : Nat} {path : KeyPath} {loc : Loc} {strs : List Str}
    {l : Loc} {bki : BKI} {strs' : List Str} (h : makeBuilderKeys dflt fuel path loc strs = .ok (l, bki, strs')) :
    depthBKI bki < fuel ∧ lensBKI 1 bki = true :=
  makeBuilderKeys_shape dflt fuel path loc strs l bki strs' h

/-- merging one more locale keeps the depth below the fuel and adds exactly one locale to every
    nested `Subkeys` node, at the end (so positions correspond to the order of the top-level locales). -/
theorem C11_mergeLocale_shape {suppress : Bool} {top : Str} {dto : DefaultTo} {fuel : Nat} {path : KeyPath}
    {loc : Loc} {bki : BKI} {st : St} {loc' : Loc} {bki' : BKI} {st' : St}
    (h : mergeLocale suppress top dto fuel path loc bki st = .ok (loc', bki', st')) :
    depthBKI bki' < fuel ∧ ∀ n, lensBKI n bki = true → lensBKI (n + 1) bki' = true :=
  mergeLocale_shape suppress top dto fuel path loc bki st loc' bki' st' h

/-- **Table length.**  Whenever `check_locales_inner` succeeds (any fuel, any locales):
    one locale is returned per input locale; each returned top-level locale has
    `count = strings.length`; every nested `Subkeys` node of the builder keys, at any depth, has one
    locale per top-level locale, and their counts are exactly the counts of the top-level locales
    in the same positions. -/
theorem C11_table_length {suppress : Bool} {fuel : Nat} {inherits : List (Str × Str)} {ns : Option Str}
    {locs : List Loc} {ws : List Warning} {locales : List Loc} {bki : BKI} {ws' : List Warning}
    (h : checkLocalesInner suppress fuel inherits ns locs ws = .ok (locales, bki, ws')) :
    locales.length = locs.length ∧
    (∀ l ∈ locales, l.count = l.strings.length) ∧
    lensBKI locales.length bki = true ∧
    countsEq (locales.map Loc.count) bki = true ∧
    countsAgree (locales.map Loc.count) bki = true :=
  checkLocalesInner_counts suppress fuel inherits ns locs ws locales bki ws' h

/-- the counts inside the tree are the table lengths of the top-level locales. -/
theorem C11_table_length_strings {suppress : Bool} {fuel : Nat} {inherits : List (Str × Str)} {ns : Option Str}
    {locs : List Loc} {ws : List Warning} {locales : List Loc} {bki : BKI} {ws' : List Warning}
    (h : checkLocalesInner suppress fuel inherits ns locs ws = .ok (locales, bki, ws')) :
    countsEq (locales.map (fun l => l.strings.length)) bki = true := by
  obtain ⟨_, h2, _, h4, _⟩ := C11_table_length h
  have : locales.map Loc.count = locales.map (fun l => l.strings.length) :=
    List.map_congr_left h2
  rw [← this]; exact h4

/-! ## 7. the table of a whole locale (end to end) -/

/-- `reduce` does not invent indices: a freshly parsed value (no literal carries an index, at any
    depth) stays fresh, hence agrees with every table before indexing. -/
theorem C11_reduce_fresh {v v' : PV} (h : Reduce.reduce v = .ok v') (hf : Fresh v = true) :
    Fresh v' = true ∧ ∀ tbl, Valid tbl (strLits v') :=
  ⟨reduce_fresh v v' h hf, fun tbl => Valid.of_fresh (reduce_fresh v v' h hf) tbl⟩

/-- `make_builder_keys` on a freshly parsed locale (any fuel, any starting table): the table only
    grows at the end, stays duplicate-free, every index stored in the locale's values reads the
    value's own text from the final table, and so does every value moved into a nested `Subkeys`
    node of the builder keys (at any depth). -/
theorem C11_makeBuilderKeys_tables {dflt : Str} {fuel : Nat} {path : KeyPath} {loc : Loc} {strs : List Str}
    {l : Loc} {bki : BKI} {strs' : List Str} (h : makeBuilderKeys dflt fuel path loc strs = .ok (l, bki, strs'))
    (hf : FreshK loc.keys = true) :
    strs <+: strs' ∧ (strs.Nodup → strs'.Nodup) ∧ KeysValid strs' l.keys ∧ TreeValid 0 strs' bki :=
  makeBuilderKeys_tables dflt fuel path loc strs l bki strs' h hf

/-- **Default locale, end to end** (partial: the first locale only).  If the default locale is
    freshly parsed, then in the result of `check_locales_inner` its table is duplicate-free and every
    index stored in its values — top level and inside every nested `Subkeys` node, which merging the
    other locales and `propagate_string_count` leave untouched — reads the value's own text. -/
theorem C11_locale_tables_partial {suppress : Bool} {fuel : Nat} {inherits : List (Str × Str)} {ns : Option Str}
    {dl : Loc} {others : List Loc} {ws : List Warning} {locales : List Loc} {bki : BKI} {ws' : List Warning}
    (h : checkLocalesInner suppress fuel inherits ns (dl :: others) ws = .ok (locales, bki, ws'))
    (hf : FreshK dl.keys = true) :
    ∃ L, locales[0]? = some L ∧ L.strings.Nodup ∧ KeysValid L.strings L.keys ∧ TreeValid 0 L.strings bki :=
  checkLocalesInner_default_table suppress fuel inherits ns dl others ws locales bki ws' h hf

/-- the same for **every** locale position — not proved (see notes/C11.md for the missing glue). -/
def C11_locale_tables_full_statement : Prop :=
  ∀ (suppress : Bool) (fuel : Nat) (inherits : List (Str × Str)) (ns : Option Str)
    (locs : List Loc) (ws : List Warning) (locales : List Loc) (bki : BKI) (ws' : List Warning),
    checkLocalesInner suppress fuel inherits ns locs ws = .ok (locales, bki, ws') →
    (∀ l ∈ locs, FreshK l.keys = true ∧ DistinctLoc l = true) →
    ∀ i L, locales[i]? = some L →
      L.strings.Nodup ∧ KeysValid L.strings L.keys ∧ TreeValid i L.strings bki

/-! ## Examples -/

private def a : PV := .lit (.str ['a'] none)
private def c : PV := .lit (.str ['c'] none)
/-- `a {{x}} <b>a</b> c`, then a range on `n` whose branches reuse `c` and add `d` -/
private def ex : PV :=
  .bloc [a, .var ['x'] .none, .comp ['b'] a, c,
    .ranges ['n'] .i32 [(.exact ⟨0, 0⟩, c), (.fallback, .bloc [.lit (.str ['d'] none), .var ['n'] .none])]]

example : depth ex = 3 := by decide
example : pushStr ['c'] [['a'], ['c']] = (1, [['a'], ['c']]) := by decide
example : pushStr ['d'] [['a'], ['c']] = (2, [['a'], ['c'], ['d']]) := by decide
example : (indexStrings 4 ex []).2 = [['a'], ['c'], ['d']] := by rfl
example : strLits (indexStrings 4 ex []).1 =
    [(['a'], some 0), (['a'], some 0), (['c'], some 1), (['c'], some 1), (['d'], some 2)] := by rfl
example : fullB (indexStrings 4 ex []).2 (strLits (indexStrings 4 ex []).1) = true := by rfl
/-- with too little fuel the deepest literal (`d`, depth 3) is not reached: the fuel bound is sharp -/
example : fullB (indexStrings 3 ex []).2 (strLits (indexStrings 3 ex []).1) = false := by rfl
example : validB (indexStrings 3 ex []).2 (strLits (indexStrings 3 ex []).1) = true := by rfl
/-- a stale index is overwritten -/
example : indexStrings 1 (.lit (.str ['a'] (some 7))) [['z']] = (.lit (.str ['a'] (some 1)), [['z'], ['a']]) := by rfl

private def loc (n : Str) (cnt : Nat) : Loc := .mk n n [] [] cnt
private def tree : BKI :=
  [(['k'], .value (.lit .string) ⟨['e', 'n'], []⟩),
   (['s'], .subkeys [loc ['e', 'n'] 0, loc ['f', 'r'] 0]
      [(['t'], .subkeys [loc ['e', 'n'] 0, loc ['f', 'r'] 0] [])])]

example : depthBKI tree = 2 := by decide
example : lensBKI 2 tree = true := by decide
example : countsEq [5, 7] tree = false := by decide
example : countsEq [5, 7] (propagate 2 [5, 7] tree) = true := by decide
/-- with fuel below the depth the inner node is not reached -/
example : countsEq [5, 7] (propagate 1 [5, 7] tree) = false := by decide

/-! a two-locale project with a nested subkey group: `{k: "hi", s: {t: "a"}}` / `{k: "yo", s: {t: "yo"}}` —
    the hypothesis of `C11_table_length` is satisfiable, the tables are de-duplicated per locale -/
private def sub (x : Str) : PV := .subkeys (some (.mk ['s'] ['e', 'n'] [(['t'], .lit (.str x none))] [] 0))
private def en : Loc := .mk ['e', 'n'] ['e', 'n'] [(['k'], .lit (.str ['h', 'i'] none)), (['s'], sub ['a'])] [] 0
private def fr : Loc := .mk ['f', 'r'] ['f', 'r'] [(['k'], .lit (.str ['y', 'o'] none)), (['s'], sub ['y', 'o'])] [] 0

private theorem gkLit (l : Lit) (k : IOL) : getKeysInner 1000000 (.lit l) k true = .ok (.lit l.ty) := by
  rw [show (1000000 : Nat) = 999999 + 1 from rfl, getKeysInner]; simp
private theorem isLitM (s : Str) (i : Option Nat) (acc : List Str) :
    indexStrings 1000000 (.lit (.str s i)) acc = (.lit (.str s (some (pushStr s acc).1)), (pushStr s acc).2) := rfl
private theorem isLit1 (s : Str) (i : Option Nat) (acc : List Str) :
    indexStrings 1 (.lit (.str s i)) acc = (.lit (.str s (some (pushStr s acc).1)), (pushStr s acc).2) := rfl

example : ∃ ls bki ws, checkLocalesInner false 5 [] none [en, fr] [] = .ok (ls, bki, ws) ∧
    ls.map Loc.strings = [[['h', 'i'], ['a']], [['y', 'o']]] ∧ ls.map Loc.count = [2, 1] ∧
    depthBKI bki = 1 ∧ countsEq [2, 1] bki = true := by
  simp [en, fr, sub, checkLocalesInner, checkLocalesInner.go, makeBuilderKeys, makeKeys, makeKeys.shapeOf',
    Reduce.reduce, Reduce.reduceKeys, gkLit, isLitM, isLit1, pushStr, pushKey, Plurals.pushKey, mergeLocale,
    mergeKeys, mergeValue, shapeOf, AMap.get?, AMap.insert', AMap.insert, AMap.contains, AMap.strLt, Lit.ty,
    List.idxOf?, List.findIdx?, List.findIdx?.go, propagate, Loc.keys, Loc.name, Loc.top, Loc.strings, Loc.count]
  exact ⟨_, _, ⟨rfl, rfl⟩, by decide⟩

end I18nVerif.Check
