import I18nVerif.Proofs.Context
/-!
# C16 — A context always shows the last locale set; sub-contexts are isolated

Model: `I18nVerif.Model.Context` (contexts = cells, views share their context's cell, closures read at call
time).  Spec: `I18nVerif.Spec.Context` (a function of the operation history: latest `set*` on any view of the
context, else its initial locale).

All theorems hold for every operation sequence (any length, any tree of contexts, any number of scoped views
and closures) — induction over the list of operations; nothing is bounded.

These theorems are thin by nature: an `I18nContext` is a `Copy` handle on one `RwSignal`, and the model says
just that.  What is **trusted**, not proved: leptos' reactive runtime (`RwSignal::get/set/write_untracked` are
atomic reads/writes of one slot; a `t!` closure placed in a view is *re-executed* by leptos when the signal
notifies — here a closure is re-invoked explicitly), and that `scope()` really copies the signal
(`context.rs:88-95`, three lines).  The correspondence check (real contexts under `ssr`, random operation
sequences, every observation compared) carries most of the weight.
-/
namespace I18nVerif.Context
open Spec

/-! ### Refinement -/

theorem run_refines {s : State} {h : Hist} (a : Abs s h) (ops : List Op) :
    (run s ops).2 = observe h ops := by
  induction ops generalizing s h with
  | nil => rfl
  | cons op ops ih =>
    have ⟨h1, h2⟩ := step_refines a op
    simp only [run, observe]
    rw [← h1] at h2 ⊢
    congr 1
    exact ih h2

/-- **Refinement**: for every operation sequence run from scratch, every observation of the cell machine
    (each `get` / `get_untracked`, each call of a closure created earlier, each id handed out) is exactly what
    the history specification says: the locale most recently set on any view of that context, else the locale
    the context was created with. -/
theorem C16_refinement (ops : List Op) : (run State.empty ops).2 = observations ops :=
  run_refines abs_empty ops

/-- what the specification means, spelled out: right after `set_locale` / `set_locale_untracked` through a view
    of context `c`, `c` shows that locale, and every other context shows what it showed before -/
theorem C16_spec_latest_set (h : Hist) (v c : Nat) (l : Locale) (hv : (Spec.views h)[v]? = some c) :
    current (.set v l :: h) c = some l ∧ current (.setUntracked v l :: h) c = some l ∧
    ∀ c', c' ≠ c → current (.set v l :: h) c' = current h c' ∧ current (.setUntracked v l :: h) c' = current h c' := by
  refine ⟨by simp [current, hv], by simp [current, hv], ?_⟩
  intro c' hne
  have : ¬ c = c' := fun e => hne e.symm
  simp [current, hv, this]

/-- reads, scoping and closure creation/calls never change what any context shows -/
theorem C16_spec_reads_are_pure (h : Hist) (c v : Nat) :
    current (.get v :: h) c = current h c ∧ current (.getUntracked v :: h) c = current h c ∧
    current (.scope v :: h) c = current h c ∧ current (.makeClosure v :: h) c = current h c ∧
    current (.callClosure v :: h) c = current h c := by
  simp [current]

/-- **Set through any view, observe through any view or closure of the same context.**
    In any state, if views `v`, `v'` and the view captured by closure `k` all belong to context `c`, then after
    `set_locale(l)` (or the untracked variant) through `v`, `get_locale` through `v'` and a call of `k` both
    observe `l` — closures created *before* the set included. -/
theorem C16_set_then_observe (s : State) (v v' k kv c : Nat) (l : Locale) (hc : c < s.cells.length)
    (hv : s.views[v]? = some c) (hv' : s.views[v']? = some c)
    (hk : s.closures[k]? = some kv) (hkv : s.views[kv]? = some c) :
    ∀ s1, (s1 = (step s (.set v l)).1 ∨ s1 = (step s (.setUntracked v l)).1) →
      (step s1 (.get v')).2 = .locale l ∧ (step s1 (.getUntracked v')).2 = .locale l ∧
      (step s1 (.callClosure k)).2 = .locale l := by
  intro s1 hs1
  have e : s1 = { s with cells := s.cells.set c l } := by
    rcases hs1 with h | h <;> simp [h, step, State.write, hv, hc]
  subst e
  simp [step, State.read, hv', hk, hkv, hc]

/-! ### Isolation -/

/-- the context an operation may write to -/
def Op.target (s : State) : Op → Option Nat
  | .set v _ => s.views[v]?
  | .setUntracked v _ => s.views[v]?
  | _ => none

/-- **Isolation (one step)**: an operation never changes the locale shown by a context other than the one it
    is applied to — creating a root or a sub-context, scoping, reading, creating/calling closures change no
    existing context at all; `set*` through a view of `c` changes only `c`.  Parent and child are different
    contexts, so this covers them. -/
theorem C16_isolation (s : State) (op : Op) (c' : Nat) (hc : c' < s.cells.length)
    (hne : Op.target s op ≠ some c') : (step s op).1.cells[c']? = s.cells[c']? := by
  have happ : ∀ x, (s.cells ++ [x])[c']? = s.cells[c']? := fun x => List.getElem?_append_left hc
  have hset : ∀ v l, s.views[v]? ≠ some c' →
      (match s.write v l with | some s' => (s', Obs.none) | none => (s, Obs.bad)).1.cells[c']? = s.cells[c']? := by
    intro v l hv
    unfold State.write
    cases hvv : s.views[v]? with
    | none => simp
    | some c =>
      by_cases hlt : c < s.cells.length
      · have : ¬ c = c' := fun e => hv (by rw [hvv, e])
        simp [hlt, this]
      · simp [hlt]
  cases op with
  | newRoot init => simp [step, happ]
  | sub parent initial fallback =>
    cases parent with
    | none => simp [step, happ]
    | some pv => cases hr : s.read pv <;> simp [step, hr, happ]
  | scope v => cases hv : s.views[v]? <;> simp [step, hv]
  | set v l => exact hset v l (by simpa [Op.target] using hne)
  | setUntracked v l => exact hset v l (by simpa [Op.target] using hne)
  | get v => cases hr : s.read v <;> simp [step, hr]
  | getUntracked v => cases hr : s.read v <;> simp [step, hr]
  | makeClosure v => by_cases h : v < s.views.length <;> simp [step, h]
  | callClosure i =>
    cases hi : s.closures[i]? with
    | none => simp [step, hi]
    | some v => cases hr : s.read v <;> simp [step, hi, hr]

theorem cells_length_mono (s : State) (op : Op) : s.cells.length ≤ (step s op).1.cells.length := by
  cases op with
  | newRoot init => simp [step]
  | sub parent initial fallback =>
    cases parent with
    | none => simp [step]
    | some pv => cases hr : s.read pv <;> simp [step, hr]
  | scope v => cases hv : s.views[v]? <;> simp [step, hv]
  | set v l =>
    simp only [step, State.write]
    cases s.views[v]? with
    | none => simp
    | some c => by_cases hlt : c < s.cells.length <;> simp [hlt]
  | setUntracked v l =>
    simp only [step, State.write]
    cases s.views[v]? with
    | none => simp
    | some c => by_cases hlt : c < s.cells.length <;> simp [hlt]
  | get v => cases hr : s.read v <;> simp [step, hr]
  | getUntracked v => cases hr : s.read v <;> simp [step, hr]
  | makeClosure v => by_cases h : v < s.views.length <;> simp [step, h]
  | callClosure i =>
    cases hi : s.closures[i]? with
    | none => simp [step, hi]
    | some v => cases hr : s.read v <;> simp [step, hi, hr]

/-- does some operation of the sequence write to context `c`? (views created on the way are followed) -/
def writes (s : State) : List Op → Nat → Bool
  | [], _ => false
  | op :: ops, c => (Op.target s op == some c) || writes (step s op).1 ops c

/-- **Isolation (whole sequences)**: whatever is done — to any other context, to sub-contexts created from this
    one, to its parent, through any scoped view — a context that is not itself the target of a `set*` keeps
    showing the same locale. -/
theorem C16_isolation_seq (s : State) (ops : List Op) (c' : Nat) (hc : c' < s.cells.length)
    (hw : writes s ops c' = false) : (run s ops).1.cells[c']? = s.cells[c']? := by
  induction ops generalizing s with
  | nil => rfl
  | cons op ops ih =>
    simp only [writes, Bool.or_eq_false_iff, beq_eq_false_iff_ne, ne_eq] at hw
    have h1 := C16_isolation s op c' hc hw.1
    have h2 := ih (step s op).1 (Nat.lt_of_lt_of_le hc (cells_length_mono s op)) hw.2
    simp only [run]
    rw [h2, h1]

/-- **Parent and child never change each other**: right after a sub-context was created from (a view of) a
    parent context, setting the child's locale leaves the parent's unchanged and vice versa. -/
theorem C16_parent_child_isolated (s : State) (pv pc : Nat) (initial : Option Locale) (fallback l : Locale)
    (hpv : s.views[pv]? = some pc) (hpc : pc < s.cells.length) :
    let s1 := (step s (.sub (some pv) initial fallback)).1
    let child := s.views.length
    s1.views[child]? = some s.cells.length ∧
    (step s1 (.set child l)).1.read pv = s1.read pv ∧ (step s1 (.setUntracked child l)).1.read pv = s1.read pv ∧
    (step s1 (.set pv l)).1.read child = s1.read child ∧ (step s1 (.setUntracked pv l)).1.read child = s1.read child := by
  intro s1 child
  obtain ⟨x, hx⟩ : ∃ x, s.cells[pc]? = some x := ⟨s.cells[pc], List.getElem?_eq_getElem hpc⟩
  have hr : s.read pv = some x := by simp [State.read, hpv, hx]
  obtain ⟨y, hs1⟩ : ∃ y, s1 = { s with cells := s.cells ++ [y], views := s.views ++ [s.cells.length] } :=
    ⟨Resolve.subMemo true initial none (Resolve.signalMaybeOnceThen (some x) fallback true), by simp [s1, step, hr]⟩
  have hchild : s1.views[child]? = some s.cells.length := by simp [hs1, child]
  have hpv1 : s1.views[pv]? = some pc := by
    have : pv < s.views.length := (List.getElem?_eq_some_iff.mp hpv).1
    simp [hs1, List.getElem?_append_left this, hpv]
  have hlen : s1.cells.length = s.cells.length + 1 := by simp [hs1]
  have hne : pc ≠ s.cells.length := by omega
  refine ⟨hchild, ?_, ?_, ?_, ?_⟩
  · simp [step, State.write, State.read, hchild, hpv1, hlen, hne.symm]
  · simp [step, State.write, State.read, hchild, hpv1, hlen, hne.symm]
  · have : pc < s1.cells.length := by omega
    simp [step, State.write, State.read, hchild, hpv1, this, hne]
  · have : pc < s1.cells.length := by omega
    simp [step, State.write, State.read, hchild, hpv1, this, hne]

/-! ### Scoped views -/

theorem views_stable (s : State) (op : Op) (v : Nat) (hv : v < s.views.length) :
    (step s op).1.views[v]? = s.views[v]? ∧ s.views.length ≤ (step s op).1.views.length := by
  have happ : ∀ x, (s.views ++ [x])[v]? = s.views[v]? := fun x => List.getElem?_append_left hv
  cases op with
  | newRoot init => simp [step, happ]
  | sub parent initial fallback =>
    cases parent with
    | none => simp [step, happ]
    | some pv => cases hr : s.read pv <;> simp [step, hr, happ]
  | scope w => cases hw : s.views[w]? <;> simp [step, hw, happ]
  | set w l =>
    simp only [step, State.write]
    cases s.views[w]? with
    | none => simp
    | some c => by_cases hlt : c < s.cells.length <;> simp [hlt]
  | setUntracked w l =>
    simp only [step, State.write]
    cases s.views[w]? with
    | none => simp
    | some c => by_cases hlt : c < s.cells.length <;> simp [hlt]
  | get w => cases hr : s.read w <;> simp [step, hr]
  | getUntracked w => cases hr : s.read w <;> simp [step, hr]
  | makeClosure w => by_cases h : w < s.views.length <;> simp [step, h]
  | callClosure i =>
    cases hi : s.closures[i]? with
    | none => simp [step, hi]
    | some w => cases hr : s.read w <;> simp [step, hi, hr]

theorem views_stable_run (s : State) (ops : List Op) (v : Nat) (hv : v < s.views.length) :
    (run s ops).1.views[v]? = s.views[v]? := by
  induction ops generalizing s with
  | nil => rfl
  | cons op ops ih =>
    have ⟨h1, h2⟩ := views_stable s op v hv
    simp only [run]
    rw [ih _ (Nat.lt_of_lt_of_le hv h2), h1]

/-- two views of the same context are interchangeable: same observations, same effect of every operation -/
theorem C16_same_context_interchangeable (s : State) (v1 v2 : Nat) (h : s.views[v1]? = s.views[v2]?) (l : Locale) :
    step s (.set v1 l) = step s (.set v2 l) ∧ step s (.setUntracked v1 l) = step s (.setUntracked v2 l) ∧
    step s (.get v1) = step s (.get v2) ∧ step s (.getUntracked v1) = step s (.getUntracked v2) := by
  simp [step, State.write, State.read, h]

/-- **A scoped view shares its context's cell**: `scope` creates a new view of the *same* context and changes
    no locale; from then on, whatever happens, the scoped view and the view it was derived from stay views of the
    same context — hence (previous theorem) observe the same locale and `set*` through either changes exactly that
    context's locale. -/
theorem C16_scope_shares (s : State) (v c : Nat) (hv : s.views[v]? = some c) :
    let s1 := (step s (.scope v)).1
    let nv := s.views.length
    (step s (.scope v)).2 = .view nv ∧ s1.cells = s.cells ∧ s1.views[nv]? = some c ∧
    ∀ ops, (run s1 ops).1.views[nv]? = some c ∧ (run s1 ops).1.views[v]? = some c := by
  intro s1 nv
  have hs1 : s1 = { s with views := s.views ++ [c] } := by simp [s1, step, hv]
  have hvlt : v < s.views.length := (List.getElem?_eq_some_iff.mp hv).1
  have h1 : s1.views[nv]? = some c := by simp [hs1, nv]
  have h2 : s1.views[v]? = some c := by simp [hs1, List.getElem?_append_left hvlt, hv]
  refine ⟨by simp [step, hv, nv], by simp [hs1], h1, ?_⟩
  intro ops
  have l1 : nv < s1.views.length := by simp [hs1, nv]
  have l2 : v < s1.views.length := by simp [hs1]; omega
  exact ⟨by rw [views_stable_run s1 ops nv l1, h1], by rw [views_stable_run s1 ops v l2, h2]⟩

/-! ### Concrete sequences (locales: 0 = en, 1 = en-US, 2 = fr, 3 = fr-CA, 4 = de) -/

/-- root(fr); closure on it; scope; set(de) through the scoped view; the old closure and both views show `de`;
    a sub-context created now starts at `de`; setting it to `fr-CA` (untracked) leaves the parent at `de`; setting the
    parent to `en` leaves the child at `fr-CA`; a sub-context with an explicit initial locale ignores its parent. -/
private def demo : List Op :=
  [.newRoot 2, .makeClosure 0, .scope 0, .set 1 4, .callClosure 0, .get 0, .getUntracked 1,
   .sub (some 1) none 0, .get 2, .setUntracked 2 3, .get 0, .get 2, .set 0 0, .get 2, .callClosure 0,
   .sub (some 2) (some 1) 0, .get 3, .sub none none 0, .get 4, .scope 2, .set 5 2, .get 2, .get 1]

example : (run State.empty demo).2 =
    [.view 0, .closure 0, .view 1, .none, .locale 4, .locale 4, .locale 4,
     .view 2, .locale 4, .none, .locale 4, .locale 3, .none, .locale 3, .locale 0,
     .view 3, .locale 1, .view 4, .locale 0, .view 5, .none, .locale 2, .locale 0] := by decide

example : observations demo = (run State.empty demo).2 := by decide

/-- operations naming unknown views / closures are rejected and change nothing -/
example : (run State.empty [.get 0, .newRoot 1, .set 3 2, .callClosure 0, .scope 7, .sub (some 5) none 0, .get 0]).2 =
    [.bad, .view 0, .bad, .bad, .bad, .bad, .locale 1] := by decide

/-- the hypothesis of `C16_isolation_seq` is satisfiable by a non-trivial sequence: nothing below targets context 0 -/
example : writes (run State.empty [.newRoot 2]).1
    [.sub (some 0) none 0, .set 1 4, .scope 1, .setUntracked 2 3, .newRoot 1, .set 3 0] 0 = false := by decide

end I18nVerif.Context
