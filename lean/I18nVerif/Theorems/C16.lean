import I18nVerif.Proofs.Context
/-!
# C16 — A context always shows the last locale set; sub-contexts are isolated

Model: `I18nVerif.Model.Context` (contexts = cells, views share their context's cell, closures read at call
time).  Spec: `I18nVerif.Spec.Context` (a function of the operation history: latest `set*` on any view of the
context, else its initial locale).

All theorems hold for every operation sequence (any length, any tree of contexts and owners, any number of
scoped views, closures and memos) — induction over the list of operations; nothing is bounded.

"Reactive accessor" has the modelled meaning of leptos' lazy `Memo` (see the model file): cached value,
invalidated by *tracked* sets only, recomputed at the next read.

These theorems are thin by nature: an `I18nContext` is a `Copy` handle on one `RwSignal`, and the model says
just that.  What is **trusted**, not proved: leptos' reactive runtime (`RwSignal::get/set/write_untracked` are
atomic reads/writes of one slot; a `t!` closure placed in a view is *re-executed* by leptos when the signal
notifies — here a closure is re-invoked explicitly), and that `scope()` really copies the signal
(`context.rs:88-95`, three lines).  The correspondence check (real contexts under `ssr`, random operation
sequences, every observation compared) carries most of the weight.
-/
namespace I18nVerif.Context
open Spec

/-! ### Refinement -/

theorem run_refines {s : State} {h : Hist} (a : Abs s h) (ops : List Op) :
    (run s ops).2 = observe h ops := by
  induction ops generalizing s h with
  | nil => rfl
  | cons op ops ih =>
    have ⟨h1, h2⟩ := step_refines a op
    simp only [run, observe]
    rw [← h1] at h2 ⊢
    congr 1
    exact ih h2

/-- **Refinement**: for every operation sequence run from scratch, every observation of the cell machine
    (each `get` / `get_untracked`, each call of a closure created earlier, each id handed out) is exactly what
    the history specification says: the locale most recently set on any view of that context, else the locale
    the context was created with. -/
theorem C16_refinement (ops : List Op) : (run State.empty ops).2 = observations ops :=
  run_refines abs_empty ops

/-- what the specification means, spelled out: right after `set_locale` / `set_locale_untracked` through a view
    of context `c`, `c` shows that locale, and every other context shows what it showed before -/
theorem C16_spec_latest_set (h : Hist) (v c : Nat) (l : Locale) (hv : (Spec.views h)[v]? = some c) :
    current (.set v l :: h) c = some l ∧ current (.setUntracked v l :: h) c = some l ∧
    ∀ c', c' ≠ c → current (.set v l :: h) c' = current h c' ∧ current (.setUntracked v l :: h) c' = current h c' := by
  refine ⟨by simp [current, hv], by simp [current, hv], ?_⟩
  intro c' hne
  have : ¬ c = c' := fun e => hne e.symm
  simp [current, hv, this]

/-- reads, scoping and closure creation/calls never change what any context shows -/
theorem C16_spec_reads_are_pure (h : Hist) (c v : Nat) :
    current (.get v :: h) c = current h c ∧ current (.getUntracked v :: h) c = current h c ∧
    current (.scope v :: h) c = current h c ∧ current (.makeClosure v :: h) c = current h c ∧
    current (.callClosure v :: h) c = current h c := by
  simp [current]

/-- **Set through any view, observe through any view or closure of the same context.**
    In any state, if views `v`, `v'` and the view captured by closure `k` all belong to context `c`, then after
    `set_locale(l)` (or the untracked variant) through `v`, `get_locale` through `v'` and a call of `k` both
    observe `l` — closures created *before* the set included. -/
theorem C16_set_then_observe (s : State) (v v' k kv c : Nat) (l : Locale) (hc : c < s.cells.length)
    (hv : s.views[v]? = some c) (hv' : s.views[v']? = some c)
    (hk : s.closures[k]? = some kv) (hkv : s.views[kv]? = some c) :
    ∀ s1, (s1 = (step s (.set v l)).1 ∨ s1 = (step s (.setUntracked v l)).1) →
      (step s1 (.get v')).2 = .locale l ∧ (step s1 (.getUntracked v')).2 = .locale l ∧
      (step s1 (.callClosure k)).2 = .locale l := by
  intro s1 hs1
  have e : s1.cells = s.cells.set c l ∧ s1.views = s.views ∧ s1.closures = s.closures := by
    rcases hs1 with h | h <;> simp [h, step, State.write, hv, hc]
  obtain ⟨e1, e2, e3⟩ := e
  simp [step, State.read, e1, e2, e3, hv', hk, hkv, hc]

/-! ### Isolation -/

/-- the context an operation may write to -/
def Op.target (s : State) : Op → Option Nat
  | .set v _ => s.views[v]?
  | .setUntracked v _ => s.views[v]?
  | _ => none

/-- **Isolation (one step)**: an operation never changes the locale shown by a context other than the one it
    is applied to — creating a root or a sub-context (wired or not), scoping, reading, creating/calling closures,
    writing a wire change no existing context at all; `set*` through a view of `c` changes only `c`; a tick changes
    only the wired sub-contexts whose wire is due (`pending`).  Parent and child are different contexts, so this
    covers them. -/
theorem C16_isolation (s : State) (op : Op) (c' : Nat) (hc : c' < s.cells.length)
    (hne : Op.target s op ≠ some c') (hd : op = .tick → pending s.wires c' = none) :
    (step s op).1.cells[c']? = s.cells[c']? := by
  have happ : ∀ x, (s.cells ++ [x])[c']? = s.cells[c']? := fun x => List.getElem?_append_left hc
  have hset : ∀ v l t, s.views[v]? ≠ some c' →
      (match s.write v l t with | some s' => (s', Obs.none) | none => (s, Obs.bad)).1.cells[c']? = s.cells[c']? := by
    intro v l t hv
    unfold State.write
    cases hvv : s.views[v]? with
    | none => simp
    | some c =>
      by_cases hlt : c < s.cells.length
      · have : ¬ c = c' := fun e => hv (by rw [hvv, e])
        simp [hlt, this]
      · simp [hlt]
  cases op with
  | newRoot init => simp [step, happ]
  | sub parent initial fallback =>
    cases parent with
    | none => simp [step, happ]
    | some pv => cases hr : s.read pv <;> simp [step, hr, happ]
  | scope v => cases hv : s.views[v]? <;> simp [step, hv]
  | set v l => exact hset v l true (by simpa [Op.target] using hne)
  | setUntracked v l => exact hset v l false (by simpa [Op.target] using hne)
  | get v => cases hr : s.read v <;> simp [step, hr]
  | getUntracked v => cases hr : s.read v <;> simp [step, hr]
  | makeClosure v => by_cases h : v < s.views.length <;> simp [step, h]
  | callClosure i =>
    cases hi : s.closures[i]? with
    | none => simp [step, hi]
    | some v => cases hr : s.read v <;> simp [step, hi, hr]
  | makeMemo v => by_cases h : v < s.views.length <;> simp [step, h]
  | readMemo i =>
    cases hi : s.memos[i]? with
    | none => simp [step, hi]
    | some m =>
      cases hd : m.dirty with
      | true => cases hr : s.read m.view <;> simp [step, hi, hd, hr]
      | false => cases hcache : m.cache <;> simp [step, hi, hd, hcache]
  | provideRoot init => simp [step, happ]
  | childOwner o => by_cases h : o < s.owners.length <;> simp [step, h]
  | provider o initial fallback => by_cases h : o < s.owners.length <;> simp [step, h, happ]
  | useCtx o =>
    by_cases h : o < s.owners.length
    · cases hl : s.lookup o <;> simp [step, h, hl]
    · simp [step, h]
  | tick => simp [step, State.deliver, List.getElem?_mapIdx, hd rfl]
  | subWired parent w =>
    cases parent with
    | none => simp [step, happ]
    | some pv => cases hr : s.read pv <;> simp [step, hr, happ]
  | wireSet i l => cases hi : s.wires[i]? <;> simp [step, hi]

theorem cells_length_mono (s : State) (op : Op) : s.cells.length ≤ (step s op).1.cells.length := by
  cases op with
  | newRoot init => simp [step]
  | sub parent initial fallback =>
    cases parent with
    | none => simp [step]
    | some pv => cases hr : s.read pv <;> simp [step, hr]
  | scope v => cases hv : s.views[v]? <;> simp [step, hv]
  | set v l =>
    simp only [step, State.write]
    cases s.views[v]? with
    | none => simp
    | some c => by_cases hlt : c < s.cells.length <;> simp [hlt]
  | setUntracked v l =>
    simp only [step, State.write]
    cases s.views[v]? with
    | none => simp
    | some c => by_cases hlt : c < s.cells.length <;> simp [hlt]
  | get v => cases hr : s.read v <;> simp [step, hr]
  | getUntracked v => cases hr : s.read v <;> simp [step, hr]
  | makeClosure v => by_cases h : v < s.views.length <;> simp [step, h]
  | callClosure i =>
    cases hi : s.closures[i]? with
    | none => simp [step, hi]
    | some v => cases hr : s.read v <;> simp [step, hi, hr]
  | makeMemo v => by_cases h : v < s.views.length <;> simp [step, h]
  | readMemo i =>
    cases hi : s.memos[i]? with
    | none => simp [step, hi]
    | some m =>
      cases hd : m.dirty with
      | true => cases hr : s.read m.view <;> simp [step, hi, hd, hr]
      | false => cases hcache : m.cache <;> simp [step, hi, hd, hcache]
  | provideRoot init => simp [step]
  | childOwner o => by_cases h : o < s.owners.length <;> simp [step, h]
  | provider o initial fallback => by_cases h : o < s.owners.length <;> simp [step, h]
  | useCtx o =>
    by_cases h : o < s.owners.length
    · cases hl : s.lookup o <;> simp [step, h, hl]
    · simp [step, h]
  | tick => simp [step, State.deliver]
  | subWired parent w =>
    cases parent with
    | none => simp [step]
    | some pv => cases hr : s.read pv <;> simp [step, hr]
  | wireSet i l => cases hi : s.wires[i]? <;> simp [step, hi]

/-- does a tick in state `s` deliver a wire into context `c`? -/
def State.delivers (s : State) (c : Nat) : Bool := (pending s.wires c).isSome

/-- does some operation of the sequence write to context `c`? (views created on the way are followed) -/
def writes (s : State) : List Op → Nat → Bool
  | [], _ => false
  | op :: ops, c => (Op.target s op == some c) || (op == .tick && s.delivers c) || writes (step s op).1 ops c

/-- **Isolation (whole sequences)**: whatever is done — to any other context, to sub-contexts created from this
    one (wired or not), to its parent, through any scoped view, to any wire — a context that is not itself the target
    of a `set*` or of the delivery of its own wire keeps showing the same locale. -/
theorem C16_isolation_seq (s : State) (ops : List Op) (c' : Nat) (hc : c' < s.cells.length)
    (hw : writes s ops c' = false) : (run s ops).1.cells[c']? = s.cells[c']? := by
  induction ops generalizing s with
  | nil => rfl
  | cons op ops ih =>
    simp only [writes, Bool.or_eq_false_iff, beq_eq_false_iff_ne, ne_eq, Bool.and_eq_false_imp, beq_iff_eq,
      State.delivers, Option.isSome_eq_false_iff, Option.isNone_iff_eq_none] at hw
    have h1 := C16_isolation s op c' hc hw.1.1 hw.1.2
    have h2 := ih (step s op).1 (Nat.lt_of_lt_of_le hc (cells_length_mono s op)) hw.2
    simp only [run]
    rw [h2, h1]

/-- **Parent and child never change each other**: right after a sub-context was created from (a view of) a
    parent context, setting the child's locale leaves the parent's unchanged and vice versa. -/
theorem C16_parent_child_isolated (s : State) (pv pc : Nat) (initial : Option Locale) (fallback l : Locale)
    (hpv : s.views[pv]? = some pc) (hpc : pc < s.cells.length) :
    let s1 := (step s (.sub (some pv) initial fallback)).1
    let child := s.views.length
    s1.views[child]? = some s.cells.length ∧
    (step s1 (.set child l)).1.read pv = s1.read pv ∧ (step s1 (.setUntracked child l)).1.read pv = s1.read pv ∧
    (step s1 (.set pv l)).1.read child = s1.read child ∧ (step s1 (.setUntracked pv l)).1.read child = s1.read child := by
  intro s1 child
  obtain ⟨x, hx⟩ : ∃ x, s.cells[pc]? = some x := ⟨s.cells[pc], List.getElem?_eq_getElem hpc⟩
  have hr : s.read pv = some x := by simp [State.read, hpv, hx]
  obtain ⟨y, hs1⟩ : ∃ y, s1 = { s with cells := s.cells ++ [y], views := s.views ++ [s.cells.length] } :=
    ⟨subInit initial (some x) fallback, by simp [s1, step, hr]⟩
  have hchild : s1.views[child]? = some s.cells.length := by simp [hs1, child]
  have hpv1 : s1.views[pv]? = some pc := by
    have : pv < s.views.length := (List.getElem?_eq_some_iff.mp hpv).1
    simp [hs1, List.getElem?_append_left this, hpv]
  have hlen : s1.cells.length = s.cells.length + 1 := by simp [hs1]
  have hne : pc ≠ s.cells.length := by omega
  refine ⟨hchild, ?_, ?_, ?_, ?_⟩
  · simp [step, State.write, State.read, hchild, hpv1, hlen, hne.symm]
  · simp [step, State.write, State.read, hchild, hpv1, hlen, hne.symm]
  · have : pc < s1.cells.length := by omega
    simp [step, State.write, State.read, hchild, hpv1, this, hne]
  · have : pc < s1.cells.length := by omega
    simp [step, State.write, State.read, hchild, hpv1, this, hne]

/-! ### Scoped views -/

theorem views_stable (s : State) (op : Op) (v : Nat) (hv : v < s.views.length) :
    (step s op).1.views[v]? = s.views[v]? ∧ s.views.length ≤ (step s op).1.views.length := by
  have happ : ∀ x, (s.views ++ [x])[v]? = s.views[v]? := fun x => List.getElem?_append_left hv
  cases op with
  | newRoot init => simp [step, happ]
  | sub parent initial fallback =>
    cases parent with
    | none => simp [step, happ]
    | some pv => cases hr : s.read pv <;> simp [step, hr, happ]
  | scope w => cases hw : s.views[w]? <;> simp [step, hw, happ]
  | set w l =>
    simp only [step, State.write]
    cases s.views[w]? with
    | none => simp
    | some c => by_cases hlt : c < s.cells.length <;> simp [hlt]
  | setUntracked w l =>
    simp only [step, State.write]
    cases s.views[w]? with
    | none => simp
    | some c => by_cases hlt : c < s.cells.length <;> simp [hlt]
  | get w => cases hr : s.read w <;> simp [step, hr]
  | getUntracked w => cases hr : s.read w <;> simp [step, hr]
  | makeClosure w => by_cases h : w < s.views.length <;> simp [step, h]
  | callClosure i =>
    cases hi : s.closures[i]? with
    | none => simp [step, hi]
    | some w => cases hr : s.read w <;> simp [step, hi, hr]
  | makeMemo w => by_cases h : w < s.views.length <;> simp [step, h]
  | readMemo i =>
    cases hi : s.memos[i]? with
    | none => simp [step, hi]
    | some m =>
      cases hd : m.dirty with
      | true => cases hr : s.read m.view <;> simp [step, hi, hd, hr]
      | false => cases hcache : m.cache <;> simp [step, hi, hd, hcache]
  | provideRoot init => simp [step, happ]
  | childOwner o => by_cases h : o < s.owners.length <;> simp [step, h]
  | provider o initial fallback => by_cases h : o < s.owners.length <;> simp [step, h, happ]
  | useCtx o =>
    by_cases h : o < s.owners.length
    · cases hl : s.lookup o <;> simp [step, h, hl, happ]
    · simp [step, h]
  | tick => simp [step, State.deliver]
  | subWired parent x =>
    cases parent with
    | none => simp [step, happ]
    | some pv => cases hr : s.read pv <;> simp [step, hr, happ]
  | wireSet i l => cases hi : s.wires[i]? <;> simp [step, hi]

theorem views_stable_run (s : State) (ops : List Op) (v : Nat) (hv : v < s.views.length) :
    (run s ops).1.views[v]? = s.views[v]? := by
  induction ops generalizing s with
  | nil => rfl
  | cons op ops ih =>
    have ⟨h1, h2⟩ := views_stable s op v hv
    simp only [run]
    rw [ih _ (Nat.lt_of_lt_of_le hv h2), h1]

/-- two views of the same context are interchangeable: same observations, same effect of every operation -/
theorem C16_same_context_interchangeable (s : State) (v1 v2 : Nat) (h : s.views[v1]? = s.views[v2]?) (l : Locale) :
    step s (.set v1 l) = step s (.set v2 l) ∧ step s (.setUntracked v1 l) = step s (.setUntracked v2 l) ∧
    step s (.get v1) = step s (.get v2) ∧ step s (.getUntracked v1) = step s (.getUntracked v2) := by
  simp [step, State.write, State.read, h]

/-- **A scoped view shares its context's cell**: `scope` creates a new view of the *same* context and changes
    no locale; from then on, whatever happens, the scoped view and the view it was derived from stay views of the
    same context — hence (previous theorem) observe the same locale and `set*` through either changes exactly that
    context's locale. -/
theorem C16_scope_shares (s : State) (v c : Nat) (hv : s.views[v]? = some c) :
    let s1 := (step s (.scope v)).1
    let nv := s.views.length
    (step s (.scope v)).2 = .view nv ∧ s1.cells = s.cells ∧ s1.views[nv]? = some c ∧
    ∀ ops, (run s1 ops).1.views[nv]? = some c ∧ (run s1 ops).1.views[v]? = some c := by
  intro s1 nv
  have hs1 : s1 = { s with views := s.views ++ [c] } := by simp [s1, step, hv]
  have hvlt : v < s.views.length := (List.getElem?_eq_some_iff.mp hv).1
  have h1 : s1.views[nv]? = some c := by simp [hs1, nv]
  have h2 : s1.views[v]? = some c := by simp [hs1, List.getElem?_append_left hvlt, hv]
  refine ⟨by simp [step, hv, nv], by simp [hs1], h1, ?_⟩
  intro ops
  have l1 : nv < s1.views.length := by simp [hs1, nv]
  have l2 : v < s1.views.length := by simp [hs1]; omega
  exact ⟨by rw [views_stable_run s1 ops nv l1, h1], by rw [views_stable_run s1 ops v l2, h2]⟩

/-! ### Reactive accessors (memos) -/

theorem run_abs {s : State} {h : Hist} (a : Abs s h) (ops : List Op) :
    Abs (run s ops).1 (history h ops) := by
  induction ops generalizing s h with
  | nil => exact a
  | cons op ops ih =>
    have ⟨_, h2⟩ := step_refines a op
    simp only [run, history]
    exact ih h2

/-- **Memo refinement**: after every operation sequence, every memo of the machine holds exactly what the
    specification says — the view it was derived from, as cache "the value of the cell at its last (re)evaluation",
    as dirty flag "never read, or a tracked `set_locale` on its context happened since the last read" — and a read
    of any memo returns what the specification's rule (`memoRead`) says.  (`C16_refinement` already includes the
    `readMemo` observations of the sequence itself; this is the statement about the state it leaves behind.) -/
theorem C16_memo_refinement (ops : List Op) :
    let s := (run State.empty ops).1
    let h := history [] ops
    (∀ i, s.memos[i]? = ((memoViews h)[i]?).map
        (fun v => ({ view := v, cache := memoCache h i, dirty := memoStale h i } : Memo))) ∧
    (∀ i, (step s (.readMemo i)).2 = match memoRead h i with | some l => .locale l | none => .bad) := by
  intro s h
  have a : Abs s h := run_abs abs_empty ops
  refine ⟨a.memo.get, fun i => ?_⟩
  have h1 := (step_refines a (.readMemo i)).1
  simp only [obsAt] at h1
  rw [h1]
  cases memoRead h i <;> rfl

/-- the specification's rule, spelled out: a tracked set through any view of the memo's context makes the memo
    stale (whatever the value, equal to the current one or not), an untracked set never does, a read makes it fresh -/
theorem C16_spec_memo_staleness (h : Hist) (i v : Nat) (l : Locale) :
    (memoCtx h i = (Spec.views h)[v]? → memoStale (.set v l :: h) i = true) ∧
    memoStale (.setUntracked v l :: h) i = memoStale h i ∧
    memoStale (.readMemo i :: h) i = false := by
  refine ⟨fun e => by simp [memoStale, e], by simp [memoStale], by simp [memoStale]⟩

/-- **A tracked set notifies every reactive accessor of the context** — whatever the cell held before, in
    particular when it already held `x` because of an earlier `set_locale_untracked(x)`: after `set_locale(x)` through
    any view `v` of context `c`, every memo derived earlier from any view of `c` reads `x`, and so does every memo
    derived afterwards. -/
theorem C16_tracked_set_notifies (s : State) (v c : Nat) (x : Locale)
    (hv : s.views[v]? = some c) (hc : c < s.cells.length) :
    let s1 := (step s (.set v x)).1
    (∀ i m, s.memos[i]? = some m → s.views[m.view]? = some c → (step s1 (.readMemo i)).2 = .locale x) ∧
    (∀ w, s.views[w]? = some c →
      (step (step s1 (.makeMemo w)).1 (.readMemo s.memos.length)).2 = .locale x) := by
  intro s1
  have hs1 : s1 = { s with cells := s.cells.set c x, memos := markDirty s.views c s.memos } := by
    simp [s1, step, State.write, hv, hc]
  constructor
  · intro i m hm hmv
    have h1 : s1.memos[i]? = some { m with dirty := true } := by
      simp [hs1, markDirty, hm, hmv]
    have h2 : s1.read m.view = some x := by
      simp [hs1, State.read, hmv, hc]
    simp [step, h1, h2]
  · intro w hw
    have hwlt : w < s1.views.length := by
      have := (List.getElem?_eq_some_iff.mp hw).1
      simpa [hs1] using this
    have hlen : s1.memos.length = s.memos.length := by simp [hs1, markDirty]
    have h2 : s1.read w = some x := by simp [hs1, State.read, hw, hc]
    have h3 : ∀ ms, ({ s1 with memos := ms } : State).read w = some x := by
      intro ms; simpa [State.read] using h2
    simp [step, hwlt, ← hlen, h3]

/-- the pattern the property is about: `set_locale_untracked(x)` then `set_locale(x)` (same value, through any two
    views of the context) — every memo created before reads `x` afterwards -/
theorem C16_tracked_set_notifies_after_untracked (s : State) (v v' c : Nat) (x : Locale)
    (hv : s.views[v]? = some c) (hv' : s.views[v']? = some c) (hc : c < s.cells.length) :
    let s2 := (step (step s (.setUntracked v x)).1 (.set v' x)).1
    ∀ i m, s.memos[i]? = some m → s.views[m.view]? = some c → (step s2 (.readMemo i)).2 = .locale x := by
  intro s2 i m hm hmv
  have hs1 : (step s (.setUntracked v x)).1 = { s with cells := s.cells.set c x } := by
    simp [step, State.write, hv, hc]
  have := (C16_tracked_set_notifies (step s (.setUntracked v x)).1 v' c x (by simp [hs1, hv'])
    (by simp [hs1, hc])).1 i m (by simp [hs1, hm]) (by simp [hs1, hmv])
  exact this

/-- the modelled laziness (leptos' semantics of `write_untracked`): an untracked set does *not* refresh a memo
    that was already evaluated — it keeps returning its cached value until the next tracked set -/
theorem C16_untracked_set_keeps_cache (s : State) (v c i : Nat) (x y : Locale) (mv : Nat)
    (hv : s.views[v]? = some c) (hc : c < s.cells.length)
    (hm : s.memos[i]? = some { view := mv, cache := some y, dirty := false }) :
    (step (step s (.setUntracked v x)).1 (.readMemo i)).2 = .locale y := by
  simp [step, State.write, hv, hc, hm]

/-! ### Providers and owners -/

/-- an operation leaves the owner tree alone or appends one owner whose parent already exists -/
theorem owners_step (s : State) (op : Op) :
    (step s op).1.owners = s.owners ∨
    ∃ n, (step s op).1.owners = s.owners ++ [n] ∧ ∀ p, n.parent = some p → p < s.owners.length := by
  cases op with
  | newRoot init => exact Or.inl rfl
  | sub parent initial fallback =>
    refine Or.inl ?_
    cases parent with
    | none => rfl
    | some pv => cases hr : s.read pv <;> simp [step, hr]
  | scope v => refine Or.inl ?_; cases hv : s.views[v]? <;> simp [step, hv]
  | set v l =>
    refine Or.inl ?_
    simp only [step, State.write]
    cases s.views[v]? with
    | none => rfl
    | some c => by_cases hlt : c < s.cells.length <;> simp [hlt]
  | setUntracked v l =>
    refine Or.inl ?_
    simp only [step, State.write]
    cases s.views[v]? with
    | none => rfl
    | some c => by_cases hlt : c < s.cells.length <;> simp [hlt]
  | get v => refine Or.inl ?_; cases hr : s.read v <;> simp [step, hr]
  | getUntracked v => refine Or.inl ?_; cases hr : s.read v <;> simp [step, hr]
  | makeClosure v => refine Or.inl ?_; by_cases h : v < s.views.length <;> simp [step, h]
  | callClosure i =>
    refine Or.inl ?_
    cases hi : s.closures[i]? with
    | none => simp [step, hi]
    | some v => cases hr : s.read v <;> simp [step, hi, hr]
  | makeMemo v => refine Or.inl ?_; by_cases h : v < s.views.length <;> simp [step, h]
  | readMemo i =>
    refine Or.inl ?_
    cases hi : s.memos[i]? with
    | none => simp [step, hi]
    | some m =>
      cases hd : m.dirty with
      | true => cases hr : s.read m.view <;> simp [step, hi, hd, hr]
      | false => cases hcache : m.cache <;> simp [step, hi, hd, hcache]
  | provideRoot init => exact Or.inr ⟨_, rfl, fun p hp => by cases hp⟩
  | childOwner o =>
    by_cases h : o < s.owners.length
    · exact Or.inr ⟨{ parent := some o, provided := none }, by simp [step, h], fun p hp => by simp at hp; omega⟩
    · exact Or.inl (by simp [step, h])
  | provider o initial fallback =>
    by_cases h : o < s.owners.length
    · exact Or.inr ⟨{ parent := some o, provided := some s.cells.length }, by simp [step, h],
        fun p hp => by simp at hp; omega⟩
    · exact Or.inl (by simp [step, h])
  | useCtx o =>
    refine Or.inl ?_
    by_cases h : o < s.owners.length
    · cases hl : s.lookup o <;> simp [step, h, hl]
    · simp [step, h]
  | tick => simp [step, State.deliver]
  | subWired parent w =>
    refine Or.inl ?_
    cases parent with
    | none => simp [step]
    | some pv => cases hr : s.read pv <;> simp [step, hr]
  | wireSet i l => refine Or.inl ?_; cases hi : s.wires[i]? <;> simp [step, hi]

theorem owners_length_mono (s : State) (op : Op) : s.owners.length ≤ (step s op).1.owners.length := by
  rcases owners_step s op with e | ⟨n, e, _⟩ <;> rw [e] <;> simp

theorem owners_length_mono_run (ops : List Op) : ∀ s : State, s.owners.length ≤ (run s ops).1.owners.length := by
  induction ops with
  | nil => intro s; exact Nat.le_refl _
  | cons op ops ih =>
    intro s
    simp only [run]
    exact Nat.le_trans (owners_length_mono s op) (ih _)

theorem lookup_stable_step (s : State) (op : Op) (wf : OwnersWF s.owners) :
    OwnersWF (step s op).1.owners ∧
    ∀ o, o < s.owners.length → (step s op).1.lookup o = s.lookup o := by
  rcases owners_step s op with e | ⟨n, e, hp⟩
  · exact ⟨by rw [e]; exact wf, fun o _ => by simp [State.lookup, e]⟩
  · exact ⟨by rw [e]; exact wf_append wf n hp,
      fun o ho => by simp only [State.lookup, e]; exact lookup_append wf n hp o ho⟩

/-- every state reached from scratch has a well-formed owner tree (parents are older owners) -/
theorem reachable_wf (ops : List Op) : OwnersWF (run State.empty ops).1.owners :=
  (run_abs abs_empty ops).own.wf

/-- **Provider scoping, one provider**: `<I18nSubContextProvider>` rendered in owner `o` creates a new context and a
    new (child) owner; `use_i18n()` in the child owner finds the new sub-context; in `o` and in every other existing
    owner `use_i18n()` finds what it found before (in `o`: the parent's context); the new sub-context starts, without
    explicit initial locale, from the locale of the context visible in `o`. -/
theorem C16_provider_scoping (s : State) (wf : OwnersWF s.owners) (o : Nat) (ho : o < s.owners.length)
    (initial : Option Locale) (fallback : Locale) :
    let s1 := (step s (.provider o initial fallback)).1
    (step s (.provider o initial fallback)).2 = .provided s.views.length s.owners.length s.cells.length ∧
    s1.lookup s.owners.length = some s.cells.length ∧
    (∀ o', o' < s.owners.length → s1.lookup o' = s.lookup o') ∧
    s1.cells[s.cells.length]? = some (match initial with
      | some i => i
      | none => match s.lookup o with
        | some pc => (s.cells[pc]?).getD fallback
        | none => fallback) := by
  intro s1
  have hp : ∀ q, ({ parent := some o, provided := some s.cells.length } : OwnerNode).parent = some q → q < s.owners.length := by
    intro q hq; simp at hq; omega
  refine ⟨by simp [step, ho], ?_, (lookup_stable_step s _ wf).2, ?_⟩
  · simp only [s1, step, ho, if_true, State.lookup]
    rw [lookup_new wf _ hp]
  · simp only [s1, step, ho, if_true, List.getElem?_concat_length]
    cases initial with
    | some i => simp [subInit, Resolve.subMemo, Resolve.signalMaybeOnceThen, Resolve.signalOnceThen]
    | none =>
      cases hl : s.lookup o with
      | none => simp [subInit, Resolve.subMemo, Resolve.signalMaybeOnceThen]
      | some pc =>
        cases hcell : s.cells[pc]? <;>
          simp [subInit, Resolve.subMemo, Resolve.signalMaybeOnceThen, Resolve.signalOnceThen, hcell]

/-- **Provider scoping, all sequences**: whatever happens later — any number of sibling providers rendered in the
    same owner, nested providers, sets, reads — what `use_i18n()` finds in an existing owner never changes: a
    sub-context is visible only below its provider's children, never in its parent's owner or in a sibling. -/
theorem C16_provider_scoping_seq (s : State) (wf : OwnersWF s.owners) (ops : List Op) :
    OwnersWF (run s ops).1.owners ∧ ∀ o, o < s.owners.length → (run s ops).1.lookup o = s.lookup o := by
  induction ops generalizing s with
  | nil => exact ⟨wf, fun _ _ => rfl⟩
  | cons op ops ih =>
    have ⟨w1, e1⟩ := lookup_stable_step s op wf
    have l1 := owners_length_mono s op
    have ⟨w2, e2⟩ := ih (step s op).1 w1
    simp only [run]
    exact ⟨w2, fun o ho => by rw [e2 o (Nat.lt_of_lt_of_le ho l1), e1 o ho]⟩

/-- **Sibling providers are isolated and initialise from the parent**: after any operations following a first
    provider in owner `o` (its children setting their locale, more siblings, …) a further provider rendered in `o`
    without initial locale starts from the *current* locale of the context that was visible in `o` all along — the
    parent's — not from a sibling's. -/
theorem C16_sibling_provider_inits_from_parent (s : State) (wf : OwnersWF s.owners) (o : Nat)
    (ho : o < s.owners.length) (ops : List Op) (fallback : Locale) :
    let s' := (run s ops).1
    (step s' (.provider o none fallback)).1.cells[s'.cells.length]? =
      some (match s.lookup o with
        | some pc => (s'.cells[pc]?).getD fallback
        | none => fallback) := by
  intro s'
  have ⟨w, e⟩ := C16_provider_scoping_seq s wf ops
  have hlen : o < s'.owners.length := Nat.lt_of_lt_of_le ho (owners_length_mono_run ops s)
  have := (C16_provider_scoping s' w o hlen none fallback).2.2.2
  rw [e o ho] at this
  exact this

/-! ### Concrete sequences (locales: 0 = en, 1 = en-US, 2 = fr, 3 = fr-CA, 4 = de) -/

/-- root(fr); closure on it; scope; set(de) through the scoped view; the old closure and both views show `de`;
    a sub-context created now starts at `de`; setting it to `fr-CA` (untracked) leaves the parent at `de`; setting the
    parent to `en` leaves the child at `fr-CA`; a sub-context with an explicit initial locale ignores its parent. -/
private def demo : List Op :=
  [.newRoot 2, .makeClosure 0, .scope 0, .set 1 4, .callClosure 0, .get 0, .getUntracked 1,
   .sub (some 1) none 0, .get 2, .setUntracked 2 3, .get 0, .get 2, .set 0 0, .get 2, .callClosure 0,
   .sub (some 2) (some 1) 0, .get 3, .sub none none 0, .get 4, .scope 2, .set 5 2, .get 2, .get 1]

example : (run State.empty demo).2 =
    [.view 0, .closure 0, .view 1, .none, .locale 4, .locale 4, .locale 4,
     .view 2, .locale 4, .none, .locale 4, .locale 3, .none, .locale 3, .locale 0,
     .view 3, .locale 1, .view 4, .locale 0, .view 5, .none, .locale 2, .locale 0] := by decide

example : observations demo = (run State.empty demo).2 := by decide

/-- memos across untracked and tracked sets (the laziness, then the notification on a same-value tracked set):
    root(fr); memo on it and on a scoped view; both read fr; untracked set to de: both still read fr (by design);
    tracked set to the *same* de through the scoped view: both read de; a memo made afterwards reads de too -/
private def demoMemo : List Op :=
  [.newRoot 2, .scope 0, .makeMemo 0, .makeMemo 1, .readMemo 0, .readMemo 1, .setUntracked 0 4, .get 1,
   .readMemo 0, .readMemo 1, .set 1 4, .readMemo 0, .readMemo 1, .makeMemo 1, .readMemo 2]

example : (run State.empty demoMemo).2 =
    [.view 0, .view 1, .memo 0, .memo 1, .locale 2, .locale 2, .none, .locale 4,
     .locale 2, .locale 2, .none, .locale 4, .locale 4, .memo 2, .locale 4] := by decide

example : observations demoMemo = (run State.empty demoMemo).2 := by decide

/-- providers: root provided in owner 0 (fr); a provider with initial de → child owner 1, context 1; `use_i18n()` in
    owner 0 still finds context 0; a second sibling provider without initial starts from the parent's fr (not de);
    inside owner 1 `use_i18n()` finds context 1; a nested plain child owner of owner 2 sees context 2; setting the
    context found in the parent owner changes the parent only; a later sibling starts from the parent's new locale -/
private def demoProv : List Op :=
  [.provideRoot 2, .provider 0 (some 4) 0, .useCtx 0, .provider 0 none 0, .get 3, .useCtx 1, .childOwner 2, .useCtx 3,
   .set 2 1, .get 0, .get 1, .get 3, .provider 0 none 0, .get 6, .useCtx 0]

example : (run State.empty demoProv).2 =
    [.provided 0 0 0, .provided 1 1 1, .found 2 0, .provided 3 2 2, .locale 2, .found 4 1, .owner 3, .found 5 2,
     .none, .locale 1, .locale 4, .locale 2, .provided 6 4 3, .locale 1, .found 7 0] := by decide

example : observations demoProv = (run State.empty demoProv).2 := by decide

/-- `use_i18n()` where nothing is provided: not found -/
example : (run State.empty [.provideRoot 0, .useCtx 0, .useCtx 1]).2 = [.provided 0 0 0, .found 1 0, .bad] := by decide

/-- operations naming unknown views / closures are rejected and change nothing -/
example : (run State.empty [.get 0, .newRoot 1, .set 3 2, .callClosure 0, .scope 7, .sub (some 5) none 0, .get 0]).2 =
    [.bad, .view 0, .bad, .bad, .bad, .bad, .locale 1] := by decide

/-- the hypothesis of `C16_isolation_seq` is satisfiable by a non-trivial sequence: nothing below targets context 0 -/
example : writes (run State.empty [.newRoot 2]).1
    [.sub (some 0) none 0, .set 1 4, .scope 1, .setUntracked 2 3, .newRoot 1, .set 3 0] 0 = false := by decide

end I18nVerif.Context
