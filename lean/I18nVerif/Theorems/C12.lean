import I18nVerif.Proofs.Langid
import I18nVerif.Spec.Langid
/-!
# C12 — Locale negotiation honours the user's order of preference

Model: `I18nVerif.Model.Langid` (`leptos_i18n/src/langid.rs`).  All theorems quantify over
*every* list of requests and *every* list of supported locales (no bound on lengths, on the
number of variants, or on which subtags are present).
-/
namespace I18nVerif.Langid

/-- the chosen locale is a supported one (or the default, itself supported in the implementation) -/
theorem C12_result_supported (reqs : List LangId) (avail : List Loc) (dflt : Loc) :
    findMatch reqs avail dflt ∈ avail ∨ findMatch reqs avail dflt = dflt := by
  unfold findMatch filterMatches
  cases h : filterLoop reqs avail with
  | nil => right; rfl
  | cons l ls =>
    left
    exact mem_filterLoop (reqs := reqs) (by rw [h]; simp)

/-- every element of `find_matchs` is supported -/
theorem C12_filter_sublist (reqs : List LangId) (avail : List Loc) :
    ∀ l ∈ filterMatches reqs avail, l ∈ avail :=
  fun _ h => mem_filterLoop h

/-- with no match at all, the default locale is returned -/
theorem C12_no_match_default (reqs : List LangId) (avail : List Loc) (dflt : Loc)
    (h : ∀ r ∈ reqs, ∀ l ∈ avail, covers l r = false) : findMatch reqs avail dflt = dflt := by
  have : filterLoop reqs avail = [] := by
    induction reqs with
    | nil => simp [filterLoop]
    | cons r rs ih =>
      simp only [filterLoop]
      rw [step_nomatch (h r (by simp))]
      simp
      exact ih (fun r' hr' => h r' (by simp [hr']))
  simp [findMatch, filterMatches, this]

/--
**First request wins.**  If no supported locale matches (exactly or as a less specific form) any
of the requests in `pre`, and some supported locale matches `req`, then the locale chosen for
`pre ++ req :: post` matches `req` — whatever follows in `post` — and it is:
* the exact match if one exists,
* otherwise a most specific covering locale.
-/
theorem C12_first_request_wins (pre post : List LangId) (req : LangId) (avail : List Loc) (dflt : Loc)
    (hpre : ∀ r ∈ pre, ∀ l ∈ avail, covers l r = false)
    (hex : ∃ l ∈ avail, covers l req = true) :
    let r := findMatch (pre ++ req :: post) avail dflt
    r ∈ avail ∧ covers r req = true ∧
      (∀ l ∈ avail, covers l req = true → specificity l.lid ≤ specificity r.lid) ∧
      ((∃ l ∈ avail, exact l req = true) → exact r req = true) := by
  intro r
  -- skip the non-matching prefix
  have hskip : filterLoop (pre ++ req :: post) avail = filterLoop (req :: post) avail := by
    induction pre with
    | nil => rfl
    | cons p ps ih =>
      simp only [List.cons_append, filterLoop]
      rw [step_nomatch (hpre p (by simp))]
      simp
      exact ih (fun r' hr' => hpre r' (by simp [hr']))
  -- the matches of `req`
  obtain ⟨l0, hl0, hc0⟩ := hex
  have hne : (pass req false avail).1 ++ (pass req true (pass req false avail).2).1 ≠ [] := by
    intro hnil
    have : l0 ∈ (step req avail).1 := mem_step_fst.mpr ⟨hl0, hc0⟩
    simp only [step, mem_sortDesc, hnil] at this
    simp at this
  obtain ⟨hd, hhd, pre', post', hsplit, hlt, hle⟩ := sortDesc_head _ hne
  have hr : r = hd := by
    show findMatch (pre ++ req :: post) avail dflt = hd
    unfold findMatch filterMatches
    rw [hskip]
    simp only [filterLoop, step]
    cases hs : sortDesc ((pass req false avail).1 ++ (pass req true (pass req false avail).2).1) with
    | nil => rw [hs] at hhd; simp at hhd
    | cons z zs => rw [hs] at hhd; simp at hhd; subst hhd; simp
  have hmem : hd ∈ (step req avail).1 := by
    simp only [step, mem_sortDesc, hsplit]; simp
  have ⟨hav, hcov⟩ := mem_step_fst.mp hmem
  have hmax : ∀ l ∈ avail, covers l req = true → specificity l.lid ≤ specificity hd.lid := by
    intro l hl hc
    have : l ∈ (step req avail).1 := mem_step_fst.mpr ⟨hl, hc⟩
    simp only [step, mem_sortDesc, hsplit] at this
    simp at this
    rcases this with h | h | h
    · have := hlt l h; omega
    · subst h; omega
    · exact hle l h
  rw [hr]
  refine ⟨hav, hcov, hmax, ?_⟩
  rintro ⟨le, hle1, hle2⟩
  -- an exact match has the specificity of the request, the maximum possible; `hd` is the *first*
  -- element of maximal specificity of `exact matches ++ range matches`, so it is an exact match
  have h1 := hmax le hle1 (exact_covers hle2)
  have h2 := exact_spec_eq hle2
  have h3 := covers_spec_le hcov
  have hle_m1 : le ∈ (pass req false avail).1 := mem_pass_fst.mpr ⟨hle1, hle2⟩
  have hd_m1 : hd ∈ (pass req false avail).1 := by
    rcases List.append_eq_append_iff.mp hsplit with ⟨a', ha1, _⟩ | ⟨c', hc1, hc2⟩
    · have : le ∈ pre' := by rw [ha1]; simp [hle_m1]
      have := hlt le this; omega
    · cases c' with
      | nil =>
        have : le ∈ pre' := by rw [hc1] at hle_m1; simpa using hle_m1
        have := hlt le this; omega
      | cons c cs =>
        simp at hc2
        rw [hc1, hc2.1]; simp
  exact (mem_pass_fst.mp hd_m1).2

/-- unparseable entries are ignored: `convert_vec_str_to_langids_lossy` is a `filterMap`, so the
    result only depends on the parseable entries, in their order -/
def findLocale (parse : String → Option LangId) (accepted : List String) (avail : List Loc) (dflt : Loc) : Loc :=
  findMatch (accepted.filterMap parse) avail dflt

theorem C12_lossy_ignores_invalid (parse : String → Option LangId) (accepted : List String)
    (avail : List Loc) (dflt : Loc) :
    findLocale parse accepted avail dflt
      = findLocale parse (accepted.filter (fun s => (parse s).isSome)) avail dflt := by
  unfold findLocale
  congr 1
  induction accepted with
  | nil => rfl
  | cons a as ih =>
    cases h : parse a <;> simp [h, ih]

/-! ### The model meets the executable specification `Spec.acceptable` -/

theorem covers_eq_spec (l : Loc) (req : LangId) : covers l req = Spec.lessSpecificOrEq l.lid req := by
  obtain ⟨id, ⟨a, b, c, d⟩⟩ := l
  obtain ⟨a', b', c', d'⟩ := req
  simp [covers, Spec.lessSpecificOrEq, langIdMatches, langMatches, subtagMatches, subtagsMatch]

theorem specificity_eq_spec (l : LangId) : specificity l = Spec.nSubtags l := by
  obtain ⟨a, b, c, d⟩ := l
  cases b <;> cases c <;> simp [specificity, Spec.nSubtags]

/-- **C12, as one statement**: for every request list and every supported set, the locale chosen by
    `find_match` is acceptable in the sense of the specification. -/
theorem C12_find_match_acceptable (reqs : List LangId) (avail : List Loc) (dflt : Loc) :
    Spec.acceptable reqs avail dflt (findMatch reqs avail dflt) = true := by
  unfold Spec.acceptable
  cases hfs : Spec.firstServed reqs avail with
  | none =>
    simp only [beq_iff_eq]
    apply C12_no_match_default
    intro r hr l hl
    have := List.find?_eq_none.mp hfs r hr
    simp only [List.any_eq_true, not_exists, not_and] at this
    rw [covers_eq_spec]
    simpa using this l hl
  | some req =>
    obtain ⟨pre, post, hsplit, hpre⟩ : ∃ pre post, reqs = pre ++ req :: post ∧
        ∀ r ∈ pre, ¬ (avail.any (fun l => Spec.lessSpecificOrEq l.lid r)) = true := by
      have := List.find?_eq_some_iff_append.mp hfs
      obtain ⟨_, pre, post, h1, h2⟩ := this
      exact ⟨pre, post, h1, fun r hr => by simpa using h2 r hr⟩
    have hex : ∃ l ∈ avail, covers l req = true := by
      have := List.find?_some hfs
      simp only [List.any_eq_true] at this
      obtain ⟨l, hl, hc⟩ := this
      exact ⟨l, hl, by rw [covers_eq_spec]; exact hc⟩
    have hpre' : ∀ r ∈ pre, ∀ l ∈ avail, covers l r = false := by
      intro r hr l hl
      have := hpre r hr
      simp only [List.any_eq_true, not_exists, not_and] at this
      rw [covers_eq_spec]
      simpa using this l hl
    have ⟨h1, h2, h3, h4⟩ := C12_first_request_wins pre post req avail dflt hpre' hex
    rw [← hsplit] at h1 h2 h3 h4
    simp only [Bool.and_eq_true, List.contains_eq_mem, decide_eq_true_eq, List.all_eq_true,
      Bool.or_eq_true, Bool.not_eq_true', List.any_eq_true, beq_iff_eq, not_exists, not_and]
    refine ⟨⟨⟨h1, by rw [← covers_eq_spec]; exact h2⟩, ?_⟩, ?_⟩
    · intro l hl
      by_cases hc : Spec.lessSpecificOrEq l.lid req = true
      · right
        rw [← specificity_eq_spec, ← specificity_eq_spec]
        exact h3 l hl (by rw [covers_eq_spec]; exact hc)
      · left; simpa using hc
    · by_cases he : ∃ l ∈ avail, l.lid = req
      · right
        obtain ⟨l, hl, hlr⟩ := he
        exact (exact_iff _ _).mp (h4 ⟨l, hl, (exact_iff _ _).mpr hlr⟩)
      · left
        simp only [not_exists, not_and] at he
        rw [List.any_eq_false]
        intro l hl
        simpa using he l hl

/-! ### Non-vacuity and the regression witness (F14) -/

private def en : Loc := ⟨0, ⟨some 1, none, none, []⟩⟩
private def enUS : Loc := ⟨1, ⟨some 1, none, some 10, []⟩⟩
private def fr : Loc := ⟨2, ⟨some 2, none, none, []⟩⟩
private def reqFr : LangId := ⟨some 2, none, none, []⟩
private def reqFrFR : LangId := ⟨some 2, none, some 11, []⟩
private def reqEnUS : LangId := ⟨some 1, none, some 10, []⟩
private def reqDe : LangId := ⟨some 3, none, none, []⟩

/-- the hypotheses of `C12_first_request_wins` are met by a non-trivial instance:
    `["de", "fr-FR", "en-US"]` over `{en, en-US, fr}` -/
example : (∀ r ∈ [reqDe], ∀ l ∈ [en, enUS, fr], covers l r = false) ∧
    (∃ l ∈ [en, enUS, fr], covers l reqFrFR = true) ∧
    findMatch ([reqDe] ++ reqFrFR :: [reqEnUS]) [en, enUS, fr] en = fr := by decide

/-- F14 (fixed): with the former global sort, `["fr", "en-US"]` over `{en, en-US, fr}` chose `en-US` -/
example : (filterMatchesGlobalSort [reqFr, reqEnUS] [en, enUS, fr]).head? = some enUS := by decide
example : findMatch [reqFr, reqEnUS] [en, enUS, fr] en = fr := by decide

end I18nVerif.Langid
