import I18nVerif.Proofs.Manifest
/-!
# C19 — the textual step before TOML decoding: where the `[package.metadata.leptos-i18n]` section starts

Model: `I18nVerif.Model.Manifest` (`cfg_file.rs`: `split_at_config_section` and the blanking of the text before the
section in `ConfigFile::new`).  "The rest of Cargo.toml is ignored": the section is the first line whose first
non-blank text is the header — a mention of the header in a comment, a string or the middle of a line is not the
section — nothing of the manifest is lost or invented by the split, and every character of the section keeps its
line number in the text handed to the TOML parser (so diagnostics point into the user's file).
Every theorem holds for every manifest text (any length, any characters, any line endings).
-/
namespace I18nVerif.Manifest

/-- nothing is lost or invented: the manifest is the text before, the header, the text after -/
theorem C19_section_reassemble (m b r : List Char) (h : splitAtSection m = some (b, r)) :
    m = b ++ header ++ r := by
  obtain ⟨ls₁, l, ls₂, e, _, h2, hb, hr⟩ := findSection_some _ _ _ _ h
  obtain ⟨t, ht⟩ := (startsSection_iff l).1 h2
  have hm := lines_flatten m
  rw [e] at hm
  subst hb hr
  rw [ht]
  simp only [List.drop_left', List.nil_append, List.append_assoc]
  rw [← hm]
  simp only [List.flatten_append, List.flatten_cons]
  congr 1
  conv => lhs; rw [← takeWhile_append_trimStart l, ht]
  simp [List.append_assoc]

/-- the header found starts a line: only blanks separate it from the start of the manifest or from the end of
the line before -/
theorem C19_section_starts_line (m b r : List Char) (h : splitAtSection m = some (b, r)) :
    ∃ pre ws, b = pre ++ ws ∧ (∀ c ∈ ws, isWs c = true) ∧ (pre = [] ∨ ∃ p, pre = p ++ ['\n']) := by
  obtain ⟨ls₁, l, ls₂, e, _, _, hb, _⟩ := findSection_some _ _ _ _ h
  refine ⟨ls₁.flatten, l.takeWhile isWs, by simpa using hb, takeWhile_all isWs l, ?_⟩
  rcases lines_prefix_nl m ls₁ l ls₂ e with rfl | hp
  · exact .inl rfl
  · exact .inr hp

/-- it is the first such line -/
theorem C19_section_first (m b r : List Char) (h : splitAtSection m = some (b, r)) :
    ∃ ls₁ l ls₂, lines m = ls₁ ++ l :: ls₂ ∧ (∀ x ∈ ls₁, startsSection x = false) ∧ startsSection l = true ∧
      b = ls₁.flatten ++ l.takeWhile isWs ∧ r = (trimStart l).drop header.length ++ ls₂.flatten := by
  obtain ⟨ls₁, l, ls₂, e, h1, h2, hb, hr⟩ := findSection_some _ _ _ _ h
  exact ⟨ls₁, l, ls₂, e, h1, h2, by simpa using hb, hr⟩

/-- `ConfigNotPresent` exactly when no line starts with the header -/
theorem C19_section_absent_iff (m : List Char) :
    splitAtSection m = none ↔ ∀ l ∈ lines m, startsSection l = false :=
  findSection_none _ _

/-- a line whose first non-blank character is not `[` — a comment, a `key = "…[package.metadata.leptos-i18n]…"`
entry — is never taken for the section, whatever it mentions -/
theorem C19_mention_is_not_section (l : List Char) (c : Char) (t : List Char)
    (h : trimStart l = c :: t) (hc : c ≠ '[') : startsSection l = false := by
  cases hs : startsSection l with
  | false => rfl
  | true =>
    obtain ⟨t', ht⟩ := (startsSection_iff l).1 hs
    rw [h] at ht
    have := congrArg List.head? ht
    rw [List.head?_append, header_head] at this
    simp at this
    exact absurd this hc

/-- a blank line or an empty one is not the section -/
theorem C19_blank_is_not_section (l : List Char) (h : ∀ c ∈ l, isWs c = true) : startsSection l = false := by
  have : trimStart l = [] := dropWhile_all isWs l h
  simp only [startsSection, this, header_not_prefix_nil]

/-- the text handed to the TOML parser: one line end per line of the text before the section, then the section -/
theorem C19_whitespaced_shape (m w : List Char) (h : whitespaced m = some w) :
    ∃ b r, splitAtSection m = some (b, r) ∧ m = b ++ header ++ r ∧ w = List.replicate (countNl b) '\n' ++ r := by
  unfold whitespaced at h
  cases hs : splitAtSection m with
  | none => simp [hs] at h
  | some br =>
    obtain ⟨b, r⟩ := br
    simp only [hs, Option.map_some, Option.some.injEq] at h
    refine ⟨b, r, rfl, C19_section_reassemble m b r hs, ?_⟩
    subst h
    congr 1
    rw [List.eq_replicate_iff]
    refine ⟨filter_nl_length b, ?_⟩
    intro c hc
    simpa using (List.mem_filter.1 hc).2

/-- diagnostics point into the user's file: the `k`-th character of the section is on the same line of the text
handed to the TOML parser as in Cargo.toml -/
theorem C19_line_numbers_kept (m w : List Char) (h : whitespaced m = some w) :
    ∃ b r, splitAtSection m = some (b, r) ∧
      ∀ k, lineOf w (countNl b + k) = lineOf m (b.length + header.length + k) := by
  obtain ⟨b, r, hs, hm, hw⟩ := C19_whitespaced_shape m w h
  refine ⟨b, r, hs, ?_⟩
  intro k
  subst hm hw
  unfold lineOf
  congr 1
  have e1 : (List.replicate (countNl b) '\n' ++ r).take (countNl b + k) = List.replicate (countNl b) '\n' ++ r.take k := by
    have := take_len_add (List.replicate (countNl b) '\n') r k
    simpa using this
  have e2 : (b ++ header ++ r).take (b.length + header.length + k) = b ++ header ++ r.take k := by
    have := take_len_add (b ++ header) r k
    simpa using this
  rw [e1, e2]
  simp only [countNl_append, header_no_nl]
  simp [countNl]

/-- … and the section is absent from both or present in both -/
theorem C19_whitespaced_none_iff (m : List Char) : whitespaced m = none ↔ splitAtSection m = none := by
  simp [whitespaced]

end I18nVerif.Manifest

namespace I18nVerif.Manifest
/-- the hypotheses are met by a manifest with a mention in a comment, an indented header and a later mention -/
example : splitAtSection ("# [package.metadata.leptos-i18n]\n" ++ "  [package.metadata.leptos-i18n] \nx\n").toList =
    some ("# [package.metadata.leptos-i18n]\n  ".toList, " \nx\n".toList) := by decide
example : whitespaced ("a\nb\n[package.metadata.leptos-i18n]\nd = 1").toList = some "\n\n\nd = 1".toList := by decide
example : splitAtSection "x = \"[package.metadata.leptos-i18n]\"\n".toList = none := by decide
/-- where "the rest of Cargo.toml is ignored" ends for a textual search (finding C19-multiline-string, replayed on the
implementation by the check): a line of a multi-line string that starts with the header is taken for the section -/
theorem C19_multiline_string_witness :
    splitAtSection "d = \"\"\"\n[package.metadata.leptos-i18n]\nx\"\"\"\n[package.metadata.leptos-i18n]\ndefault = \"en\"\n".toList =
      some ("d = \"\"\"\n".toList, "\nx\"\"\"\n[package.metadata.leptos-i18n]\ndefault = \"en\"\n".toList) := by decide
end I18nVerif.Manifest
